/-
  Lemmas about the expression parser model (TwigModel/ParseExpr.lean) and the expression lexer
  (TwigModel/Scan.lean `lexExpr`), used by TwigProofs/C08.lean.  Everything lives in `Twig.PE`.

  1. fuel order `FLe`, one-step monotonicity of all fifteen mutually recursive parser functions (`monoAt`),
     `parse*_mono`: more fuel never changes a non-fuel result;
  2. tokens of the operator fragment (`opToks`, `unTok`, `lp`, `rp`), contexts (`Hd`, `NoSuffix`, `Stop`);
  3. `AtomOk` / `SimpleOk` (spelling of an operand), `Spells` (every admissible parenthesisation of prefix / binary
     operators and argument-less tests) and the core round-trip lemma `parse_spells` over the real parser, with
     explicit fuel `4·|tokens|`; `SpellsX` / `parseExpression_spellsX` (expression level: the conditional operator);
  4. atoms: integer / string / boolean / null literals, variables, parenthesised spellings;
  5. printers `prMin`/`printMin`/`printFull`, the fragment `WfE`;
  6. lexing a spelled token list back: `lexExpr_spell`; spacing that always separates (`Spaced`);
  7. global fuel adequacy: with fuel `8·|ts| + c` no parser function runs out of fuel (`adqAt`).
-/
import TwigModel.ParseExpr
namespace Twig.PE

/-! ## Fuel order: `x ⊑ y` iff `x` ran out of fuel or `x = y` -/

def FLe {α} (x y : R α) : Prop := x = .error .fuel ∨ x = y

theorem FLe.refl {α} (x : R α) : FLe x x := .inr rfl
theorem FLe.fuel {α} (y : R α) : FLe (.error .fuel) y := .inl rfl

theorem FLe.trans {α} {x y z : R α} (h1 : FLe x y) (h2 : FLe y z) : FLe x z := by
  rcases h1 with h1 | h1
  · exact .inl h1
  · subst h1; exact h2

theorem FLe.bind {α β} {x x' : R α} {k k' : α → R β} (hx : FLe x x') (hk : ∀ a, FLe (k a) (k' a)) :
    FLe (x >>= k) (x' >>= k') := by
  rcases hx with hx | hx
  · subst hx; exact .inl rfl
  · subst hx
    cases x with
    | error e => exact .inr rfl
    | ok a => exact hk a

theorem FLe.ite {α} {c : Prop} [Decidable c] {a a' b b' : R α} (h1 : c → FLe a a') (h2 : ¬c → FLe b b') :
    FLe (if c then a else b) (if c then a' else b') := by
  by_cases h : c
  · simp only [h, if_true]; exact h1 h
  · simp only [h, if_false]; exact h2 h

/-- a non-fuel result is preserved -/
theorem FLe.eq_of_ne {α} {x y : R α} (h : FLe x y) (hne : x ≠ .error .fuel) : y = x := by
  rcases h with h | h
  · exact absurd h hne
  · exact h.symm

structure MonoAt (f : Nat) : Prop where
  expr : ∀ ts, FLe (parseExpression f ts) (parseExpression (f+1) ts)
  cond : ∀ c ts, FLe (parseConditional f c ts) (parseConditional (f+1) c ts)
  bin : ∀ m ts, FLe (parseBinaryPrec f m ts) (parseBinaryPrec (f+1) m ts)
  loop : ∀ m l ts, FLe (parseLoop f m l ts) (parseLoop (f+1) m l ts)
  test : ∀ l neg name ts, FLe (parseTest f l neg name ts) (parseTest (f+1) l neg name ts)
  args : ∀ close msg ts, FLe (parseArgs f close msg ts) (parseArgs (f+1) close msg ts)
  argsLoop : ∀ close msg ts, FLe (parseArgsLoop f close msg ts) (parseArgsLoop (f+1) close msg ts)
  operand : ∀ ts, FLe (parseOperand f ts) (parseOperand (f+1) ts)
  suffix : ∀ e ts, FLe (parseSuffix f e ts) (parseSuffix (f+1) e ts)
  subs : ∀ e ts, FLe (parseSubs f e ts) (parseSubs (f+1) e ts)
  filters : ∀ e ts, FLe (parseFilters f e ts) (parseFilters (f+1) e ts)
  simple : ∀ ts, FLe (parseSimple f ts) (parseSimple (f+1) ts)
  attrs : ∀ e ts, FLe (parseAttrs f e ts) (parseAttrs (f+1) e ts)
  map : ∀ ts, FLe (parseMap f ts) (parseMap (f+1) ts)
  mapLoop : ∀ ts, FLe (parseMapLoop f ts) (parseMapLoop (f+1) ts)

theorem monoAt_zero : MonoAt 0 := by
  constructor <;> intros <;> exact .inl (by simp [parseExpression, parseConditional, parseBinaryPrec,
    parseLoop, parseTest, parseArgs, parseArgsLoop, parseOperand, parseSuffix, parseSubs, parseFilters, parseSimple,
    parseAttrs, parseMap, parseMapLoop])

/-- structural step of the monotonicity proofs: both sides have the same shape, the leaves are
    recursive calls at fuel `f` / `f+1` -/
macro "fle" ih:ident : tactic => `(tactic| repeat' first
  | exact FLe.refl _
  | exact MonoAt.expr $ih _ | exact MonoAt.cond $ih _ _ | exact MonoAt.bin $ih _ _
  | exact MonoAt.loop $ih _ _ _ | exact MonoAt.test $ih _ _ _ _ | exact MonoAt.args $ih _ _ _
  | exact MonoAt.argsLoop $ih _ _ _ | exact MonoAt.operand $ih _ | exact MonoAt.suffix $ih _ _
  | exact MonoAt.subs $ih _ _ | exact MonoAt.filters $ih _ _ | exact MonoAt.simple $ih _ | exact MonoAt.attrs $ih _ _
  | exact MonoAt.map $ih _ | exact MonoAt.mapLoop $ih _
  | refine FLe.bind ?_ (fun ⟨_, _⟩ => ?_)
  | refine FLe.ite (fun _ => ?_) (fun _ => ?_)
  | split
  | dsimp only)

theorem monoAt_succ (f : Nat) (ih : MonoAt f) : MonoAt (f+1) where
  expr ts := by unfold parseExpression; fle ih
  cond c ts := by unfold parseConditional; fle ih
  bin m ts := by unfold parseBinaryPrec; fle ih
  loop m l ts := by unfold parseLoop; fle ih
  test l neg name ts := by unfold parseTest; fle ih
  args close msg ts := by unfold parseArgs; fle ih
  argsLoop close msg ts := by unfold parseArgsLoop; fle ih
  operand ts := by unfold parseOperand; fle ih
  suffix e ts := by unfold parseSuffix; fle ih
  subs e ts := by unfold parseSubs; fle ih
  filters e ts := by unfold parseFilters; fle ih
  simple ts := by unfold parseSimple; fle ih
  attrs e ts := by unfold parseAttrs; fle ih
  map ts := by unfold parseMap; fle ih
  mapLoop ts := by unfold parseMapLoop; fle ih

theorem monoAt : ∀ f, MonoAt f
  | 0 => monoAt_zero
  | f+1 => monoAt_succ f (monoAt f)

/-- chain of one-step facts -/
theorem FLe.chain {α} (g : Nat → R α) (h : ∀ f, FLe (g f) (g (f+1))) : ∀ {f f'}, f ≤ f' → FLe (g f) (g f') := by
  intro f f' hle
  induction hle with
  | refl => exact FLe.refl _
  | step _ ih => exact ih.trans (h _)

/-- more fuel never changes a non-fuel result (`r` may be a value or a genuine parse error) -/
theorem fuel_mono {α} (g : Nat → R α) (h : ∀ f, FLe (g f) (g (f+1))) {f f' : Nat} {r : R α}
    (hr : g f = r) (hne : r ≠ .error .fuel) (hle : f ≤ f') : g f' = r := by
  subst hr; exact (FLe.chain g h hle).eq_of_ne hne

theorem parseExpression_mono {f f' ts r} (h : parseExpression f ts = r) (hne : r ≠ .error .fuel) (hle : f ≤ f') :
    parseExpression f' ts = r := fuel_mono (parseExpression · ts) (fun f => (monoAt f).expr ts) h hne hle
theorem parseConditional_mono {f f' c ts r} (h : parseConditional f c ts = r) (hne : r ≠ .error .fuel) (hle : f ≤ f') :
    parseConditional f' c ts = r := fuel_mono (parseConditional · c ts) (fun f => (monoAt f).cond c ts) h hne hle
theorem parseBinaryPrec_mono {f f' m ts r} (h : parseBinaryPrec f m ts = r) (hne : r ≠ .error .fuel) (hle : f ≤ f') :
    parseBinaryPrec f' m ts = r := fuel_mono (parseBinaryPrec · m ts) (fun f => (monoAt f).bin m ts) h hne hle
theorem parseLoop_mono {f f' m l ts r} (h : parseLoop f m l ts = r) (hne : r ≠ .error .fuel) (hle : f ≤ f') :
    parseLoop f' m l ts = r := fuel_mono (parseLoop · m l ts) (fun f => (monoAt f).loop m l ts) h hne hle
theorem parseTest_mono {f f' l neg name ts r} (h : parseTest f l neg name ts = r) (hne : r ≠ .error .fuel) (hle : f ≤ f') :
    parseTest f' l neg name ts = r := fuel_mono (parseTest · l neg name ts) (fun f => (monoAt f).test l neg name ts) h hne hle
theorem parseArgs_mono {f f' close msg ts r} (h : parseArgs f close msg ts = r) (hne : r ≠ .error .fuel) (hle : f ≤ f') :
    parseArgs f' close msg ts = r := fuel_mono (parseArgs · close msg ts) (fun f => (monoAt f).args close msg ts) h hne hle
theorem parseArgsLoop_mono {f f' close msg ts r} (h : parseArgsLoop f close msg ts = r) (hne : r ≠ .error .fuel) (hle : f ≤ f') :
    parseArgsLoop f' close msg ts = r := fuel_mono (parseArgsLoop · close msg ts) (fun f => (monoAt f).argsLoop close msg ts) h hne hle
theorem parseOperand_mono {f f' ts r} (h : parseOperand f ts = r) (hne : r ≠ .error .fuel) (hle : f ≤ f') :
    parseOperand f' ts = r := fuel_mono (parseOperand · ts) (fun f => (monoAt f).operand ts) h hne hle
theorem parseSuffix_mono {f f' e ts r} (h : parseSuffix f e ts = r) (hne : r ≠ .error .fuel) (hle : f ≤ f') :
    parseSuffix f' e ts = r := fuel_mono (parseSuffix · e ts) (fun f => (monoAt f).suffix e ts) h hne hle
theorem parseSubs_mono {f f' e ts r} (h : parseSubs f e ts = r) (hne : r ≠ .error .fuel) (hle : f ≤ f') :
    parseSubs f' e ts = r := fuel_mono (parseSubs · e ts) (fun f => (monoAt f).subs e ts) h hne hle
theorem parseFilters_mono {f f' e ts r} (h : parseFilters f e ts = r) (hne : r ≠ .error .fuel) (hle : f ≤ f') :
    parseFilters f' e ts = r := fuel_mono (parseFilters · e ts) (fun f => (monoAt f).filters e ts) h hne hle
theorem parseSimple_mono {f f' ts r} (h : parseSimple f ts = r) (hne : r ≠ .error .fuel) (hle : f ≤ f') :
    parseSimple f' ts = r := fuel_mono (parseSimple · ts) (fun f => (monoAt f).simple ts) h hne hle
theorem parseAttrs_mono {f f' e ts r} (h : parseAttrs f e ts = r) (hne : r ≠ .error .fuel) (hle : f ≤ f') :
    parseAttrs f' e ts = r := fuel_mono (parseAttrs · e ts) (fun f => (monoAt f).attrs e ts) h hne hle
theorem parseMap_mono {f f' ts r} (h : parseMap f ts = r) (hne : r ≠ .error .fuel) (hle : f ≤ f') :
    parseMap f' ts = r := fuel_mono (parseMap · ts) (fun f => (monoAt f).map ts) h hne hle
theorem parseMapLoop_mono {f f' ts r} (h : parseMapLoop f ts = r) (hne : r ≠ .error .fuel) (hle : f ≤ f') :
    parseMapLoop f' ts = r := fuel_mono (parseMapLoop · ts) (fun f => (monoAt f).mapLoop ts) h hne hle

theorem ok_ne_fuel {α} {a : α} : (Except.ok a : R α) ≠ .error .fuel := by intro h; cases h

/-! ## byte spellings of the keywords (so that `simp` can compare them as numeral lists) -/

theorem b_or : b "or" = [111, 114] := by decide +kernel
theorem b_and : b "and" = [97, 110, 100] := by decide +kernel
theorem b_in : b "in" = [105, 110] := by decide +kernel
theorem b_not : b "not" = [110, 111, 116] := by decide +kernel
theorem b_is : b "is" = [105, 115] := by decide +kernel
theorem b_matches : b "matches" = [109, 97, 116, 99, 104, 101, 115] := by decide +kernel
theorem b_starts : b "starts" = [115, 116, 97, 114, 116, 115] := by decide +kernel
theorem b_ends : b "ends" = [101, 110, 100, 115] := by decide +kernel
theorem b_with : b "with" = [119, 105, 116, 104] := by decide +kernel
theorem b_defined : b "defined" = [100, 101, 102, 105, 110, 101, 100] := by decide +kernel
theorem b_true : b "true" = [116, 114, 117, 101] := by decide +kernel
theorem b_false : b "false" = [102, 97, 108, 115, 101] := by decide +kernel
theorem b_null : b "null" = [110, 117, 108, 108] := by decide +kernel
theorem b_nil : b "nil" = [110, 105, 108] := by decide +kernel
theorem b_eq : b "==" = [61, 61] := by decide +kernel
theorem b_ne : b "!=" = [33, 61] := by decide +kernel
theorem b_lt : b "<" = [60] := by decide +kernel
theorem b_gt : b ">" = [62] := by decide +kernel
theorem b_le : b "<=" = [60, 61] := by decide +kernel
theorem b_ge : b ">=" = [62, 61] := by decide +kernel
theorem b_plus : b "+" = [43] := by decide +kernel
theorem b_minus : b "-" = [45] := by decide +kernel
theorem b_tilde : b "~" = [126] := by decide +kernel
theorem b_star : b "*" = [42] := by decide +kernel
theorem b_slash : b "/" = [47] := by decide +kernel
theorem b_percent : b "%" = [37] := by decide +kernel
theorem b_caret : b "^" = [94] := by decide +kernel
theorem b_ampamp : b "&&" = [38, 38] := by decide +kernel

attribute [local simp] b_or b_and b_in b_not b_is b_matches b_starts b_ends b_with b_defined b_true b_false
  b_null b_nil b_eq b_ne b_lt b_gt b_le b_ge b_plus b_minus b_tilde b_star b_slash b_percent b_caret b_ampamp

/-! ## Tokens of the binary-operator fragment -/

def lp : Token := tk PUNCT [40]
def rp : Token := tk PUNCT [41]

/-- token spelling of a binary operator (`BinOp.text` split at the space) -/
def opToks : BinOp → List Token
  | .or => [tk NAME (b "or")] | .and => [tk NAME (b "and")]
  | .eq => [tk OPERATOR (b "==")] | .ne => [tk OPERATOR (b "!=")]
  | .lt => [tk OPERATOR (b "<")] | .gt => [tk OPERATOR (b ">")]
  | .le => [tk OPERATOR (b "<=")] | .ge => [tk OPERATOR (b ">=")]
  | .in_ => [tk NAME (b "in")] | .notIn => [tk NAME (b "not"), tk NAME (b "in")]
  | .matches_ => [tk NAME (b "matches")]
  | .startsWith => [tk NAME (b "starts"), tk NAME (b "with")]
  | .endsWith => [tk NAME (b "ends"), tk NAME (b "with")]
  | .add => [tk OPERATOR (b "+")] | .sub => [tk OPERATOR (b "-")] | .concat => [tk OPERATOR (b "~")]
  | .mul => [tk OPERATOR (b "*")] | .div => [tk OPERATOR (b "/")] | .mod => [tk OPERATOR (b "%")]
  | .pow => [tk OPERATOR (b "^")]

def joinSp : List Bytes → Bytes
  | [] => []
  | [x] => x
  | x :: r => x ++ 32 :: joinSp r

/-- `opToks` is the source spelling `BinOp.text`, one token per word -/
theorem opToks_text (o : BinOp) : joinSp ((opToks o).map (·.val)) = b o.text := by
  cases o <;> decide +kernel

theorem opToks_length_pos (o : BinOp) : 1 ≤ (opToks o).length := by cases o <;> simp [opToks]

theorem prec_pos (o : BinOp) : 1 ≤ o.prec := by cases o <;> simp [BinOp.prec]

theorem peekBinary_opToks (o : BinOp) (X : List Token) :
    peekBinary (opToks o ++ X) = .op o (opToks o).length := by
  cases o <;> simp [opToks, peekBinary, opOfSymbol, tk, NAME, OPERATOR]

theorem drop_opToks (o : BinOp) (X : List Token) : (opToks o ++ X).drop (opToks o).length = X := by
  simp


/-! ## Contexts -/

/-- the tokens after a printed expression do not continue it at level `p`: they start with no binary
    operator, or with one of precedence ≤ `p` (`is` counts with the comparison precedence; the postfix
    `not defined` continues every operand) -/
def Hd (p : Nat) (rest : List Token) : Prop :=
  match peekBinary rest with
  | .none => True
  | .op o _ => o.prec ≤ p
  | .isT _ _ => precCompare ≤ p
  | .notDefined => False

instance (p : Nat) (rest : List Token) : Decidable (Hd p rest) := by
  unfold Hd; split <;> infer_instance

theorem Hd.mono {p q : Nat} {rest : List Token} (h : Hd p rest) (hpq : p ≤ q) : Hd q rest := by
  unfold Hd at *; split <;> simp_all <;> omega

theorem Hd_opToks (o : BinOp) (X : List Token) : Hd o.prec (opToks o ++ X) := by
  simp [Hd, peekBinary_opToks]

/-- the loop of `parseBinaryPrec` stops at once when the context does not continue at level `m` -/
theorem parseLoop_stop {p m : Nat} {rest : List Token} (h : Hd p rest) (hpm : p < m) (f : Nat) (e : Expr) :
    parseLoop (f+1) m e rest = .ok (e, rest) := by
  unfold Hd at h
  rw [parseLoop]
  split <;> simp_all [pure, Except.pure]
  all_goals omega

/-- the next token does not extend an operand: not `[`, `|`, `.`, `(` -/
def NoSuffix : List Token → Bool
  | [] => true
  | t :: _ => !(isP t 91 || isP t 124 || isP t 46 || isP t 40)

theorem noSuffix_opToks (o : BinOp) (X : List Token) : NoSuffix (opToks o ++ X) = true := by
  cases o <;> simp [opToks, NoSuffix, isP, tk, NAME, OPERATOR, PUNCT]

theorem noSuffix_rp (X : List Token) : NoSuffix (rp :: X) = true := by
  simp [NoSuffix, isP, rp, tk]

theorem parseSuffix_none {rest : List Token} (h : NoSuffix rest = true) (f : Nat) (e : Expr) :
    parseSuffix (f+1) e rest = .ok (e, rest) := by
  rw [parseSuffix.eq_def]
  cases rest with
  | nil => rfl
  | cons t r => simp_all [NoSuffix, pure, Except.pure]

/-- no `[` follows: the subscript loop behind the operand of a prefix operator stops at once -/
theorem parseSubs_none {rest : List Token} (h : NoSuffix rest = true) (f : Nat) (e : Expr) :
    parseSubs (f+1) e rest = .ok (e, rest) := by
  rw [parseSubs.eq_def]
  cases rest with
  | nil => rfl
  | cons t r => simp_all [NoSuffix, pure, Except.pure]

/-- `ta` is a spelling of the operand `a` (operand level): `parseOperand` reads it back in every context that
    does not extend an operand, with fuel `4·|ta| - 1` -/
def AtomOk (a : Expr) (ta : List Token) : Prop :=
  1 ≤ ta.length ∧
  ∀ rest, NoSuffix rest = true → ∀ f, 4 * ta.length ≤ f + 1 → parseOperand f (ta ++ rest) = .ok (a, rest)

/-- `ta` is a spelling of `a` at the level of `parseSimpleExpression` (what a prefix operator applies to) -/
def SimpleOk (a : Expr) (ta : List Token) : Prop :=
  1 ≤ ta.length ∧
  ∀ rest, NoSuffix rest = true → ∀ f, 4 * ta.length ≤ f + 2 → parseSimple f (ta ++ rest) = .ok (a, rest)

theorem SimpleOk.atomOk {a : Expr} {ta : List Token} (h : SimpleOk a ta) : AtomOk a ta := by
  refine ⟨h.1, fun rest hns f hf => ?_⟩
  have := h.1
  obtain ⟨g, rfl⟩ : ∃ g, f = g + 2 := ⟨f - 2, by omega⟩
  rw [parseOperand, h.2 rest hns (g+1) (by omega)]
  exact parseSuffix_none hns _ _

/-- token of a prefix operator -/
def unTok : UnOp → Token
  | .not => tk NAME (b "not")
  | .neg => tk OPERATOR (b "-")
  | .pos => tk OPERATOR (b "+")

/-- tokens of `is` / `is not` -/
def isToks (neg : Bool) : List Token := if neg then [tk NAME (b "is"), tk NAME (b "not")] else [tk NAME (b "is")]

/-- result of `parseTest` without arguments -/
def testExpr (neg : Bool) (l : Expr) (name : Bytes) : Expr :=
  if neg then .unary .not (.test l name []) else .test l name []

theorem peekBinary_isToks (neg : Bool) (name : Bytes) (X : List Token) (h : neg = false → name ≠ b "not") :
    peekBinary (isToks neg ++ tk NAME name :: X) = .isT neg (isToks neg).length := by
  cases neg
  · have : (name == b "not") = false := by simpa using h rfl
    simp only [b_not] at this
    simp [isToks, peekBinary, tk, NAME, OPERATOR, this]
  · simp [isToks, peekBinary, tk, NAME, OPERATOR]

/-- `PREC_PREFIX`: the level of a position that admits no binary operator -/
def lvlOperand : Nat := 7
/-- the level of the operand of a prefix operator (`parseSimpleExpression`) -/
def lvlSimple : Nat := 8

/-- Every admissible spelling of a tree of prefix and binary operators over atoms, at level `p`
    (`1 … 6` = operator precedences, `7` = operand of `^`, `8` = operand of a prefix operator):
    an operator node may stand unparenthesised where its precedence is at least `p`; anything may be
    wrapped in parentheses, any number of times. -/
inductive Spells : Nat → Expr → List Token → Prop
  | atom {p a ta} : AtomOk a ta → p ≤ lvlOperand → Spells p a ta
  | simple {p a ta} : SimpleOk a ta → Spells p a ta
  | unary {p u a ta} : Spells lvlSimple a ta → Spells p (.unary u a) (unTok u :: ta)
  | bin {p o l r tl tr} : p ≤ o.prec → Spells o.prec l tl → Spells (o.prec + 1) r tr →
      Spells p (.binary o l r) (tl ++ opToks o ++ tr)
  | paren {p e ts} : Spells 1 e ts → Spells p e (lp :: ts ++ [rp])
  /-- `l is name` / `l is not name` (a test without arguments; comparison precedence, groups from the left) -/
  | test {p l tl neg name} : p ≤ precCompare → (neg = false → name ≠ b "not") → Spells precCompare l tl →
      Spells p (testExpr neg l name) (tl ++ (isToks neg ++ [tk NAME name]))

theorem Spells.length_pos {p e ts} (h : Spells p e ts) : 1 ≤ ts.length := by
  induction h with
  | atom ha _ => exact ha.1
  | simple ha => exact ha.1
  | unary _ _ => simp
  | bin _ _ _ ih _ => simp only [List.length_append]; omega
  | paren _ _ => simp
  | test _ _ _ ih => simp only [List.length_append]; omega

theorem prec_le_six (o : BinOp) : o.prec ≤ 6 := by cases o <;> simp [BinOp.prec]

theorem parseBinaryPrec_succ (f m : Nat) (ts : List Token) :
    parseBinaryPrec (f+1) m ts = (parseOperand f ts >>= fun x => parseLoop f m x.1 x.2) := by
  rw [parseBinaryPrec]

/-- a parenthesised expression is read by `parseSimpleExpression` -/
theorem parseSimple_paren {e : Expr} {ts rest : List Token} {k : Nat}
    (h : ∀ f, k ≤ f → parseBinaryPrec f 1 (ts ++ rp :: rest) = .ok (e, rp :: rest)) :
    ∀ f, k + 2 ≤ f → parseSimple f (lp :: ts ++ rp :: rest) = .ok (e, rest) := by
  intro f hf
  obtain ⟨g, rfl⟩ : ∃ g, f = g + 2 := ⟨f - 2, by omega⟩
  have h1 : parseExpression (g+1) (ts ++ rp :: rest) = .ok (e, rp :: rest) := by
    rw [parseExpression, h g (by omega)]
    simp [bind, Except.bind, isP, rp, tk, pure, Except.pure]
  rw [parseSimple.eq_def]
  simp [lp, tk, isName, isP, PUNCT, NAME, OPERATOR, STRING, NUMBER]
  rw [h1]
  simp [bind, Except.bind, rp, tk, pure, Except.pure]

/-- a prefix operator applies to what `parseSimpleExpression` reads next, with the `[index]` suffixes behind it -/
theorem parseSimple_unary (u : UnOp) (f : Nat) (ts : List Token) :
    parseSimple (f+1) (unTok u :: ts) =
      (parseSimple f ts >>= fun x => parseSubs f x.1 x.2 >>= fun y => pure (.unary u y.1, y.2)) := by
  rw [parseSimple.eq_def]
  cases u <;> simp [unTok, tk, isName, NAME, OPERATOR] <;> rfl

/-- from the `parseSimple` level to the loop state of `parseBinaryPrec` -/
theorem loop_of_simple {e : Expr} {ts : List Token} (hlen : 1 ≤ ts.length)
    (hS : ∀ rest, NoSuffix rest = true → ∀ f, 4 * ts.length ≤ f + 2 → parseSimple f (ts ++ rest) = .ok (e, rest))
    (m : Nat) (rest : List Token) (f : Nat) (r : R (Expr × List Token))
    (hns : NoSuffix rest = true) (hl : parseLoop f m e rest = r) (hr : r ≠ .error .fuel) :
    ∀ f', f + 4 * ts.length ≤ f' → parseBinaryPrec f' m (ts ++ rest) = r := by
  intro f' hf'
  obtain ⟨g, rfl⟩ : ∃ g, f' = g + 3 := ⟨f' - 3, by omega⟩
  rw [parseBinaryPrec_succ, parseOperand, hS rest hns (g+1) (by omega)]
  simp only [bind, Except.bind]
  rw [parseSuffix_none hns]
  exact parseLoop_mono hl hr (by omega)

/-- Core lemma (the `parse_pr` of the prototype, over the real parser): parsing a spelling of `e` at any
    level `m ≤ p` brings the parser into the loop state with `left = e`; a spelling at the prefix-operand
    level is read by `parseSimpleExpression`. -/
theorem parse_spells {p : Nat} {e : Expr} {ts : List Token} (h : Spells p e ts) :
    (∀ (m : Nat) (rest : List Token) (f : Nat) (r : R (Expr × List Token)),
      m ≤ p → Hd p rest → NoSuffix rest = true → parseLoop f m e rest = r → r ≠ .error .fuel →
      ∀ f', f + 4 * ts.length ≤ f' → parseBinaryPrec f' m (ts ++ rest) = r) ∧
    (p = lvlSimple → ∀ rest, NoSuffix rest = true → ∀ f, 4 * ts.length ≤ f + 2 →
      parseSimple f (ts ++ rest) = .ok (e, rest)) := by
  induction h with
  | @atom p a ta ha hp =>
    refine ⟨?_, fun h => by simp [lvlSimple, lvlOperand] at *; omega⟩
    intro m rest f r hmp hd hns hl hr f' hf'
    have := ha.1
    obtain ⟨g, rfl⟩ : ∃ g, f' = g + 1 := ⟨f' - 1, by omega⟩
    rw [parseBinaryPrec_succ, ha.2 rest hns g (by omega)]
    exact parseLoop_mono hl hr (by omega)
  | @simple p a ta ha =>
    exact ⟨fun m rest f r _ _ hns hl hr => loop_of_simple ha.1 ha.2 m rest f r hns hl hr, fun _ => ha.2⟩
  | @unary p u a ta hs ih =>
    have hlen := hs.length_pos
    have hS : ∀ rest, NoSuffix rest = true → ∀ f, 4 * (unTok u :: ta).length ≤ f + 2 →
        parseSimple f ((unTok u :: ta) ++ rest) = .ok (.unary u a, rest) := by
      intro rest hns f hf
      simp only [List.length_cons] at hf
      obtain ⟨g, rfl⟩ : ∃ g, f = g + 2 := ⟨f - 2, by omega⟩
      rw [List.cons_append, parseSimple_unary, ih.2 rfl rest hns (g+1) (by omega)]
      simp only [bind, Except.bind]
      rw [parseSubs_none hns]
      rfl
    exact ⟨fun m rest f r _ _ hns hl hr => loop_of_simple (by simp) hS m rest f r hns hl hr, fun _ => hS⟩
  | @bin p o l r' tl tr hpo hl hr ihl ihr =>
    refine ⟨?_, fun h => by have := prec_le_six o; simp [lvlSimple] at h; omega⟩
    intro m rest f r hmp hd hns hloop hne f' hf'
    have := hr.length_pos
    have hd' : Hd o.prec rest := hd.mono hpo
    -- right operand: parsed at level prec o + 1, its loop stops at `rest`
    have hR := ihr.1 (o.prec + 1) rest 1 _ (Nat.le_refl _) (hd'.mono (by omega)) hns
      (parseLoop_stop hd' (by omega) 0 r') ok_ne_fuel
    -- loop state after `l`: consume the operator, parse `r'`, continue with `binary o l r'`
    have hL : parseLoop (f + 4 * tr.length + 2) m l (opToks o ++ (tr ++ rest)) = r := by
      rw [show f + 4 * tr.length + 2 = (f + 4 * tr.length + 1) + 1 from rfl, parseLoop, peekBinary_opToks]
      have : ¬ o.prec < m := by omega
      simp only [this, if_false, drop_opToks]
      rw [hR _ (by omega)]
      exact parseLoop_mono hloop hne (by omega)
    have := ihl.1 m (opToks o ++ (tr ++ rest)) _ r (by omega) (Hd_opToks o _) (noSuffix_opToks o _) hL hne f'
      (by have := opToks_length_pos o; simp only [List.length_append] at hf'; omega)
    simpa [List.append_assoc] using this
  | @paren p e ts hs ih =>
    have hlen := hs.length_pos
    have hS : ∀ rest, NoSuffix rest = true → ∀ f, 4 * (lp :: ts ++ [rp]).length ≤ f + 2 →
        parseSimple f ((lp :: ts ++ [rp]) ++ rest) = .ok (e, rest) := by
      intro rest hns f hf
      simp only [List.length_cons, List.length_append, List.length_nil] at hf
      have hin := ih.1 1 (rp :: rest) 1 _ (Nat.le_refl _) (by simp [Hd, peekBinary, rp, tk, NAME, OPERATOR, PUNCT])
        (noSuffix_rp rest) (parseLoop_stop (p := 0) (by simp [Hd, peekBinary, rp, tk, NAME, OPERATOR, PUNCT])
          (by omega) 0 e) ok_ne_fuel
      have := parseSimple_paren (k := 1 + 4 * ts.length) hin f (by omega)
      simpa using this
    exact ⟨fun m rest f r _ _ hns hl hr => loop_of_simple (by simp) hS m rest f r hns hl hr, fun _ => hS⟩
  | @test p l tl neg name hp hname hl ihl =>
    refine ⟨?_, fun h => by simp [lvlSimple, precCompare] at *; omega⟩
    intro m rest f r hmp hd hns hloop hne f' hf'
    have hw : 1 ≤ (isToks neg).length := by cases neg <;> simp [isToks]
    -- loop state after `l`: consume `is [not] name`, continue with the test expression
    have hL : parseLoop (f + 2) m l ((isToks neg ++ [tk NAME name]) ++ rest) = r := by
      rw [List.append_assoc, List.singleton_append, parseLoop, peekBinary_isToks neg name rest hname]
      have : ¬ precCompare < m := by omega
      simp only [this, if_false, List.drop_left']
      simp only [tk, NAME, beq_self_eq_true, if_true]
      have ht : parseTest (f+1) l neg name rest = .ok (testExpr neg l name, rest) := by
        rw [parseTest.eq_def]
        cases rest with
        | nil => cases neg <;> simp [testExpr, pure, Except.pure, bind, Except.bind]
        | cons t0 r0 =>
          have : isP t0 40 = false := by
            simp only [NoSuffix, Bool.not_eq_true', Bool.or_eq_false_iff] at hns; exact hns.2
          cases neg <;> simp [testExpr, this, pure, Except.pure, bind, Except.bind]
      rw [ht]
      simp only [bind, Except.bind]
      exact parseLoop_mono hloop hne (by omega)
    have hd1 : Hd precCompare ((isToks neg ++ [tk NAME name]) ++ rest) := by
      rw [List.append_assoc, List.singleton_append]
      simp [Hd, peekBinary_isToks neg name rest hname]
    have hns1 : NoSuffix ((isToks neg ++ [tk NAME name]) ++ rest) = true := by
      cases neg <;> simp [isToks, NoSuffix, isP, tk, NAME, PUNCT]
    have := ihl.1 m _ _ r (by omega) hd1 hns1 hL hne f'
      (by simp only [List.length_append, List.length_cons, List.length_nil] at hf'; omega)
    simpa [List.append_assoc] using this

/-! ## Top level -/

/-- the context ends the expression: end of input, a closing tag token, or closing / separating punctuation -/
def Stop : List Token → Bool
  | [] => true
  | t :: _ => t.kind == VAR_END || t.kind == BLOCK_END || t.kind == EOF ||
      (t.kind == PUNCT && (t.val == [41] || t.val == [93] || t.val == [44] || t.val == [58] || t.val == [125]))

theorem stop_peek {rest : List Token} (h : Stop rest = true) : peekBinary rest = .none := by
  cases rest with
  | nil => rfl
  | cons t r =>
    have : t.kind ≠ OPERATOR ∧ t.kind ≠ NAME := by
      simp [Stop, VAR_END, BLOCK_END, EOF, PUNCT] at h
      simp [OPERATOR, NAME]; omega
    simp [peekBinary, this.1, this.2]

theorem stop_hd {rest : List Token} (h : Stop rest = true) (p : Nat) : Hd p rest := by
  simp [Hd, stop_peek h]

theorem stop_isP {t : Token} {r : List Token} {c : UInt8} (h : Stop (t :: r) = true)
    (hc : c ≠ 41 ∧ c ≠ 93 ∧ c ≠ 44 ∧ c ≠ 58 ∧ c ≠ 125) : isP t c = false := by
  rcases t with ⟨k, v⟩
  simp only [Stop, VAR_END, BLOCK_END, EOF, PUNCT, isP] at h ⊢
  by_cases hk : k = 11
  · subst hk
    by_cases hv : v = [c]
    · subst hv; simp at h; rcases h with (((h | h) | h) | h) | h <;> simp_all
    · simp [hv]
  · simp [hk]

theorem stop_noSuffix {rest : List Token} (h : Stop rest = true) : NoSuffix rest = true := by
  cases rest with
  | nil => rfl
  | cons t r =>
    simp [NoSuffix, stop_isP h]

theorem parseExpression_spells {e : Expr} {ts rest : List Token} (h : Spells 1 e ts) (hs : Stop rest = true) :
    ∀ f, 4 * ts.length + 2 ≤ f → parseExpression f (ts ++ rest) = .ok (e, rest) := by
  intro f hf
  obtain ⟨g, rfl⟩ : ∃ g, f = g + 1 := ⟨f - 1, by omega⟩
  have := (parse_spells h).1 1 rest 1 _ (Nat.le_refl _) (stop_hd hs 1) (stop_noSuffix hs)
    (parseLoop_stop (stop_hd hs 0) (Nat.zero_lt_one) 0 e) ok_ne_fuel g (by omega)
  rw [parseExpression, this]
  cases rest with
  | nil => rfl
  | cons t r => simp [bind, Except.bind, stop_isP hs, pure, Except.pure]

theorem exprFuel_ge (ts rest : List Token) : 4 * ts.length + 2 ≤ exprFuel (ts ++ rest) := by
  simp [exprFuel]; omega

/-! ## Atoms -/

theorem simpleOk_single {a : Expr} {t : Token}
    (h : ∀ rest, NoSuffix rest = true → ∀ f, 2 ≤ f → parseSimple f (t :: rest) = .ok (a, rest)) :
    SimpleOk a [t] := by
  refine ⟨by simp, fun rest hns f hf => ?_⟩
  simp only [List.length_cons, List.length_nil] at hf
  exact h rest hns f (by omega)

theorem numLit_digits {ds : Bytes} (hd : ds.all isDigit = true) (hle : (digitsToNat ds : Int) ≤ maxExact) :
    numLit ds = .int (digitsToNat ds) := by
  have hd' : ∀ a ∈ ds, isDigit a = true := by simpa using hd
  have h1 : ds.takeWhile isDigit = ds := by
    have := List.takeWhile_append_of_pos (l₂ := []) hd'; simpa using this
  have h2 : ds.dropWhile isDigit = [] := by
    have := List.dropWhile_append_of_pos (l₂ := []) hd'; simpa using this
  simp only [numLit, h1, h2]
  rw [if_neg (by omega)]

/-- a NUMBER token of decimal digits spells the integer it denotes (up to 2^53) -/
theorem simpleOk_int {ds : Bytes} (hd : ds.all isDigit = true) (hle : (digitsToNat ds : Int) ≤ maxExact) :
    SimpleOk (.int (digitsToNat ds)) [tk NUMBER ds] := by
  apply simpleOk_single
  intro rest _ f hf
  obtain ⟨g, rfl⟩ : ∃ g, f = g + 1 := ⟨f - 1, by omega⟩
  rw [parseSimple.eq_def]
  simp [tk, isName, NAME, NUMBER, OPERATOR, STRING, numLit_digits hd hle, pure, Except.pure]

theorem unescapeStr_id : ∀ (s : Bytes), (∀ c ∈ s, c ≠ 92) → unescapeStr s = s
  | [], _ => by simp [unescapeStr]
  | c :: r, h => by
    have hc : c ≠ 92 := h c (by simp)
    have ih := unescapeStr_id r (fun x hx => h x (by simp [hx]))
    rw [unescapeStr.eq_def]
    split
    · rename_i heq; simp at heq; exact absurd heq.1 hc
    · rename_i heq; simp at heq; rw [← heq.1, ← heq.2, ih]
    · rename_i heq; simp at heq

/-- a STRING token without backslashes spells its content -/
theorem simpleOk_str {s : Bytes} (hs : ∀ c ∈ s, c ≠ 92) : SimpleOk (.str s) [tk STRING s] := by
  apply simpleOk_single
  intro rest _ f hf
  obtain ⟨g, rfl⟩ : ∃ g, f = g + 1 := ⟨f - 1, by omega⟩
  rw [parseSimple.eq_def]
  simp [tk, isName, NAME, OPERATOR, STRING, unescapeStr_id s hs, pure, Except.pure]

theorem simpleOk_bool (v : Bool) : SimpleOk (.bool v) [tk NAME (if v then b "true" else b "false")] := by
  apply simpleOk_single
  intro rest _ f hf
  obtain ⟨g, rfl⟩ : ∃ g, f = g + 1 := ⟨f - 1, by omega⟩
  rw [parseSimple.eq_def]
  cases v <;> simp [tk, isName, NAME, OPERATOR, STRING, NUMBER, pure, Except.pure]

theorem simpleOk_null : SimpleOk .null [tk NAME (b "null")] := by
  apply simpleOk_single
  intro rest _ f hf
  obtain ⟨g, rfl⟩ : ∃ g, f = g + 1 := ⟨f - 1, by omega⟩
  rw [parseSimple.eq_def]
  simp [tk, isName, NAME, OPERATOR, STRING, NUMBER, pure, Except.pure]

theorem simpleOk_nil : SimpleOk .null [tk NAME (b "nil")] := by
  apply simpleOk_single
  intro rest _ f hf
  obtain ⟨g, rfl⟩ : ∃ g, f = g + 1 := ⟨f - 1, by omega⟩
  rw [parseSimple.eq_def]
  simp [tk, isName, NAME, OPERATOR, STRING, NUMBER, pure, Except.pure]

/-- names that `parseSimpleExpression` does not read as a variable: the prefix operator and the literals -/
def reservedNames : List Bytes := [b "not", b "true", b "false", b "null", b "nil"]

/-- a NAME token that is not reserved spells a variable (all the other operator words — `and`, `or`, `in`,
    `is`, `matches`, `starts`, `ends`, `with`, `defined` — are read as variables in operand position) -/
theorem simpleOk_var {n : Bytes} (hn : n ∉ reservedNames) : SimpleOk (.var n) [tk NAME n] := by
  apply simpleOk_single
  intro rest hns f hf
  obtain ⟨g, rfl⟩ : ∃ g, f = g + 2 := ⟨f - 2, by omega⟩
  simp [reservedNames] at hn
  rw [parseSimple.eq_def]
  cases rest with
  | nil => simp [tk, isName, NAME, OPERATOR, STRING, NUMBER, hn, pure, Except.pure]
  | cons p r =>
    simp only [NoSuffix, Bool.not_eq_true', Bool.or_eq_false_iff] at hns
    simp [tk, isName, NAME, OPERATOR, STRING, NUMBER, hn, hns]
    rw [parseAttrs.eq_def]
    simp [hns, pure, Except.pure]

/-- a parenthesised spelling is an atom (at the `parseSimpleExpression` level, hence at the operand level) -/
theorem simpleOk_paren {e : Expr} {ts : List Token} (h : Spells 1 e ts) : SimpleOk e (lp :: ts ++ [rp]) :=
  ⟨by simp, (parse_spells (Spells.paren (p := lvlSimple) h)).2 rfl⟩

theorem atomOk_paren {e : Expr} {ts : List Token} (h : Spells 1 e ts) : AtomOk e (lp :: ts ++ [rp]) :=
  (simpleOk_paren h).atomOk

/-! ## Expression level: the conditional operator -/

def qTok : Token := tk PUNCT [63]
def colonTok : Token := tk PUNCT [58]

/-- spellings at the level of `parseExpression`: an operator tree, or `c ? t : f` whose condition is an operator
    tree and whose branches are again expressions (so the conditional nests to the right without parentheses) -/
inductive SpellsX : Expr → List Token → Prop
  | plain {e ts} : Spells 1 e ts → SpellsX e ts
  | cond {c t f tc tt tf} : Spells 1 c tc → SpellsX t tt → SpellsX f tf →
      SpellsX (.cond c t f) (tc ++ qTok :: (tt ++ colonTok :: tf))

theorem SpellsX.length_pos {e ts} (h : SpellsX e ts) : 1 ≤ ts.length := by
  cases h with
  | plain h => exact h.length_pos
  | cond h _ _ => have := h.length_pos; simp only [List.length_append]; omega

theorem parseExpression_spellsX {e : Expr} {ts : List Token} (h : SpellsX e ts) :
    ∀ rest, Stop rest = true → ∀ f, 4 * ts.length + 2 ≤ f → parseExpression f (ts ++ rest) = .ok (e, rest) := by
  induction h with
  | plain h => exact fun rest hs => parseExpression_spells h hs
  | @cond c t f tc tt tf hc _ _ iht ihf =>
    intro rest hs fu hf
    simp only [List.length_append, List.length_cons] at hf
    obtain ⟨g, rfl⟩ : ∃ g, fu = g + 2 := ⟨fu - 2, by omega⟩
    have hcond : parseBinaryPrec (g+1) 1 (tc ++ qTok :: (tt ++ colonTok :: (tf ++ rest))) =
        .ok (c, qTok :: (tt ++ colonTok :: (tf ++ rest))) :=
      (parse_spells hc).1 1 _ 1 _ (Nat.le_refl _) (by simp [Hd, peekBinary, qTok, tk, NAME, OPERATOR, PUNCT])
        (by simp [NoSuffix, isP, qTok, tk])
        (parseLoop_stop (p := 0) (by simp [Hd, peekBinary, qTok, tk, NAME, OPERATOR, PUNCT]) Nat.zero_lt_one 0 c)
        ok_ne_fuel _ (by omega)
    have ht := iht (colonTok :: (tf ++ rest)) (by simp [Stop, colonTok, tk, PUNCT, VAR_END, BLOCK_END, EOF]) g (by omega)
    have hf' := ihf rest hs g (by omega)
    have hlist : (tc ++ qTok :: (tt ++ colonTok :: tf)) ++ rest = tc ++ qTok :: (tt ++ colonTok :: (tf ++ rest)) := by
      simp [List.append_assoc]
    rw [hlist, parseExpression, hcond]
    simp only [bind, Except.bind, isP, qTok, tk, beq_self_eq_true, Bool.and_self, if_true]
    rw [parseConditional, ht]
    simp only [bind, Except.bind, isP, colonTok, tk, beq_self_eq_true, Bool.and_self, if_true]
    rw [hf']
    rfl

/-- a parenthesised expression-level spelling is an atom -/
theorem simpleOk_parenX {e : Expr} {ts : List Token} (h : SpellsX e ts) : SimpleOk e (lp :: ts ++ [rp]) := by
  refine ⟨by simp, fun rest _ f hf => ?_⟩
  simp only [List.length_cons, List.length_append, List.length_nil] at hf
  obtain ⟨g, rfl⟩ : ∃ g, f = g + 1 := ⟨f - 1, by omega⟩
  have h1 := parseExpression_spellsX h (rp :: rest) (by simp [Stop, rp, tk, PUNCT, VAR_END, BLOCK_END, EOF]) g (by omega)
  have hlist : (lp :: ts ++ [rp]) ++ rest = lp :: (ts ++ rp :: rest) := by simp [List.append_assoc]
  rw [hlist, parseSimple.eq_def]
  simp [lp, tk, isName, isP, PUNCT, NAME, OPERATOR, STRING, NUMBER]
  rw [h1]
  simp [bind, Except.bind, rp, tk, pure, Except.pure]

/-! ## Decimal digits of a natural number -/

def digitCh (d : Nat) : UInt8 := 48 + d.toUInt8

/-- least significant digit first -/
def decDigitsAux : Nat → Nat → Bytes
  | 0, _ => []
  | fuel+1, n => if n < 10 then [digitCh n] else digitCh (n % 10) :: decDigitsAux fuel (n / 10)

def decDigits (n : Nat) : Bytes := (decDigitsAux (n+1) n).reverse

theorem digitCh_spec : ∀ d, d < 10 → isDigit (digitCh d) = true ∧ (digitCh d - 48).toNat = d := by decide

theorem decDigitsAux_spec : ∀ fuel n, n < fuel →
    (decDigitsAux fuel n).all isDigit = true ∧ decDigitsAux fuel n ≠ [] ∧
    (decDigitsAux fuel n).foldr (fun d acc => acc * 10 + (d - 48).toNat) 0 = n
  | 0, _, h => by omega
  | fuel+1, n, h => by
    rw [decDigitsAux]
    split
    · rename_i hn; simp [digitCh_spec n hn]
    · rename_i hn
      have ih := decDigitsAux_spec fuel (n / 10) (by omega)
      have hd := digitCh_spec (n % 10) (by omega)
      simp [hd, ih.1, ih.2.2]; omega

theorem decDigits_spec (n : Nat) :
    (decDigits n).all isDigit = true ∧ decDigits n ≠ [] ∧ digitsToNat (decDigits n) = n := by
  have h := decDigitsAux_spec (n+1) n (by omega)
  refine ⟨?_, ?_, ?_⟩
  · simpa [decDigits] using h.1
  · simpa [decDigits] using h.2.1
  · simp only [decDigits, digitsToNat, List.foldl_reverse]; exact h.2.2

/-! ## Printers on `Expr`: minimal and full parenthesisation -/

/-- the atoms of the fragment and their spelling -/
def atomToks : Expr → List Token
  | .int i => [tk NUMBER (decDigits i.toNat)]
  | .str s => [tk STRING s]
  | .bool v => [tk NAME (if v then b "true" else b "false")]
  | .null => [tk NAME (b "null")]
  | .var n => [tk NAME n]
  | _ => []

/-- minimal parenthesisation at level `p` (left-associative table): parentheses exactly where the
    operator binds weaker than the position requires; the operand of a prefix operator is at level 8, so an
    operator node there is always parenthesised.  Level `0` is the expression level (top, and the branches of
    a conditional): only there a conditional stands without parentheses. -/
def prMin : Nat → Expr → List Token
  | p, .binary o l r =>
    let s := prMin o.prec l ++ opToks o ++ prMin (o.prec + 1) r
    if o.prec < p then lp :: s ++ [rp] else s
  | _, .unary u a => unTok u :: prMin lvlSimple a
  | p, .test l name _ =>
    let s := prMin precCompare l ++ (isToks false ++ [tk NAME name])
    if precCompare < p then lp :: s ++ [rp] else s
  | p, .cond c t f =>
    let s := prMin 1 c ++ qTok :: (prMin 0 t ++ colonTok :: prMin 0 f)
    if 0 < p then lp :: s ++ [rp] else s
  | _, a => atomToks a

/-- minimal parenthesisation of a whole expression -/
def printMin (e : Expr) : List Token := prMin 0 e

/-- full parenthesisation: every operator node (binary, prefix, test, conditional) is wrapped -/
def printFull : Expr → List Token
  | .binary o l r => lp :: (printFull l ++ opToks o ++ printFull r) ++ [rp]
  | .unary u a => lp :: (unTok u :: printFull a) ++ [rp]
  | .test l name _ => lp :: (printFull l ++ (isToks false ++ [tk NAME name])) ++ [rp]
  | .cond c t f => lp :: (printFull c ++ qTok :: (printFull t ++ colonTok :: printFull f)) ++ [rp]
  | a => atomToks a

def isIdent (n : Bytes) : Bool :=
  match n with
  | [] => false
  | c :: r => isIdentStart c && r.all isIdentChar

/-- the fragment: trees of binary and prefix operators, argument-less tests (`x is name`) and conditionals over
    integer literals in [0, 2^53], string literals without backslash or double quote, `true`/`false`/`null`,
    and variables whose name is an identifier other than `not`/`true`/`false`/`null`/`nil` -/
def WfE : Expr → Bool
  | .binary _ l r => WfE l && WfE r
  | .unary _ a => WfE a
  | .test l name args => args.isEmpty && WfE l && isIdent name && name != b "not"
  | .cond c t f => WfE c && WfE t && WfE f
  | .int i => 0 ≤ i && i ≤ maxExact
  | .str s => s.all (fun c => c != 92 && c != 34)
  | .bool _ => true
  | .null => true
  | .var n => isIdent n && !reservedNames.contains n
  | _ => false

def isAtomE : Expr → Bool
  | .int _ | .str _ | .bool _ | .null | .var _ => true
  | _ => false

theorem simpleOk_atomToks : ∀ (a : Expr), WfE a = true → isAtomE a = true → SimpleOk a (atomToks a)
  | .int i, h, _ => by
    simp only [WfE, Bool.and_eq_true, decide_eq_true_eq] at h
    have hs := decDigits_spec i.toNat
    have hi : ((digitsToNat (decDigits i.toNat) : Nat) : Int) = i := by rw [hs.2.2]; omega
    have := simpleOk_int hs.1 (by rw [hi]; exact h.2)
    rw [hi] at this; exact this
  | .str s, h, _ => by
    simp only [WfE, List.all_eq_true, Bool.and_eq_true, bne_iff_ne] at h
    exact simpleOk_str (fun c hc => (h c hc).1)
  | .bool v, _, _ => simpleOk_bool v
  | .null, _, _ => simpleOk_null
  | .var n, h, _ => by
    simp only [WfE, Bool.and_eq_true, Bool.not_eq_true', List.contains_eq_mem, decide_eq_false_iff_not] at h
    exact simpleOk_var h.2
  | .binary _ _ _, _, h | .unsup _, _, h | .unary _ _, _, h | .badBinary _ _, _, h | .cond _ _ _, _, h | .attr _ _, _, h
  | .item _ _, _, h | .filter _ _ _, _, h | .call _ _, _, h | .mcall _ _ _, _, h | .test _ _ _, _, h
  | .array _, _, h | .hash _, _, h => by simp [isAtomE] at h

theorem wfE_test {l : Expr} {name : Bytes} {args : List Expr} (h : WfE (.test l name args) = true) :
    args = [] ∧ WfE l = true ∧ isIdent name = true ∧ name ≠ b "not" := by
  simp only [WfE, Bool.and_eq_true, bne_iff_ne, List.isEmpty_iff] at h
  exact ⟨h.1.1.1, h.1.1.2, h.1.2, h.2⟩

theorem Spells.one_of_zero {e : Expr} {ts : List Token} (h : Spells 0 e ts) : Spells 1 e ts := by
  cases h with
  | atom ha _ => exact .atom ha (by decide)
  | simple ha => exact .simple ha
  | unary h => exact .unary h
  | bin _ hl hr => exact .bin (prec_pos _) hl hr
  | paren h => exact .paren h
  | test _ hn hl => exact .test (by decide) hn hl

/-- the printer produces admissible spellings at every level (one structural recursion proving both statements) -/
theorem spells_prMin_both : ∀ (e : Expr), WfE e = true →
    (∀ p, 1 ≤ p → Spells p e (prMin p e)) ∧ SpellsX e (prMin 0 e)
  | .binary o l r, h => by
    simp only [WfE, Bool.and_eq_true] at h
    have hl := (spells_prMin_both l h.1).1 o.prec (prec_pos o)
    have hr := (spells_prMin_both r h.2).1 (o.prec + 1) (by omega)
    have h1 : ∀ p, Spells p (.binary o l r) (prMin p (.binary o l r)) := by
      intro p
      rw [prMin]
      by_cases hp : o.prec < p
      · simp only [hp, if_true]
        exact .paren (.bin (prec_pos o) hl hr)
      · simp only [hp, if_false]
        exact .bin (by omega) hl hr
    exact ⟨fun p _ => h1 p, .plain (h1 0).one_of_zero⟩
  | .unary u a, h => by
    simp only [WfE] at h
    have h1 : ∀ p, Spells p (.unary u a) (prMin p (.unary u a)) := by
      intro p; rw [prMin]; exact .unary ((spells_prMin_both a h).1 _ (by decide))
    exact ⟨fun p _ => h1 p, .plain (h1 0).one_of_zero⟩
  | .test l name args, h => by
    obtain ⟨rfl, hl, _, hn⟩ := wfE_test h
    have hl' := (spells_prMin_both l hl).1 precCompare (by decide)
    have ht : ∀ q, q ≤ precCompare → Spells q (.test l name []) (prMin precCompare l ++ (isToks false ++ [tk NAME name])) :=
      fun q hq => Spells.test (neg := false) hq (fun _ => hn) hl'
    have h1 : ∀ p, Spells p (.test l name []) (prMin p (.test l name [])) := by
      intro p
      rw [prMin]
      by_cases hp : precCompare < p
      · simp only [hp, if_true]
        exact .paren (ht 1 (by decide))
      · simp only [hp, if_false]
        exact ht p (by omega)
    exact ⟨fun p _ => h1 p, .plain (h1 0).one_of_zero⟩
  | .cond c t f, h => by
    simp only [WfE, Bool.and_eq_true] at h
    have hx : SpellsX (.cond c t f) (prMin 1 c ++ qTok :: (prMin 0 t ++ colonTok :: prMin 0 f)) :=
      .cond ((spells_prMin_both c h.1.1).1 1 (Nat.le_refl _)) (spells_prMin_both t h.1.2).2 (spells_prMin_both f h.2).2
    refine ⟨fun p hp => ?_, ?_⟩
    · rw [prMin]
      have : 0 < p := hp
      simp only [this, if_true]
      exact .simple (simpleOk_parenX hx)
    · rw [prMin]; exact hx
  | .int i, h => by
    have h1 : ∀ p, Spells p (.int i) (prMin p (.int i)) := fun p => by
      simp only [prMin]; exact .simple (simpleOk_atomToks _ h rfl)
    exact ⟨fun p _ => h1 p, .plain (h1 0).one_of_zero⟩
  | .str s, h => by
    have h1 : ∀ p, Spells p (.str s) (prMin p (.str s)) := fun p => by
      simp only [prMin]; exact .simple (simpleOk_atomToks _ h rfl)
    exact ⟨fun p _ => h1 p, .plain (h1 0).one_of_zero⟩
  | .bool v, h => by
    have h1 : ∀ p, Spells p (.bool v) (prMin p (.bool v)) := fun p => by
      simp only [prMin]; exact .simple (simpleOk_atomToks _ h rfl)
    exact ⟨fun p _ => h1 p, .plain (h1 0).one_of_zero⟩
  | .null, h => by
    have h1 : ∀ p, Spells p .null (prMin p .null) := fun p => by
      simp only [prMin]; exact .simple (simpleOk_atomToks _ h rfl)
    exact ⟨fun p _ => h1 p, .plain (h1 0).one_of_zero⟩
  | .var n, h => by
    have h1 : ∀ p, Spells p (.var n) (prMin p (.var n)) := fun p => by
      simp only [prMin]; exact .simple (simpleOk_atomToks _ h rfl)
    exact ⟨fun p _ => h1 p, .plain (h1 0).one_of_zero⟩
  | .unsup _, h | .badBinary _ _, h | .attr _ _, h
  | .item _ _, h | .filter _ _ _, h | .call _ _, h | .mcall _ _ _, h
  | .array _, h | .hash _, h => by simp [WfE] at h

theorem spells_prMin (e : Expr) (p : Nat) (hp : 1 ≤ p) (h : WfE e = true) : Spells p e (prMin p e) :=
  (spells_prMin_both e h).1 p hp
theorem spellsX_printMin (e : Expr) (h : WfE e = true) : SpellsX e (printMin e) := (spells_prMin_both e h).2

theorem spells_printFull : ∀ (e : Expr) (p : Nat), WfE e = true → Spells p e (printFull e)
  | .binary o l r, p, h => by
    simp only [WfE, Bool.and_eq_true] at h
    rw [printFull]
    exact .paren (.bin (prec_pos o) (spells_printFull l _ h.1) (spells_printFull r _ h.2))
  | .unary u a, p, h => by
    simp only [WfE] at h
    rw [printFull]
    exact .paren (.unary (spells_printFull a _ h))
  | .test l name args, p, h => by
    obtain ⟨rfl, hl, _, hn⟩ := wfE_test h
    rw [printFull]
    exact .paren (Spells.test (neg := false) (by decide) (fun _ => hn) (spells_printFull l _ hl))
  | .cond c t f, p, h => by
    simp only [WfE, Bool.and_eq_true] at h
    rw [printFull]
    exact .simple (simpleOk_parenX (.cond (spells_printFull c 1 h.1.1) (.plain (spells_printFull t 1 h.1.2))
      (.plain (spells_printFull f 1 h.2))))
  | .int i, p, h => by simp only [printFull]; exact .simple (simpleOk_atomToks _ h rfl)
  | .str s, p, h => by simp only [printFull]; exact .simple (simpleOk_atomToks _ h rfl)
  | .bool v, p, h => by simp only [printFull]; exact .simple (simpleOk_atomToks _ h rfl)
  | .null, p, h => by simp only [printFull]; exact .simple (simpleOk_atomToks _ h rfl)
  | .var n, p, h => by simp only [printFull]; exact .simple (simpleOk_atomToks _ h rfl)
  | .unsup _, _, h | .badBinary _ _, _, h | .attr _ _, _, h
  | .item _ _, _, h | .filter _ _ _, _, h | .call _ _, _, h | .mcall _ _ _, _, h
  | .array _, _, h | .hash _, _, h => by simp [WfE] at h

/-! ## Lexing a spelled token list back -/

theorem all_u8 (P : UInt8 → Bool) (h : ∀ n : Fin 256, P (UInt8.ofNat n.val) = true) : ∀ c : UInt8, P c = true := by
  intro c
  have := h ⟨c.toNat, c.toNat_lt⟩
  simpa using this

def isQuoteCh (c : UInt8) : Bool := c == 34 || c == 39

/-- the character classes tested by `TokenizeExpression` are pairwise disjoint, none contains the backslash,
    whitespace continues no token -/
theorem class_ws : ∀ c : UInt8, (!isWs c || (!isQuoteCh c && !isOperatorCh c && !isPunctCh c && c != 92 &&
    !isIdentChar c && !isDigit c && c != 46 && c != 61 && c != 38)) = true := all_u8 _ (by decide +kernel)
theorem class_ident : ∀ c : UInt8, (!isIdentStart c || (!isQuoteCh c && !isOperatorCh c && !isPunctCh c && !isWs c &&
    isIdentChar c)) = true := all_u8 _ (by decide +kernel)
theorem class_identChar : ∀ c : UInt8, (!isIdentChar c || c != 92) = true := all_u8 _ (by decide +kernel)
theorem class_digit : ∀ c : UInt8, (!isDigit c || (!isQuoteCh c && !isOperatorCh c && !isPunctCh c && !isWs c &&
    !isIdentStart c && c != 92)) = true := all_u8 _ (by decide +kernel)
theorem class_op : ∀ c : UInt8, (!isOperatorCh c || (!isQuoteCh c && c != 92)) = true := all_u8 _ (by decide +kernel)
theorem class_punct : ∀ c : UInt8, (!isPunctCh c || (!isQuoteCh c && !isOperatorCh c && c != 92)) = true :=
  all_u8 _ (by decide +kernel)
theorem class_fuse : ∀ c n : UInt8, fusesWith c n = true → n ≠ 92 := by
  intro c n h; simp [fusesWith] at h; rcases h with (((h | h) | h) | h) | h <;> (rw [h.2]; decide)

/-- source bytes of a token (string literals in double quotes) -/
def tokBytes (t : Token) : Bytes := if t.kind == STRING then 34 :: t.val ++ [34] else t.val

/-- tokens of the fragment: identifiers, digit strings, string literals without `"` and `\`, the one- and
    two-character operators, single punctuation characters -/
def TokOk (t : Token) : Bool :=
  if t.kind == NAME then isIdent t.val
  else if t.kind == NUMBER then (match t.val with | [] => false | _ :: _ => t.val.all isDigit)
  else if t.kind == STRING then t.val.all (fun c => c != 34 && c != 92)
  else if t.kind == OPERATOR then
    (match t.val with | [c] => isOperatorCh c | [c, n] => isOperatorCh c && fusesWith c n | _ => false)
  else if t.kind == PUNCT then (match t.val with | [c] => isPunctCh c | _ => false)
  else false

/-- the byte after a token does not fuse with it: no identifier character after a NAME, no digit or `.` after a
    NUMBER, no second half of a two-character operator after a one-character OPERATOR -/
def followOk (t : Token) (next : Bytes) : Bool :=
  match next with
  | [] => true
  | n :: _ =>
    if t.kind == NAME then !isIdentChar n
    else if t.kind == NUMBER then !isDigit n && n != 46
    else if t.kind == OPERATOR then (match t.val with | [c] => !fusesWith c n | _ => true)
    else true

/-- `ws[i]` is the whitespace written before token `i`; `ws[n]` the trailing whitespace -/
def spellToks : List Token → List Bytes → Bytes
  | [], ws => ws.headD []
  | t :: ts, ws => ws.headD [] ++ (tokBytes t ++ spellToks ts ws.tail)

def Separated : List Token → List Bytes → Bool
  | [], ws => (ws.headD []).all isWs
  | t :: ts, ws => (ws.headD []).all isWs && TokOk t && followOk t (spellToks ts ws.tail) && Separated ts ws.tail

theorem takeWhile_stop {p : UInt8 → Bool} {l next : Bytes} (hl : ∀ a ∈ l, p a = true)
    (hn : ∀ n r, next = n :: r → p n = false) :
    (l ++ next).takeWhile p = l ∧ (l ++ next).dropWhile p = next := by
  rw [List.takeWhile_append_of_pos hl, List.dropWhile_append_of_pos hl]
  cases next with
  | nil => simp
  | cons n r => simp [hn n r rfl]

theorem getLast?_ne {l : Bytes} (h : ∀ a ∈ l, a ≠ 92) : l.getLast? ≠ some 92 := by
  intro hc
  exact h 92 (List.mem_of_getLast? hc) rfl

theorem lexAux_nil (fuel : Nat) (m : LexMode) (esc : Bool) : lexAux fuel m esc [] = [] := by
  cases fuel <;> simp [lexAux]

/-- whitespace is skipped -/
theorem lex_ws : ∀ (w s : Bytes) (fuel : Nat), w.all isWs = true →
    (w ++ s).length + 1 ≤ fuel →
    ∃ fuel', s.length + 1 ≤ fuel' ∧
      lexAux fuel .code false (w ++ s) = lexAux fuel' .code false s
  | [], s, fuel, _, hf => ⟨fuel, by simpa using hf, rfl⟩
  | c :: w, s, fuel, hw, hf => by
    obtain ⟨g, rfl⟩ : ∃ g, fuel = g + 1 := ⟨fuel - 1, by simp at hf; omega⟩
    simp only [List.all_cons, Bool.and_eq_true] at hw
    have hc := class_ws c
    simp only [hw.1, Bool.not_true, Bool.false_or, Bool.and_eq_true, Bool.not_eq_true', bne_iff_ne, isQuoteCh] at hc
    obtain ⟨fuel', h1, h3⟩ := lex_ws w s g hw.2 (by simp at hf ⊢; omega)
    refine ⟨fuel', h1, ?_⟩
    rw [← h3, List.cons_append, lexAux.eq_def]
    simp [hc, hw.1, beq_eq_false_iff_ne.2 hc.1.1.1.1.1.2]


/-- inside a string literal opened by `"` -/
theorem lex_strBody : ∀ (v acc next : Bytes) (fuel : Nat),
    (∀ c ∈ v, c ≠ 34 ∧ c ≠ 92) → (v ++ 34 :: next).length + 1 ≤ fuel →
    ∃ fuel', next.length + 1 ≤ fuel' ∧
      lexAux fuel (.str 34 acc) false (v ++ 34 :: next) = tk STRING (acc.reverse ++ v) :: lexAux fuel' .code false next
  | [], acc, next, fuel, _, hf => by
    obtain ⟨g, rfl⟩ : ∃ g, fuel = g + 1 := ⟨fuel - 1, by simp at hf; omega⟩
    refine ⟨g, by simp at hf; omega, ?_⟩
    rw [List.nil_append, lexAux.eq_def]
    simp
  | c :: v, acc, next, fuel, hv, hf => by
    obtain ⟨g, rfl⟩ : ∃ g, fuel = g + 1 := ⟨fuel - 1, by simp at hf; omega⟩
    have hc := hv c (by simp)
    obtain ⟨fuel', h1, h2⟩ := lex_strBody v (c :: acc) next g (fun x hx => hv x (by simp [hx]))
      (by simp at hf ⊢; omega)
    refine ⟨fuel', h1, ?_⟩
    rw [List.cons_append, lexAux.eq_def]
    simp [hc.1, beq_eq_false_iff_ne.2 hc.2, h2]

/-- one token is read back, whatever follows, provided the next byte does not fuse with it -/
theorem lex_tok (t : Token) (next : Bytes) (fuel : Nat)
    (ht : TokOk t = true) (hfo : followOk t next = true)
    (hf : (tokBytes t ++ next).length + 1 ≤ fuel) :
    ∃ fuel', next.length + 1 ≤ fuel' ∧
      lexAux fuel .code false (tokBytes t ++ next) = t :: lexAux fuel' .code false next := by
  rcases t with ⟨k, v⟩
  unfold TokOk at ht
  simp only at ht
  split at ht
  · -- NAME
    rename_i hk; simp only [beq_iff_eq] at hk; subst hk
    cases v with
    | nil => simp [isIdent] at ht
    | cons c more =>
      simp only [isIdent, Bool.and_eq_true, List.all_eq_true] at ht
      have hc := class_ident c
      simp only [ht.1, Bool.not_true, Bool.false_or, Bool.and_eq_true, Bool.not_eq_true', isQuoteCh, Bool.or_eq_false_iff] at hc
      obtain ⟨g, rfl⟩ : ∃ g, fuel = g + 1 := ⟨fuel - 1, by simp [tokBytes] at hf; omega⟩
      have htw := takeWhile_stop (p := isIdentChar) (l := more) (next := next) ht.2 (by
        intro n r hn; subst hn; simpa [followOk, NAME] using hfo)
      refine ⟨g, by simp [tokBytes, NAME, STRING] at hf; omega, ?_⟩
      · simp only [tokBytes, NAME, STRING, Nat.reduceBEq, Bool.false_eq_true, if_false, List.cons_append]
        rw [lexAux.eq_def]
        simp [hc, ht.1, htw, tk, NAME]
  · split at ht
    · -- NUMBER
      rename_i _ hk; simp only [beq_iff_eq] at hk; subst hk
      cases v with
      | nil => simp at ht
      | cons c ds =>
        simp only [List.all_cons, Bool.and_eq_true, List.all_eq_true] at ht
        have hc := class_digit c
        simp only [ht.1, Bool.not_true, Bool.false_or, Bool.and_eq_true, Bool.not_eq_true', isQuoteCh, Bool.or_eq_false_iff, bne_iff_ne] at hc
        obtain ⟨g, rfl⟩ : ∃ g, fuel = g + 1 := ⟨fuel - 1, by simp [tokBytes] at hf; omega⟩
        have hfo' : ∀ n r, next = n :: r → isDigit n = false ∧ n ≠ 46 := by
          intro n r hn; subst hn; simpa [followOk, NAME, NUMBER] using hfo
        have htw := takeWhile_stop (p := isDigit) (l := ds) (next := next) ht.2 (fun n r hn => (hfo' n r hn).1)
        refine ⟨g, by simp [tokBytes, NUMBER, STRING] at hf; omega, ?_⟩
        · simp only [tokBytes, NUMBER, STRING, Nat.reduceBEq, Bool.false_eq_true, if_false, List.cons_append]
          rw [lexAux.eq_def]
          simp only [hc, ht.1, htw, tk, NUMBER]
          cases next with
          | nil => simp
          | cons n r => simp [(hfo' n r rfl).2]
    · split at ht
      · -- STRING
        rename_i _ _ hk; simp only [beq_iff_eq] at hk; subst hk
        simp only [List.all_eq_true, Bool.and_eq_true, bne_iff_ne] at ht
        obtain ⟨g, rfl⟩ : ∃ g, fuel = g + 1 := ⟨fuel - 1, by simp [tokBytes] at hf; omega⟩
        obtain ⟨fuel', h1, h2⟩ := lex_strBody v [] next g ht
          (by simp [tokBytes, STRING] at hf ⊢; omega)
        refine ⟨fuel', h1, ?_⟩
        simp only [tokBytes, STRING, beq_self_eq_true, if_true, List.cons_append, List.append_assoc]
        rw [lexAux.eq_def]
        simp [h2, tk, STRING]
      · split at ht
        · -- OPERATOR
          rename_i _ _ _ hk; simp only [beq_iff_eq] at hk; subst hk
          split at ht
          · rename_i c
            have hc := class_op c
            simp only [ht, Bool.not_true, Bool.false_or, Bool.and_eq_true, Bool.not_eq_true', isQuoteCh, Bool.or_eq_false_iff, bne_iff_ne] at hc
            obtain ⟨g, rfl⟩ : ∃ g, fuel = g + 1 := ⟨fuel - 1, by simp [tokBytes] at hf; omega⟩
            refine ⟨g, by simp [tokBytes, OPERATOR, STRING] at hf; omega, ?_⟩
            simp only [tokBytes, OPERATOR, STRING, Nat.reduceBEq, Bool.false_eq_true, if_false, List.cons_append, List.nil_append]
            rw [lexAux.eq_def]
            cases next with
            | nil => simp [hc, ht, tk, OPERATOR, lexAux_nil]
            | cons n r =>
              have : fusesWith c n = false := by simpa [followOk, NAME, NUMBER, OPERATOR] using hfo
              simp [hc, ht, this, tk, OPERATOR, beq_eq_false_iff_ne.2 hc.2]
          · rename_i c n
            simp only [Bool.and_eq_true] at ht
            have hc := class_op c
            simp only [ht.1, Bool.not_true, Bool.false_or, Bool.and_eq_true, Bool.not_eq_true', isQuoteCh, Bool.or_eq_false_iff, bne_iff_ne] at hc
            obtain ⟨g, rfl⟩ : ∃ g, fuel = g + 1 := ⟨fuel - 1, by simp [tokBytes] at hf; omega⟩
            refine ⟨g, by simp [tokBytes, OPERATOR, STRING] at hf; omega, ?_⟩
            simp only [tokBytes, OPERATOR, STRING, Nat.reduceBEq, Bool.false_eq_true, if_false, List.cons_append, List.nil_append]
            rw [lexAux.eq_def]
            simp [hc, ht.1, ht.2, tk, OPERATOR]
          · simp at ht
        · split at ht
          · -- PUNCT
            rename_i _ _ _ _ hk; simp only [beq_iff_eq] at hk; subst hk
            split at ht
            · rename_i c
              have hc := class_punct c
              simp only [ht, Bool.not_true, Bool.false_or, Bool.and_eq_true, Bool.not_eq_true', isQuoteCh, Bool.or_eq_false_iff, bne_iff_ne] at hc
              obtain ⟨g, rfl⟩ : ∃ g, fuel = g + 1 := ⟨fuel - 1, by simp [tokBytes] at hf; omega⟩
              refine ⟨g, by simp [tokBytes, PUNCT, STRING] at hf; omega, ?_⟩
              simp only [tokBytes, PUNCT, STRING, Nat.reduceBEq, Bool.false_eq_true, if_false, List.cons_append, List.nil_append]
              rw [lexAux.eq_def]
              simp [hc, ht, tk, PUNCT, beq_eq_false_iff_ne.2 hc.2]
            · simp at ht
          · simp at ht

theorem lex_spell : ∀ (toks : List Token) (ws : List Bytes) (fuel : Nat),
    Separated toks ws = true → (spellToks toks ws).length + 1 ≤ fuel →
    lexAux fuel .code false (spellToks toks ws) = toks
  | [], ws, fuel, hs, hf => by
    simp only [Separated] at hs
    simp only [spellToks] at hf ⊢
    obtain ⟨fuel', _, h⟩ := lex_ws (ws.headD []) [] fuel hs (by simpa using hf)
    simp only [List.append_nil] at h
    rw [h, lexAux_nil]
  | t :: ts, ws, fuel, hs, hf => by
    simp only [Separated, Bool.and_eq_true] at hs
    simp only [spellToks] at hf ⊢
    obtain ⟨f1, hf1, h1⟩ := lex_ws (ws.headD []) _ fuel hs.1.1.1 hf
    obtain ⟨f2, hf2, h2⟩ := lex_tok t _ f1 hs.1.1.2 hs.1.2 hf1
    rw [h1, h2, lex_spell ts ws.tail f2 hs.2 hf2]

theorem lexExpr_spell (toks : List Token) (ws : List Bytes) (h : Separated toks ws = true) :
    lexExpr (spellToks toks ws) = toks :=
  lex_spell toks ws _ h (Nat.le_refl _)


/-! ## Spacing that always separates; the printed tokens are lexable -/

/-- sufficient for `Separated`: every token is well formed and there is at least one whitespace byte between
    any two tokens -/
def Spaced : List Token → List Bytes → Bool
  | [], ws => (ws.headD []).all isWs
  | t :: ts, ws => (ws.headD []).all isWs && TokOk t && (ts.isEmpty || !(ws.tail.headD []).isEmpty) && Spaced ts ws.tail

theorem followOk_ws (t : Token) {n : UInt8} (r : Bytes) (h : isWs n = true) : followOk t (n :: r) = true := by
  have hc := class_ws n
  simp only [h, Bool.not_true, Bool.false_or, Bool.and_eq_true, Bool.not_eq_true', bne_iff_ne] at hc
  have hf : ∀ c, fusesWith c n = false := by
    intro c; simp [fusesWith, hc]
  simp only [followOk]
  by_cases h1 : (t.kind == NAME) = true
  · simp [h1, hc]
  · by_cases h2 : (t.kind == NUMBER) = true
    · simp [h1, h2, hc]
    · by_cases h3 : (t.kind == OPERATOR) = true
      · simp only [Bool.not_eq_true] at h1 h2
        simp only [h1, h2, h3, Bool.false_eq_true, if_true, if_false]; split <;> simp [hf]
      · simp [h1, h2, h3]

theorem separated_of_spaced : ∀ (toks : List Token) (ws : List Bytes), Spaced toks ws = true → Separated toks ws = true
  | [], ws, h => by simpa [Spaced, Separated] using h
  | t :: ts, ws, h => by
    simp only [Spaced, Bool.and_eq_true] at h
    have ih := separated_of_spaced ts ws.tail h.2
    simp only [Separated, Bool.and_eq_true]
    refine ⟨⟨⟨h.1.1.1, h.1.1.2⟩, ?_⟩, ih⟩
    -- the bytes after `t` start with whitespace (or there are none)
    cases ts with
    | nil =>
      have hw : (ws.tail.headD []).all isWs = true := by simpa [Spaced] using h.2
      simp only [spellToks]
      cases hq : ws.tail.headD [] with
      | nil => simp [followOk]
      | cons n r => rw [hq] at hw; simp only [List.all_cons, Bool.and_eq_true] at hw; exact followOk_ws t r hw.1
    | cons t2 ts2 =>
      have hne : (ws.tail.headD []).isEmpty = false := by simpa using h.1.2
      have hw : (ws.tail.headD []).all isWs = true := by
        have := h.2; simp only [Spaced, Bool.and_eq_true] at this; exact this.1.1.1
      simp only [spellToks]
      cases hq : ws.tail.headD [] with
      | nil => rw [hq] at hne; simp at hne
      | cons n r =>
        rw [hq] at hw; simp only [List.all_cons, Bool.and_eq_true] at hw
        exact followOk_ws t _ hw.1

theorem spaced_single : ∀ (toks : List Token), toks.all TokOk = true →
    Spaced toks (List.replicate toks.length [32]) = true
  | [], _ => by simp [Spaced]
  | t :: ts, h => by
    simp only [List.all_cons, Bool.and_eq_true] at h
    have ih := spaced_single ts h.2
    simp only [List.length_cons, List.replicate_succ, Spaced, List.headD_cons, List.tail_cons, Bool.and_eq_true]
    refine ⟨⟨⟨by decide, h.1⟩, ?_⟩, ih⟩
    cases ts with
    | nil => simp
    | cons t2 ts2 => simp [List.replicate_succ]

theorem tokOk_opToks (o : BinOp) : (opToks o).all TokOk = true := by
  cases o <;> decide +kernel

theorem tokOk_unTok (u : UnOp) : TokOk (unTok u) = true := by cases u <;> decide +kernel
theorem tokOk_lp : TokOk lp = true := by decide +kernel
theorem tokOk_rp : TokOk rp = true := by decide +kernel

theorem tokOk_atomToks : ∀ (a : Expr), WfE a = true → (atomToks a).all TokOk = true
  | .int i, _ => by
    have hs := decDigits_spec i.toNat
    simp only [atomToks, List.all_cons, List.all_nil, Bool.and_true, TokOk, tk, NUMBER, NAME]
    cases hq : decDigits i.toNat with
    | nil => exact absurd hq hs.2.1
    | cons c r => rw [hq] at hs; simpa using hs.1
  | .str s, h => by
    simp only [WfE, List.all_eq_true, Bool.and_eq_true, bne_iff_ne] at h
    simp only [atomToks, List.all_cons, List.all_nil, Bool.and_true, TokOk, tk, STRING, NUMBER, NAME]
    simp only [Nat.reduceBEq, Bool.false_eq_true, if_false, beq_self_eq_true, if_true, List.all_eq_true, Bool.and_eq_true, bne_iff_ne]
    exact fun c hc => ⟨(h c hc).2, (h c hc).1⟩
  | .bool v, _ => by cases v <;> decide +kernel
  | .null, _ => by decide +kernel
  | .var n, h => by
    simp only [WfE, Bool.and_eq_true] at h
    simp [atomToks, TokOk, tk, NAME, h.1]
  | .binary _ _ _, _ | .unsup _, _ | .unary _ _, _ | .badBinary _ _, _ | .cond _ _ _, _ | .attr _ _, _
  | .item _ _, _ | .filter _ _ _, _ | .call _ _, _ | .mcall _ _ _, _ | .test _ _ _, _
  | .array _, _ | .hash _, _ => by simp [atomToks]

theorem tokOk_isToks (neg : Bool) : (isToks neg).all TokOk = true := by cases neg <;> decide +kernel
theorem tokOk_qTok : TokOk qTok = true := by decide +kernel
theorem tokOk_colonTok : TokOk colonTok = true := by decide +kernel
theorem tokOk_name {n : Bytes} (h : isIdent n = true) : TokOk (tk NAME n) = true := by
  simp [TokOk, tk, NAME, h]

theorem tokOk_prMin : ∀ (e : Expr) (p : Nat), WfE e = true → (prMin p e).all TokOk = true
  | .binary o l r, p, h => by
    simp only [WfE, Bool.and_eq_true] at h
    have hl := tokOk_prMin l o.prec h.1
    have hr := tokOk_prMin r (o.prec + 1) h.2
    have ho := tokOk_opToks o
    rw [prMin]
    split <;> simp [List.all_append, hl, hr, ho, tokOk_lp, tokOk_rp]
  | .unary u a, p, h => by
    simp only [WfE] at h
    rw [prMin]; simp [tokOk_unTok, tokOk_prMin a _ h]
  | .test l name args, p, h => by
    obtain ⟨rfl, hl, hid, _⟩ := wfE_test h
    have hl' := tokOk_prMin l precCompare hl
    rw [prMin]
    split <;> simp [List.all_append, hl', tokOk_isToks, tokOk_name hid, tokOk_lp, tokOk_rp]
  | .cond c t f, p, h => by
    simp only [WfE, Bool.and_eq_true] at h
    have hc := tokOk_prMin c 1 h.1.1
    have ht := tokOk_prMin t 0 h.1.2
    have hf := tokOk_prMin f 0 h.2
    rw [prMin]
    split <;> simp [List.all_append, hc, ht, hf, tokOk_lp, tokOk_rp, tokOk_qTok, tokOk_colonTok]
  | .int i, p, h => by simp only [prMin]; exact tokOk_atomToks _ h
  | .str s, p, h => by simp only [prMin]; exact tokOk_atomToks _ h
  | .bool v, p, h => by simp only [prMin]; exact tokOk_atomToks _ h
  | .null, p, h => by simp only [prMin]; exact tokOk_atomToks _ h
  | .var n, p, h => by simp only [prMin]; exact tokOk_atomToks _ h
  | .unsup _, _, h | .badBinary _ _, _, h | .attr _ _, _, h
  | .item _ _, _, h | .filter _ _ _, _, h | .call _ _, _, h | .mcall _ _ _, _, h
  | .array _, _, h | .hash _, _, h => by simp [WfE] at h

theorem tokOk_printMin (e : Expr) (h : WfE e = true) : (printMin e).all TokOk = true := tokOk_prMin e 0 h

theorem tokOk_printFull : ∀ (e : Expr), WfE e = true → (printFull e).all TokOk = true
  | .binary o l r, h => by
    simp only [WfE, Bool.and_eq_true] at h
    have hl := tokOk_printFull l h.1
    have hr := tokOk_printFull r h.2
    have ho := tokOk_opToks o
    rw [printFull]
    simp [List.all_append, hl, hr, ho, tokOk_lp, tokOk_rp]
  | .unary u a, h => by
    simp only [WfE] at h
    rw [printFull]
    simp [List.all_append, tokOk_unTok, tokOk_printFull a h, tokOk_lp, tokOk_rp]
  | .test l name args, h => by
    obtain ⟨rfl, hl, hid, _⟩ := wfE_test h
    rw [printFull]
    simp [List.all_append, tokOk_printFull l hl, tokOk_isToks, tokOk_name hid, tokOk_lp, tokOk_rp]
  | .cond c t f, h => by
    simp only [WfE, Bool.and_eq_true] at h
    rw [printFull]
    simp [List.all_append, tokOk_printFull c h.1.1, tokOk_printFull t h.1.2, tokOk_printFull f h.2, tokOk_lp, tokOk_rp,
      tokOk_qTok, tokOk_colonTok]
  | .int i, h => by simp only [printFull]; exact tokOk_atomToks _ h
  | .str s, h => by simp only [printFull]; exact tokOk_atomToks _ h
  | .bool v, h => by simp only [printFull]; exact tokOk_atomToks _ h
  | .null, h => by simp only [printFull]; exact tokOk_atomToks _ h
  | .var n, h => by simp only [printFull]; exact tokOk_atomToks _ h
  | .unsup _, h | .badBinary _ _, h | .attr _ _, h
  | .item _ _, h | .filter _ _ _, h | .call _ _, h | .mcall _ _ _, h
  | .array _, h | .hash _, h => by simp [WfE] at h

/-! ## Global fuel adequacy: `exprFuel` never runs out -/

/-- widths reported by `peekBinary` are real -/
def peekFits : Peek → Nat → Prop
  | .op _ w, n => 1 ≤ w ∧ w ≤ n
  | .isT _ w, n => 1 ≤ w ∧ w ≤ n
  | .notDefined, n => 2 ≤ n
  | .none, _ => True

/-- the NAME branch of `peekBinary`, as a function of the token text and the text of the following NAME -/
def nameChain (v next : Bytes) : Peek :=
  if v == b "and" then .op .and 1
  else if v == b "or" then .op .or 1
  else if v == b "in" then .op .in_ 1
  else if v == b "matches" then .op .matches_ 1
  else if v == b "not" then
    if next == b "in" then .op .notIn 2 else if next == b "defined" then .notDefined else .none
  else if v == b "is" then
    if next == b "not" then .isT true 2 else .isT false 1
  else if v == b "starts" then (if next == b "with" then .op .startsWith 2 else .none)
  else if v == b "ends" then (if next == b "with" then .op .endsWith 2 else .none)
  else .none

def nextName : List Token → Bytes
  | n :: _ => if n.kind == NAME then n.val else []
  | [] => []

theorem nameChain_fits (v next : Bytes) (n : Nat) (one : 1 ≤ n) (two : next ≠ [] → 2 ≤ n) :
    peekFits (nameChain v next) n := by
  have hr : ∀ w : Bytes, w ≠ [] → (next == w) = true → 2 ≤ n := by
    intro w hw h
    apply two
    intro h0; subst h0; cases w <;> simp_all
  have hin : b "in" ≠ [] := by decide +kernel
  have hdef : b "defined" ≠ [] := by decide +kernel
  have hnot : b "not" ≠ [] := by decide +kernel
  have hwith : b "with" ≠ [] := by decide +kernel
  unfold nameChain
  by_cases c1 : (v == b "and") = true
  · rw [if_pos c1]; exact ⟨Nat.le_refl _, one⟩
  rw [if_neg c1]
  by_cases c2 : (v == b "or") = true
  · rw [if_pos c2]; exact ⟨Nat.le_refl _, one⟩
  rw [if_neg c2]
  by_cases c3 : (v == b "in") = true
  · rw [if_pos c3]; exact ⟨Nat.le_refl _, one⟩
  rw [if_neg c3]
  by_cases c4 : (v == b "matches") = true
  · rw [if_pos c4]; exact ⟨Nat.le_refl _, one⟩
  rw [if_neg c4]
  by_cases c5 : (v == b "not") = true
  · rw [if_pos c5]
    by_cases d1 : (next == b "in") = true
    · rw [if_pos d1]; exact ⟨by omega, hr _ hin d1⟩
    rw [if_neg d1]
    by_cases d2 : (next == b "defined") = true
    · rw [if_pos d2]; exact hr _ hdef d2
    rw [if_neg d2]; trivial
  rw [if_neg c5]
  by_cases c6 : (v == b "is") = true
  · rw [if_pos c6]
    by_cases d1 : (next == b "not") = true
    · rw [if_pos d1]; exact ⟨by omega, hr _ hnot d1⟩
    rw [if_neg d1]; exact ⟨Nat.le_refl _, one⟩
  rw [if_neg c6]
  by_cases c7 : (v == b "starts") = true
  · rw [if_pos c7]
    by_cases d1 : (next == b "with") = true
    · rw [if_pos d1]; exact ⟨by omega, hr _ hwith d1⟩
    rw [if_neg d1]; trivial
  rw [if_neg c7]
  by_cases c8 : (v == b "ends") = true
  · rw [if_pos c8]
    by_cases d1 : (next == b "with") = true
    · rw [if_pos d1]; exact ⟨by omega, hr _ hwith d1⟩
    rw [if_neg d1]; trivial
  rw [if_neg c8]; trivial

theorem peekBinary_fits (ts : List Token) : peekFits (peekBinary ts) ts.length := by
  cases ts with
  | nil => simp [peekBinary, peekFits]
  | cons t r =>
    simp only [peekBinary]
    by_cases h1 : (t.kind == OPERATOR) = true
    · simp only [h1, if_true]; split <;> simp [peekFits]
    · simp only [h1, Bool.false_eq_true, if_false]
      by_cases h2 : (t.kind != NAME) = true
      · simp [h2, peekFits]
      · simp only [h2, Bool.false_eq_true, if_false]
        show peekFits (nameChain t.val (nextName r)) (t :: r).length
        apply nameChain_fits
        · simp
        · cases r <;> simp [nextName]

/-- `r` is not the out-of-fuel error, and if it is a value, at least `d` of the `n` tokens were consumed -/
def Adq {α} (n d : Nat) : R (α × List Token) → Prop
  | .ok (_, rest) => rest.length + d ≤ n
  | .error .fuel => False
  | .error _ => True

theorem Adq.ok {α} {n d : Nat} {v : α} {rest : List Token} (h : rest.length + d ≤ n) :
    Adq n d (.ok (v, rest) : R (α × List Token)) := h
theorem Adq.pure {α} {n d : Nat} {v : α} {rest : List Token} (h : rest.length + d ≤ n) :
    Adq n d (Pure.pure (v, rest) : R (α × List Token)) := h
theorem Adq.perr {α} {n d : Nat} (msg : String) : Adq n d (perr msg : R (α × List Token)) := trivial

theorem Adq.bind {α β} {n d n' d' : Nat} {x : R (α × List Token)} {k : α × List Token → R (β × List Token)}
    (hx : Adq n d x) (hk : ∀ v rest, rest.length + d ≤ n → Adq n' d' (k (v, rest))) : Adq n' d' (x >>= k) := by
  cases x with
  | error e => cases e <;> first | exact hx | trivial
  | ok p => obtain ⟨v, rest⟩ := p; exact hk v rest hx

theorem Adq.weaken {α} {n d n' d' : Nat} {r : R (α × List Token)} (h : Adq n d r)
    (hw : ∀ x, x + d ≤ n → x + d' ≤ n') : Adq n' d' r := by
  cases r with
  | error e => cases e <;> first | exact h | trivial
  | ok p => obtain ⟨v, rest⟩ := p; exact hw _ h

theorem Adq.ne_fuel {α} {n d : Nat} {r : R (α × List Token)} (h : Adq n d r) : r ≠ .error .fuel := by
  intro hr; subst hr; exact h

/-- fuel `8·|ts| + c` suffices for each parser function, and each consumes at least the stated number of tokens -/
structure AdqAt (f : Nat) : Prop where
  expr : ∀ ts, 8 * ts.length + 4 ≤ f → Adq ts.length 1 (parseExpression f ts)
  cond : ∀ c ts, 8 * ts.length + 5 ≤ f → Adq ts.length 3 (parseConditional f c ts)
  bin : ∀ m ts, 8 * ts.length + 3 ≤ f → Adq ts.length 1 (parseBinaryPrec f m ts)
  loop : ∀ m l ts, 8 * ts.length + 1 ≤ f → Adq ts.length 0 (parseLoop f m l ts)
  test : ∀ l neg name ts, 8 * ts.length + 1 ≤ f → Adq ts.length 0 (parseTest f l neg name ts)
  args : ∀ close msg ts, 8 * ts.length + 6 ≤ f → Adq ts.length 1 (parseArgs f close msg ts)
  argsLoop : ∀ close msg ts, 8 * ts.length + 5 ≤ f → Adq ts.length 2 (parseArgsLoop f close msg ts)
  operand : ∀ ts, 8 * ts.length + 2 ≤ f → Adq ts.length 1 (parseOperand f ts)
  suffix : ∀ e ts, 8 * ts.length + 2 ≤ f → Adq ts.length 0 (parseSuffix f e ts)
  subs : ∀ e ts, 8 * ts.length + 1 ≤ f → Adq ts.length 0 (parseSubs f e ts)
  filters : ∀ e ts, 8 * ts.length + 1 ≤ f → Adq ts.length 0 (parseFilters f e ts)
  filtersBar : ∀ e t r, isP t 124 = true → 8 * (t :: r).length + 1 ≤ f → Adq (t :: r).length 2 (parseFilters f e (t :: r))
  simple : ∀ ts, 8 * ts.length + 1 ≤ f → Adq ts.length 1 (parseSimple f ts)
  attrs : ∀ e ts, 8 * ts.length + 1 ≤ f → Adq ts.length 0 (parseAttrs f e ts)
  map : ∀ ts, 8 * ts.length + 6 ≤ f → Adq ts.length 1 (parseMap f ts)
  mapLoop : ∀ ts, 8 * ts.length + 5 ≤ f → Adq ts.length 4 (parseMapLoop f ts)

theorem adqAt_zero : AdqAt 0 := by
  constructor <;> intros <;> omega

theorem adqFiltersBar (f : Nat) (ih : AdqAt f) (e : Expr) (t : Token) (r : List Token) (hbar : isP t 124 = true)
    (hf : 8 * (t :: r).length + 1 ≤ f + 1) : Adq (t :: r).length 2 (parseFilters (f+1) e (t :: r)) := by
  unfold parseFilters
  dsimp only
  rw [if_pos hbar]
  cases r with
  | nil => exact Adq.perr _
  | cons n r' =>
    dsimp only
    split
    · cases r' with
      | nil =>
        dsimp only
        refine Adq.bind (Adq.pure (n := 0) (d := 0) (rest := []) (Nat.le_refl _)) (fun args r'' hr'' => ?_)
        have : r'' = [] := by cases r'' with | nil => rfl | cons _ _ => simp at hr''
        subst this
        exact (ih.filters _ [] (by simp at hf ⊢; omega)).weaken (by intro x hx; simp at hx ⊢; omega)
      | cons p r2 =>
        dsimp only
        split
        · refine Adq.bind (ih.args _ _ r2 (by simp at hf; omega)) (fun args r'' hr'' => ?_)
          exact (ih.filters _ r'' (by simp at hf; omega)).weaken (by intro x hx; simp; omega)
        · refine Adq.bind (Adq.pure (n := (p :: r2).length) (d := 0) (rest := p :: r2) (Nat.le_refl _)) (fun args r'' hr'' => ?_)
          exact (ih.filters _ r'' (by simp at hf hr''; omega)).weaken (by intro x hx; simp at hr'' ⊢; omega)
    · exact Adq.perr _

theorem adqAt_succ (f : Nat) (ih : AdqAt f) : AdqAt (f+1) where
  expr ts hf := by
    rw [parseExpression]
    refine Adq.bind (ih.bin 1 ts (by omega)) (fun e r hr => ?_)
    dsimp only
    cases r with
    | nil => exact Adq.pure (by simp at hr ⊢; omega)
    | cons t r' =>
      dsimp only
      split
      · exact (ih.cond e r' (by simp at hr; omega)).weaken (by intro x hx; simp at hr; omega)
      · exact Adq.pure hr
  cond c ts hf := by
    rw [parseConditional]
    refine Adq.bind (ih.expr ts (by omega)) (fun t r hr => ?_)
    dsimp only
    cases r with
    | nil => exact Adq.perr _
    | cons col r' =>
      dsimp only
      split
      · refine Adq.bind (ih.expr r' (by simp at hr; omega)) (fun e r'' hr'' => ?_)
        try dsimp only
        exact Adq.pure (by simp at hr; omega)
      · exact Adq.perr _
  bin m ts hf := by
    rw [parseBinaryPrec]
    refine Adq.bind (ih.operand ts (by omega)) (fun l r hr => ?_)
    try dsimp only
    exact (ih.loop m l r (by omega)).weaken (by intro x hx; omega)
  loop m l ts hf := by
    rw [parseLoop]
    have hfit := peekBinary_fits ts
    split
    · exact Adq.pure (Nat.le_refl _)
    · rename_i hp; rw [hp] at hfit; simp only [peekFits] at hfit
      exact (ih.loop m _ (ts.drop 2) (by simp; omega)).weaken (by intro x hx; simp at hx; omega)
    · rename_i neg w hp; rw [hp] at hfit; simp only [peekFits] at hfit
      split
      · exact Adq.pure (Nat.le_refl _)
      · dsimp only
        have hbad : Adq ts.length 0 (do
            let (right, r'') ← parseBinaryPrec f (precCompare + 1) (ts.drop w)
            parseLoop f m (.badBinary l right) r'') := by
          refine Adq.bind (ih.bin _ (ts.drop w) (by simp; omega)) (fun right r'' hr'' => ?_)
          try dsimp only
          simp only [List.length_drop] at hr''
          exact (ih.loop m _ r'' (by omega)).weaken (by intro x hx; omega)
        split
        · rename_i n r' hdrop
          have hlen : r'.length + 1 + w = ts.length := by
            have := congrArg List.length hdrop; simp at this; omega
          split
          · refine Adq.bind (ih.test l neg n.val r' (by omega)) (fun e r'' hr'' => ?_)
            try dsimp only
            exact (ih.loop m e r'' (by omega)).weaken (by intro x hx; omega)
          · exact hbad
        · exact hbad
    · rename_i o w hp; rw [hp] at hfit; simp only [peekFits] at hfit
      split
      · exact Adq.pure (Nat.le_refl _)
      · refine Adq.bind (ih.bin _ (ts.drop w) (by simp; omega)) (fun right r hr => ?_)
        try dsimp only
        simp only [List.length_drop] at hr
        exact (ih.loop m _ r (by omega)).weaken (by intro x hx; omega)
  test l neg name ts hf := by
    unfold parseTest
    dsimp only
    cases ts with
    | nil => exact Adq.bind (Adq.pure (d := 0) (Nat.le_refl _)) (fun args r hr => Adq.pure hr)
    | cons t r' =>
      dsimp only
      split
      · refine Adq.bind (ih.args _ _ r' (by simp at hf; omega)) (fun args r hr => ?_)
        try dsimp only
        exact Adq.pure (by simp; omega)
      · exact Adq.bind (Adq.pure (d := 0) (Nat.le_refl _)) (fun args r hr => Adq.pure hr)
  args close msg ts hf := by
    rw [parseArgs.eq_def]
    cases ts with
    | nil => exact Adq.perr _
    | cons t r =>
      dsimp only
      split
      · exact Adq.pure (by simp)
      · exact (ih.argsLoop close msg (t :: r) (by omega)).weaken (by intro x hx; omega)
  argsLoop close msg ts hf := by
    rw [parseArgsLoop]
    refine Adq.bind (ih.expr ts (by omega)) (fun e r hr => ?_)
    dsimp only
    cases r with
    | nil => exact Adq.perr _
    | cons t r' =>
      dsimp only
      split
      · refine Adq.bind (ih.argsLoop close msg r' (by simp at hr; omega)) (fun es r'' hr'' => ?_)
        try dsimp only
        exact Adq.pure (by simp at hr; omega)
      · split
        · exact Adq.pure (by simp at hr; omega)
        · exact Adq.perr _
  operand ts hf := by
    rw [parseOperand]
    refine Adq.bind (ih.simple ts (by omega)) (fun e r hr => ?_)
    try dsimp only
    exact (ih.suffix e r (by omega)).weaken (by intro x hx; omega)
  suffix e ts hf := by
    rw [parseSuffix.eq_def]
    cases ts with
    | nil => exact Adq.pure (Nat.le_refl _)
    | cons t r =>
      dsimp only
      split
      · refine Adq.bind (ih.expr r (by simp at hf; omega)) (fun i r' hr' => ?_)
        dsimp only
        cases r' with
        | nil => exact Adq.perr _
        | cons c r'' =>
          dsimp only
          split
          · exact (ih.suffix _ r'' (by simp at hr' hf; omega)).weaken (by intro x hx; simp at hr' ⊢; omega)
          · exact Adq.perr _
      · split
        · rename_i hbar
          refine Adq.bind (ih.filtersBar e t r hbar (by omega)) (fun e' r' hr' => ?_)
          exact (ih.suffix e' r' (by simp at hr' hf; omega)).weaken (by intro x hx; omega)
        · exact Adq.pure (Nat.le_refl _)
  subs e ts hf := by
    rw [parseSubs.eq_def]
    cases ts with
    | nil => exact Adq.pure (Nat.le_refl _)
    | cons t r =>
      dsimp only
      split
      · refine Adq.bind (ih.expr r (by simp at hf; omega)) (fun i r' hr' => ?_)
        dsimp only
        cases r' with
        | nil => exact Adq.perr _
        | cons c r'' =>
          dsimp only
          split
          · exact (ih.subs _ r'' (by simp at hr' hf; omega)).weaken (by intro x hx; simp at hr' ⊢; omega)
          · exact Adq.perr _
      · exact Adq.pure (Nat.le_refl _)
  filters e ts hf := by
    cases ts with
    | nil => unfold parseFilters; exact Adq.pure (Nat.le_refl _)
    | cons t r =>
      by_cases hbar : isP t 124 = true
      · exact (adqFiltersBar f ih e t r hbar hf).weaken (by intro x hx; omega)
      · unfold parseFilters
        dsimp only
        rw [if_neg hbar]
        exact Adq.pure (Nat.le_refl _)
  filtersBar e t r hbar hf := adqFiltersBar f ih e t r hbar hf
  simple ts hf := by
    rw [parseSimple.eq_def]
    cases ts with
    | nil => exact Adq.perr _
    | cons t r =>
      dsimp only
      have hun : ∀ u : UnOp, Adq (t :: r).length 1 (do
          let (e, r') ← parseSimple f r; let (e', r'') ← parseSubs f e r'; Pure.pure (Expr.unary u e', r'')) := by
        intro u
        refine Adq.bind (ih.simple r (by simp at hf; omega)) (fun e r' hr' => ?_)
        try dsimp only
        refine Adq.bind (ih.subs e r' (by simp at hf; omega)) (fun e' r'' hr'' => ?_)
        try dsimp only
        exact Adq.pure (by simp; omega)
      have hlit : ∀ x : Expr, Adq (t :: r).length 1 (Pure.pure (x, r) : R (Expr × List Token)) :=
        fun x => Adq.pure (by simp)
      by_cases h1 : isName t "not" = true
      · rw [if_pos h1]; exact hun _
      rw [if_neg h1]
      by_cases h2 : (t.kind == OPERATOR && t.val == [45]) = true
      · rw [if_pos h2]; exact hun _
      rw [if_neg h2]
      by_cases h3 : (t.kind == OPERATOR && t.val == [43]) = true
      · rw [if_pos h3]; exact hun _
      rw [if_neg h3]
      by_cases h4 : (t.kind == STRING) = true
      · rw [if_pos h4]; exact hlit _
      rw [if_neg h4]
      by_cases h5 : (t.kind == NUMBER) = true
      · rw [if_pos h5]; exact hlit _
      rw [if_neg h5]
      by_cases h6 : (t.kind == NAME) = true
      · rw [if_pos h6]
        by_cases h7 : (t.val == b "true") = true
        · rw [if_pos h7]; exact hlit _
        rw [if_neg h7]
        by_cases h8 : (t.val == b "false") = true
        · rw [if_pos h8]; exact hlit _
        rw [if_neg h8]
        by_cases h9 : (t.val == b "null" || t.val == b "nil") = true
        · rw [if_pos h9]; exact hlit _
        rw [if_neg h9]
        cases r with
        | nil => exact Adq.pure (by simp)
        | cons p r' =>
          dsimp only
          split
          · refine Adq.bind (ih.args _ _ r' (by simp at hf; omega)) (fun args r'' hr'' => ?_)
            try dsimp only
            exact Adq.pure (by simp; omega)
          · exact (ih.attrs _ (p :: r') (by simp at hf ⊢; omega)).weaken (by intro x hx; simp at hx ⊢; omega)
      rw [if_neg h6]
      by_cases h10 : isP t 91 = true
      · rw [if_pos h10]
        refine Adq.bind (ih.args _ _ r (by simp at hf; omega)) (fun items r' hr' => ?_)
        try dsimp only
        exact Adq.pure (by simp; omega)
      rw [if_neg h10]
      by_cases h11 : isP t 123 = true
      · rw [if_pos h11]
        exact (ih.map r (by simp at hf; omega)).weaken (by intro x hx; simp; omega)
      rw [if_neg h11]
      by_cases h12 : isP t 40 = true
      · rw [if_pos h12]
        refine Adq.bind (ih.expr r (by simp at hf; omega)) (fun e r' hr' => ?_)
        dsimp only
        cases r' with
        | nil => exact Adq.perr _
        | cons c r'' =>
          dsimp only
          split
          · exact Adq.pure (by simp at hr' ⊢; omega)
          · exact Adq.perr _
      rw [if_neg h12]
      exact Adq.perr _
  attrs e ts hf := by
    rw [parseAttrs.eq_def]
    cases ts with
    | nil => exact Adq.pure (Nat.le_refl _)
    | cons d r =>
      dsimp only
      split
      · cases r with
        | nil => exact Adq.perr _
        | cons n r' =>
          dsimp only
          split
          · cases r' with
            | nil => exact (ih.attrs _ [] (by simp at hf ⊢; omega)).weaken (by intro x hx; simp at hx ⊢; omega)
            | cons p r'' =>
              dsimp only
              split
              · refine Adq.bind (ih.args _ _ r'' (by simp at hf; omega)) (fun args r3 hr3 => ?_)
                try dsimp only
                exact (ih.attrs _ r3 (by simp at hf; omega)).weaken (by intro x hx; simp; omega)
              · exact (ih.attrs _ (p :: r'') (by simp at hf ⊢; omega)).weaken (by intro x hx; simp at hx ⊢; omega)
          · exact Adq.perr _
      · exact Adq.pure (Nat.le_refl _)
  map ts hf := by
    rw [parseMap.eq_def]
    cases ts with
    | nil => exact Adq.perr _
    | cons t r =>
      dsimp only
      split
      · exact Adq.pure (by simp)
      · refine Adq.bind (ih.mapLoop (t :: r) (by omega)) (fun kvs r' hr' => ?_)
        try dsimp only
        exact Adq.pure (by omega)
  mapLoop ts hf := by
    rw [parseMapLoop]
    refine Adq.bind (ih.expr ts (by omega)) (fun k r hr => ?_)
    dsimp only
    cases r with
    | nil => exact Adq.perr _
    | cons c r1 =>
      dsimp only
      split
      · refine Adq.bind (ih.expr r1 (by simp at hr; omega)) (fun v r2 hr2 => ?_)
        dsimp only
        cases r2 with
        | nil => exact Adq.perr _
        | cons t r3 =>
          dsimp only
          split
          · refine Adq.bind (ih.mapLoop r3 (by simp at hr hr2; omega)) (fun kvs r4 hr4 => ?_)
            try dsimp only
            exact Adq.pure (by simp at hr hr2; omega)
          · split
            · exact Adq.pure (by simp at hr hr2; omega)
            · exact Adq.perr _
      · exact Adq.perr _


theorem adqAt : ∀ f, AdqAt f
  | 0 => adqAt_zero
  | f+1 => adqAt_succ f (adqAt f)

/-- `exprFuel` (indeed `8·|ts| + 4`) is adequate on EVERY token list: the parser never reports out-of-fuel, and a
    successful parse consumes at least one token -/
theorem parseExpression_adequate (ts : List Token) {f : Nat} (hf : 8 * ts.length + 4 ≤ f) :
    Adq ts.length 1 (parseExpression f ts) := (adqAt f).expr ts hf

theorem exprFuel_adequate (ts : List Token) : 8 * ts.length + 4 ≤ exprFuel ts := by
  simp [exprFuel]

/-- hence the result at `exprFuel` is the result at any larger fuel -/
theorem parseExpression_fuel_irrelevant (ts : List Token) {f : Nat} (hf : exprFuel ts ≤ f) :
    parseExpression f ts = parseExpression (exprFuel ts) ts :=
  parseExpression_mono rfl (parseExpression_adequate ts (exprFuel_adequate ts)).ne_fuel hf

/-! ## A subscript binds tighter than a prefix operator (`parseSubscript` in `parseSimpleExpression`) -/

def lbTok : Token := tk PUNCT [91]
def rbTok : Token := tk PUNCT [93]

/-- the next token is not `[` -/
def NoSubscript : List Token → Bool
  | [] => true
  | t :: _ => !isP t 91

theorem noSubscript_of_noSuffix {rest : List Token} (h : NoSuffix rest = true) : NoSubscript rest = true := by
  cases rest with
  | nil => rfl
  | cons t r => simp_all [NoSuffix, NoSubscript]

theorem noSubscript_of_stop {rest : List Token} (h : Stop rest = true) : NoSubscript rest = true :=
  noSubscript_of_noSuffix (stop_noSuffix h)

/-- the subscript loop stops at anything but `[` (a filter bar included) -/
theorem parseSubs_stop {rest : List Token} (h : NoSubscript rest = true) (f : Nat) (e : Expr) :
    parseSubs (f+1) e rest = .ok (e, rest) := by
  rw [parseSubs.eq_def]
  cases rest with
  | nil => rfl
  | cons t r => simp_all [NoSubscript, pure, Except.pure]

/-- one `[index]` is read by the subscript loop, which goes on behind the `]` -/
theorem parseSubs_one {i : Expr} {ti rest : List Token} {f : Nat} (e : Expr)
    (hi : parseExpression f (ti ++ rbTok :: rest) = .ok (i, rbTok :: rest)) :
    parseSubs (f+1) e (lbTok :: (ti ++ rbTok :: rest)) = parseSubs f (.item e i) rest := by
  have h1 : isP lbTok 91 = true := by decide
  have h2 : isP rbTok 93 = true := by decide
  rw [parseSubs]
  simp only [h1, if_true, hi, bind, Except.bind, h2]

/-- without a subscript behind the operand a prefix operator reads what it read before the repair -/
theorem parseSimple_unary_plain (u : UnOp) {e : Expr} {to rest : List Token} {fe : Nat}
    (he : parseSimple fe (to ++ rest) = .ok (e, rest)) (hr : NoSubscript rest = true) :
    ∀ f, fe + 2 ≤ f → parseSimple f (unTok u :: (to ++ rest)) = .ok (.unary u e, rest) := by
  intro f hf
  obtain ⟨g, rfl⟩ : ∃ g, f = g + 2 := ⟨f - 2, by omega⟩
  rw [parseSimple_unary, parseSimple_mono he ok_ne_fuel (by omega)]
  simp only [bind, Except.bind]
  rw [parseSubs_stop hr]
  rfl

/-- `u operand [ index ]`: the subscript goes onto the operand, the prefix operator onto the subscripted operand -/
theorem parseSimple_unary_subscript (u : UnOp) {e i : Expr} {to ti rest : List Token} {fe fi : Nat}
    (he : parseSimple fe (to ++ lbTok :: (ti ++ rbTok :: rest)) = .ok (e, lbTok :: (ti ++ rbTok :: rest)))
    (hi : parseExpression fi (ti ++ rbTok :: rest) = .ok (i, rbTok :: rest))
    (hr : NoSubscript rest = true) :
    ∀ f, fe + fi + 3 ≤ f →
      parseSimple f (unTok u :: (to ++ lbTok :: (ti ++ rbTok :: rest))) = .ok (.unary u (.item e i), rest) := by
  intro f hf
  obtain ⟨g, rfl⟩ : ∃ g, f = g + 3 := ⟨f - 3, by omega⟩
  rw [parseSimple_unary, parseSimple_mono he ok_ne_fuel (by omega)]
  simp only [bind, Except.bind]
  rw [parseSubs_one e (parseExpression_mono hi ok_ne_fuel (show fi ≤ g + 1 by omega)), parseSubs_stop hr]
  rfl

/-- the tokens of a chain of subscripts `[i1][i2]…` -/
def subsToks : List (List Token) → List Token
  | [] => []
  | ti :: more => lbTok :: (ti ++ rbTok :: subsToks more)

/-- `e[i1][i2]…` -/
def itemChain (e : Expr) : List Expr → Expr
  | [] => e
  | i :: more => itemChain (.item e i) more

/-- `ti` is read as the index expression `i` in front of a closing bracket, whatever follows it -/
def IndexOk (f : Nat) (i : Expr) (ti : List Token) : Prop :=
  ∀ tail, parseExpression f (ti ++ rbTok :: tail) = .ok (i, rbTok :: tail)

theorem indexOk_of_spellsX {i : Expr} {ti : List Token} (h : SpellsX i ti) {f : Nat} (hf : 4 * ti.length + 2 ≤ f) :
    IndexOk f i ti :=
  fun tail => parseExpression_spellsX h (rbTok :: tail) (by simp [Stop, rbTok, tk, PUNCT, VAR_END, BLOCK_END, EOF]) f hf

theorem parseSubs_chain (f : Nat) : ∀ (idx : List (Expr × List Token)) (e : Expr) (rest : List Token),
    (∀ p ∈ idx, IndexOk f p.1 p.2) → NoSubscript rest = true →
    parseSubs (f + idx.length + 1) e (subsToks (idx.map (·.2)) ++ rest) = .ok (itemChain e (idx.map (·.1)), rest)
  | [], e, rest, _, hr => parseSubs_stop hr _ e
  | p :: more, e, rest, h, hr => by
    simp only [List.map_cons, subsToks, itemChain, List.length_cons, List.cons_append, List.append_assoc]
    have hi := parseExpression_mono (h p (by simp) (subsToks (more.map (·.2)) ++ rest)) ok_ne_fuel
      (show f ≤ f + more.length + 1 by omega)
    rw [show f + (more.length + 1) + 1 = (f + more.length + 1) + 1 by omega, parseSubs_one e hi]
    exact parseSubs_chain f more _ rest (fun q hq => h q (by simp [hq])) hr

/-- `u operand [i1][i2]…` -/
theorem parseSimple_unary_chain (u : UnOp) {e : Expr} {to rest : List Token} {f0 : Nat} (idx : List (Expr × List Token))
    (he : parseSimple f0 (to ++ (subsToks (idx.map (·.2)) ++ rest)) = .ok (e, subsToks (idx.map (·.2)) ++ rest))
    (hidx : ∀ p ∈ idx, IndexOk f0 p.1 p.2) (hr : NoSubscript rest = true) :
    ∀ f, f0 + idx.length + 2 ≤ f →
      parseSimple f (unTok u :: (to ++ (subsToks (idx.map (·.2)) ++ rest))) =
        .ok (.unary u (itemChain e (idx.map (·.1))), rest) := by
  intro f hf
  obtain ⟨g, rfl⟩ : ∃ g, f = g + 1 := ⟨f - 1, by omega⟩
  rw [parseSimple_unary, parseSimple_mono he ok_ne_fuel (by omega)]
  simp only [bind, Except.bind]
  rw [parseSubs_mono (parseSubs_chain f0 idx e rest hidx hr) ok_ne_fuel (by omega)]
  rfl

/-- what `parseSimpleExpression` reads is the whole expression when the context ends it -/
theorem parseExpression_of_simple {e : Expr} {ts rest : List Token} {f0 : Nat}
    (h : parseSimple f0 ts = .ok (e, rest)) (hs : Stop rest = true) :
    ∀ f, f0 + 4 ≤ f → parseExpression f ts = .ok (e, rest) := by
  intro f hf
  obtain ⟨g, rfl⟩ : ∃ g, f = g + 4 := ⟨f - 4, by omega⟩
  have h1 : parseSimple (g+1) ts = .ok (e, rest) := parseSimple_mono h ok_ne_fuel (by omega)
  have h2 : parseOperand (g+2) ts = .ok (e, rest) := by
    rw [parseOperand, h1]; simp only [bind, Except.bind]; exact parseSuffix_none (stop_noSuffix hs) _ _
  have h3 : parseBinaryPrec (g+3) 1 ts = .ok (e, rest) := by
    rw [parseBinaryPrec_succ, h2]; simp only [bind, Except.bind]
    exact parseLoop_stop (stop_hd hs 0) Nat.zero_lt_one _ _
  rw [parseExpression, h3]
  cases rest with
  | nil => rfl
  | cons t r => simp [bind, Except.bind, stop_isP hs, pure, Except.pure]

/-- a result obtained with some fuel is the result with the model's fuel -/
theorem parseExpression_exprFuel_of {ts : List Token} {f : Nat} {v : Expr × List Token}
    (h : parseExpression f ts = .ok v) : parseExpression (exprFuel ts) ts = .ok v := by
  have h1 : parseExpression (max f (exprFuel ts)) ts = .ok v := parseExpression_mono h ok_ne_fuel (Nat.le_max_left _ _)
  rw [← parseExpression_fuel_irrelevant ts (Nat.le_max_right f (exprFuel ts)), h1]

end Twig.PE
