/-
  Lemmas for property C19 (built-in filters): the UTF-8 codec round trip, splitting and joining,
  trimming, association lists, digit grouping.  Core Lean only.
-/
import TwigModel.Filters

namespace Twig.Flt

open Utf8

/-! ## UTF-8 codec -/
namespace Utf8

theorem decodeN_ascii (a : Nat) (t : List Nat) (h : a < 0x80) : decodeN (a :: t) = a :: decodeN t := by
  rw [decodeN.eq_def]; simp [h]
theorem decodeN_two (a b r : Nat) (t : List Nat) (h : ¬ a < 0x80) (h2 : dec2 a b = some r) :
    decodeN (a :: b :: t) = r :: decodeN t := by
  rw [decodeN.eq_def]; simp [h, h2]
theorem decodeN_three (a b c r : Nat) (t : List Nat) (h : ¬ a < 0x80) (h2 : dec2 a b = none)
    (h3 : dec3 a b c = some r) : decodeN (a :: b :: c :: t) = r :: decodeN t := by
  rw [decodeN.eq_def]; simp [h, h2, h3]
theorem decodeN_four (a b c d r : Nat) (t : List Nat) (h : ¬ a < 0x80) (h2 : dec2 a b = none)
    (h3 : dec3 a b c = none) (h4 : dec4 a b c d = some r) :
    decodeN (a :: b :: c :: d :: t) = r :: decodeN t := by
  rw [decodeN.eq_def]; simp [h, h2, h3, h4]

theorem dec2_enc (r : Nat) (h1 : ¬ r < 0x80) (h2 : r < 0x800) : dec2 (0xC0 + r / 64) (0x80 + r % 64) = some r := by
  have e : (0xC0 + r / 64 - 0xC0) * 64 + (0x80 + r % 64 - 0x80) = r := by omega
  unfold dec2; rw [if_pos (by omega), e]
theorem dec3_enc (r : Nat) (h1 : ¬ r < 0x800) (h2 : r < 0x10000) (h3 : ¬ (0xD800 ≤ r ∧ r < 0xE000)) :
    dec3 (0xE0 + r / 4096) (0x80 + (r / 64) % 64) (0x80 + r % 64) = some r := by
  have e : (0xE0 + r / 4096 - 0xE0) * 4096 + (0x80 + (r / 64) % 64 - 0x80) * 64 + (0x80 + r % 64 - 0x80) = r := by omega
  unfold dec3; rw [if_pos (by omega), e]
theorem dec4_enc (r : Nat) (h1 : ¬ r < 0x10000) (h2 : r < 0x110000) :
    dec4 (0xF0 + r / 262144) (0x80 + (r / 4096) % 64) (0x80 + (r / 64) % 64) (0x80 + r % 64) = some r := by
  have e : (0xF0 + r / 262144 - 0xF0) * 262144 + (0x80 + (r / 4096) % 64 - 0x80) * 4096 +
      (0x80 + (r / 64) % 64 - 0x80) * 64 + (0x80 + r % 64 - 0x80) = r := by omega
  unfold dec4; rw [if_pos (by omega), e]

/-- decoding what `EncodeRune` wrote gives the rune back, whatever follows -/
theorem decodeN_encodeRuneN (r : Nat) (t : List Nat) (h : validScalar r) :
    decodeN (encodeRuneN r ++ t) = r :: decodeN t := by
  unfold encodeRuneN validScalar at *
  split
  · rename_i h0; exact decodeN_ascii r t h0
  · split
    · exact decodeN_two _ _ _ _ (by omega) (dec2_enc r (by omega) (by omega))
    · split
      · omega
      · split
        · exact decodeN_three _ _ _ _ _ (by omega) (by unfold dec2; rw [if_neg (by omega)])
            (dec3_enc r (by omega) (by omega) (by omega))
        · exact decodeN_four _ _ _ _ _ _ (by omega) (by unfold dec2; rw [if_neg (by omega)])
            (by unfold dec3; rw [if_neg (by omega)]) (dec4_enc r (by omega) (by omega))

theorem decodeN_encodeN (rs : List Nat) (h : ∀ r ∈ rs, validScalar r) : decodeN (encodeN rs) = rs := by
  induction rs with
  | nil => simp [encodeN, decodeN]
  | cons r rs ih =>
    have : encodeN (r :: rs) = encodeRuneN r ++ encodeN rs := by simp [encodeN]
    rw [this, decodeN_encodeRuneN r _ (h r (by simp)), ih (fun x hx => h x (by simp [hx]))]

theorem dec2_valid {a b r : Nat} (h : dec2 a b = some r) : validScalar r := by
  unfold dec2 at h; split at h
  · simp at h; unfold validScalar; omega
  · simp at h
theorem dec3_valid {a b c r : Nat} (h : dec3 a b c = some r) : validScalar r := by
  unfold dec3 at h; split at h
  · simp at h; unfold validScalar; omega
  · simp at h
theorem dec4_valid {a b c d r : Nat} (h : dec4 a b c d = some r) : validScalar r := by
  unfold dec4 at h; split at h
  · simp at h; unfold validScalar; omega
  · simp at h

theorem runeError_valid : validScalar runeError := by unfold validScalar runeError; omega

/-- `DecodeRune` only ever returns scalar values -/
theorem decodeN_valid (l : List Nat) : ∀ r ∈ decodeN l, validScalar r := by
  fun_induction decodeN l
  case case1 => simp
  case case2 d t h ih =>
    intro r hr; rcases List.mem_cons.mp hr with rfl | hr
    · unfold validScalar; omega
    · exact ih r hr
  case case3 => intro r hr; simp at hr; subst hr; exact runeError_valid
  case case4 a _ b t r0 h2 _ ih =>
    intro r hr; rcases List.mem_cons.mp hr with rfl | hr
    · exact dec2_valid h2
    · exact ih r hr
  case case5 ih =>
    intro r hr; rcases List.mem_cons.mp hr with rfl | hr
    · exact runeError_valid
    · exact ih r hr
  case case6 r0 h3 _ ih =>
    intro r hr; rcases List.mem_cons.mp hr with rfl | hr
    · exact dec3_valid h3
    · exact ih r hr
  case case7 ih =>
    intro r hr; rcases List.mem_cons.mp hr with rfl | hr
    · exact runeError_valid
    · exact ih r hr
  case case8 r0 h4 _ ih =>
    intro r hr; rcases List.mem_cons.mp hr with rfl | hr
    · exact dec4_valid h4
    · exact ih r hr
  case case9 ih =>
    intro r hr; rcases List.mem_cons.mp hr with rfl | hr
    · exact runeError_valid
    · exact ih r hr

/-! ### byte level -/

theorem toNats_ofNats (l : List Nat) (h : ∀ x ∈ l, x < 256) : toNats (ofNats l) = l := by
  induction l with
  | nil => rfl
  | cons x xs ih =>
    have hx : x < 256 := h x (by simp)
    simp only [toNats, ofNats, List.map_cons, List.cons.injEq] at *
    refine ⟨?_, ih (fun y hy => h y (by simp [hy]))⟩
    simp [Nat.toUInt8, UInt8.toNat_ofNat', Nat.mod_eq_of_lt hx]

theorem ofNats_toNats (s : Bytes) : ofNats (toNats s) = s := by
  induction s with
  | nil => rfl
  | cons x xs ih => simp only [toNats, ofNats, List.map_cons, List.cons.injEq] at *; exact ⟨by simp [Nat.toUInt8], ih⟩

theorem encodeRuneN_lt (r : Nat) : ∀ x ∈ encodeRuneN r, x < 256 := by
  unfold encodeRuneN; intro x hx
  (repeat' split at hx) <;> simp at hx <;> omega

theorem encodeN_lt (rs : List Nat) : ∀ x ∈ encodeN rs, x < 256 := by
  intro x hx; simp only [encodeN, List.mem_flatMap] at hx
  obtain ⟨r, _, hr⟩ := hx; exact encodeRuneN_lt r x hr

/-- `[]rune(string(rs)) = rs` for scalar values -/
theorem decodeRunes_encodeRunes (rs : List Nat) (h : ∀ r ∈ rs, validScalar r) :
    decodeRunes (encodeRunes rs) = rs := by
  unfold decodeRunes encodeRunes
  rw [toNats_ofNats _ (encodeN_lt rs)]; exact decodeN_encodeN rs h

theorem decodeRunes_valid (s : Bytes) : ∀ r ∈ decodeRunes s, validScalar r := decodeN_valid _

theorem encodeRunes_append (a b : List Nat) : encodeRunes (a ++ b) = encodeRunes a ++ encodeRunes b := by
  simp [encodeRunes, encodeN, ofNats]

/-- everything a rune-level filter returns is valid UTF-8 -/
theorem validUtf8_encodeRunes (rs : List Nat) (h : ∀ r ∈ rs, validScalar r) : validUtf8 (encodeRunes rs) := by
  unfold validUtf8 sanitize; rw [decodeRunes_encodeRunes rs h]

theorem sanitize_idem (s : Bytes) : sanitize (sanitize s) = sanitize s :=
  validUtf8_encodeRunes _ (decodeRunes_valid s)

theorem runeCount_sanitize (s : Bytes) : runeCount (sanitize s) = runeCount s := by
  unfold runeCount sanitize; rw [decodeRunes_encodeRunes _ (decodeRunes_valid s)]

end Utf8

/-! ## splitting and joining -/
section Split
variable {α : Type}

theorem splitP_ne_nil (p : α → Bool) (l : List α) : splitP p l ≠ [] := by
  induction l with
  | nil => simp [splitP]
  | cons x xs ih =>
    unfold splitP; split
    · simp
    · split <;> simp

/-- a piece without separators is one field -/
theorem splitP_no_sep (p : α → Bool) (w : List α) (h : ∀ x ∈ w, p x = false) : splitP p w = [w] := by
  induction w with
  | nil => rfl
  | cons x xs ih =>
    have hx : p x = false := h x (by simp)
    have := ih (fun y hy => h y (by simp [hy]))
    unfold splitP; simp [hx, this]

theorem splitP_append_sep (p : α → Bool) (w : List α) (s : α) (rest : List α)
    (h : ∀ x ∈ w, p x = false) (hs : p s = true) :
    splitP p (w ++ s :: rest) = w :: splitP p rest := by
  induction w with
  | nil => simp [splitP, hs]
  | cons x xs ih =>
    have hx : p x = false := h x (by simp)
    have := ih (fun y hy => h y (by simp [hy]))
    simp only [List.cons_append]
    rw [splitP]; simp [hx, this]

/-- `strings.Split(strings.Join(ws, sep), sep) = ws` for a one-element separator, a non-empty list and
    separator-free words -/
theorem splitP_joinWith (p : α → Bool) (s : α) (hs : p s = true) (ws : List (List α)) (hne : ws ≠ [])
    (h : ∀ w ∈ ws, ∀ x ∈ w, p x = false) : splitP p (joinWith [s] ws) = ws := by
  induction ws with
  | nil => exact absurd rfl hne
  | cons w rest ih =>
    cases rest with
    | nil => simp [joinWith]; exact splitP_no_sep p w (h w (by simp))
    | cons w2 rest2 =>
      have ih' := ih (by simp) (fun w' hw' => h w' (by simp [hw']))
      simp only [joinWith, List.append_assoc, List.singleton_append]
      rw [splitP_append_sep p w s _ (h w (by simp)) hs, ih']

/-- the fields contain no separator -/
theorem splitP_mem_no_sep (p : α → Bool) (l : List α) : ∀ w ∈ splitP p l, ∀ x ∈ w, p x = false := by
  induction l with
  | nil => simp [splitP]
  | cons y ys ih =>
    intro w hw x hx
    unfold splitP at hw
    split at hw
    · rcases List.mem_cons.mp hw with rfl | hw
      · simp at hx
      · exact ih w hw x hx
    · rename_i hy
      split at hw
      · simp at hw; subst hw; simp at hx; subst hx; simpa using hy
      · rename_i hd tl heq
        rcases List.mem_cons.mp hw with rfl | hw
        · rcases List.mem_cons.mp hx with rfl | hx
          · simpa using hy
          · exact ih hd (by rw [heq]; simp) x hx
        · exact ih w (by rw [heq]; simp [hw]) x hx

/-- the fields are made of elements of the input -/
theorem splitP_mem_sub (p : α → Bool) (l : List α) : ∀ w ∈ splitP p l, ∀ x ∈ w, x ∈ l := by
  induction l with
  | nil => simp [splitP]
  | cons y ys ih =>
    intro w hw x hx
    unfold splitP at hw
    split at hw
    · rcases List.mem_cons.mp hw with rfl | hw
      · simp at hx
      · exact List.mem_cons_of_mem _ (ih w hw x hx)
    · split at hw
      · simp at hw; subst hw; simp at hx; subst hx; simp
      · rename_i hd tl heq
        rcases List.mem_cons.mp hw with rfl | hw
        · rcases List.mem_cons.mp hx with rfl | hx
          · simp
          · exact List.mem_cons_of_mem _ (ih hd (by rw [heq]; simp) x hx)
        · exact List.mem_cons_of_mem _ (ih w (by rw [heq]; simp [hw]) x hx)

theorem mem_joinWith (sep : List α) (ws : List (List α)) (x : α) (hx : x ∈ joinWith sep ws) :
    x ∈ sep ∨ ∃ w ∈ ws, x ∈ w := by
  induction ws with
  | nil => simp [joinWith] at hx
  | cons w rest ih =>
    cases rest with
    | nil => simp [joinWith] at hx; exact Or.inr ⟨w, by simp, hx⟩
    | cons w2 rest2 =>
      simp only [joinWith, List.mem_append] at hx
      rcases hx with (hx | hx) | hx
      · exact Or.inr ⟨w, by simp, hx⟩
      · exact Or.inl hx
      · rcases ih hx with h | ⟨w', hw', hxw⟩
        · exact Or.inl h
        · exact Or.inr ⟨w', by simp [hw'], hxw⟩

end Split

/-! ## case mapping and capitalize on runes -/

theorem isSpace_32 : isSpaceRune 32 = true := by decide

theorem capWord_idem (cm : CaseMap) (h : cm.Lawful) (w : List Nat) (hv : ∀ r ∈ w, validScalar r) :
    capWord cm (capWord cm w) = capWord cm w := by
  cases w with
  | nil => rfl
  | cons r rs =>
    simp only [capWord, List.map_map, List.cons.injEq]
    refine ⟨h.up_idem r (hv r (by simp)), ?_⟩
    apply List.map_congr_left
    intro x hx
    exact h.low_idem x (hv x (by simp [hx]))

theorem capWord_props (cm : CaseMap) (h : cm.Lawful) (w : List Nat) (hv : ∀ r ∈ w, validScalar r)
    (hs : ∀ r ∈ w, isSpaceRune r = false) :
    (∀ r ∈ capWord cm w, validScalar r) ∧ (∀ r ∈ capWord cm w, isSpaceRune r = false) := by
  cases w with
  | nil => simp [capWord]
  | cons r rs =>
    simp only [capWord, List.mem_cons, List.mem_map]
    constructor
    · rintro x (rfl | ⟨y, hy, rfl⟩)
      · exact h.up_valid r (hv r (by simp))
      · exact h.low_valid y (hv y (by simp [hy]))
    · rintro x (rfl | ⟨y, hy, rfl⟩)
      · exact h.up_nonspace r (hv r (by simp)) (hs r (by simp))
      · exact h.low_nonspace y (hv y (by simp [hy])) (hs y (by simp [hy]))

theorem capWord_ne_nil (cm : CaseMap) (w : List Nat) (h : w ≠ []) : capWord cm w ≠ [] := by
  cases w with
  | nil => exact absurd rfl h
  | cons r rs => simp [capWord]

theorem fieldsR_props (rs : List Nat) :
    ∀ w ∈ fieldsR rs, w ≠ [] ∧ (∀ r ∈ w, isSpaceRune r = false) ∧ (∀ r ∈ w, r ∈ rs) := by
  intro w hw
  simp only [fieldsR, List.mem_filter] at hw
  refine ⟨?_, splitP_mem_no_sep _ _ w hw.1, splitP_mem_sub _ _ w hw.1⟩
  intro hnil; subst hnil; simp at hw

/-- `strings.Fields(strings.Join(ws, " ")) = ws` for non-empty space-free words -/
theorem fieldsR_joinWith (ws : List (List Nat)) (h : ∀ w ∈ ws, w ≠ [] ∧ ∀ r ∈ w, isSpaceRune r = false) :
    fieldsR (joinWith [32] ws) = ws := by
  by_cases hne : ws = []
  · subst hne; simp [joinWith, fieldsR, splitP]
  · unfold fieldsR
    rw [splitP_joinWith isSpaceRune 32 isSpace_32 ws hne (fun w hw => (h w hw).2)]
    apply List.filter_eq_self.mpr
    intro w hw
    have := (h w hw).1
    cases w with
    | nil => exact absurd rfl this
    | cons _ _ => rfl

theorem capR_valid (cm : CaseMap) (h : cm.Lawful) (rs : List Nat) (hv : ∀ r ∈ rs, validScalar r) :
    ∀ r ∈ capR cm rs, validScalar r := by
  intro r hr
  rcases mem_joinWith _ _ r hr with hsep | ⟨w', hw', hrw⟩
  · simp at hsep; subst hsep; unfold validScalar; omega
  · obtain ⟨w, hw, rfl⟩ := List.mem_map.mp hw'
    have p := fieldsR_props rs w hw
    exact (capWord_props cm h w (fun x hx => hv x (p.2.2 x hx)) p.2.1).1 r hrw

/-- capitalize is idempotent on runes -/
theorem capR_idem (cm : CaseMap) (h : cm.Lawful) (rs : List Nat) (hv : ∀ r ∈ rs, validScalar r) :
    capR cm (capR cm rs) = capR cm rs := by
  unfold capR
  have key : ∀ w' ∈ (fieldsR rs).map (capWord cm), w' ≠ [] ∧ ∀ r ∈ w', isSpaceRune r = false := by
    intro w' hw'
    obtain ⟨w, hw, rfl⟩ := List.mem_map.mp hw'
    have p := fieldsR_props rs w hw
    exact ⟨capWord_ne_nil cm w p.1, (capWord_props cm h w (fun x hx => hv x (p.2.2 x hx)) p.2.1).2⟩
  rw [fieldsR_joinWith _ key, List.map_map]
  congr 1
  apply List.map_congr_left
  intro w hw
  have p := fieldsR_props rs w hw
  exact capWord_idem cm h w (fun x hx => hv x (p.2.2 x hx))


/-! ## trimming -/

theorem stripOne_none_iff (encs : List Bytes) (s : Bytes) :
    stripOne encs s = none ↔ ∀ e ∈ encs, e.isPrefixOf s = false := by
  simp only [stripOne, Option.map_eq_none_iff, List.find?_eq_none]
  constructor
  · intro h e he
    have := h e he
    cases hp : e.isPrefixOf s with
    | false => rfl
    | true => simp [hp] at this
  · intro h e he; simp [h e he]

theorem stripOne_length (encs : List Bytes) (hne : ∀ e ∈ encs, e ≠ []) (s r : Bytes)
    (h : stripOne encs s = some r) : r.length < s.length := by
  simp only [stripOne, Option.map_eq_some_iff] at h
  obtain ⟨e, he, rfl⟩ := h
  have hmem := List.mem_of_find?_eq_some he
  have hpre : e.isPrefixOf s = true := by simpa using List.find?_some he
  have hle : e.length ≤ s.length := (List.isPrefixOf_iff_prefix.mp hpre).length_le
  have : 0 < e.length := List.length_pos_iff.mpr (hne e hmem)
  simp only [List.length_drop]; omega

theorem trimLeftF_of_none (encs : List Bytes) (n : Nat) (s : Bytes) (h : stripOne encs s = none) :
    trimLeftF encs n s = s := by
  cases n <;> simp [trimLeftF, h]

/-- with enough fuel the result has no leading space -/
theorem trimLeftF_fixed (encs : List Bytes) (hne : ∀ e ∈ encs, e ≠ []) :
    ∀ (n : Nat) (s : Bytes), s.length ≤ n → stripOne encs (trimLeftF encs n s) = none := by
  intro n
  induction n with
  | zero =>
    intro s hs
    have : s = [] := List.eq_nil_of_length_eq_zero (by omega)
    subst this
    simp only [trimLeftF]
    rw [stripOne_none_iff]
    intro e he
    have := hne e he
    cases e with
    | nil => exact absurd rfl this
    | cons _ _ => rfl
  | succ n ih =>
    intro s hs
    simp only [trimLeftF]
    cases hst : stripOne encs s with
    | none => simpa using hst
    | some r =>
      have := stripOne_length encs hne s r hst
      exact ih r (by omega)

theorem trimLeft_fixed (encs : List Bytes) (hne : ∀ e ∈ encs, e ≠ []) (s : Bytes) :
    stripOne encs (trimLeft encs s) = none := trimLeftF_fixed encs hne _ s (Nat.le_refl _)

theorem trimLeft_idem (encs : List Bytes) (hne : ∀ e ∈ encs, e ≠ []) (s : Bytes) :
    trimLeft encs (trimLeft encs s) = trimLeft encs s :=
  trimLeftF_of_none encs _ _ (trimLeft_fixed encs hne s)

/-- trimming only removes a prefix -/
theorem trimLeftF_suffix (encs : List Bytes) : ∀ (n : Nat) (s : Bytes), trimLeftF encs n s <:+ s := by
  intro n
  induction n with
  | zero => intro s; exact List.suffix_refl s
  | succ n ih =>
    intro s
    simp only [trimLeftF]
    cases hst : stripOne encs s with
    | none => exact List.suffix_refl s
    | some r =>
      simp only [stripOne, Option.map_eq_some_iff] at hst
      obtain ⟨e, _, rfl⟩ := hst
      exact (ih _).trans (List.drop_suffix _ _)

theorem trimRight_prefix (encs : List Bytes) (s : Bytes) : trimRight encs s <+: s := by
  unfold trimRight trimLeft
  have := trimLeftF_suffix (encs.map List.reverse) s.reverse.length s.reverse
  have h2 := List.reverse_prefix.mpr this
  simpa using h2

theorem reverse_ne_nil_all (encs : List Bytes) (hne : ∀ e ∈ encs, e ≠ []) :
    ∀ e ∈ encs.map List.reverse, e ≠ [] := by
  intro e he
  obtain ⟨e', he', rfl⟩ := List.mem_map.mp he
  simpa using hne e' he'

theorem trimRight_idem (encs : List Bytes) (hne : ∀ e ∈ encs, e ≠ []) (s : Bytes) :
    trimRight encs (trimRight encs s) = trimRight encs s := by
  unfold trimRight
  rw [List.reverse_reverse, trimLeft_idem _ (reverse_ne_nil_all encs hne)]

/-- cutting off a suffix cannot create a leading space -/
theorem stripOne_none_of_prefix (encs : List Bytes) (u t : Bytes) (hp : u <+: t)
    (h : stripOne encs t = none) : stripOne encs u = none := by
  rw [stripOne_none_iff] at *
  intro e he
  have := h e he
  cases hpre : e.isPrefixOf u with
  | false => rfl
  | true =>
    have : e <+: t := (List.isPrefixOf_iff_prefix.mp hpre).trans hp
    have := List.isPrefixOf_iff_prefix.mpr this
    simp_all

/-- `TrimSpace(TrimSpace(s)) = TrimSpace(s)` for any cut set of non-empty encodings -/
theorem trim_idem_gen (encs : List Bytes) (hne : ∀ e ∈ encs, e ≠ []) (s : Bytes) :
    trimRight encs (trimLeft encs (trimRight encs (trimLeft encs s))) = trimRight encs (trimLeft encs s) := by
  have h1 : stripOne encs (trimRight encs (trimLeft encs s)) = none :=
    stripOne_none_of_prefix encs _ _ (trimRight_prefix encs _) (trimLeft_fixed encs hne s)
  have h2 : trimLeft encs (trimRight encs (trimLeft encs s)) = trimRight encs (trimLeft encs s) :=
    trimLeftF_of_none encs _ _ h1
  rw [h2, trimRight_idem encs hne]

theorem spaceEncs_ne_nil : ∀ e ∈ spaceEncs, e ≠ [] := by decide

/-! ## association lists -/

theorem mapGet_insert (k k' : Bytes) (v : Scalar) (m : List (Bytes × Scalar)) :
    mapGet k (mapInsert k' v m) = if k' = k then some v else mapGet k m := by
  induction m with
  | nil => simp [mapInsert, mapGet]
  | cons kv rest ih =>
    obtain ⟨k2, v2⟩ := kv
    simp only [mapInsert]
    by_cases h2 : k2 = k'
    · subst h2
      by_cases h3 : k2 = k <;> simp [mapGet, h3]
    · simp only [h2, if_false, mapGet, ih]
      by_cases h3 : k2 = k
      · subst h3
        have : ¬ k' = k2 := fun h => h2 h.symm
        simp [this]
      · simp [h3]

theorem mapInsert_keys_mem (k k' : Bytes) (v : Scalar) (m : List (Bytes × Scalar)) :
    k ∈ (mapInsert k' v m).map Prod.fst ↔ k = k' ∨ k ∈ m.map Prod.fst := by
  induction m with
  | nil => simp [mapInsert]
  | cons kv rest ih =>
    obtain ⟨k2, v2⟩ := kv
    simp only [mapInsert]
    by_cases h2 : k2 = k'
    · subst h2; simp
    · simp only [h2, if_false, List.map_cons, List.mem_cons, ih]
      constructor
      · rintro (h | h | h) <;> simp [h]
      · rintro (h | h | h) <;> simp [h]

theorem mapInsert_wf (k' : Bytes) (v : Scalar) (m : List (Bytes × Scalar)) (h : MapWF m) :
    MapWF (mapInsert k' v m) := by
  unfold MapWF at *
  induction m with
  | nil => simp [mapInsert]
  | cons kv rest ih =>
    obtain ⟨k2, v2⟩ := kv
    simp only [mapInsert]
    simp only [List.map_cons, List.nodup_cons] at h
    by_cases h2 : k2 = k'
    · subst h2; simpa using h
    · simp only [h2, if_false, List.map_cons, List.nodup_cons]
      refine ⟨?_, ih h.2⟩
      intro hmem
      rcases (mapInsert_keys_mem k2 k' v rest).mp hmem with h3 | h3
      · exact h2 h3
      · exact h.1 h3

theorem mapMerge_cons (m1 : List (Bytes × Scalar)) (kv : Bytes × Scalar) (m2 : List (Bytes × Scalar)) :
    mapMerge m1 (kv :: m2) = mapMerge (mapInsert kv.1 kv.2 m1) m2 := by simp [mapMerge]

theorem mapMerge_wf (m1 m2 : List (Bytes × Scalar)) (h : MapWF m1) : MapWF (mapMerge m1 m2) := by
  induction m2 generalizing m1 with
  | nil => simpa [mapMerge] using h
  | cons kv rest ih => rw [mapMerge_cons]; exact ih _ (mapInsert_wf _ _ _ h)

theorem mapMerge_keys_mem (k : Bytes) (m1 m2 : List (Bytes × Scalar)) :
    k ∈ (mapMerge m1 m2).map Prod.fst ↔ k ∈ m1.map Prod.fst ∨ k ∈ m2.map Prod.fst := by
  induction m2 generalizing m1 with
  | nil => simp [mapMerge]
  | cons kv rest ih =>
    rw [mapMerge_cons, ih, mapInsert_keys_mem]
    simp only [List.map_cons, List.mem_cons]
    constructor
    · rintro ((h | h) | h) <;> simp [h]
    · rintro (h | h | h) <;> simp [h]

/-- lookup in an association list with unique keys is membership -/
theorem mapGet_eq_some_iff (m : List (Bytes × Scalar)) (h : MapWF m) (k : Bytes) (v : Scalar) :
    mapGet k m = some v ↔ (k, v) ∈ m := by
  unfold MapWF at h
  induction m with
  | nil => simp [mapGet]
  | cons kv rest ih =>
    obtain ⟨k2, v2⟩ := kv
    simp only [List.map_cons, List.nodup_cons] at h
    simp only [mapGet, List.mem_cons, Prod.mk.injEq]
    by_cases h2 : k2 = k
    · subst h2
      simp only [if_true, Option.some.injEq, true_and]
      constructor
      · intro e; exact Or.inl e.symm
      · rintro (e | hm)
        · exact e.symm
        · exact absurd (List.mem_map.mpr ⟨(k2, v), hm, rfl⟩) h.1
    · simp only [h2, if_false, ih h.2]
      constructor
      · intro hm; exact Or.inr hm
      · rintro (⟨e, _⟩ | hm)
        · exact absurd e.symm h2
        · exact hm

theorem mapGet_eq_none_iff (m : List (Bytes × Scalar)) (k : Bytes) :
    mapGet k m = none ↔ k ∉ m.map Prod.fst := by
  induction m with
  | nil => simp [mapGet]
  | cons kv rest ih =>
    obtain ⟨k2, v2⟩ := kv
    simp only [mapGet, List.map_cons, List.mem_cons]
    by_cases h2 : k2 = k
    · subst h2; simp
    · simp only [h2, if_false, ih]
      constructor
      · intro h; rintro (e | e)
        · exact h2 e.symm
        · exact h e
      · intro h e; exact h (Or.inr e)

/-- later maps win: `m1` merged with `m2` answers from `m2` first -/
theorem mapGet_merge (k : Bytes) (m1 m2 : List (Bytes × Scalar)) (h2 : MapWF m2) :
    mapGet k (mapMerge m1 m2) = match mapGet k m2 with
      | some v => some v
      | none => mapGet k m1 := by
  induction m2 generalizing m1 with
  | nil => simp [mapMerge, mapGet]
  | cons kv rest ih =>
    obtain ⟨k2, v2⟩ := kv
    have hwf : MapWF rest := by unfold MapWF at *; simp only [List.map_cons, List.nodup_cons] at h2; exact h2.2
    have hnot : k2 ∉ rest.map Prod.fst := by unfold MapWF at h2; simp only [List.map_cons, List.nodup_cons] at h2; exact h2.1
    rw [mapMerge_cons, ih _ hwf]
    simp only [mapGet]
    by_cases hk : k2 = k
    · subst hk
      have : mapGet k2 rest = none := (mapGet_eq_none_iff rest k2).mpr hnot
      simp [this, mapGet_insert]
    · simp only [hk, if_false, mapGet_insert]

/-! ## insertion sort -/
section InsSort
variable {α : Type}

theorem orderedInsert_perm (le : α → α → Bool) (a : α) (l : List α) : (orderedInsert le a l).Perm (a :: l) := by
  induction l with
  | nil => simp [orderedInsert]
  | cons x xs ih =>
    unfold orderedInsert; split
    · exact List.Perm.refl _
    · exact (List.Perm.cons x ih).trans (List.Perm.swap a x xs)

theorem insertSort_perm (le : α → α → Bool) (l : List α) : (insertSort le l).Perm l := by
  induction l with
  | nil => exact List.Perm.refl _
  | cons x xs ih => exact (orderedInsert_perm le x _).trans (List.Perm.cons x ih)

theorem orderedInsert_sorted (le : α → α → Bool) (trans : ∀ a b c, le a b = true → le b c = true → le a c = true)
    (total : ∀ a b, (le a b || le b a) = true) (a : α) (l : List α)
    (h : l.Pairwise (fun x y => le x y = true)) : (orderedInsert le a l).Pairwise (fun x y => le x y = true) := by
  induction l with
  | nil => simp [orderedInsert]
  | cons x xs ih =>
    rw [List.pairwise_cons] at h
    unfold orderedInsert; split
    · rename_i hax
      rw [List.pairwise_cons]
      refine ⟨?_, List.pairwise_cons.mpr h⟩
      intro y hy
      rcases List.mem_cons.mp hy with rfl | hy
      · exact hax
      · exact trans _ _ _ hax (h.1 y hy)
    · rename_i hax
      have hxa : le x a = true := by
        have := total a x
        simp only [Bool.or_eq_true] at this
        rcases this with h1 | h1
        · exact absurd h1 hax
        · exact h1
      rw [List.pairwise_cons]
      refine ⟨?_, ih h.2⟩
      intro y hy
      have := (orderedInsert_perm le a xs).mem_iff.mp hy
      rcases List.mem_cons.mp this with rfl | hy'
      · exact hxa
      · exact h.1 y hy'

theorem insertSort_sorted (le : α → α → Bool) (trans : ∀ a b c, le a b = true → le b c = true → le a c = true)
    (total : ∀ a b, (le a b || le b a) = true) (l : List α) :
    (insertSort le l).Pairwise (fun x y => le x y = true) := by
  induction l with
  | nil => simp [insertSort]
  | cons x xs ih => exact orderedInsert_sorted le trans total x _ ih

end InsSort

theorem mapKeys_perm (m : List (Bytes × Scalar)) : (mapKeys m).Perm (m.map Prod.fst) :=
  insertSort_perm _ _

theorem lexLe_total (a b : Bytes) : (lexLe a b || lexLe b a) = true := by
  simp [lexLe]; exact List.le_total a b
theorem lexLe_trans (a b c : Bytes) : lexLe a b = true → lexLe b c = true → lexLe a c = true := by
  simp [lexLe]; exact List.le_trans

theorem mapSorted_perm (m : List (Bytes × Scalar)) : (mapSorted m).Perm m := insertSort_perm _ _


/-! ## slice (notes/lean-prototypes/SliceSpec.lean) -/
namespace Slice
variable {α β : Type}

theorem normStart_toNat (n start : Int) : (normStart n start).toNat = specOff n start := by
  unfold normStart specOff; simp only []; (repeat' split) <;> omega

theorem normStart_nonneg (n start : Int) : 0 ≤ normStart n start := by
  unfold normStart; simp only []; (repeat' split) <;> omega

/-- the index arithmetic of filterSlice computes Twig's slice, for every start and optional length -/
theorem goSlice_eq_spec (xs : List α) (start : Int) (len : Option Int) :
    goSlice xs start len = specSlice xs start len := by
  unfold goSlice specSlice
  simp only []
  have hnn := normStart_nonneg xs.length start
  have hto := normStart_toNat xs.length start
  generalize normStart (xs.length : Int) start = s1 at hnn hto
  rw [← hto]
  by_cases h : s1 ≥ xs.length
  · simp only [h, ite_true]
    have : xs.length ≤ s1.toNat := by omega
    rw [List.drop_eq_nil_of_le this]
    cases len with
    | none => rfl
    | some l => simp only []; split <;> simp
  · simp only [h, ite_false]
    have hlen : (xs.drop s1.toNat).length = xs.length - s1.toNat := List.length_drop
    cases len with
    | none =>
      simp only [endIdx]
      apply List.take_of_length_le; omega
    | some l =>
      simp only [endIdx]
      by_cases hl : l ≥ 0
      · simp only [hl, ite_true]
        split
        · rw [List.take_of_length_le (by omega), List.take_of_length_le (by omega)]
        · congr 1; omega
      · simp only [hl, ite_false]
        congr 1
        split <;> omega

theorem specSlice_map (f : α → β) (xs : List α) (start : Int) (len : Option Int) :
    specSlice (xs.map f) start len = (specSlice xs start len).map f := by
  unfold specSlice
  simp only [List.length_map]
  cases len with
  | none => simp [List.map_drop]
  | some l => simp only []; split <;> simp [List.map_drop, List.map_take, List.length_drop]

theorem specSlice_length_le (xs : List α) (start : Int) (len : Option Int) :
    (specSlice xs start len).length ≤ xs.length := by
  unfold specSlice
  cases len with
  | none => simp only [List.length_drop]; omega
  | some l => simp only []; split <;> simp only [List.length_take, List.length_drop] <;> omega

theorem wrap64_eq (x : Int) (h0 : 0 ≤ x) (h1 : x < 2 ^ 64) :
    wrap64 x = if x < 2 ^ 63 then x else x - 2 ^ 64 := by
  unfold wrap64; split <;> omega

/-- with the overflow guard the 64-bit end index is the mathematical one -/
theorem endIdx64_eq (n s1 : Int) (len : Option Int) (h0 : 0 ≤ s1) (h1 : s1 < n) (hn : n < 2 ^ 63)
    (hl : ∀ l, len = some l → l < 2 ^ 63) : endIdx64 n s1 len = endIdx n s1 len := by
  cases len with
  | none => rfl
  | some l =>
    have hl' := hl l rfl
    simp only [endIdx64, endIdx]
    by_cases hge : l ≥ 0
    · simp only [hge, if_true]
      rw [wrap64_eq (s1 + l) (by omega) (by omega)]
      simp only [Bool.or_eq_true, decide_eq_true_eq]
      (repeat' split) <;> omega
    · simp only [hge, if_false]

/-- filterSlice with 64-bit ints computes Twig's slice: for every list shorter than 2^63 and every
    64-bit start and optional length -/
theorem goSlice64_eq_spec (xs : List α) (start : Int) (len : Option Int) (hn : (xs.length : Int) < 2 ^ 63)
    (hl : ∀ l, len = some l → l < 2 ^ 63) : goSlice64 xs start len = specSlice xs start len := by
  rw [← goSlice_eq_spec]
  unfold goSlice64 goSlice
  simp only []
  split
  · rfl
  · rename_i h
    rw [endIdx64_eq _ _ len (normStart_nonneg _ _) (by omega) hn hl]

end Slice

/-! ## the last rune -/
namespace Utf8

theorem toNats_append (a b : Bytes) : toNats (a ++ b) = toNats a ++ toNats b := by simp [toNats]

/-- `DecodeLastRuneInString` finds the encoding a string ends with -/
theorem lastWidthRev_encode (r : Nat) (pre : List Nat) (h : validScalar r) :
    lastWidthRev ((encodeRuneN r).reverse ++ pre) = (encodeRuneN r).length := by
  unfold encodeRuneN validScalar at *
  split
  · rename_i h0; simp [lastWidthRev, h0]
  · split
    · have e := dec2_enc r (by omega) (by omega)
      have h1 : ¬ (0x80 + r % 64 < 0x80) := by omega
      simp [lastWidthRev, h1, e]
    · split
      · omega
      · split
        · have e := dec3_enc r (by omega) (by omega) (by omega)
          have h1 : ¬ (0x80 + r % 64 < 0x80) := by omega
          have h2 : dec2 (0x80 + (r / 64) % 64) (0x80 + r % 64) = none := by unfold dec2; rw [if_neg (by omega)]
          simp [lastWidthRev, h1, h2, e]
        · have e := dec4_enc r (by omega) (by omega)
          have h1 : ¬ (0x80 + r % 64 < 0x80) := by omega
          have h2 : dec2 (0x80 + (r / 64) % 64) (0x80 + r % 64) = none := by unfold dec2; rw [if_neg (by omega)]
          have h3 : dec3 (0x80 + (r / 4096) % 64) (0x80 + (r / 64) % 64) (0x80 + r % 64) = none := by
            unfold dec3; rw [if_neg (by omega)]
          simp [lastWidthRev, h1, h2, h3, e]

theorem lastWidth_append_encodeRune (pre : Bytes) (r : Nat) (h : validScalar r) :
    lastWidth (pre ++ encodeRune r) = (encodeRune r).length := by
  unfold lastWidth encodeRune
  rw [toNats_append, toNats_ofNats _ (encodeRuneN_lt r), List.reverse_append, lastWidthRev_encode r _ h]
  simp [ofNats]

theorem encodeRunes_concat (rs : List Nat) (r : Nat) : encodeRunes (rs ++ [r]) = encodeRunes rs ++ encodeRune r := by
  simp [encodeRunes, encodeRune, encodeN, ofNats]

/-- the bytes filterLast cuts off a valid string are the encoding of its last rune -/
theorem last_chunk_valid (s : Bytes) (hv : validUtf8 s) (r : Nat) (h : (decodeRunes s).getLast? = some r) :
    s.drop (s.length - lastWidth s) = encodeRune r := by
  have hr : validScalar r := decodeRunes_valid s r (List.mem_of_getLast? h)
  obtain ⟨init, hinit⟩ : ∃ init, decodeRunes s = init ++ [r] := by
    have := List.getLast?_eq_some_iff.mp h
    obtain ⟨ys, hys⟩ := this
    exact ⟨ys, hys⟩
  have hs : s = encodeRunes init ++ encodeRune r := by
    have := hv; unfold validUtf8 sanitize at this
    rw [hinit, encodeRunes_concat] at this; exact this.symm
  have hw := lastWidth_append_encodeRune (encodeRunes init) r hr
  rw [← hs] at hw
  rw [hw]
  conv => lhs; arg 2; rw [hs]
  rw [hs, List.length_append]
  simp

end Utf8

/-! ## sorting -/

theorem sortLe_total (k : SortKind) (a b : Scalar) : (sortLe k a b || sortLe k b a) = true := by
  cases k with
  | byString => exact lexLe_total _ _
  | byInt => simp only [sortLe, Bool.or_eq_true, decide_eq_true_eq]; exact Int.le_total _ _

theorem sortLe_trans (k : SortKind) (a b c : Scalar) : sortLe k a b = true → sortLe k b c = true → sortLe k a c = true := by
  cases k with
  | byString => exact lexLe_trans _ _ _
  | byInt => simp only [sortLe, decide_eq_true_eq]; exact Int.le_trans

/-! ## numbers -/
namespace Num

/-- `specRoundDiv m d` is THE multiple count nearest to `m/d`, ties upward (away from zero on
    magnitudes): `n·d - d/2 ≤ m < n·d + d/2`, i.e. `2nd ≤ 2m + d < 2(n+1)d` -/
theorem specRoundDiv_spec (m d : Nat) (hd : 0 < d) :
    2 * d * specRoundDiv m d ≤ 2 * m + d ∧ 2 * m + d < 2 * d * (specRoundDiv m d + 1) := by
  unfold specRoundDiv
  constructor
  · exact Nat.mul_div_le _ _
  · exact Nat.lt_mul_div_succ _ (by omega)

/-- ... and the only one -/
theorem specRoundDiv_unique (m d n : Nat) (hd : 0 < d)
    (h1 : 2 * d * n ≤ 2 * m + d) (h2 : 2 * m + d < 2 * d * (n + 1)) : n = specRoundDiv m d := by
  unfold specRoundDiv
  symm
  apply (Nat.div_eq_iff (by omega : 0 < 2 * d)).mpr
  constructor
  · rw [Nat.mul_comm]; exact h1
  · have : 2 * d * (n + 1) = n * (2 * d) + 2 * d := by rw [Nat.mul_comm, Nat.add_mul]; simp
    omega

/-! ### digit grouping -/

theorem groupAux_triples (sep : Bytes) : ∀ (n : Nat) (ds : Bytes), ds.length = 3 * n →
    groupAux sep false ds = ((triples ds).map (fun g => sep ++ g)).flatten := by
  intro n
  induction n with
  | zero => intro ds h; have : ds = [] := List.eq_nil_of_length_eq_zero (by omega); subst this; simp [groupAux, triples]
  | succ n ih =>
    intro ds h
    match ds, h with
    | x :: y :: z :: r, h =>
      have hr : r.length = 3 * n := by simp at h; omega
      have h1 : (r.length + 1 + 1 + 1) % 3 = 0 := by omega
      have h2 : ¬ ((r.length + 1 + 1) % 3 = 0) := by omega
      have h3 : ¬ ((r.length + 1) % 3 = 0) := by omega
      simp [groupAux, triples, h1, h2, h3, ih r hr]

theorem triples_flatten : ∀ (n : Nat) (ds : Bytes), ds.length = 3 * n → (triples ds).flatten = ds := by
  intro n
  induction n with
  | zero => intro ds h; have : ds = [] := List.eq_nil_of_length_eq_zero (by omega); subst this; simp [triples]
  | succ n ih =>
    intro ds h
    match ds, h with
    | x :: y :: z :: r, h =>
      have hr : r.length = 3 * n := by simp at h; omega
      simp [triples, ih r hr]

theorem triples_len3 : ∀ (ds : Bytes), ∀ g ∈ triples ds, g.length = 3 := by
  intro ds
  induction ds using triples.induct with
  | case1 x y z r ih =>
    intro g hg
    simp only [triples, List.mem_cons] at hg
    rcases hg with rfl | hg
    · simp
    · exact ih g hg
  | case2 t h =>
    intro g hg
    rw [triples] at hg
    · simp at hg
    · exact h

theorem joinWith_cons_flatten (sep : Bytes) (g : Bytes) (gs : List Bytes) :
    joinWith sep (g :: gs) = g ++ (gs.map (fun x => sep ++ x)).flatten := by
  induction gs generalizing g with
  | nil => simp [joinWith]
  | cons g2 rest ih => simp [joinWith, ih g2]



/-! ### digit strings (roundDecimal) -/

theorem foldl_val (ds : List Nat) (acc : Nat) :
    ds.foldl (fun a d => a * 10 + d) acc = acc * 10 ^ ds.length + valOf ds := by
  induction ds generalizing acc with
  | nil => simp [valOf]
  | cons d t ih =>
    simp only [List.foldl_cons, valOf, List.length_cons]
    rw [ih (acc * 10 + d), ih (0 * 10 + d)]
    simp only [Nat.zero_mul, Nat.zero_add, Nat.pow_succ]
    grind

theorem valOf_cons (d : Nat) (t : List Nat) : valOf (d :: t) = d * 10 ^ t.length + valOf t := by
  have := foldl_val t (0 * 10 + d)
  simpa [valOf] using this

theorem valOf_append (a c : List Nat) : valOf (a ++ c) = valOf a * 10 ^ c.length + valOf c := by
  unfold valOf
  rw [List.foldl_append, foldl_val]
  rfl

theorem valOf_lt (ds : List Nat) (h : ∀ d ∈ ds, d ≤ 9) : valOf ds < 10 ^ ds.length := by
  induction ds with
  | nil => simp [valOf]
  | cons d t ih =>
    rw [valOf_cons, List.length_cons, Nat.pow_succ]
    have h1 : d ≤ 9 := h d (by simp)
    have h2 := ih (fun x hx => h x (by simp [hx]))
    have h3 : d * 10 ^ t.length ≤ 9 * 10 ^ t.length := Nat.mul_le_mul_right _ h1
    omega

theorem valOf_replicate (n : Nat) : valOf (List.replicate n 0) = 0 := by
  induction n with
  | zero => rfl
  | succ n ih => rw [List.replicate_succ, valOf_cons, ih]; simp

theorem pow_pos10 (n : Nat) : 0 < 10 ^ n := Nat.pow_pos (by omega)

/-- splitting a digit string at position `j` is division with remainder by a power of ten -/
theorem valOf_take_drop (ds : List Nat) (h : ∀ d ∈ ds, d ≤ 9) (j : Nat) :
    valOf (ds.take j) = valOf ds / 10 ^ (ds.drop j).length ∧
    valOf (ds.drop j) = valOf ds % 10 ^ (ds.drop j).length := by
  have e : valOf ds = valOf (ds.take j) * 10 ^ (ds.drop j).length + valOf (ds.drop j) := by
    rw [← valOf_append, List.take_append_drop]
  have hlt : valOf (ds.drop j) < 10 ^ (ds.drop j).length :=
    valOf_lt _ (fun d hd => h d (List.mem_of_mem_drop hd))
  have hpos := pow_pos10 (ds.drop j).length
  generalize 10 ^ (ds.drop j).length = T at *
  constructor
  · rw [e, Nat.mul_comm, Nat.mul_add_div hpos, Nat.div_eq_of_lt hlt]; simp
  · rw [e, Nat.mul_comm, Nat.mul_add_mod, Nat.mod_eq_of_lt hlt]

theorem incrAux_spec (ds : List Nat) (h : ∀ d ∈ ds, d ≤ 9) :
    (incrAux ds).1.length = ds.length ∧ (∀ d ∈ (incrAux ds).1, d ≤ 9) ∧
    valOf (incrAux ds).1 + (if (incrAux ds).2 then 10 ^ ds.length else 0) = valOf ds + 1 := by
  induction ds with
  | nil => simp [incrAux, valOf]
  | cons d t ih =>
    have hd : d ≤ 9 := h d (by simp)
    obtain ⟨il, id9, iv⟩ := ih (fun x hx => h x (by simp [hx]))
    simp only [incrAux]
    by_cases hc : (incrAux t).2 = true
    · rw [hc] at iv
      simp only [hc, if_true] at iv ⊢
      by_cases h9 : d = 9
      · subst h9
        simp only [if_true]
        refine ⟨by simp [il], ?_, ?_⟩
        · intro x hx; rcases List.mem_cons.mp hx with rfl | hx
          · omega
          · exact id9 x hx
        · simp only [valOf_cons, il, List.length_cons, Nat.pow_succ]; omega
      · simp only [h9, if_false]
        refine ⟨by simp [il], ?_, ?_⟩
        · intro x hx; rcases List.mem_cons.mp hx with rfl | hx
          · omega
          · exact id9 x hx
        · simp only [Bool.false_eq_true, if_false, valOf_cons, il, Nat.add_mul]; omega
    · have hc' : (incrAux t).2 = false := by simpa using hc
      rw [hc'] at iv
      simp only [hc', Bool.false_eq_true, if_false] at iv ⊢
      refine ⟨by simp [il], ?_, ?_⟩
      · intro x hx; rcases List.mem_cons.mp hx with rfl | hx
        · exact hd
        · exact id9 x hx
      · simp only [valOf_cons, il]; omega

/-- 'c': the first dropped digit is ≥ 5 exactly when the dropped part is at least half a unit -/
theorem roundsUp_common (neg : Bool) (dropped : List Nat) (h : ∀ d ∈ dropped, d ≤ 9) (hne : dropped ≠ []) :
    roundsUp .common neg dropped = decide (10 ^ dropped.length ≤ 2 * valOf dropped) := by
  cases dropped with
  | nil => exact absurd rfl hne
  | cons d t =>
    have hd : d ≤ 9 := h d (by simp)
    have hlt := valOf_lt t (fun x hx => h x (by simp [hx]))
    simp only [roundsUp, valOf_cons, List.length_cons, Nat.pow_succ]
    generalize 10 ^ t.length = T at *
    by_cases h5 : 5 ≤ d
    · have : 5 * T ≤ d * T := Nat.mul_le_mul_right _ h5
      simp only [h5, decide_true]; symm; simp only [decide_eq_true_eq]; omega
    · have : d * T ≤ 4 * T := Nat.mul_le_mul_right _ (by omega)
      simp only [h5, decide_false]; symm; simp only [decide_eq_false_iff_not]; omega

theorem any_nonzero (ds : List Nat) : ds.any (· != 0) = decide (valOf ds ≠ 0) := by
  induction ds with
  | nil => simp [valOf]
  | cons d t ih =>
    rw [List.any_cons, ih, valOf_cons, Bool.eq_iff_iff]
    simp only [Bool.or_eq_true, bne_iff_ne, decide_eq_true_eq]
    have := pow_pos10 t.length
    by_cases hd : d = 0
    · subst hd; simp
    · have hp : 0 < d * 10 ^ t.length := Nat.mul_pos (by omega) this
      constructor
      · intro _; omega
      · intro _; exact Or.inl hd

/-- nearest-with-ties-up is "quotient, plus one when the remainder is at least half" -/
theorem specRoundDiv_eq (m d : Nat) (hd : 0 < d) :
    specRoundDiv m d = m / d + (if d ≤ 2 * (m % d) then 1 else 0) := by
  unfold specRoundDiv
  have hm := Nat.div_add_mod m d
  have hr := Nat.mod_lt m hd
  generalize m / d = q at *
  generalize m % d = r at *
  apply (Nat.div_eq_iff (by omega : 0 < 2 * d)).mpr
  have e1 : (q + 1) * (2 * d) = 2 * (d * q) + 2 * d := by grind
  have e0 : q * (2 * d) = 2 * (d * q) := by grind
  split
  · rw [e1]; constructor <;> omega
  · simp only [Nat.add_zero]; rw [e0]; constructor <;> omega

theorem digitsAuxN_spec : ∀ (f n : Nat) (acc : List Nat), n < 10 ^ f → (∀ d ∈ acc, d ≤ 9) →
    valOf (digitsAuxN f n acc) = n * 10 ^ acc.length + valOf acc ∧ (∀ d ∈ digitsAuxN f n acc, d ≤ 9) := by
  intro f
  induction f with
  | zero => intro n acc h hacc; have : n = 0 := by simpa using h
            subst this; simp [digitsAuxN]; exact hacc
  | succ f ih =>
    intro n acc h hacc
    simp only [digitsAuxN]
    split
    · rename_i h10
      rw [valOf_cons]
      refine ⟨rfl, ?_⟩
      intro d hd; rcases List.mem_cons.mp hd with rfl | hd
      · omega
      · exact hacc d hd
    · have hlt : n / 10 < 10 ^ f := by rw [Nat.pow_succ] at h; omega
      have hacc' : ∀ d ∈ n % 10 :: acc, d ≤ 9 := by
        intro d hd; rcases List.mem_cons.mp hd with rfl | hd
        · omega
        · exact hacc d hd
      obtain ⟨hv, h9⟩ := ih (n / 10) (n % 10 :: acc) hlt hacc'
      refine ⟨?_, h9⟩
      rw [hv, valOf_cons, List.length_cons, Nat.pow_succ]
      have := Nat.div_add_mod n 10
      generalize 10 ^ acc.length = T at *
      generalize n / 10 = q at *
      generalize n % 10 = r at *
      subst this
      grind

theorem digitsN_spec (n : Nat) : valOf (digitsN n) = n ∧ ∀ d ∈ digitsN n, d ≤ 9 := by
  have h : n < 10 ^ (n + 1) := Nat.lt_of_lt_of_le (Nat.lt_pow_self (by omega)) (Nat.pow_le_pow_right (by omega) (by omega))
  have := digitsAuxN_spec (n + 1) n [] h (by simp)
  simpa [digitsN, valOf] using this

theorem floatDigits_spec (m k : Nat) :
    valOf (floatDigits m k) = m ∧ (∀ d ∈ floatDigits m k, d ≤ 9) ∧ k + 1 ≤ (floatDigits m k).length := by
  obtain ⟨hv, h9⟩ := digitsN_spec m
  unfold floatDigits
  refine ⟨?_, ?_, ?_⟩
  · simp only [valOf_append, valOf_replicate, hv]; simp
  · intro d hd
    rcases List.mem_append.mp hd with hd | hd
    · have := List.eq_of_mem_replicate hd; omega
    · exact h9 d hd
  · simp only [List.length_append, List.length_replicate]; omega

theorem stripZeros_spec : ∀ (k m : Nat), (stripZeros m k).2 ≤ k ∧ m = (stripZeros m k).1 * 10 ^ (k - (stripZeros m k).2) := by
  intro k
  induction k with
  | zero => intro m; simp [stripZeros]
  | succ k ih =>
    intro m
    simp only [stripZeros]
    split
    · rename_i h0
      obtain ⟨h1, h2⟩ := ih (m / 10)
      refine ⟨by omega, ?_⟩
      have e : k + 1 - (stripZeros (m / 10) k).2 = (k - (stripZeros (m / 10) k).2) + 1 := by omega
      rw [e, Nat.pow_succ, ← Nat.mul_assoc, ← h2]
      omega
    · simp

/-- exact result of rounding `m/10^k` to `p` decimals in the given mode, as `N` with value `N/10^p` -/
def specMode (mode : Mode) (neg : Bool) (m k p : Nat) : Nat :=
  if k ≤ p then m * 10 ^ (p - k) else specModeDiv mode neg m (10 ^ (k - p))

theorem incr_val (kept : List Nat) (h : ∀ d ∈ kept, d ≤ 9) :
    valOf (if (incrAux kept).2 then 1 :: (incrAux kept).1 else (incrAux kept).1) = valOf kept + 1 := by
  obtain ⟨il, _, iv⟩ := incrAux_spec kept h
  by_cases hc : (incrAux kept).2 = true
  · rw [hc] at iv; simp only [hc, if_true] at iv ⊢
    rw [valOf_cons, il]; omega
  · have hc' : (incrAux kept).2 = false := by simpa using hc
    rw [hc'] at iv; simp only [hc', Bool.false_eq_true, if_false] at iv ⊢
    omega

/-- the digit work of roundDecimal computes the exact rounding of the number the digits denote -/
theorem roundCore_val (D : List Nat) (point p : Nat) (neg : Bool) (mode : Mode)
    (h9 : ∀ d ∈ D, d ≤ 9) (hpt : point ≤ D.length) :
    valOf (roundCore D point p neg mode) = specMode mode neg (valOf D) (D.length - point) p := by
  unfold roundCore specMode
  simp only []
  by_cases hk : D.length ≤ point + p
  · have hk' : D.length - point ≤ p := by omega
    rw [if_pos hk, if_pos hk', valOf_append, valOf_replicate, List.length_replicate]
    have : point + p - D.length = p - (D.length - point) := by omega
    rw [this]; simp
  · have hk' : ¬ (D.length - point ≤ p) := by omega
    rw [if_neg hk, if_neg hk']
    have hdl : (D.drop (point + p)).length = D.length - point - p := by simp only [List.length_drop]; omega
    obtain ⟨htake, hdrop⟩ := valOf_take_drop D h9 (point + p)
    rw [hdl] at htake hdrop
    have h9k : ∀ d ∈ D.take (point + p), d ≤ 9 := fun d hd => h9 d (List.mem_of_mem_take hd)
    have h9d : ∀ d ∈ D.drop (point + p), d ≤ 9 := fun d hd => h9 d (List.mem_of_mem_drop hd)
    have hne : D.drop (point + p) ≠ [] := by
      intro h; have := congrArg List.length h; rw [hdl] at this; simp at this; omega
    have hpos := pow_pos10 (D.length - point - p)
    have key : valOf (if roundsUp mode neg (D.drop (point + p)) = true then
          (if (incrAux (D.take (point + p))).2 then 1 :: (incrAux (D.take (point + p))).1 else (incrAux (D.take (point + p))).1)
        else D.take (point + p)) = specModeDiv mode neg (valOf D) (10 ^ (D.length - point - p)) := by
      cases mode with
      | common =>
        rw [roundsUp_common neg _ h9d hne, hdl, hdrop]
        simp only [specModeDiv, specRoundDiv_eq _ _ hpos]
        split
        · rename_i h; simp only [decide_eq_true_eq] at h; rw [incr_val _ h9k, htake, if_pos h]
        · rename_i h; simp only [decide_eq_true_eq] at h; rw [htake, if_neg h]; simp
      | up =>
        simp only [roundsUp, any_nonzero, hdrop, specModeDiv]
        split
        · rename_i h; rw [incr_val _ h9k, htake]
          simp only [Bool.and_eq_true, Bool.not_eq_true', decide_eq_true_eq] at h
          simp [h.1, h.2]
        · rename_i h; rw [htake]
          simp only [Bool.and_eq_true, Bool.not_eq_true', decide_eq_true_eq, not_and, ne_eq, Decidable.not_not] at h
          cases neg <;> simp_all
      | down =>
        simp only [roundsUp, any_nonzero, hdrop, specModeDiv]
        split
        · rename_i h; rw [incr_val _ h9k, htake]
          simp only [Bool.and_eq_true, decide_eq_true_eq] at h
          simp [h.1, h.2]
        · rename_i h; rw [htake]
          simp only [Bool.and_eq_true, decide_eq_true_eq, not_and, ne_eq, Decidable.not_not] at h
          cases neg <;> simp_all
    exact key

theorem specModeDiv_scale (mode : Mode) (neg : Bool) (a d c : Nat) (hc : 0 < c) :
    specModeDiv mode neg (a * c) (d * c) = specModeDiv mode neg a d := by
  have hmod : (a * c) % (d * c) ≠ 0 ↔ a % d ≠ 0 := by
    rw [Nat.mul_mod_mul_right]
    constructor
    · intro h h0; rw [h0] at h; simp at h
    · intro h h0
      rcases Nat.mul_eq_zero.mp h0 with h1 | h1
      · exact h h1
      · omega
  cases mode with
  | common =>
    simp only [specModeDiv, specRoundDiv]
    have e1 : 2 * (a * c) + d * c = (2 * a + d) * c := by grind
    have e2 : 2 * (d * c) = (2 * d) * c := by grind
    rw [e1, e2, Nat.mul_div_mul_right _ _ hc]
  | up =>
    simp only [specModeDiv, Nat.mul_div_mul_right _ _ hc]
    by_cases h : a % d ≠ 0
    · have := hmod.mpr h; simp [h, this]
    · have h' : ¬ ((a * c) % (d * c) ≠ 0) := fun x => h (hmod.mp x)
      simp only [ne_eq, Decidable.not_not] at h h'; simp [h, h']
  | down =>
    simp only [specModeDiv, Nat.mul_div_mul_right _ _ hc]
    by_cases h : a % d ≠ 0
    · have := hmod.mpr h; simp [h, this]
    · have h' : ¬ ((a * c) % (d * c) ≠ 0) := fun x => h (hmod.mp x)
      simp only [ne_eq, Decidable.not_not] at h h'; simp [h, h']

theorem specModeDiv_one (mode : Mode) (neg : Bool) (a : Nat) : specModeDiv mode neg a 1 = a := by
  cases mode <;> simp [specModeDiv, specRoundDiv, Nat.mod_one] ; omega

theorem specModeDiv_mul_self (mode : Mode) (neg : Bool) (a d : Nat) (hd : 0 < d) :
    specModeDiv mode neg (a * d) d = a := by
  have := specModeDiv_scale mode neg a 1 d hd
  rw [Nat.one_mul] at this
  rw [this, specModeDiv_one]

/-- trailing zeros of the fraction do not change the rounding -/
theorem specMode_strip (mode : Mode) (neg : Bool) (m' k' k p : Nat) (hk : k' ≤ k) :
    specMode mode neg (m' * 10 ^ (k - k')) k p = specMode mode neg m' k' p := by
  unfold specMode
  by_cases h1 : k ≤ p
  · have h2 : k' ≤ p := by omega
    rw [if_pos h1, if_pos h2, Nat.mul_assoc, ← Nat.pow_add]
    congr 2; omega
  · rw [if_neg h1]
    by_cases h2 : k' ≤ p
    · rw [if_pos h2]
      have e : 10 ^ (k - k') = 10 ^ (p - k') * 10 ^ (k - p) := by rw [← Nat.pow_add]; congr 1; omega
      rw [e, ← Nat.mul_assoc, specModeDiv_mul_self _ _ _ _ (pow_pos10 _)]
    · rw [if_neg h2]
      have e : 10 ^ (k - p) = 10 ^ (k' - p) * 10 ^ (k - k') := by rw [← Nat.pow_add]; congr 1; omega
      rw [e, specModeDiv_scale _ _ _ _ _ (pow_pos10 _)]

/-- filterRound's decimal path IS exact decimal rounding, in every mode, for every decimal and precision -/
theorem goRoundModeN_eq_spec (mode : Mode) (neg : Bool) (m k p : Nat) :
    goRoundModeN mode neg m k p = specMode mode neg m k p := by
  unfold goRoundModeN
  simp only []
  obtain ⟨hk, hm⟩ := stripZeros_spec k m
  generalize (stripZeros m k).1 = m' at *
  generalize (stripZeros m k).2 = k' at *
  obtain ⟨hv, h9, hl⟩ := floatDigits_spec m' k'
  rw [roundCore_val _ _ _ _ _ h9 (by omega), hv]
  have : (floatDigits m' k').length - ((floatDigits m' k').length - k') = k' := by omega
  rw [this, hm, specMode_strip _ _ _ _ _ _ hk]

end Num

end Twig.Flt
