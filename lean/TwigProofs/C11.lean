/-
  C11 — include renders in the right scope and never changes the includer's state.

  All theorems are about `renderNode E go tpl (.include te names exprs ignoreMissing only sandboxed)` of the
  frozen render model, for every environment `E`, every transfer function `go` (so for everything the
  included template may do), every template-name expression `te`, every list of `with` names / expressions
  and every state.
-/
import TwigProofs.C09
import TwigProofs.Lemmas.Paths
namespace Twig

/-! ## the context handed to the included template -/

/-- the context built for the included template before the `with` variables are added
    (`IncludeNode.Render`: `Clone` of the current context for a plain include; a fresh context for
    `only` / `sandboxed`, holding a flattened copy of every variable the includer can see — `Ctx.visibleVars` — unless `only`) -/
def includeBase (E : Env) (c : Ctx) (only sandboxed : Bool) : Ctx :=
  if !only && !sandboxed then
    { vars := [], macros := c.macros, parents := c.asScope :: c.parents, sandboxed := c.sandboxed, inside := c.inside }
  else
    freshCtx (if only then [] else c.visibleVars) (sandboxed || (E.F.propIncludeFresh && c.sandboxed)) (sandboxed || c.inside)

/-- … and with them: of several `with` entries of one name only the last is kept (`dedupLast`) -/
def includeCtx (E : Env) (c : Ctx) (names : List Bytes) (exprs : List Expr) (only sandboxed : Bool)
    (vals : List Val) : Ctx :=
  setAll (includeBase E c only sandboxed) (dedupLast names exprs).1 vals

/-! ## unfolding the node -/

/-- failure of the template-name expression is the node's failure (also with `ignore missing`) -/
theorem C11_name_error {E : Env} {go : Go} {tpl : Bytes} {te names exprs im only sb} {st : St} {err : Err}
    (h : evalExpr E te st = .error err) :
    renderNode E go tpl (.include te names exprs im only sb) st = .error err := by
  simp only [renderNode, evalExpr_error_iff.mp h]; rfl

theorem C11_name_not_string {E : Env} {go : Go} {tpl : Bytes} {te names exprs im only sb} {st st1 : St} {nv : Val}
    {err : Err} (h : evalExpr E te st = .ok (nv, st1)) (h2 : toStr nv = .error err) :
    renderNode E go tpl (.include te names exprs im only sb) st = .error err := by
  obtain ⟨ch, hx⟩ := evalExpr_ok_iff.mp h
  simp only [renderNode, hx, ok_bind, h2]; rfl

/-- **The included template is rendered at that point**: when the name resolves to a template of the
    engine, the node is the transfer `go (.root name)` in the state after evaluating the name and the
    `with` expressions, with the context `includeCtx …`; afterwards the includer's context is put back. -/
theorem C11_include_found {E : Env} {go : Go} {tpl : Bytes} {te names exprs im only sb} {st st1 st2 : St}
    {nv : Val} {name : Bytes} {nodes : List Node} {vals : List Val}
    (h1 : evalExpr E te st = .ok (nv, st1)) (h2 : toStr nv = .ok name) (h3 : isRelative name = false)
    (h4 : E.tpl? name = some nodes)
    (h6 : (sb && !E.hasPolicy) = false)
    (h7 : evalArgs E (dedupLast names exprs).2 st1 = .ok (vals, st2)) :
    renderNode E go tpl (.include te names exprs im only sb) st =
      (go (.root name) { st2 with ctx := includeCtx E st1.ctx names exprs only sb vals } >>= fun z =>
        .ok (z.1, { z.2 with ctx := st2.ctx })) := by
  obtain ⟨ch, hx⟩ := evalExpr_ok_iff.mp h1
  simp only [renderNode, hx, ok_bind, h2, resolveTpl_of_not_relative h3, h4, Option.map_some, h6, h7, Bool.false_eq_true, if_false, pure_eq_ok,
    includeCtx, includeBase]

/-! ## non-interference -/

/-- **Nothing the included template does or receives changes what the includer sees afterwards.**
    For every include node (every option combination, static or computed name), every `go` — i.e.
    whatever the included template does with the context it is given: sets, loops, macros, blocks,
    nested includes — and every state: if the node succeeds, the render context afterwards *is* the
    context before: variables, macros, parent chain, block definitions, sandbox flags. (Only the ghost
    trace and the spy-call counter of `St` advance.) -/
theorem C11_non_interference {E : Env} {go : Go} {tpl : Bytes} {te : Expr} {names : List Bytes} {exprs : List Expr}
    {im only sb : Bool} {st st' : St} {out : Bytes}
    (h : renderNode E go tpl (.include te names exprs im only sb) st = .ok (out, st')) :
    st'.ctx = st.ctx := by
  simp only [renderNode] at h
  obtain ⟨⟨⟨nv, _⟩, st1⟩, h1, h⟩ := bind_ok h
  have i1 := evalX_ctx E true te h1
  obtain ⟨name, _, h⟩ := bind_ok h
  simp only at h
  split at h
  · split at h
    · cases h; exact i1
    · cases h
  · split at h
    · cases h
    · obtain ⟨⟨vals, st2⟩, h2, h⟩ := bind_ok h
      obtain ⟨⟨o, st3⟩, _, h⟩ := bind_ok h
      cases h
      exact (evalArgs_ctx E _ h2).trans i1

/-- the same, split as in the statement of the property: the context after the node is the one after
    evaluating the name and the `with` expressions (`st2`), and evaluating expressions changes no context -/
theorem C11_non_interference_steps {E : Env} {go : Go} {tpl : Bytes} {te names exprs im only sb} {st st1 st2 : St}
    {nv : Val} {name : Bytes} {nodes : List Node} {vals : List Val} {out : Bytes} {st' : St}
    (h1 : evalExpr E te st = .ok (nv, st1)) (h2 : toStr nv = .ok name) (h3 : isRelative name = false)
    (h4 : E.tpl? name = some nodes)
    (h6 : (sb && !E.hasPolicy) = false)
    (h7 : evalArgs E (dedupLast names exprs).2 st1 = .ok (vals, st2))
    (h : renderNode E go tpl (.include te names exprs im only sb) st = .ok (out, st')) :
    st'.ctx = st2.ctx ∧ st2.ctx = st1.ctx ∧ st1.ctx = st.ctx := by
  rw [C11_include_found h1 h2 h3 h4 h6 h7] at h
  obtain ⟨⟨o, st3⟩, _, h⟩ := bind_ok h
  cases h
  exact ⟨rfl, evalArgs_ctx E _ h7, evalExpr_ctx h1⟩

/-- consequence for the rest of the including template: what is rendered after the include sees every
    variable and macro exactly as before the include -/
theorem C11_includer_sees_same {E : Env} {go : Go} {tpl : Bytes} {te names exprs im only sb} {st st' : St}
    {out : Bytes} (h : renderNode E go tpl (.include te names exprs im only sb) st = .ok (out, st')) (k : Bytes) :
    st'.ctx.getVar k = st.ctx.getVar k ∧ st'.ctx.getMacro k = st.ctx.getMacro k ∧
    getKV k st'.ctx.vars = getKV k st.ctx.vars ∧ st'.ctx.blockDefs = st.ctx.blockDefs := by
  rw [C11_non_interference h]; exact ⟨rfl, rfl, rfl, rfl⟩

/-! ## ignore missing -/

/-- **missing ∧ `ignore missing`** → empty output, state = the one after evaluating the name -/
theorem C11_ignore_missing {E : Env} {go : Go} {tpl : Bytes} {te names exprs only sb} {st st1 : St}
    {nv : Val} {name : Bytes}
    (h1 : evalExpr E te st = .ok (nv, st1)) (h2 : toStr nv = .ok name) (h3 : isRelative name = false)
    (h4 : E.tpl? name = none) :
    renderNode E go tpl (.include te names exprs true only sb) st = .ok ([], st1) := by
  obtain ⟨ch, hx⟩ := evalExpr_ok_iff.mp h1
  simp only [renderNode, hx, ok_bind, h2, resolveTpl_of_not_relative h3, h4, Option.map_none, if_true, pure_eq_ok]

/-- **missing ∧ no `ignore missing`** → the not-found error -/
theorem C11_missing_reported {E : Env} {go : Go} {tpl : Bytes} {te names exprs only sb} {st st1 : St}
    {nv : Val} {name : Bytes}
    (h1 : evalExpr E te st = .ok (nv, st1)) (h2 : toStr nv = .ok name) (h3 : isRelative name = false)
    (h4 : E.tpl? name = none) :
    renderNode E go tpl (.include te names exprs false only sb) st =
      .error (.error .notFound [] "template not found") := by
  obtain ⟨ch, hx⟩ := evalExpr_ok_iff.mp h1
  simp only [renderNode, hx, ok_bind, h2, resolveTpl_of_not_relative h3, h4, Option.map_none, Bool.false_eq_true, if_false]

/-- **every other failure is reported, `ignore missing` or not** — (1) the template exists and its
    rendering fails (with whatever error, including a not-found error raised further down) -/
theorem C11_existing_failure_reported {E : Env} {go : Go} {tpl : Bytes} {te names exprs im only sb} {st st1 st2 : St}
    {nv : Val} {name : Bytes} {nodes : List Node} {vals : List Val} {err : Err}
    (h1 : evalExpr E te st = .ok (nv, st1)) (h2 : toStr nv = .ok name) (h3 : isRelative name = false)
    (h4 : E.tpl? name = some nodes)
    (h6 : (sb && !E.hasPolicy) = false)
    (h7 : evalArgs E (dedupLast names exprs).2 st1 = .ok (vals, st2))
    (hgo : go (.root name) { st2 with ctx := includeCtx E st1.ctx names exprs only sb vals } = .error err) :
    renderNode E go tpl (.include te names exprs im only sb) st = .error err := by
  rw [C11_include_found h1 h2 h3 h4 h6 h7, hgo]; rfl

/-- (2) a failing `with` expression -/
theorem C11_with_failure_reported {E : Env} {go : Go} {tpl : Bytes} {te names exprs im only sb} {st st1 : St}
    {nv : Val} {name : Bytes} {nodes : List Node} {err : Err}
    (h1 : evalExpr E te st = .ok (nv, st1)) (h2 : toStr nv = .ok name) (h3 : isRelative name = false)
    (h4 : E.tpl? name = some nodes)
    (h6 : (sb && !E.hasPolicy) = false)
    (h7 : evalArgs E (dedupLast names exprs).2 st1 = .error err) :
    renderNode E go tpl (.include te names exprs im only sb) st = .error err := by
  obtain ⟨ch, hx⟩ := evalExpr_ok_iff.mp h1
  simp only [renderNode, hx, ok_bind, h2, resolveTpl_of_not_relative h3, h4, Option.map_some, h6, h7, Bool.false_eq_true, if_false]
  rfl

/-- (3) `sandboxed` without a security policy -/
theorem C11_sandboxed_without_policy {E : Env} {go : Go} {tpl : Bytes} {te names exprs im only} {st st1 : St}
    {nv : Val} {name : Bytes} {nodes : List Node}
    (h1 : evalExpr E te st = .ok (nv, st1)) (h2 : toStr nv = .ok name) (h3 : isRelative name = false)
    (h4 : E.tpl? name = some nodes) (h6 : E.hasPolicy = false) :
    renderNode E go tpl (.include te names exprs im only true) st =
      rerr "cannot use sandboxed include without a security policy" := by
  obtain ⟨ch, hx⟩ := evalExpr_ok_iff.mp h1
  simp only [renderNode, hx, ok_bind, h2, resolveTpl_of_not_relative h3, h4, Option.map_some, h6]
  simp
  
/-- (4) failure of the name expression or of its conversion to a string: `C11_name_error`,
    `C11_name_not_string` above.  Summary: with `ignore missing` the node succeeds with empty output
    **only** in the missing-template case — in every successful run with an existing template the output
    is the included template's output. -/
theorem C11_ignore_missing_only_missing {E : Env} {go : Go} {tpl : Bytes} {te names exprs im only sb} {st st' : St}
    {out : Bytes} (h : renderNode E go tpl (.include te names exprs im only sb) st = .ok (out, st')) :
    ∃ nv st1 name, evalExpr E te st = .ok (nv, st1) ∧ toStr nv = .ok name ∧
      ((resolveTpl E name = none ∧ E.tpl? name = none ∧ im = true ∧ out = [] ∧ st' = st1) ∨
       (∃ rn nodes vals st2 st3, resolveTpl E name = some rn ∧ E.tpl? rn = some nodes ∧
          (isRelative name = false → rn = name) ∧
          evalArgs E (dedupLast names exprs).2 st1 = .ok (vals, st2) ∧
          go (.root rn) { st2 with ctx := includeCtx E st1.ctx names exprs only sb vals } = .ok (out, st3))) := by
  simp only [renderNode] at h
  obtain ⟨⟨⟨nv, ch⟩, st1⟩, h1, h⟩ := bind_ok h
  obtain ⟨name, h2, h⟩ := bind_ok h
  refine ⟨nv, st1, name, evalExpr_ok_iff.mpr ⟨ch, h1⟩, h2, ?_⟩
  simp only at h
  split at h
  · rename_i hnone
    split at h
    · rename_i him
      cases h; exact .inl ⟨hnone, resolveTpl_none hnone, him, rfl, rfl⟩
    · cases h
  · rename_i rn hsome
    split at h
    · cases h
    · obtain ⟨⟨vals, st2⟩, h7, h⟩ := bind_ok h
      obtain ⟨⟨o, st3⟩, hgo, h⟩ := bind_ok h
      cases h
      obtain ⟨nodes, hn⟩ := resolveTpl_some hsome
      exact .inr ⟨rn, nodes, vals, st2, st3, hsome, hn, fun hr => resolveTpl_not_relative_eq hr hsome, h7, hgo⟩

/-! ## visibility: what the included template can read -/

/-- the entry for `k` in parallel lists of names and things, the **last** one winning -/
def lookupLast {α} (k : Bytes) : List Bytes → List α → Option α
  | n :: ns, x :: xs =>
    match lookupLast k ns xs with
    | some y => some y
    | none => if n == k then some x else none
  | _, _ => none

/-- own-map lookup after `setAll`: a bound name gives its (last) value, anything else the old entry -/
theorem getKV_setAll (k : Bytes) : ∀ (ns : List Bytes) (vs : List Val) (c : Ctx),
    getKV k (setAll c ns vs).vars = (match lookupLast k ns vs with | some v => some v | none => getKV k c.vars)
  | [], vs, c => by cases vs <;> rfl
  | n :: ns, [], c => rfl
  | n :: ns, v :: vs, c => by
    simp only [setAll, lookupLast]
    rw [getKV_setAll k ns vs (c.setVar n v)]
    cases lookupLast k ns vs with
    | some y => rfl
    | none =>
      simp only [Ctx.setVar]
      by_cases h : n = k
      · subst h; simp [getKV_setKV_same]
      · have : (n == k) = false := by simpa using h
        simp only [this, Bool.false_eq_true, if_false]
        exact getKV_setKV_ne n k v c.vars (Ne.symm h)

/-- `setAll` touches the variable map only -/
theorem setAll_frame : ∀ (ns : List Bytes) (vs : List Val) (c : Ctx),
    (setAll c ns vs).macros = c.macros ∧ (setAll c ns vs).parents = c.parents ∧
    (setAll c ns vs).sandboxed = c.sandboxed ∧ (setAll c ns vs).inside = c.inside ∧
    (setAll c ns vs).blockDefs = c.blockDefs
  | [], vs, c => by cases vs <;> exact ⟨rfl, rfl, rfl, rfl, rfl⟩
  | n :: ns, [], c => ⟨rfl, rfl, rfl, rfl, rfl⟩
  | n :: ns, v :: vs, c => by
    simp only [setAll]
    exact setAll_frame ns vs (c.setVar n v)

theorem getVar_setAll (k : Bytes) (ns : List Bytes) (vs : List Val) (c : Ctx) :
    (setAll c ns vs).getVar k = (match lookupLast k ns vs with | some v => v | none => c.getVar k) := by
  simp only [Ctx.getVar, getKV_setAll k ns vs c, (setAll_frame ns vs c).2.1]
  cases lookupLast k ns vs <;> rfl

theorem getMacro_setAll (k : Bytes) (ns : List Bytes) (vs : List Val) (c : Ctx) :
    (setAll c ns vs).getMacro k = c.getMacro k := by
  simp only [Ctx.getMacro, (setAll_frame ns vs c).1, (setAll_frame ns vs c).2.1]

theorem dedupLast_length : ∀ (ns : List Bytes) (es : List Expr),
    (dedupLast ns es).1.length = (dedupLast ns es).2.length
  | [], es => by cases es <;> rfl
  | n :: ns, [] => rfl
  | n :: ns, e :: es => by
    have ih := dedupLast_length ns es
    simp only [dedupLast]
    split
    · exact ih
    · simp only [List.length_cons, ih]

theorem lookupLast_isSome_of_contains {α} (k : Bytes) : ∀ (ns : List Bytes) (xs : List α),
    ns.length = xs.length → ns.contains k = true → (lookupLast k ns xs).isSome = true
  | [], xs, _, h => by simp at h
  | n :: ns, [], hl, _ => by simp at hl
  | n :: ns, x :: xs, hl, h => by
    simp only [lookupLast]
    cases hr : lookupLast k ns xs with
    | some y => rfl
    | none =>
      by_cases hn : n = k
      · simp [hn]
      · exfalso
        have hc : ns.contains k = true := by
          simp only [List.contains_cons, Bool.or_eq_true] at h
          rcases h with h' | h'
          · have e : k = n := by simpa using h'
            exact absurd e.symm hn
          · exact h'
        have := lookupLast_isSome_of_contains k ns xs (by simpa using hl) hc
        rw [hr] at this; cases this

theorem lookupLast_none_of_not_contains {α} (k : Bytes) : ∀ (ns : List Bytes) (xs : List α),
    ns.contains k = false → lookupLast k ns xs = none
  | [], xs, _ => by cases xs <;> rfl
  | n :: ns, [], _ => rfl
  | n :: ns, x :: xs, h => by
    simp only [List.contains_cons, Bool.or_eq_false_iff] at h
    simp only [lookupLast, lookupLast_none_of_not_contains k ns xs h.2]
    have : (n == k) = false := by
      rw [beq_eq_false_iff_ne] at h ⊢; exact fun e => h.1 e.symm
    simp [this]

theorem hasVar_setAll (k : Bytes) (ns : List Bytes) (vs : List Val) (c : Ctx) :
    (setAll c ns vs).hasVar k = ((lookupLast k ns vs).isSome || c.hasVar k) := by
  simp only [Ctx.hasVar, getKV_setAll k ns vs c, (setAll_frame ns vs c).2.1]
  cases lookupLast k ns vs <;> simp

/-- `dedupLast` keeps, for every name, exactly its **last** entry: every lookup is unchanged … -/
theorem lookupLast_dedupLast (k : Bytes) : ∀ (ns : List Bytes) (es : List Expr),
    lookupLast k (dedupLast ns es).1 (dedupLast ns es).2 = lookupLast k ns es
  | [], es => by cases es <;> rfl
  | n :: ns, [] => rfl
  | n :: ns, e :: es => by
    have ih := lookupLast_dedupLast k ns es
    simp only [dedupLast, lookupLast]
    split
    · rename_i hc
      rw [ih]
      cases hl : lookupLast k ns es with
      | some y => rfl
      | none =>
        by_cases hnk : n = k
        · subst hnk
          have := lookupLast_isSome_of_contains n _ _ (dedupLast_length ns es) hc
          rw [ih, hl] at this; cases this
        · have : (n == k) = false := by simpa using hnk
          simp [this]
    · simp only [lookupLast]
      rw [ih]

/-- … and no name is left twice -/
theorem dedupLast_nodup : ∀ (ns : List Bytes) (es : List Expr), (dedupLast ns es).1.Nodup
  | [], es => by cases es <;> exact List.nodup_nil
  | n :: ns, [] => List.nodup_nil
  | n :: ns, e :: es => by
    have ih := dedupLast_nodup ns es
    simp only [dedupLast]
    split
    · exact ih
    · rename_i hc
      refine List.nodup_cons.mpr ⟨?_, ih⟩
      intro hmem
      exact hc (List.contains_iff_mem.mpr hmem)

theorem evalArgs_length {E : Env} : ∀ {es : List Expr} {st : St} {vals : List Val} {st' : St},
    evalArgs E es st = .ok (vals, st') → vals.length = es.length
  | [], st, vals, st', h => by simp only [evalArgs, pure_eq_ok] at h; cases h; rfl
  | e :: es, st, vals, st', h => by
    simp only [evalArgs] at h
    obtain ⟨⟨⟨v, _⟩, st1⟩, _, h⟩ := bind_ok h
    obtain ⟨⟨vs, st2⟩, h2, h⟩ := bind_ok h
    cases h
    simp only [List.length_cons, evalArgs_length h2]


/-- **`only`** (with or without `sandboxed`): the included template's variables are exactly the `with`
    variables (of several entries with one name the last) — nothing of the includer is reachable: no
    parent chain, no macros, no block definitions; every other name reads as `null`. -/
theorem C11_visibility_only (E : Env) (c : Ctx) (names : List Bytes) (exprs : List Expr) (sb : Bool)
    (vals : List Val) :
    ∀ ic, ic = includeCtx E c names exprs true sb vals →
    ic.parents = [] ∧ ic.macros = [] ∧ ic.blockDefs = [] ∧
    (∀ k, getKV k ic.vars = lookupLast k (dedupLast names exprs).1 vals) ∧
    (∀ k, ic.getVar k = (lookupLast k (dedupLast names exprs).1 vals).getD .null) ∧
    (∀ k, ic.getMacro k = none) := by
  intro ic hic
  subst hic
  unfold includeCtx
  have hb : includeBase E c true sb = freshCtx [] (sb || (E.F.propIncludeFresh && c.sandboxed)) (sb || c.inside) := by
    simp [includeBase]
  have hf := setAll_frame (dedupLast names exprs).1 vals (includeBase E c true sb)
  have hkv : ∀ k, getKV k (setAll (includeBase E c true sb) (dedupLast names exprs).1 vals).vars =
      lookupLast k (dedupLast names exprs).1 vals := by
    intro k
    rw [getKV_setAll, hb]
    cases lookupLast k (dedupLast names exprs).1 vals <;> rfl
  refine ⟨by rw [hf.2.1, hb]; rfl, by rw [hf.1, hb]; rfl, by rw [hf.2.2.2.2, hb]; rfl, hkv, ?_, ?_⟩
  · intro k
    rw [getVar_setAll, hb]
    cases lookupLast k (dedupLast names exprs).1 vals <;> rfl
  · intro k
    rw [getMacro_setAll, hb]; rfl

/-- **plain include** (no `only`, not `sandboxed`): the included template reads a `with` variable if
    one is bound to the name (add / override), otherwise exactly what the includer reads
    (`Ctx.getVar` of the includer, through its whole parent chain); the includer's macros are visible;
    the sandbox flags are inherited. -/
theorem C11_visibility_plain (E : Env) (c : Ctx) (names : List Bytes) (exprs : List Expr) (vals : List Val) :
    ∀ ic, ic = includeCtx E c names exprs false false vals →
    (∀ k, ic.getVar k = (match lookupLast k (dedupLast names exprs).1 vals with
                          | some v => v
                          | none => c.getVar k)) ∧
    (∀ k, ic.getMacro k = c.getMacro k) ∧
    ic.sandboxed = c.sandboxed ∧ ic.inside = c.inside ∧ ic.blockDefs = [] := by
  intro ic hic
  subst hic
  unfold includeCtx
  have hb : includeBase E c false false =
      { vars := [], macros := c.macros, parents := c.asScope :: c.parents, sandboxed := c.sandboxed,
        inside := c.inside } := by simp [includeBase]
  have hf := setAll_frame (dedupLast names exprs).1 vals (includeBase E c false false)
  refine ⟨?_, ?_, by rw [hf.2.2.1, hb], by rw [hf.2.2.2.1, hb], by rw [hf.2.2.2.2, hb]⟩
  · intro k
    rw [getVar_setAll, hb]
    cases lookupLast k (dedupLast names exprs).1 vals with
    | some v => rfl
    | none =>
      simp only [Ctx.getVar, getKV, List.find?, Option.map, scopesVar, Ctx.asScope]
  · intro k
    rw [getMacro_setAll, hb]
    simp only [Ctx.getMacro, scopesMacro, Ctx.asScope]
    cases getKV k c.macros <;> rfl

/-! ### `Ctx.visibleVars`: the flattened copy reads exactly like the scope chain -/

theorem getKV_setKV (k n : Bytes) (v : Val) (kvs : List (Bytes × Val)) :
    getKV k (setKV n v kvs) = if n == k then some v else getKV k kvs := by
  by_cases h : n = k
  · subst h; simp [getKV_setKV_same]
  · have : (n == k) = false := by simpa using h
    simp only [this, Bool.false_eq_true, if_false]
    exact getKV_setKV_ne n k v kvs (Ne.symm h)

theorem getKV_cons (k : Bytes) (p : Bytes × Val) (r : List (Bytes × Val)) :
    getKV k (p :: r) = if p.1 == k then some p.2 else getKV k r := by
  simp only [getKV, List.find?]
  cases p.1 == k <;> rfl

/-- laying the entries of `kvs` (first entry last, so it wins) over `base` -/
theorem getKV_overlay (k : Bytes) (kvs base : List (Bytes × Val)) :
    getKV k (kvs.reverse.foldl (fun acc kv => setKV kv.1 kv.2 acc) base) =
      (match getKV k kvs with | some v => some v | none => getKV k base) := by
  rw [List.foldl_reverse]
  induction kvs with
  | nil => rfl
  | cons p r ih =>
    simp only [List.foldr_cons, getKV_setKV, getKV_cons]
    cases p.1 == k with
    | true => rfl
    | false => simpa using ih

/-- first hit along the parent chain, as an option -/
def scopesGet (k : Bytes) : List Scope → Option Val
  | [] => none
  | s :: r => match getKV k s.vars with
    | some v => some v
    | none => scopesGet k r

theorem scopesGet_getD (k : Bytes) : ∀ ps : List Scope, (scopesGet k ps).getD .null = scopesVar k ps
  | [] => rfl
  | s :: r => by
    simp only [scopesGet, scopesVar]
    cases getKV k s.vars with
    | some v => rfl
    | none => exact scopesGet_getD k r

theorem scopesGet_isSome (k : Bytes) : ∀ ps : List Scope,
    (scopesGet k ps).isSome = ps.any (fun s => (getKV k s.vars).isSome)
  | [] => rfl
  | s :: r => by
    simp only [scopesGet, List.any_cons]
    cases getKV k s.vars with
    | some v => rfl
    | none => simpa using scopesGet_isSome k r

theorem getKV_parentsFlat (k : Bytes) : ∀ ps : List Scope,
    getKV k (ps.reverse.foldl
      (fun acc s => s.vars.reverse.foldl (fun acc' kv => setKV kv.1 kv.2 acc') acc) []) = scopesGet k ps := by
  intro ps
  rw [List.foldl_reverse]
  induction ps with
  | nil => rfl
  | cons s r ih =>
    simp only [List.foldr_cons, scopesGet]
    rw [getKV_overlay, ih]

/-- **The flattened copy has, for every name, exactly the entry the scope chain gives**: own map first, then
    the parents from the innermost outwards. -/
theorem getKV_visibleVars (c : Ctx) (k : Bytes) :
    getKV k c.visibleVars = (match getKV k c.vars with | some v => some v | none => scopesGet k c.parents) := by
  unfold Ctx.visibleVars
  rw [getKV_overlay, getKV_parentsFlat]

/-- reading a name in the copy = `GetVariable` in the includer … -/
theorem getVar_visibleVars (c : Ctx) (k : Bytes) : (getKV k c.visibleVars).getD .null = c.getVar k := by
  rw [getKV_visibleVars]
  simp only [Ctx.getVar]
  cases getKV k c.vars with
  | some v => rfl
  | none => exact scopesGet_getD k c.parents

/-- … and definedness likewise (`hasVariable`) -/
theorem hasVar_visibleVars (c : Ctx) (k : Bytes) : (getKV k c.visibleVars).isSome = c.hasVar k := by
  rw [getKV_visibleVars]
  simp only [Ctx.hasVar]
  cases getKV k c.vars with
  | some v => rfl
  | none => simpa using scopesGet_isSome k c.parents

/-- **`sandboxed` without `only`** (every includer context, with or without a parent chain): the included
    template reads a `with` variable if one is bound to the name, otherwise **exactly what the includer
    reads** — same value (`getVar`) and same definedness (`hasVar`), through the includer's whole scope
    chain; it has no parent chain of its own (a flattened copy), the includer's macros are *not* visible,
    and the sandbox flag is on. -/
theorem C11_visibility_sandboxed (E : Env) (c : Ctx) (names : List Bytes) (exprs : List Expr) (vals : List Val) :
    ∀ ic, ic = includeCtx E c names exprs false true vals →
    (∀ k, ic.getVar k = (match lookupLast k (dedupLast names exprs).1 vals with
                          | some v => v
                          | none => c.getVar k)) ∧
    (∀ k, ic.hasVar k = ((lookupLast k (dedupLast names exprs).1 vals).isSome || c.hasVar k)) ∧
    (∀ k, ic.getMacro k = none) ∧ ic.sandboxed = true ∧ ic.inside = true ∧ ic.parents = [] ∧
    ic.blockDefs = [] := by
  intro ic hic
  subst hic
  unfold includeCtx
  have hb : includeBase E c false true = freshCtx c.visibleVars true true := by simp [includeBase]
  have hf := setAll_frame (dedupLast names exprs).1 vals (includeBase E c false true)
  have hpar : (setAll (includeBase E c false true) (dedupLast names exprs).1 vals).parents = [] := by
    rw [hf.2.1, hb]; rfl
  refine ⟨?_, ?_, ?_, by rw [hf.2.2.1, hb]; rfl, by rw [hf.2.2.2.1, hb]; rfl, hpar,
    by rw [hf.2.2.2.2, hb]; rfl⟩
  · intro k
    rw [getVar_setAll, hb]
    cases lookupLast k (dedupLast names exprs).1 vals with
    | some v => rfl
    | none =>
      have : (freshCtx c.visibleVars true true).getVar k = (getKV k c.visibleVars).getD .null := by
        simp only [Ctx.getVar, freshCtx, scopesVar]
        cases getKV k c.visibleVars <;> rfl
      show (freshCtx c.visibleVars true true).getVar k = c.getVar k
      rw [this, getVar_visibleVars]
  · intro k
    rw [hasVar_setAll, hb]
    have : (freshCtx c.visibleVars true true).hasVar k = (getKV k c.visibleVars).isSome := by
      simp [Ctx.hasVar, freshCtx]
    rw [this, hasVar_visibleVars]
  · intro k
    rw [getMacro_setAll, hb]; rfl

/-- which `with` entry a name is bound to: the list the values are computed from has every name once,
    paired with the **last** expression given for it in the source; values correspond positionally -/
theorem C11_with_last_wins (names : List Bytes) (exprs : List Expr) :
    (dedupLast names exprs).1.Nodup ∧
    (dedupLast names exprs).1.length = (dedupLast names exprs).2.length ∧
    (∀ k, lookupLast k (dedupLast names exprs).1 (dedupLast names exprs).2 = lookupLast k names exprs) ∧
    (∀ E st vals st', evalArgs E (dedupLast names exprs).2 st = .ok (vals, st') →
      vals.length = (dedupLast names exprs).1.length) :=
  ⟨dedupLast_nodup names exprs, dedupLast_length names exprs, fun k => lookupLast_dedupLast k names exprs,
   fun _ _ _ _ h => (evalArgs_length h).trans (dedupLast_length names exprs).symm⟩

/-! ## engine globals (`Engine.AddGlobal`): visible in every context, shadowed by every context variable -/

/-- **`C11_context_shadows_global`**: a name bound anywhere in the context chain (own map or a parent
    scope; to any value, null included) evaluates to that binding — the result does not depend on the
    engine globals at all. -/
theorem C11_context_shadows_global (E : Env) (ap : Bool) (n : Bytes) (st : St) (g : List (Bytes × Val))
    (h : st.ctx.hasVar n = true) :
    evalX { E with globals := g } ap (.var n) st = evalX E ap (.var n) st ∧
    evalX E ap (.var n) st = .ok ((st.ctx.getVar n, []), st) := by
  rw [evalX_var, evalX_var, readVar_of_hasVar h, readVar_of_hasVar h]
  exact ⟨rfl, rfl⟩

/-- **`C11_global_visible_everywhere`**: a name no scope of the chain binds and for which a global is
    registered evaluates to the global — in every context, whatever its parent chain, its sandbox
    flags, its block definitions, and whatever macros are visible in it (a global shadows a macro of
    its name); no error, no state change. -/
theorem C11_global_visible_everywhere (E : Env) (ap : Bool) (n : Bytes) (st : St) (v : Val)
    (h : st.ctx.hasVar n = false) (hg : getKV n E.globals = some v) :
    evalX E ap (.var n) st = .ok ((v, []), st) := by
  rw [evalX_var, readVar_of_global h hg]

/-- "no scope of the chain binds `n`", spelled out -/
theorem C11_unbound_iff (c : Ctx) (n : Bytes) :
    c.hasVar n = false ↔ getKV n c.vars = none ∧ ∀ s ∈ c.parents, getKV n s.vars = none := by
  rw [← Bool.not_eq_true, Ctx.hasVar_iff]
  simp only [not_or, not_exists, not_and, Bool.not_eq_true, Option.isSome_eq_false_iff, Option.isNone_iff_eq_none]

/-- … in particular in the context an `include … only` creates (with or without `sandboxed`, whatever
    the includer's context `c` is): every name that is not a `with` variable and has a global reads
    as the global there; a `with` variable of that name shadows the global. -/
theorem C11_global_visible_in_only_include (E : Env) (c : Ctx) (names : List Bytes) (exprs : List Expr) (sb : Bool)
    (vals : List Val) (ap : Bool) (n : Bytes) (v : Val) (st : St)
    (hctx : st.ctx = includeCtx E c names exprs true sb vals)
    (hg : getKV n E.globals = some v) :
    (lookupLast n (dedupLast names exprs).1 vals = none → evalX E ap (.var n) st = .ok ((v, []), st)) ∧
    (∀ w, lookupLast n (dedupLast names exprs).1 vals = some w → evalX E ap (.var n) st = .ok ((w, []), st)) := by
  obtain ⟨hpar, _, _, hkv, hget, _⟩ := C11_visibility_only E c names exprs sb vals _ hctx
  constructor
  · intro hnone
    refine C11_global_visible_everywhere E ap n st v ?_ hg
    rw [C11_unbound_iff, hkv n, hpar]
    exact ⟨hnone, fun s hs => by cases hs⟩
  · intro w hw
    have hv : st.ctx.hasVar n = true := by
      rw [Ctx.hasVar_iff, hkv n, hw]; exact .inl rfl
    rw [(C11_context_shadows_global E ap n st E.globals hv).2, hget n, hw]; rfl

/-- **`C11_defined_scope_independent`**: `x is defined` is true for a variable bound in ANY scope of
    the chain — the context's own map or any enclosing scope (the includer of a plain include, the
    caller of a macro, …) — also when it is bound to null. -/
theorem C11_defined_scope_independent (E : Env) (ap : Bool) (n : Bytes) (args : List Expr) (st : St)
    (h : (getKV n st.ctx.vars).isSome = true ∨ ∃ s ∈ st.ctx.parents, (getKV n s.vars).isSome = true) :
    evalX E ap (.test (.var n) (b "defined") args) st = .ok ((.bool true, []), st) := by
  rw [evalX_defined_var, (Ctx.hasVar_iff st.ctx n).mpr h]; rfl

/-- the full table of `x is defined`: true iff some scope binds `x` or an engine global `x` exists
    (so a global is "defined" in every context, also under `include … only`) -/
theorem C11_defined_iff (E : Env) (ap : Bool) (n : Bytes) (args : List Expr) (st : St) :
    evalX E ap (.test (.var n) (b "defined") args) st =
      .ok ((.bool (st.ctx.hasVar n || (getKV n E.globals).isSome), []), st) :=
  evalX_defined_var E ap n args st

/-! ## at the top level: `go` is the fuel-indexed `run`, the included template is rendered by `renderRoot` -/

theorem C11_included_is_rendered (E : Env) (f : Nat) (name : Bytes) (s : St) :
    run E (f + 1) (.root name) s = renderRoot E (run E f) name s := rfl

/-- non-interference for real renders: any include executed at any depth of `run` -/
theorem C11_non_interference_run {E : Env} {f : Nat} {tpl : Bytes} {te names exprs im only sb} {st st' : St}
    {out : Bytes}
    (h : renderNode E (run E f) tpl (.include te names exprs im only sb) st = .ok (out, st')) :
    st'.ctx = st.ctx := C11_non_interference h

/-! ## an included template that extends a layout: the layout reads what the included template reads -/

/-- the context an `extends` node hands to its parent template answers every variable lookup exactly as the
    extending template's own context does — its own variables and, when the extending template was itself
    included, every variable of the including templates (defect fixed in /repo: the chain was dropped) -/
theorem C11_extends_keeps_visibility (E : Env) (c : Ctx) (k : Bytes) :
    let pc : Ctx := { freshCtx c.vars (E.F.propExtends && c.sandboxed) c.inside with
                        blockDefs := c.blockDefs, parents := c.parents }
    pc.getVar k = c.getVar k ∧ pc.hasVar k = c.hasVar k := ⟨rfl, rfl⟩

/-- …and that context is the one the parent's root is rendered in -/
theorem C11_extends_hands_over {E : Env} {go : Go} {tpl : Bytes} {e : Expr} {st : St} {v fl} {name : Bytes} {T' : List Node}
    {out : Bytes} {st' : St}
    (h1 : evalX E true e st = .ok ((v, fl), st)) (h2 : toStr v = .ok name)
    (hrel : isRelative name = false) (ht : E.tpl? name = some T')
    (h : renderNode E go tpl (.extends e) st = .ok (out, st')) :
    ∃ st2, go (.root name) { st with ctx := { freshCtx st.ctx.vars (E.F.propExtends && st.ctx.sandboxed) st.ctx.inside with
                        blockDefs := st.ctx.blockDefs, parents := st.ctx.parents } } = .ok (out, st2) ∧ st'.ctx = st.ctx := by
  simp only [renderNode, h1, ok_bind, h2, resolveTpl_of_not_relative hrel, ht, Option.map_some] at h
  cases hg : go (.root name) { st with ctx := { freshCtx st.ctx.vars (E.F.propExtends && st.ctx.sandboxed) st.ctx.inside with
                        blockDefs := st.ctx.blockDefs, parents := st.ctx.parents } } with
  | error err => rw [hg] at h; cases h
  | ok r =>
    rw [hg] at h
    obtain ⟨o, s2⟩ := r
    cases h
    exact ⟨s2, rfl, rfl⟩

/-! ## relative template names (`./x`, `../x`)

  A name starting with `./` or `../` is joined to the directory of the template the render call STARTED FROM
  (`Env.entry` = Go's `ctx.templateName`, which `Template.RenderTo` sets and every derived context copies) — not
  to the directory of the template that contains the tag — and the cleaned result is looked up; when no template
  is registered under it (and it differs from the written name) the name as written is looked up. -/

/-- the resolved name is registered: that is the template -/
theorem C11_relative_resolves_against_entry {E : Env} {name : Bytes} {nodes : List Node}
    (hr : isRelative name = true) (he : E.entry ≠ [])
    (ht : E.tpl? (pathJoin (pathDir E.entry) name) = some nodes) :
    resolveTpl E name = some (pathJoin (pathDir E.entry) name) := by
  unfold resolveTpl
  rw [if_pos (by simp [hr, he])]
  simp only [ht]

/-- the resolved name is not registered: the name as written is used — found if it is registered, not found
    otherwise.  (When the resolved name IS the written one the second lookup is skipped; the result is the same.) -/
theorem C11_relative_falls_back_to_written {E : Env} {name : Bytes}
    (hr : isRelative name = true) (he : E.entry ≠ [])
    (ht : E.tpl? (pathJoin (pathDir E.entry) name) = none) :
    resolveTpl E name = (E.tpl? name).map (fun _ => name) ∧
    (∀ nodes, E.tpl? name = some nodes → resolveTpl E name = some name) ∧
    (E.tpl? name = none → resolveTpl E name = none) := by
  have key : resolveTpl E name = (E.tpl? name).map (fun _ => name) := by
    unfold resolveTpl
    rw [if_pos (by simp [hr, he])]
    simp only [ht]
    split
    · rename_i heq
      rw [← eq_of_beq heq, ht]; rfl
    · rfl
  refine ⟨key, fun nodes hn => by rw [key, hn]; rfl, fun hn => by rw [key, hn]; rfl⟩

/-- a render that did not start from a named template takes every name as written -/
theorem C11_relative_without_entry {E : Env} {name : Bytes} (he : E.entry = []) :
    resolveTpl E name = (E.tpl? name).map (fun _ => name) := resolveTpl_of_no_entry he

/-- a name that is not relative is taken as written, whatever the entry -/
theorem C11_plain_name_as_written {E : Env} {name : Bytes} (hr : isRelative name = false) :
    resolveTpl E name = (E.tpl? name).map (fun _ => name) := resolveTpl_of_not_relative hr

/-- what is looked up first for a relative name is a clean path: cleaning it again changes nothing, and it is `.`
    or a sequence of elements — none empty, none `.`, none containing a slash — joined by single slashes (behind one
    slash if the entry's directory is rooted) -/
theorem C11_resolved_name_is_clean (entry name : Bytes) :
    pathClean (pathJoin (pathDir entry) name) = pathJoin (pathDir entry) name ∧
    ∃ s : List Bytes, (∀ e ∈ s, e ≠ [] ∧ e ≠ [46] ∧ (47 : UInt8) ∉ e) ∧
      (pathJoin (pathDir entry) name = [46] ∨ pathJoin (pathDir entry) name = joinSlash s ∨
       pathJoin (pathDir entry) name = 47 :: joinSlash s) := by
  refine ⟨resolved_name_clean entry name, ?_⟩
  obtain ⟨s, hs, h⟩ := pathJoin_shape (pathDir entry) name (pathDir_ne_nil entry)
  refine ⟨s, hs, ?_⟩
  rw [h]
  split
  · exact .inr (.inr rfl)
  · split
    · exact .inl rfl
    · exact .inr (.inl rfl)

/-- the include node with the name resolved: the transfer goes to the RESOLVED name (generalises `C11_include_found`) -/
theorem C11_include_resolved {E : Env} {go : Go} {tpl : Bytes} {te names exprs im only sb} {st st1 st2 : St}
    {nv : Val} {name rn : Bytes} {vals : List Val}
    (h1 : evalExpr E te st = .ok (nv, st1)) (h2 : toStr nv = .ok name)
    (h4 : resolveTpl E name = some rn)
    (h6 : (sb && !E.hasPolicy) = false)
    (h7 : evalArgs E (dedupLast names exprs).2 st1 = .ok (vals, st2)) :
    renderNode E go tpl (.include te names exprs im only sb) st =
      (go (.root rn) { st2 with ctx := includeCtx E st1.ctx names exprs only sb vals } >>= fun z =>
        .ok (z.1, { z.2 with ctx := st2.ctx })) := by
  obtain ⟨ch, hx⟩ := evalExpr_ok_iff.mp h1
  simp only [renderNode, hx, ok_bind, h2, h4, h6, h7, Bool.false_eq_true, if_false, pure_eq_ok,
    includeCtx, includeBase]

/-- resolution does not look at the template that contains the tag: the same include node behaves the same in
    every template (the base of a relative name is the entry template, a field of the environment) -/
theorem C11_include_independent_of_container (E : Env) (go : Go) (tpl tpl' : Bytes) (te names exprs im only sb) (st : St) :
    renderNode E go tpl (.include te names exprs im only sb) st =
      renderNode E go tpl' (.include te names exprs im only sb) st := by
  simp only [renderNode]

/-! ## non-vacuity: whole-pipeline instances -/

/-- render template `main` of an environment given as syntax trees: output, or the reason for `unsupported`,
    or `none` for any other failure -/
def renderDemoAst (E : Env) (vars : List (Bytes × Val)) : Option (Bytes ⊕ String) :=
  match renderTop E (b "main") vars with
  | .ok (o, _) => some (.inl o)
  | .error (.unsupported w) => some (.inr w)
  | .error _ => none

-- an included template that extends a layout: layout and overriding block read the includer's variables
example : renderDemo "{% set w = 'W' %}{% include 'part' %}|{% include 'part' with {'w': 'X'} %}|{% include 'part' only %}" []
    [("part", "{% extends 'layout' %}{% block b %}c{{ w }}{% endblock %}"), ("layout", "L[{% block b %}{% endblock %}{{ w }}]")]
    = some (b "L[cWW]|L[cXX]|L[c]") := by decide +kernel
-- `with` adds (b) and overrides (a) for the included template only; its sets (a, c) do not come back
example : renderDemo "{% set a = 1 %}{% include 'x' with {'a': 2, 'b': 3} %}|{{ a }}{{ b }}{{ c }}|" []
    [("x", "{{ a }}{{ b }}{% set a = 9 %}{% set c = 4 %}{{ a }}{{ c }}")] = some (b "2394|1|") := by decide +kernel
-- `only` hides the includer's variables
example : renderDemo "{% set a = 1 %}{% include 'x' with {'b': 3} only %}|{{ a }}" [] [("x", "[{{ a }}{{ b }}]")]
    = some (b "[3]|1") := by decide +kernel
-- plain include: read access to the includer's variables, writes stay local
example : renderDemo "{% set a = 1 %}{% include 'x' %}|{{ a }}" [] [("x", "[{{ a }}{{ b }}]{% set a = 2 %}")]
    = some (b "[1]|1") := by decide +kernel
-- later duplicate wins
example : renderDemo "{% include 'x' with {'a': 1, 'a': 2} %}" [] [("x", "{{ a }}")] = some (b "2") := by decide +kernel
-- ignore missing: empty output; without it: failure; an existing template that fails is reported;
-- so is a missing template further down
example : renderDemo "A{% include 'nope' ignore missing %}B" = some (b "AB") := by decide +kernel
example : renderDemo "A{% include 'nope' %}B" = none := by decide +kernel
example : renderDemo "A{% include 'x' ignore missing %}B" [] [("x", "{{ 1/0 }}")] = none := by decide +kernel
example : renderDemo "A{% include 'x' ignore missing %}B" [] [("x", "{% include 'nope' %}")] = none := by decide +kernel
-- computed name, inside a loop: sees the loop variables, its own set / loop do not disturb the includer's
example : renderDemo "{% for i in [1,2] %}{% include n ~ 'x' %}{{ i }};{% endfor %}{{ loop is defined ? 'leak' : 'ok' }}"
    [(b "n", .str (b "t"))] [("tx", "{{ i }}{{ loop.index }}{% set i = 7 %}{% for j in [5] %}{{ j }}{% endfor %}")]
    = some (b "1151;2252;ok") := by decide +kernel
-- macros: visible in a plain include, hidden by `only`, and a macro defined by the included template does not leak
example : renderDemo "{% macro m(x) %}<{{ x }}>{% endmacro %}{% include 'x' %}" [] [("x", "{{ m(1) }}")]
    = some (b "<1>") := by decide +kernel
example : renderDemo "{% macro m(x) %}<{{ x }}>{% endmacro %}{% include 'x' only %}" [] [("x", "{{ m(1) }}")]
    = none := by decide +kernel
example : renderDemo "{% include 'x' %}{{ m(2) }}" [] [("x", "{% macro m(x) %}<{{ x }}>{% endmacro %}{{ m(1) }}")]
    = none := by decide +kernel
-- sandboxed (with a policy) from a top-level context: variables readable
example : renderDemoAst { tpls := [(b "main", [.include (.str (b "b")) [] [] false false true]),
      (b "b", [.print (.var (b "v"))])], hasPolicy := true } [(b "v", .int 5)] = some (.inl (b "5")) := by
  decide +kernel
-- the former read-access gap (fixed in Go and in the model): a sandboxed include without `only`, executed
-- inside an included template, reads the variables its includer sees through the parent chain
example : renderDemoAst { tpls := [
      (b "main", [.setN (b "v") (.int 1), .include (.str (b "a")) [] [] false false false]),
      (b "a", [.text (b "["), .print (.var (b "v")), .text (b "]"), .include (.str (b "b")) [] [] false false true]),
      (b "b", [.text (b "<"), .print (.var (b "v")), .text (b ">")])], hasPolicy := true } [] =
    some (.inl (b "[1]<1>")) := by
  decide +kernel

-- engine globals: `g` is registered as a global (7).  It is read at the top level, inside a plain include, under
-- `include … only`, and inside a macro; a context variable `g` (here 1, or a `with` variable 2) shadows it
example : renderDemoAst { globals := [(b "g", .int 7)], tpls := [
      (b "main", [.print (.var (b "g")), .include (.str (b "x")) [] [] false true false,
                  .include (.str (b "x")) [] [] false false false,
                  .include (.str (b "x")) [b "g"] [.int 2] false true false]),
      (b "x", [.text (b "["), .print (.var (b "g")), .text (b "]")])] } [] = some (.inl (b "7[7][7][2]")) := by
  decide +kernel
example : renderDemoAst { globals := [(b "g", .int 7)], tpls := [
      (b "main", [.print (.var (b "g")), .include (.str (b "x")) [] [] false true false,
                  .include (.str (b "x")) [] [] false false false]),
      (b "x", [.text (b "["), .print (.var (b "g")), .text (b "]")])] } [(b "g", .int 1)] = some (.inl (b "1[7][1]")) := by
  decide +kernel
-- the theorems on a closed instance: global `g` (byte 103), read in an empty context and in one whose PARENT scope binds it to null
example : evalX { tpls := [], globals := [([103], .int 7)] } true (.var [103]) ⟨{}, [], 0⟩ = .ok ((.int 7, []), ⟨{}, [], 0⟩) :=
  C11_global_visible_everywhere _ _ _ _ _ rfl rfl
example : evalX { tpls := [], globals := [([103], .int 7)] } true (.var [103]) ⟨{ parents := [⟨[([103], .null)], []⟩] }, [], 0⟩ =
    .ok ((.null, []), ⟨{ parents := [⟨[([103], .null)], []⟩] }, [], 0⟩) :=
  (C11_context_shadows_global { tpls := [] } true [103] _ [([103], .int 7)] rfl).1.trans
    (C11_context_shadows_global { tpls := [] } true [103] _ [] rfl).2
-- `is defined` for a variable an enclosing scope binds to null; whole pipeline: null-valued variable of the includer
example : evalX { tpls := [] } true (.test (.var [103]) (b "defined") []) ⟨{ parents := [⟨[([103], .null)], []⟩] }, [], 0⟩ =
    .ok ((.bool true, []), ⟨{ parents := [⟨[([103], .null)], []⟩] }, [], 0⟩) :=
  C11_defined_scope_independent _ _ _ _ _ (.inr ⟨_, List.mem_singleton.mpr rfl, rfl⟩)
example : renderDemo "{% set v = null %}{% include 'x' %}{% include 'x' only %}" []
    [("x", "{{ v is defined ? 'D' : 'U' }}")] = some (b "DU") := by decide +kernel


/-! ### relative template names: whole-pipeline runs with directory-style names -/

/-- render `entry` of an engine holding `tpls` (name/source pairs) as `Engine.Render(entry, vars)` does — the render
    call starts from the template named `entry` -/
def renderDemoAt (entry : String) (tpls : List (String × String)) (vars : List (Bytes × Val) := []) : Option Bytes :=
  match tpls.mapM (fun p => (parseTemplate (b p.2)).toOption.map (fun n => (b p.1, n))) with
  | some ts =>
    match renderEntry { tpls := ts } (b entry) vars with
    | .ok (o, _) => some o
    | .error _ => none
  | none => none

-- `./part` from `pages/home` is `pages/part`; `../shared/x` is `shared/x`
example : renderDemoAt "pages/home" [("pages/home", "H[{% include './part' %}|{% include '../shared/x' %}]"),
    ("pages/part", "P"), ("shared/x", "X"), ("part", "wrong"), ("./part", "written")] = some (b "H[P|X]") := by decide +kernel
-- a relative name inside an INCLUDED template of another directory resolves against the ENTRY's directory
example : renderDemoAt "pages/home" [("pages/home", "H[{% include 'shared/box' %}]"), ("shared/box", "B[{% include './part' %}]"),
    ("pages/part", "P-pages"), ("shared/part", "P-shared")] = some (b "H[B[P-pages]]") := by decide +kernel
-- … so the same template rendered as the entry finds its neighbour
example : renderDemoAt "shared/box" [("pages/home", "H[{% include 'shared/box' %}]"), ("shared/box", "B[{% include './part' %}]"),
    ("pages/part", "P-pages"), ("shared/part", "P-shared")] = some (b "B[P-shared]") := by decide +kernel
-- fallback to the name as written when nothing is registered under the resolved name; nothing under either: failure,
-- forgiven by `ignore missing`
example : renderDemoAt "pages/home" [("pages/home", "H[{% include './part' %}]"), ("./part", "written"), ("shared/part", "no")]
    = some (b "H[written]") := by decide +kernel
example : renderDemoAt "pages/home" [("pages/home", "H[{% include './part' %}]"), ("shared/part", "no")] = none := by decide +kernel
example : renderDemoAt "pages/home" [("pages/home", "H[{% include './part' ignore missing %}]"), ("shared/part", "no")]
    = some (b "H[]") := by decide +kernel
-- extends, import and from-import resolve alike; `..` beyond the root of a rooted entry stays at the root;
-- repeated slashes and `.` elements are cleaned away; a computed name
example : renderDemoAt "/abs/page" [("/abs/page", "{% extends '../../../base' %}{% block c %}C{% import './/lib' as l %}{{ l.m(1) }}{% from './a/../lib' import m %}{{ m(2) }}{% endblock %}"),
    ("/base", "L[{% block c %}{% endblock %}]"), ("/abs/lib", "{% macro m(x) %}<{{ x }}>{% endmacro %}")] = some (b "L[C<1><2>]") := by decide +kernel
example : renderDemoAt "a/b/c/page" [("a/b/c/page", "{% for q in ['x', 'y'] %}{% include '../' ~ q ~ '/t' %}{% endfor %}"),
    ("a/b/x/t", "X"), ("a/b/y/t", "Y")] = some (b "XY") := by decide +kernel
-- a relative name in the body of an imported macro: entry-relative too
example : renderDemoAt "pages/home" [("pages/home", "{% import 'shared/lib' as l %}{{ l.box() }}"),
    ("shared/lib", "{% macro box() %}M[{% include './part' %}]{% endmacro %}"), ("pages/part", "P-pages"), ("shared/part", "P-shared")]
    = some (b "M[P-pages]") := by decide +kernel
-- without an entry name (`renderTop` leaves `Env.entry` empty) the name is taken as written
example : renderDemo "{% include './part' %}" [] [("part", "resolved"), ("./part", "written")] = some (b "written") := by decide +kernel
-- the path functions on closed inputs (Go: Clean("a//b/./c/..") = "a/b", Dir("pages/home") = "pages", Dir("home") = ".",
-- Join("/abs", "../../x") = "/x", Join(".", "../x") = "../x")
example : pathClean (b "a//b/./c/..") = b "a/b" ∧ pathDir (b "pages/home") = b "pages" ∧ pathDir (b "home") = b "." ∧
    pathJoin (b "/abs") (b "../../x") = b "/x" ∧ pathJoin (b ".") (b "../x") = b "../x" ∧ pathClean (b "../../a/../../b/") = b "../../../b" := by
  decide +kernel

end Twig
