/-
  TwigProofs.C16Facts — ties the FACT defs of `TwigModel/Codec.lean` (`formatVersion`, the field order of
  `encode` / `decodeBin`, `lengthCheckedBeforeAlloc`, `gobFallbackOnV1`) to what the extractor regenerates
  from the Go source on every run (`TwigGen/CodecLayout.lean`, emitter `/verif/extract/codeclayout.go`).

  The generated file lists, statement by statement, what `SerializeCompiledTemplate`, `writeString`,
  `deserializeBinaryFormat` and `readString` write and read.  Here

  * `writeLayout` / `readLayout` fold such a statement sequence into a container layout (`List Item`);
  * `encodeBy layout c` writes a `Compiled` according to a layout, `decodeBy layout bs` reads one;
  * `C16_facts_source`: the layouts of the Go writer and of the Go reader are both `modelLayout`, all in little
    endian, the string helpers write / read a length-prefixed byte string, every allocation follows a length
    check (`lengthCheckedBeforeAlloc`), the dispatcher returns before the gob fallback on the version byte
    (`gobFallbackOnV1`);
  * `C16_encode_source` / `C16_decode_source`: for EVERY value / input the model's `encode` / `decodeBin` are
    the interpretation of that extracted layout.
-/
import TwigProofs.C16
import TwigGen.CodecLayout
namespace Twig.Codec
open TwigGen.CodecLayout (Step)

/-- one field of the container -/
inductive Item where
  | version (v : Nat)        -- one byte, constant
  | str (f : String)         -- through the string helper: u32 length, bytes
  | i64 (f : String)         -- 8 bytes
  | lenBytes (f : String)    -- inline: u32 length, bytes
deriving DecidableEq, Repr

/-- the layout of a writer's statement sequence (`none` = does not fit) -/
def writeLayout : List Step → Option (List Item)
  | [] => some []
  | .u8const v :: r => (writeLayout r).map (.version v :: ·)
  | .str f :: r => (writeLayout r).map (.str f :: ·)
  | .i64 f :: r => (writeLayout r).map (.i64 f :: ·)
  | .len32 x :: .bytes y :: r => if x == y then (writeLayout r).map (.lenBytes x :: ·) else none
  | _ => none

/-- the layout of a reader's statement sequence; a length check may stand between the length and the
    allocation -/
def readLayout : List Step → Option (List Item)
  | [] => some []
  | .u8 x :: .require y v :: r => if x == y then (readLayout r).map (.version v :: ·) else none
  | .str f :: r => (readLayout r).map (.str f :: ·)
  | .i64 f :: r => (readLayout r).map (.i64 f :: ·)
  | .len32 n :: .check n' :: .alloc x n'' :: .bytes y :: r =>
    if n == n' && n == n'' && x == y then (readLayout r).map (.lenBytes x :: ·) else none
  | .len32 n :: .alloc x n'' :: .bytes y :: r =>
    if n == n'' && x == y then (readLayout r).map (.lenBytes x :: ·) else none
  | _ => none

/-- every `make([]byte, n)` of the sequence comes after `if int64(n) > int64(r.Len()) { return … }` -/
def checkedBeforeAlloc (checked : List String) : List Step → Bool
  | [] => true
  | .check n :: r => checkedBeforeAlloc (n :: checked) r
  | .alloc _ n :: r => checked.contains n && checkedBeforeAlloc checked r
  | _ :: r => checkedBeforeAlloc checked r

/-- FACT: the field order of `encode` / `decodeBin` -/
def modelLayout : List Item :=
  [.version 1, .str "Name", .str "Source", .i64 "LastModified", .i64 "CompileTime", .lenBytes "AST"]

/-! ### interpreting a layout -/

def Compiled.getStr (c : Compiled) (f : String) : Option Bytes :=
  if f = "Name" then some c.name else if f = "Source" then some c.source else if f = "AST" then some c.ast else none

def Compiled.getI64 (c : Compiled) (f : String) : Option Int64 :=
  if f = "LastModified" then some c.lastModified else if f = "CompileTime" then some c.compileTime else none

def Compiled.setStr (c : Compiled) (f : String) (v : Bytes) : Option Compiled :=
  if f = "Name" then some { c with name := v } else if f = "Source" then some { c with source := v }
  else if f = "AST" then some { c with ast := v } else none

def Compiled.setI64 (c : Compiled) (f : String) (v : Int64) : Option Compiled :=
  if f = "LastModified" then some { c with lastModified := v }
  else if f = "CompileTime" then some { c with compileTime := v } else none

/-- write `c` field by field (little endian; a length is truncated to 32 bits as `uint32(len(x))` does) -/
def encodeBy : List Item → Compiled → Option Bytes
  | [], _ => some []
  | .version v :: r, c => (encodeBy r c).map (UInt8.ofNat v :: ·)
  | .str f :: r, c => (c.getStr f).bind fun s => (encodeBy r c).map (wrStr s ++ ·)
  | .lenBytes f :: r, c => (c.getStr f).bind fun s => (encodeBy r c).map (wrStr s ++ ·)
  | .i64 f :: r, c => (c.getI64 f).bind fun t => (encodeBy r c).map (i64le t ++ ·)

/-- read field by field into `c`; stops at the first field that cannot be read -/
def decodeBy : List Item → Bytes → Compiled → Option Compiled
  | [], _, c => some c
  | .version v :: r, bs, c =>
    match bs with
    | [] => none
    | x :: rest => if x.toNat = v then decodeBy r rest c else none
  | .str f :: r, bs, c =>
    match rdStr bs with
    | none => none
    | some (s, rest) => (c.setStr f s).bind (decodeBy r rest)
  | .lenBytes f :: r, bs, c =>
    match rdStr bs with
    | none => none
    | some (s, rest) => (c.setStr f s).bind (decodeBy r rest)
  | .i64 f :: r, bs, c =>
    match rdI64 bs with
    | none => none
    | some (t, rest) => (c.setI64 f t).bind (decodeBy r rest)

/-! ### the tie -/

open TwigGen in
/-- **tie**: what the Go writer and reader do, statement by statement, is the model's layout -/
theorem C16_facts_source :
    CodecLayout.unknown = []
    ∧ writeLayout CodecLayout.writes = some modelLayout
    ∧ readLayout CodecLayout.reads = some modelLayout
    ∧ writeLayout CodecLayout.stringWrites = some [.lenBytes "$s"]
    ∧ readLayout CodecLayout.stringReads = some [.lenBytes CodecLayout.stringReaderReturns]
    ∧ CodecLayout.byteOrders.all (· == "LittleEndian") = true
    ∧ modelLayout.head? = some (.version formatVersion.toNat)
    -- FACT lengthCheckedBeforeAlloc
    ∧ lengthCheckedBeforeAlloc
        = (checkedBeforeAlloc [] CodecLayout.reads && checkedBeforeAlloc [] CodecLayout.stringReads)
    -- FACT gobFallbackOnV1
    ∧ CodecLayout.emptyRejected = true ∧ CodecLayout.binaryFirst = true
    ∧ gobFallbackOnV1
        = !(CodecLayout.returnsBeforeGob && CodecLayout.returnsBeforeGobOn == formatVersion.toNat) := by
  decide

/-- the model's encoder is the interpretation of the layout, for every value -/
theorem C16_encode_layout (c : Compiled) : encodeBy modelLayout c = some (encode c) := by
  simp [modelLayout, encodeBy, Compiled.getStr, Compiled.getI64, encode, formatVersion]

/-- … hence of the statement sequence extracted from `SerializeCompiledTemplate` -/
theorem C16_encode_source (c : Compiled) :
    (writeLayout TwigGen.CodecLayout.writes).bind (encodeBy · c) = some (encode c) := by
  rw [C16_facts_source.2.1]; exact C16_encode_layout c

private theorem decodeBy_rest (bs : Bytes) (c : Compiled) :
    decodeBy [.str "Name", .str "Source", .i64 "LastModified", .i64 "CompileTime", .lenBytes "AST"] bs c
      = (decName bs).toOption := by
  simp only [decodeBy, Compiled.setStr, Compiled.setI64, decName]
  cases h0 : rdStr bs with
  | none => simp [Except.toOption]
  | some p0 =>
    obtain ⟨name, r1⟩ := p0
    simp only [decSource, Option.bind, String.reduceEq, if_true, if_false]
    cases h1 : rdStr r1 with
    | none => simp [Except.toOption]
    | some p1 =>
      obtain ⟨src, r2⟩ := p1
      simp only [decLm]
      cases h2 : rdI64 r2 with
      | none => simp [Except.toOption]
      | some p2 =>
        obtain ⟨lm, r3⟩ := p2
        simp only [decCt]
        cases h3 : rdI64 r3 with
        | none => simp [Except.toOption]
        | some p3 =>
          obtain ⟨ct, r4⟩ := p3
          simp only [decAst, rdStr]
          cases h4 : rdU32 r4 with
          | none => simp [Except.toOption]
          | some p4 =>
            obtain ⟨n, r5⟩ := p4
            by_cases hn : n ≤ r5.length <;> simp [hn, Except.toOption]

/-- the model's binary decoder is the interpretation of the layout, for every input (the layout
    interpretation forgets WHICH field failed; the model's error classes are compared by the harness) -/
theorem C16_decode_layout (bs : Bytes) : decodeBy modelLayout bs emptyCompiled = (decodeBin bs).toOption := by
  cases bs with
  | nil => simp [modelLayout, decodeBy, decodeBin, Except.toOption]
  | cons v r0 =>
    simp only [modelLayout, decodeBy, decodeBin]
    by_cases hv : v = formatVersion
    · subst hv
      simp only [formatVersion, bne_self_eq_false, Bool.false_eq_true, if_false]
      exact decodeBy_rest r0 emptyCompiled
    · have h1 : (v != formatVersion) = true := by simpa using hv
      have h2 : ¬ v.toNat = 1 := by
        intro h; apply hv; unfold formatVersion
        exact UInt8.toNat_inj.mp (by simpa using h)
      simp [h1, h2, Except.toOption]

theorem C16_decode_source (bs : Bytes) :
    (readLayout TwigGen.CodecLayout.reads).bind (decodeBy · bs emptyCompiled) = (decodeBin bs).toOption := by
  rw [C16_facts_source.2.2.1]; exact C16_decode_layout bs

/-! ### regression: what the extractor reports on the pinned commit (fa21d8c)

  Same layout; no `.check` step in `deserializeBinaryFormat` and `readString`; no `if data[0] == 1 { return }`
  in the dispatcher (`returnsBeforeGob = false`). -/

def pinnedReads : List Step :=
  [.u8 "$version", .require "$version" 1, .str "Name", .str "Source", .i64 "LastModified", .i64 "CompileTime",
   .len32 "$astLength", .alloc "AST" "$astLength", .bytes "AST"]
def pinnedStringReads : List Step := [.len32 "$length", .alloc "$data" "$length", .bytes "$data"]

example : readLayout pinnedReads = some modelLayout := by decide
example : (checkedBeforeAlloc [] pinnedReads && checkedBeforeAlloc [] pinnedStringReads) = false := by decide
/-- the pinned dispatcher: no return before the gob fallback ⇒ the fact is `true` (the model's `decodePinned`) -/
example : (!(false && (0 : Nat) == formatVersion.toNat)) = true := by decide

/-- swapping two fields in the writer is caught -/
example : writeLayout [.u8const 1, .str "Source", .str "Name", .i64 "LastModified", .i64 "CompileTime",
    .len32 "AST", .bytes "AST"] ≠ some modelLayout := by decide

end Twig.Codec
