/-
  C20 — attribute access returns the right member whatever was looked up before.

  Model: TwigModel/AttrCache.lean (read its header for the Go ↔ Lean table and what is trusted).
  All theorems quantify over every set of struct types `env`, every history of lookups `hist`, every
  eviction behaviour `ω` (an arbitrary choice of keys to delete at every step) and every value/attribute.
-/
import TwigModel.AttrCache
import TwigProofs.Lemmas.AttrCache
namespace Twig.AttrCache

/-! ## The key -/

/-- FACT check: the key struct of the code has both components. -/
theorem C20_codeFacts_keyOk : codeFacts.keyOk = true := rfl

/-- Entries of different (type, attribute) pairs never collide: the key determines both. -/
theorem C20_key_injective (F : Facts) (hF : F.keyOk = true) (T T' : TypeId) (a a' : String) :
    mkKey F T a = mkKey F T' a' → T = T' ∧ a = a' :=
  mkKey_inj hF

/-- … so whatever is found under the key of (T, a) in any reachable cache is the resolution of (T, a). -/
theorem C20_cached_entry_right (F : Facts) (hF : F.keyOk = true) (env : Env) (ω : Oracle)
    (hist : List Query) (T : TypeId) (a : String) (e : Entry) :
    (run F env ω hist).get (mkKey F T a) = some e → e.r = resolveCode env T a := by
  intro h
  have inv := runFrom_right hF env ω hist 0 Cache.empty (entriesRight_empty F env)
  exact inv _ (Cache.get_mem h) T a rfl

/-! ## The cache is unobservable -/

/-- After ANY history of lookups and ANY eviction choices, a lookup returns what resolving on the spot
    returns (`getAttrPure` = `useEntry (resolveCode T a)` on structs; no cache involved otherwise). -/
theorem C20_cache_transparent (F : Facts) (hF : F.keyOk = true) (env : Env) (ω : Oracle)
    (hist : List Query) (victims : List Key) (q : Query) :
    (getAttribute F env victims (run F env ω hist) q.obj q.attr).1 = getAttrPure F env q.obj q.attr :=
  (getAttribute_right hF (runFrom_right hF env ω hist 0 Cache.empty (entriesRight_empty F env))
    victims q.obj q.attr).1

/-- In the form of the task statement: on a struct value the result is `useEntry (resolveCode T a)`. -/
theorem C20_cache_transparent_struct (F : Facts) (hF : F.keyOk = true) (env : Env) (ω : Oracle)
    (hist : List Query) (victims : List Key) (T : TypeId) (r : String) (fs : List Val) (a : String) :
    (getAttribute F env victims (run F env ω hist) (.struct T r fs) a).1 =
      useEntry F env (resolveCode env T a) T (.struct T r fs) :=
  C20_cache_transparent F hF env ω hist victims ⟨.struct T r fs, a⟩

/-- The answer does not depend on which lookups happened before, in which order, how many, nor on what
    eviction deleted. -/
theorem C20_history_independent (F : Facts) (hF : F.keyOk = true) (env : Env) (ω ω' : Oracle)
    (hist hist' : List Query) (victims victims' : List Key) (q : Query) :
    (getAttribute F env victims (run F env ω hist) q.obj q.attr).1 =
    (getAttribute F env victims' (run F env ω' hist') q.obj q.attr).1 := by
  rw [C20_cache_transparent F hF, C20_cache_transparent F hF]

/-- Every step of a history reports what the pure resolution reports (the driver's trace). -/
theorem C20_trace_transparent (F : Facts) (hF : F.keyOk = true) (env : Env) (ω : Oracle) :
    ∀ (hist : List Query) (n : Nat) (c : Cache), EntriesRight F env c →
      traceFrom F env ω n c hist = hist.map (fun q => getAttrPure F env q.obj q.attr) := by
  intro hist
  induction hist with
  | nil => intro n c _; rfl
  | cons q rest ih =>
    intro n c h
    have := getAttribute_right hF h (ω n c) q.obj q.attr
    simp only [traceFrom, List.map_cons]
    rw [this.1, ih _ _ this.2]

/-! ## The resolution is the right one -/

/-- Using the entry computed by the miss path on ANY value of the type = Go's selector semantics read
    directly on that value: the unique shallowest exported field of that name (promoted fields through
    any number of embedded structs / non-nil embedded pointers), else the zero-argument method of that
    name of the value's or the pointer's method set, else empty. Needs the full index path. -/
theorem C20_resolution_right_struct (F : Facts) (hF : F.fullPath = true) (env : Env) (T : TypeId)
    (a : String) (obj : Val) : useEntry F env (resolveCode env T a) T obj = specMember env T obj a :=
  useEntry_resolve F hF env T a obj

/-- Full strength, every value shape (maps with string keys of any value type, also behind a pointer;
    structs; pointers to structs; everything else empty). -/
theorem C20_resolution_right (F : Facts) (hF : F.fullPath = true) (hM : F.typedMapAttr = true)
    (env : Env) (obj : Val) (a : String) : getAttrPure F env obj a = specGet env obj a := by
  cases obj with
  | struct T r fs => exact useEntry_resolve F hF env T a _
  | ptrTo T r fs => exact useEntry_resolve F hF env T a _
  | tmap r es => simp [getAttrPure, specGet, hM]
  | pmap r es => simp [getAttrPure, specGet, hM]
  | nil => rfl
  | scalar s => rfl
  | nilPtr T r => rfl
  | smap es => rfl
  | other r => rfl

/-- the facts extracted from the fixed tree satisfy the hypotheses -/
theorem C20_codeFacts_ok :
    codeFacts.keyOk = true ∧ codeFacts.fullPath = true ∧ codeFacts.typedMapAttr = true ∧
    0 < codeFacts.maxSize ∧ 0 < codeFacts.numToEvict := by decide

/-- The property: `x.name` through the real (cached, evicting) getAttribute is Go's member, for every
    history and every eviction behaviour. -/
theorem C20_attribute_right (env : Env) (ω : Oracle) (hist : List Query) (victims : List Key)
    (obj : Val) (a : String) :
    (getAttribute codeFacts env victims (run codeFacts env ω hist) obj a).1 = specGet env obj a := by
  rw [C20_cache_transparent codeFacts rfl env ω hist victims ⟨obj, a⟩]
  exact C20_resolution_right codeFacts rfl rfl env obj a

/-- `x['name']`: the value of the key on maps with string keys, empty otherwise (no cache involved). -/
theorem C20_item_right (obj : Val) (a : String) : getItem obj a = specItem obj a := by
  cases obj <;> rfl

/-- Without the typed-map branch (before fix 63c0a36) the statement holds except on those maps. -/
theorem C20_resolution_right_partial (F : Facts) (hF : F.fullPath = true) (env : Env) (obj : Val)
    (a : String) (hx : obj.isTypedMap = false) : getAttrPure F env obj a = specGet env obj a := by
  cases obj with
  | struct T r fs => exact useEntry_resolve F hF env T a _
  | ptrTo T r fs => exact useEntry_resolve F hF env T a _
  | tmap r es => simp [Val.isTypedMap] at hx
  | pmap r es => simp [Val.isTypedMap] at hx
  | nil => rfl
  | scalar s => rfl
  | nilPtr T r => rfl
  | smap es => rfl
  | other r => rfl

/-! ## The size of the cache -/

/-- `currSize` never drifts from `len(m)` and the map's keys stay distinct — whatever eviction deletes. -/
theorem C20_size_exact (F : Facts) (env : Env) (ω : Oracle) (hist : List Query) :
    (run F env ω hist).currSize = Int.ofNat (run F env ω hist).m.length ∧
    (run F env ω hist).keys.Nodup :=
  runFrom_wf env ω hist 0 Cache.empty wf_empty

/-- The cache never holds more than `maxSize` entries, provided eviction deletes at least one entry
    whenever it runs on a non-empty map. -/
theorem C20_size_bounded (F : Facts) (hmax : 0 < F.maxSize) (env : Env) (ω : Oracle)
    (hω : GoodOracle ω) (hist : List Query) : (run F env ω hist).m.length ≤ F.maxSize :=
  (runFrom_wf_bound hmax env hω hist 0 Cache.empty wf_empty (Nat.zero_le _)).2

/-- What the code guarantees (evictLRUEntries deletes exactly min(numToEvict, len(m)) entries, with
    numToEvict ≥ 1) is enough. -/
theorem C20_size_bounded_code (env : Env) (ω : Oracle) (hω : CodeOracle codeFacts ω)
    (hist : List Query) : (run codeFacts env ω hist).m.length ≤ 1000 :=
  C20_size_bounded codeFacts (by decide) env ω (codeOracle_good (by decide) hω) hist

/-- non-vacuity of `GoodOracle`: the oracle that deletes everything -/
example : GoodOracle (fun _ c => c.keys) := evictAll_good

/-! ## Regression instances and non-vacuity (closed terms, checked by evaluation) -/

namespace Ex

def fX : FieldDesc := ⟨"X", true, false, .scalar⟩
def fName : FieldDesc := ⟨"Name", true, false, .scalar⟩
def fY : FieldDesc := ⟨"Y", true, false, .scalar⟩
def fhid : FieldDesc := ⟨"hid", false, false, .scalar⟩

/-- 0 Inner{X, Name; Hello() value recv → Name; PHello() pointer recv → "P"; Add(n) value recv}
    1 Outer{Inner; Y}   2 Deep{Outer; hid}   3 OuterP{*Inner; Y}
    4 A1{V}   5 A2{V}   6 Amb{A1; A2}
    7 MethShadow{Inner; Name() value recv → "M"}  (method at depth 0, field Name at depth 1)
    8 Other{Y; X}  (same attribute names as Inner at other positions) -/
def env : Env := #[
  { name := "Inner", fields := [fX, fName],
    methods := [⟨"Hello", true, false, 0, .recvField 1⟩, ⟨"PHello", true, true, 0, .const "P"⟩,
                ⟨"Add", true, false, 1, .const "never"⟩] },
  { name := "Outer", fields := [⟨"Inner", true, true, .struct 0⟩, fY], methods := [] },
  { name := "Deep", fields := [⟨"Outer", true, true, .struct 1⟩, fhid], methods := [] },
  { name := "OuterP", fields := [⟨"Inner", true, true, .ptr 0⟩, fY], methods := [] },
  { name := "A1", fields := [⟨"V", true, false, .scalar⟩], methods := [] },
  { name := "A2", fields := [⟨"V", true, false, .scalar⟩], methods := [] },
  { name := "Amb", fields := [⟨"A1", true, true, .struct 4⟩, ⟨"A2", true, true, .struct 5⟩], methods := [] },
  { name := "MethShadow", fields := [⟨"Inner", true, true, .struct 0⟩],
    methods := [⟨"Name", true, false, 0, .const "M"⟩] },
  { name := "Other", fields := [fY, fX], methods := [] } ]

def inner : Val := .struct 0 "{1 in}" [.scalar "1", .scalar "in"]
def outer : Val := .struct 1 "{{1 in} 2}" [inner, .scalar "2"]
def deep : Val := .struct 2 "{{{1 in} 2} 9}" [outer, .scalar "9"]
def outerP : Val := .struct 3 "{0x1 4}" [.ptrTo 0 "&{3 pin}" [.scalar "3", .scalar "pin"], .scalar "4"]
def outerPnil : Val := .struct 3 "{<nil> 4}" [.nilPtr 0 "<nil>", .scalar "4"]
def amb : Val := .struct 6 "{{1} {2}}" [.struct 4 "{1}" [.scalar "1"], .struct 5 "{2}" [.scalar "2"]]
def methShadow : Val := .struct 7 "{{1 in}}" [inner]
def other : Val := .struct 8 "{7 8}" [.scalar "7", .scalar "8"]

def get (F : Facts) (hist : List Query) (obj : Val) (a : String) : String :=
  (getAttribute F env [] (run F env (oracleOldest 1) hist) obj a).1.print

def hist : List Query :=
  [⟨inner, "X"⟩, ⟨other, "X"⟩, ⟨outer, "Name"⟩, ⟨outer, "X"⟩, ⟨deep, "X"⟩, ⟨outerP, "Hello"⟩]

/-- a small-capacity instance in which eviction really runs -/
def tiny : Facts := { codeFacts with maxSize := 2, numToEvict := 1 }

end Ex
open Ex

/-- REGRESSION of the model against the pinned defect: with the pinned use of the entry (`Index[0]` only)
    a field promoted through one embedded struct resolves to the embedded struct itself … -/
theorem C20_counterexample_promoted_pinned :
    (getAttrPure pinnedFacts env outer "X").print = "{1 in}" ∧ (specGet env outer "X").print = "1" := by
  decide

/-- … and through two embedded structs to the outermost embedded struct. -/
theorem C20_counterexample_promoted2_pinned :
    (getAttrPure pinnedFacts env deep "Name").print = "{{1 in} 2}" ∧
    (specGet env deep "Name").print = "in" := by
  decide

/-- REGRESSION (pinned tree before fix 63c0a36): `x.name` on a map[string]int is empty. -/
theorem C20_counterexample_typed_map_pinned :
    (getAttrPure pinnedFacts #[] (.tmap "map[a:1]" [("a", .scalar "1")]) "a").print = "" ∧
    (specGet #[] (.tmap "map[a:1]" [("a", .scalar "1")]) "a").print = "1" := by
  decide

/-- REGRESSION of the model: a key WITHOUT the type component makes the cache observable — after
    `inner.X` was looked up, `other.X` is answered with Inner's index for X. -/
theorem C20_counterexample_key_without_type :
    let F := { codeFacts with keyHasType := false }
    (getAttribute F env [] (run F env (oracleOldest 1) [⟨inner, "X"⟩]) other "X").1.print = "7" ∧
    (getAttribute F env [] (run F env (oracleOldest 1) []) other "X").1.print = "8" := by
  decide

/-- … and so does a key without the attribute name. -/
theorem C20_counterexample_key_without_attr :
    let F := { codeFacts with keyHasAttr := false }
    (getAttribute F env [] (run F env (oracleOldest 1) [⟨inner, "X"⟩]) inner "Name").1.print = "1" := by
  decide

/-! non-vacuity: the fixed behaviour on the same cases, through the cache, after a history -/

example : get codeFacts hist outer "X" = "1" := by decide
example : get codeFacts hist deep "Name" = "in" := by decide
example : get codeFacts hist deep "hid" = "" := by decide          -- unexported
example : get codeFacts hist deep "Outer" = "{{1 in} 2}" := by decide
example : get codeFacts hist outerP "X" = "3" := by decide          -- through a non-nil embedded pointer
example : get codeFacts hist outerPnil "X" = "" := by decide        -- nil embedded pointer ⇒ empty
example : get codeFacts hist outerPnil "Y" = "4" := by decide
example : get codeFacts hist amb "V" = "" := by decide              -- ambiguous at the same depth
example : get codeFacts hist amb "A2" = "{2}" := by decide
example : get codeFacts hist outer "Hello" = "in" := by decide      -- promoted value method
example : get codeFacts hist outer "PHello" = "P" := by decide      -- pointer-receiver method on a value
example : get codeFacts hist outer "Add" = "" := by decide          -- method with a parameter
example : get codeFacts hist outerPnil "Hello" = "<panic>" := by decide  -- Go: nil pointer dereference
example : get codeFacts hist outerPnil "PHello" = "P" := by decide  -- pointer method, nil receiver, no read
example : get codeFacts hist methShadow "Name" = "in" := by decide  -- field (depth 1) tried before method (depth 0)
example : get codeFacts hist other "X" = "8" := by decide
example : get codeFacts hist (.ptrTo 1 "&{{1 in} 2}" [inner, .scalar "2"]) "X" = "1" := by decide
example : get codeFacts hist (.smap [("k", .scalar "v")]) "k" = "v" := by decide
example : get codeFacts hist (.smap [("k", .scalar "v")]) "zz" = "" := by decide
example : get codeFacts hist (.tmap "map[a:1]" [("a", .scalar "1")]) "a" = "1" := by decide
example : (getItem (.tmap "map[a:1]" [("a", .scalar "1")]) "a").print = "1" := by decide
example : (getItem outer "X").print = "" := by decide

/-- method tables as reflect lists them: T has the value-receiver methods, *T all of them, sorted -/
example : (methodSet env 1 false).map (·.name) = ["Add", "Hello"] := by decide
example : (methodSet env 1 true).map (·.name) = ["Add", "Hello", "PHello"] := by decide
example : (methodSet env 3 false).map (·.name) = ["Add", "Hello", "PHello"] := by decide
example : (methodSet env 7 false).map (·.name) = ["Add", "Hello", "Name"] := by decide
example : resolveCode env 2 "X" = ⟨0, [0, 0, 0], false, -1, false⟩ := by decide
example : resolveCode env 1 "PHello" = ⟨-1, [], true, 2, true⟩ := by decide

/-- eviction really runs in a small-capacity instance and the answers stay right (non-vacuity of the
    "more pairs than the cache holds" part; the theorems above cover maxSize = 1000 symbolically) -/
example : (run tiny env (oracleOldest 1) hist).m.length = 2 := by decide
example : (getAttribute tiny env [] (run tiny env (oracleNewest 1) hist) deep "Name").1.print = "in" := by
  decide

end Twig.AttrCache
