/-
  Lift of the scan-level theorems of C04 / C13 / C14 (TwigProofs/C04.lean, C13.lean, C14.lean) to RENDERED
  OUTPUT, through the model's parser (`parseTemplate`) and renderer (`renderTop`).

  `renderSrc src vars` (TwigProofs/Lemmas/LiftBase.lean): parse `src` with `parseTemplate`, put the result into an
  engine as its only template `main`, `renderTop`, keep the output bytes.

  Vocabulary (namespace `Twig.Lift`):
  * `spell ps last` (Lemmas/Scan.lean) — a template written as chunks and tags: `l₁ t₁ l₂ t₂ … last`, arbitrary `Tag`s
    (kind, dashes, body); `Lit` chunks, `WfTag` tags, `NoOpener last` characterise the templates that tokenize;
  * `STag` — the tag fragment of the output theorems: a comment `{# c #}` or a print of one variable
    `{{ w1 v w2 }}` (`w1`, `w2` ASCII whitespace, `v` an identifier that is not `not/true/false/null/nil`),
    with or without dashes; `STag.tag` is the scanner-level `Tag`, `tagsOf` maps a chunk list;
  * `interleaveOut vars ps last` — literal chunks interleaved with the values of the tags
    (comment: nothing; print: `toStr (lookupVar vars v)`, a missing variable prints nothing);
  * `isPlain` — values other than the two internal closure values (`callable`, `parentFn`), which never occur
    in a context supplied from outside;
  * `NXL nodes` — no `extends` / `include` / `import` / `from` anywhere in the parse (decidable);
  * `NoReach a ps` — the dash of the first tag of `ps` does not trim into the text `a` in front of it.

  General theorems (every template `spell ps last`, every tag kind, every context):
  `C13_commutes_render` (dashes = hand trimming, incl. `include` and `verbatim`), `C04_comment_inert_render` (a comment
  after the first chunk, arbitrary rest), `C14_comment_padding_render`, `C14_padding_parse` / `C14_padding_render`
  (padding in front), `C14_padding_between_nodes_render` (padding between top-level constructs, tree level).
  No theorem carries a fuel hypothesis any more (`Lift.parseTemplate_ne_fuel`).
-/
import TwigProofs.Lemmas.Lift
import TwigProofs.C13
namespace Twig
open Lift

/-! ## C04 — literal text is emitted exactly -/

/-- A template without any opener renders to itself: every byte string (empty, invalid UTF-8, NUL, lone braces,
    backslashes …), every context. -/
theorem C04_text_only_render (s : Bytes) (vars : List (Bytes × Val)) (h : NoOpener s) :
    renderSrc s vars = .ok s := by
  have := renderSrc_spell [] s vars (by intro lt hm; cases hm) h (by
    simp only [piecesOf]; split <;> rfl)
  rw [tagsOf_nil, spell] at this
  rw [this, outPieces_piecesOf]
  rfl

/-- The output of a template made of literal chunks, comments and prints of variables: every literal byte
    exactly once, in order, unmodified; a comment contributes nothing; a print contributes the value of its
    variable.  Errors included (a value that cannot be printed is the only way to fail).  No dashes here
    (`noDash`); with dashes see `C13_output_render`. -/
theorem C04_output_render (ps : List (Bytes × STag)) (last : Bytes) (vars : List (Bytes × Val))
    (h : ∀ lt ∈ ps, Lit lt.1 ∧ WfTag lt.2.tag ∧ lt.2.ok = true ∧ lt.2.noDash = true) (hlast : NoOpener last)
    (hp : PiecesPlain vars (piecesOf false ps last) = true) :
    renderSrc (spell (tagsOf ps) last) vars = interleaveOut vars ps last := by
  rw [renderSrc_spell ps last vars (fun lt hm => ⟨(h lt hm).1, (h lt hm).2.1, (h lt hm).2.2.1⟩) hlast hp,
    outPieces_piecesOf, outOf_noDash vars last ps (fun lt hm => (h lt hm).2.2.2)]

/-- the hypothesis `PiecesPlain` holds for every context made of plain values -/
theorem C04_output_render_plainVars (ps : List (Bytes × STag)) (last : Bytes) (vars : List (Bytes × Val))
    (h : ∀ lt ∈ ps, Lit lt.1 ∧ WfTag lt.2.tag ∧ lt.2.ok = true ∧ lt.2.noDash = true) (hlast : NoOpener last)
    (hv : PlainVars vars = true) :
    renderSrc (spell (tagsOf ps) last) vars = interleaveOut vars ps last :=
  C04_output_render ps last vars h hlast (piecesPlain_of_plainVars hv _)

/-- `interleaveOut` when every value prints: the plain concatenation `l₁ v₁ l₂ v₂ … last` -/
def interleave : List (Bytes × Bytes) → Bytes → Bytes
  | [], last => last
  | (l, v) :: r, last => l ++ v ++ interleave r last

/-- `vs` are the values of the tags of `ps`, all printable -/
def ValuesAre (vars : List (Bytes × Val)) : List (Bytes × STag) → List Bytes → Prop
  | [], [] => True
  | (_, s) :: ps, v :: vs => s.value vars = .ok v ∧ ValuesAre vars ps vs
  | _, _ => False

theorem C04_interleaveOut_ok (vars : List (Bytes × Val)) (last : Bytes) :
    ∀ (ps : List (Bytes × STag)) (vs : List Bytes), ValuesAre vars ps vs →
      interleaveOut vars ps last = .ok (interleave ((ps.map (·.1)).zip vs) last)
  | [], [], _ => rfl
  | [], _ :: _, h => by cases h
  | _ :: _, [], h => by cases h
  | (l, s) :: ps, v :: vs, h => by
    simp only [interleaveOut, h.1, C04_interleaveOut_ok vars last ps vs h.2]
    rfl

/-- what a tag contributes: nothing for a comment, the variable's string for a print; an undefined variable
    prints nothing -/
theorem C04_value_cases (vars : List (Bytes × Val)) :
    (∀ c, (STag.comment c).value vars = .ok []) ∧
    (∀ o w1 v w2 c s, getKV v vars = some (.str s) → (STag.pvar o w1 v w2 c).value vars = .ok s) ∧
    (∀ o w1 v w2 c i, getKV v vars = some (.int i) → (STag.pvar o w1 v w2 c).value vars = .ok (intToBytes i)) ∧
    (∀ o w1 v w2 c, getKV v vars = none → (STag.pvar o w1 v w2 c).value vars = .ok []) := by
  refine ⟨fun _ => rfl, ?_, ?_, ?_⟩ <;> intros <;> simp_all [STag.value, lookupVar, toStr]

/-- the whitespace trimming requested by the first tag of `ps` (if it has a dashed opener) does not reach into the
    text `a` in front of it: trimming `a ++ l` leaves `a` intact.  Holds when that tag has no dashed opener, when
    the chunk `l` before it contains a non-whitespace byte, or when `a` does not end in whitespace. -/
def NoReach (a : Bytes) : List (Bytes × Tag) → Prop
  | [] => True
  | (l, t) :: _ => rtIf t.opensTrim (a ++ l) = a ++ rtIf t.opensTrim l
instance (a : Bytes) (ps : List (Bytes × Tag)) : Decidable (NoReach a ps) := by
  cases ps with
  | nil => exact isTrue trivial
  | cons lt ps => unfold NoReach; infer_instance

theorem tokenize_spell (ps : List (Bytes × Tag)) (last : Bytes) (h : ∀ lt ∈ ps, Lit lt.1 ∧ WfTag lt.2)
    (hlast : NoOpener last) : tokenize (spell ps last) = .ok (normalise (applyWs (expected ps last))) := by
  simp only [tokenize, scan_eq_scanOpt, scanOpt_chunks ps last h hlast]

theorem stream_nil (tn : Bool) (last : Bytes) :
    normalise (applyWsAux tn (expected [] last)) = textToks (if last = [] then [] else [ltIf tn last]) ++ [tk EOF] := by
  simp only [expected]
  by_cases hl : last = []
  · subst hl; rfl
  · rw [textTok_ne hl, List.singleton_append, applyWsAux_text _ _ _ rfl, if_neg hl]; rfl

theorem stream_cons (tn : Bool) (l : Bytes) (t : Tag) (ps : List (Bytes × Tag)) (last : Bytes) :
    normalise (applyWsAux tn (expected ((l, t) :: ps) last)) =
      textToks (if l = [] then [] else [rtIf t.opensTrim (ltIf tn l)]) ++
        (t.plain.tokens ++ normalise (applyWsAux t.closesTrim (expected ps last))) := by
  simp only [expected]
  rw [List.append_assoc, ← List.append_assoc, normalise_step, List.append_assoc]
  congr 1
  split <;> rfl

theorem flatten_opt (l v : Bytes) (h : l = [] → v = []) : (if l = [] then [] else [v]).flatten = v := by
  by_cases hl : l = []
  · simp [hl, h hl]
  · simp [hl]

theorem rtIf_nil (c : Bool) : rtIf c [] = [] := by cases c <;> rfl

/-- Comments are inert: deleting a comment `{# c #}` that stands after the literal text `a` does not change the
    rendered result (output or error), whatever follows — EVERY rest of template `spell ps last` (any chunks, any
    tags with any dashes: blocks, macros, includes, `extends`, …), every context.
    `Lit a` excludes that `a ++ rest` creates a new opener at the seam; `c` is free of `#}`.
    `NoReach a ps`: the one interaction there is — a comment stops whitespace trimming, so if the first tag of the
    rest has a dashed opener and only whitespace lies between the comment and that tag, deleting the comment lets
    the trimming reach into `a` (`C04_comment_shields_trim_counterexample`); `NoReach` says it does not.
    Route: both templates tokenize to [text tokens] [comment group] [text tokens] `Q` with the same `Q`
    (`stream_cons`), the parser maps them to text nodes in front of the same tree (`parseTokens_texts_comment`), and
    rendering does not depend on how the text in front is split into nodes (`renderNodesTop_texts`, a simulation
    between the two single-template engines — `include` / `extends` of the template itself included). -/
theorem C04_comment_inert_render (a c : Bytes) (ps : List (Bytes × Tag)) (last : Bytes) (vars : List (Bytes × Val))
    (ha : Lit a) (hc : indexOf [35, 125] (c ++ [35]) = none)
    (h : ∀ lt ∈ ps, Lit lt.1 ∧ WfTag lt.2) (hlast : NoOpener last) (hr : NoReach a ps) :
    renderSrc (a ++ (b "{#" ++ c ++ b "#}") ++ spell ps last) vars = renderSrc (a ++ spell ps last) vars := by
  have hw : WfTag (STag.comment c).tag := by
    refine ⟨fun _ => ⟨rfl, rfl⟩, ?_, fun h => absurd rfl h, fun h => absurd rfl h⟩
    simpa [STag.tag, dashIf, closerOf] using hc
  have htext : (STag.comment c).tag.text = b "{#" ++ c ++ b "#}" := by
    have h1 : b "{#" = [123, 35] := by decide +kernel
    have h2 : b "#}" = [35, 125] := by decide +kernel
    rw [h1, h2]
    simp [STag.tag, Tag.text, Tag.opener, Tag.closer, Opener.text_eq, openCh, Opener.dashed, dashIf, closerOf]
  -- the template with the comment
  have hL : a ++ (b "{#" ++ c ++ b "#}") ++ spell ps last = spell ((a, (STag.comment c).tag) :: ps) last := by
    rw [spell, htext]
  have hTL := tokenize_spell ((a, (STag.comment c).tag) :: ps) last (by
    intro lt hm
    simp only [List.mem_cons] at hm
    rcases hm with rfl | hm
    · exact ⟨ha, hw⟩
    · exact h lt hm) hlast
  -- its comment group
  have hgroup : ∀ (rest : List Token), (STag.comment c).tag.plain.tokens ++ rest =
      ⟨COMMENT_START, []⟩ :: ((if c.isEmpty then [] else [tk TEXT c]) ++ tk COMMENT_END :: rest) := by
    intro rest
    simp [STag.tag, Tag.plain, Tag.tokens, Tag.opener, Opener.startKind, endKind, contentTokens, tk]
  have hcs : ∀ x ∈ (if c.isEmpty then [] else [tk TEXT c]), x.kind ≠ COMMENT_END := by
    intro x hx
    by_cases hb : c.isEmpty = true
    · simp [hb] at hx
    · simp only [hb, Bool.false_eq_true, if_false, List.mem_singleton] at hx
      subst hx; simp [tk, TEXT, COMMENT_END]
  unfold renderSrc
  rw [hL, parseTemplate_tokens hTL, applyWs, stream_cons]
  have e1 : rtIf (STag.comment c).tag.opensTrim (ltIf false a) = a := rfl
  have e2 : (STag.comment c).tag.closesTrim = false := rfl
  rw [e1, e2, hgroup]
  cases ps with
  | nil =>
    -- the rest is the final chunk only
    have hn : NoOpener (a ++ last) := by
      rw [NoOpener, fo_append ha.1 ha.2.1, hlast]; rfl
    have hTR := tokenize_spell [] (a ++ last) (by intro lt hm; cases hm) hn
    rw [show a ++ spell [] last = spell [] (a ++ last) from rfl, parseTemplate_tokens hTR, applyWs, stream_nil, stream_nil]
    refine render_texts_regroup _ _ _ _ [tk EOF]
      (parseTokens_texts_comment _ _ _ _ _ hcs rfl _) (parseTokens_texts _ _) ?_ vars
    rw [List.flatten_append, flatten_opt a a (fun h => h), flatten_opt last (ltIf false last) (fun h => by rw [h]; rfl),
      flatten_opt (a ++ last) (ltIf false (a ++ last)) (fun h => by rw [h]; rfl)]
    rfl
  | cons lt ps =>
    obtain ⟨l, t⟩ := lt
    have h1 := h (l, t) (by simp)
    have hal : Lit (a ++ l) := by
      by_cases hl0 : l = []
      · subst hl0; simpa using ha
      · refine ⟨?_, ?_, ?_⟩
        · rw [NoOpener, fo_append ha.1 ha.2.1, h1.1.1]; rfl
        · rw [getLast?_append_ne_nil a l hl0]; exact h1.1.2.1
        · rw [getLast?_append_ne_nil a l hl0]; exact h1.1.2.2
    have hR : a ++ spell ((l, t) :: ps) last = spell ((a ++ l, t) :: ps) last := by
      simp [spell]
    have hTR := tokenize_spell ((a ++ l, t) :: ps) last (by
      intro lt hm
      simp only [List.mem_cons] at hm
      rcases hm with rfl | hm
      · exact ⟨hal, h1.2⟩
      · exact h lt (by simp [hm])) hlast
    rw [hR, parseTemplate_tokens hTR, applyWs, stream_cons, stream_cons]
    refine render_texts_regroup _ _ _ _ _
      (parseTokens_texts_comment _ _ _ _ _ hcs rfl _) (parseTokens_texts _ _) ?_ vars
    have hr' : rtIf t.opensTrim (a ++ l) = a ++ rtIf t.opensTrim l := hr
    rw [List.flatten_append, flatten_opt a a (fun h => h),
      flatten_opt l (rtIf t.opensTrim (ltIf false l)) (fun h => by rw [h]; exact rtIf_nil _),
      flatten_opt (a ++ l) (rtIf t.opensTrim (ltIf false (a ++ l))) (fun h => by rw [h]; exact rtIf_nil _)]
    exact hr'.symm

/-- the earlier statement for the fragment (rest = literal chunks, comments and undashed prints of variables), with
    its direct proof from `C04_output_render`; a special case of `C04_comment_inert_render` -/
theorem C04_comment_inert_render_fragment (a c : Bytes) (ps : List (Bytes × STag)) (last : Bytes) (vars : List (Bytes × Val))
    (ha : Lit a) (hc : indexOf [35, 125] (c ++ [35]) = none)
    (h : ∀ lt ∈ ps, Lit lt.1 ∧ WfTag lt.2.tag ∧ lt.2.ok = true ∧ lt.2.noDash = true) (hlast : NoOpener last)
    (hv : PlainVars vars = true) :
    renderSrc (a ++ (b "{#" ++ c ++ b "#}") ++ spell (tagsOf ps) last) vars =
      renderSrc (a ++ spell (tagsOf ps) last) vars := by
  have hw : WfTag (STag.comment c).tag := by
    refine ⟨fun _ => ⟨rfl, rfl⟩, ?_, fun h => absurd rfl h, fun h => absurd rfl h⟩
    simpa [STag.tag, dashIf, closerOf] using hc
  have htext : (STag.comment c).tag.text = b "{#" ++ c ++ b "#}" := by
    have h1 : b "{#" = [123, 35] := by decide +kernel
    have h2 : b "#}" = [35, 125] := by decide +kernel
    rw [h1, h2]
    simp [STag.tag, Tag.text, Tag.opener, Tag.closer, Opener.text_eq, openCh, Opener.dashed, dashIf, closerOf]
  -- left: the template with the comment is `spell ((a, comment) :: ps) last`
  have hL : a ++ (b "{#" ++ c ++ b "#}") ++ spell (tagsOf ps) last =
      spell (tagsOf ((a, STag.comment c) :: ps)) last := by
    rw [tagsOf_cons, spell, htext]
  have hl := C04_output_render_plainVars ((a, STag.comment c) :: ps) last vars (by
    intro lt hm
    simp only [List.mem_cons] at hm
    rcases hm with rfl | hm
    · exact ⟨ha, hw, rfl, rfl⟩
    · exact h lt hm) hlast hv
  rw [hL, hl]
  -- right: `a` merges with the first chunk (or with `last`)
  cases ps with
  | nil =>
    have hn : NoOpener (a ++ last) := by
      rw [NoOpener, fo_append ha.1 ha.2.1, hlast]; rfl
    rw [tagsOf_nil, spell, C04_text_only_render _ vars hn]
    simp [interleaveOut, STag.value]
  | cons lt ps =>
    obtain ⟨l, s⟩ := lt
    have h1 := h (l, s) (by simp)
    have hal : Lit (a ++ l) := by
      by_cases hl0 : l = []
      · subst hl0; simpa using ha
      · refine ⟨?_, ?_, ?_⟩
        · rw [NoOpener, fo_append ha.1 ha.2.1, h1.1.1]; rfl
        · rw [getLast?_append_ne_nil a l hl0]; exact h1.1.2.1
        · rw [getLast?_append_ne_nil a l hl0]; exact h1.1.2.2
    have hR : a ++ spell (tagsOf ((l, s) :: ps)) last = spell (tagsOf ((a ++ l, s) :: ps)) last := by
      simp [tagsOf_cons, spell]
    have hr := C04_output_render_plainVars ((a ++ l, s) :: ps) last vars (by
      intro lt hm
      simp only [List.mem_cons] at hm
      rcases hm with rfl | hm
      · exact ⟨hal, h1.2⟩
      · exact h lt (by simp [hm])) hlast hv
    rw [hR, hr]
    simp only [interleaveOut]
    have hcv : (STag.comment c).value vars = .ok [] := rfl
    rw [hcv]
    generalize s.value vars = x
    cases x with
    | error e => rfl
    | ok v =>
      generalize interleaveOut vars ps last = y
      cases y with
      | error e => rfl
      | ok r => simp

/-! ## C04 — verbatim bodies are inert -/

/-- the renderer emits a verbatim node's bytes without consulting the context (or anything else) -/
theorem C04_verbatim_node_render (E : Env) (go : Go) (tpl s : Bytes) (st : St) :
    renderNode E go tpl (.verbatim s) st = .ok (s, st) := rfl

/-- Parsing has no context argument, so a template whose parse consists of text and verbatim nodes only
    (`onlyTV`, decidable on the parser's result) renders to the same bytes — the concatenation of the node
    contents, computed from tokens alone — under EVERY context: nothing is evaluated, no context data can appear. -/
theorem C04_verbatim_inert_render (src : Bytes) (nodes : List Node) (hp : parseTemplate src = .ok nodes)
    (h : onlyTV nodes = true) (vars₁ vars₂ : List (Bytes × Val)) :
    renderSrc src vars₁ = renderSrc src vars₂ ∧ renderSrc src vars₁ = .ok (tvBytes nodes) := by
  have : ∀ vars, renderSrc src vars = .ok (tvBytes nodes) := by
    intro vars
    unfold renderSrc
    rw [hp]
    exact renderNodesTop_onlyTV nodes h vars
  exact ⟨(this vars₁).trans (this vars₂).symm, this vars₁⟩

/-- the shape `l₁ {% verbatim %} body {% endverbatim %} l₂` with literal chunks: the output is
    `l₁ ++ body ++ l₂` for every context -/
theorem C04_verbatim_literal_render (l1 body l2 : Bytes) (vars : List (Bytes × Val))
    (h1 : Lit l1) (hb : Lit body) (h2 : NoOpener l2) :
    renderSrc (l1 ++ b "{% verbatim %}" ++ (body ++ b "{% endverbatim %}" ++ l2)) vars = .ok (l1 ++ body ++ l2) := by
  have hp := parseTemplate_verbatim l1 body l2 h1 hb h2
  have htv : onlyTV ((if l1 = [] then [] else [.text l1]) ++ .verbatim body :: (if l2 = [] then [] else [.text l2])) = true := by
    by_cases a1 : l1 = [] <;> by_cases a2 : l2 = [] <;> simp [a1, a2, onlyTV, tvPieces]
  rw [(C04_verbatim_inert_render _ _ hp htv vars vars).2]
  by_cases a1 : l1 = [] <;> by_cases a2 : l2 = [] <;> simp [a1, a2, tvBytes]

/-! ## C14 — the tokenizer switch is unobservable in rendered output -/

/-- the rendered result (output or error) is the same whichever of the two tokenizers reads the template -/
theorem C14_scanners_agree_render (s : Bytes) (vars : List (Bytes × Val)) :
    renderSrcWith scanOpt s vars = renderSrcWith scanHtml s vars := by
  unfold renderSrcWith parseTemplateWith tokenizeWith
  rw [scanHtml_eq_scanOpt]

/-- hence the 4096-byte threshold of `Parser.Parse` is unobservable: `renderSrc` (which switches tokenizer at
    4096 bytes) equals the pipeline with either tokenizer fixed, for every template length -/
theorem C14_threshold_render (s : Bytes) (vars : List (Bytes × Val)) :
    renderSrc s vars = renderSrcWith scanHtml s vars ∧ renderSrc s vars = renderSrcWith scanOpt s vars := by
  have h : renderSrc s vars = renderSrcWith scanOpt s vars := by
    rw [renderSrc_eq_with]
    unfold renderSrcWith parseTemplateWith tokenizeWith
    rw [scan_eq_scanOpt]
  exact ⟨h.trans (C14_scanners_agree_render s vars), h⟩

/-! ## C14 — literal padding changes the output only by that text -/

/-- Parse level, every template: literal padding `p` in front of a template that begins with a tag (or is
    empty) adds one text node in front and changes nothing else in the tree.  The node holds `p` — without its
    trailing whitespace if that first tag has a dashed opener (`dashedStart`, the C13 exception).
    (No fuel hypothesis: `parseTemplate_ne_fuel` — the model's parser fuel `4·|tokens|+16` suffices for every
    template; the padded template gets more fuel and `parseOuter_mono` shows more fuel never changes a result.) -/
theorem C14_padding_parse {p : Bytes} (hp : Lit p) (hne : p ≠ []) {s : Bytes} (hs : TagOrEnd s) :
    parseTemplate (p ++ s) = mapNodes (fun ns => .text (rtIf (dashedStart s) p) :: ns) (parseTemplate s) :=
  parseTemplate_pad hp hne hs (parseTemplate_ne_fuel s)

/-- Rendered output: the padded template renders to the padding followed by the output of the unpadded
    template (same error if that fails).  `NXL`: the template contains no `extends` / `include` / `import` / `from`
    (with a single template in the engine these could only reach the template itself, and a template that includes
    itself emits the padding once per inclusion). Blocks, macros and their calls, `parent()`, loops, conditions,
    `set`, `apply` are all covered. -/
theorem C14_padding_render {p : Bytes} (hp : Lit p) (hne : p ≠ []) {s : Bytes} (hs : TagOrEnd s)
    (vars : List (Bytes × Val))
    (hnx : ∀ nodes, parseTemplate s = .ok nodes → NXL nodes = true) :
    renderSrc (p ++ s) vars = (renderSrc s vars >>= fun o => pure (rtIf (dashedStart s) p ++ o)) := by
  unfold renderSrc
  rw [parseTemplate_pad hp hne hs (parseTemplate_ne_fuel s)]
  cases hps : parseTemplate s with
  | error e => rfl
  | ok nodes => exact renderNodesTop_text _ nodes (hnx nodes hps) vars

/-- …in particular exactly `p` when the template does not begin with a dashed opener -/
theorem C14_padding_render_undashed {p : Bytes} (hp : Lit p) (hne : p ≠ []) {s : Bytes} (hs : TagOrEnd s)
    (hd : dashedStart s = false) (vars : List (Bytes × Val))
    (hnx : ∀ nodes, parseTemplate s = .ok nodes → NXL nodes = true) :
    renderSrc (p ++ s) vars = (renderSrc s vars >>= fun o => pure (p ++ o)) := by
  rw [C14_padding_render hp hne hs vars hnx, hd]; rfl

theorem interleaveOut_append (vars : List (Bytes × Val)) (last : Bytes) : ∀ (ps1 ps2 : List (Bytes × STag)),
    interleaveOut vars (ps1 ++ ps2) last =
      (interleaveOut vars ps1 [] >>= fun a => interleaveOut vars ps2 last >>= fun c => .ok (a ++ c))
  | [], ps2 => by cases h : interleaveOut vars ps2 last <;> simp [interleaveOut, h]
  | (l, s) :: ps1, ps2 => by
    simp only [List.cons_append, interleaveOut, interleaveOut_append vars last ps1 ps2]
    cases s.value vars with
    | error e => rfl
    | ok v =>
      simp only [ok_bind]
      cases interleaveOut vars ps1 [] with
      | error e => rfl
      | ok a =>
        simp only [ok_bind]
        cases interleaveOut vars ps2 last <;> simp

/-- Padding between constructs and at the end (fragment: comments and undashed prints of variables): growing
    the chunk before the k-th tag by `p` — or the final chunk — inserts exactly `p` at that place of the output
    (`A ++ B` becomes `A ++ p ++ B`); a failing render fails identically. -/
theorem C14_padding_middle_render (ps1 ps2 : List (Bytes × STag)) (l p : Bytes) (s : STag) (last : Bytes)
    (vars : List (Bytes × Val))
    (h1 : ∀ lt ∈ ps1 ++ (l, s) :: ps2, Lit lt.1 ∧ WfTag lt.2.tag ∧ lt.2.ok = true ∧ lt.2.noDash = true)
    (hlp : Lit (l ++ p)) (hlast : NoOpener last) (hv : PlainVars vars = true) :
    (∀ out, renderSrc (spell (tagsOf (ps1 ++ (l, s) :: ps2)) last) vars = .ok out →
      ∃ A B, out = A ++ B ∧ renderSrc (spell (tagsOf (ps1 ++ (l ++ p, s) :: ps2)) last) vars = .ok (A ++ p ++ B)) ∧
    (∀ e, renderSrc (spell (tagsOf (ps1 ++ (l, s) :: ps2)) last) vars = .error e →
      renderSrc (spell (tagsOf (ps1 ++ (l ++ p, s) :: ps2)) last) vars = .error e) := by
  have hs := h1 (l, s) (by simp)
  have h2 : ∀ lt ∈ ps1 ++ (l ++ p, s) :: ps2, Lit lt.1 ∧ WfTag lt.2.tag ∧ lt.2.ok = true ∧ lt.2.noDash = true := by
    intro lt hm
    simp only [List.mem_append, List.mem_cons] at hm
    rcases hm with hm | rfl | hm
    · exact h1 lt (by simp [hm])
    · exact ⟨hlp, hs.2⟩
    · exact h1 lt (by simp [hm])
  rw [C04_output_render_plainVars _ last vars h1 hlast hv, C04_output_render_plainVars _ last vars h2 hlast hv,
    interleaveOut_append, interleaveOut_append]
  simp only [interleaveOut]
  cases interleaveOut vars ps1 [] with
  | error e => exact ⟨fun out h => (by cases h), fun e' h => h⟩
  | ok a =>
    cases s.value vars with
    | error e => exact ⟨fun out h => (by cases h), fun e' h => h⟩
    | ok v =>
      cases interleaveOut vars ps2 last with
      | error e => exact ⟨fun out h => (by cases h), fun e' h => h⟩
      | ok r =>
        refine ⟨fun out h => ⟨a ++ l, v ++ r, ?_, ?_⟩, fun e' h => by cases h⟩
        · simp only [ok_bind, Except.ok.injEq] at h; rw [← h]; simp
        · simp

theorem C14_padding_end_render (ps : List (Bytes × STag)) (last p : Bytes) (vars : List (Bytes × Val))
    (h : ∀ lt ∈ ps, Lit lt.1 ∧ WfTag lt.2.tag ∧ lt.2.ok = true ∧ lt.2.noDash = true)
    (hlast : NoOpener last) (hlp : NoOpener (last ++ p)) (hv : PlainVars vars = true) :
    renderSrc (spell (tagsOf ps) (last ++ p)) vars =
      (renderSrc (spell (tagsOf ps) last) vars >>= fun o => pure (o ++ p)) := by
  rw [C04_output_render_plainVars ps _ vars h hlp hv, C04_output_render_plainVars ps _ vars h hlast hv]
  have := interleaveOut_append vars (last ++ p) ps []
  rw [List.append_nil] at this
  rw [this]
  have := interleaveOut_append vars last ps []
  rw [List.append_nil] at this
  rw [this]
  simp only [interleaveOut]
  cases interleaveOut vars ps [] <;> simp

/-! ## C14 — padding for arbitrary constructs -/

/-- Comment padding in front of ANY template (every chunk list, every tag kind, every subset of dashes, every
    context; `extends` / `include` of the template itself included): the rendered result does not change. -/
theorem C14_comment_padding_render (c : Bytes) (ps : List (Bytes × Tag)) (last : Bytes) (vars : List (Bytes × Val))
    (hc : indexOf [35, 125] (c ++ [35]) = none)
    (h : ∀ lt ∈ ps, Lit lt.1 ∧ WfTag lt.2) (hlast : NoOpener last) :
    renderSrc ((b "{#" ++ c ++ b "#}") ++ spell ps last) vars = renderSrc (spell ps last) vars := by
  have := C04_comment_inert_render [] c ps last vars (by decide) hc h hlast (by
    cases ps with
    | nil => trivial
    | cons lt ps => exact rfl)
  simpa using this

/-- Padding between two top-level constructs, tree level: a text node `p` between the node lists `N1` and `N2` of a
    template that never transfers to a template root (`NXL`: no `extends` / `include` / `import` / `from`; blocks,
    macros and their calls, `parent()`, loops, conditions, `set`, `apply`, verbatim … are all allowed, at any depth)
    inserts exactly `p` between the outputs `A` of `N1` and `B` of `N2` (`renderTwo`: both halves rendered in sequence
    in one engine and one state), and changes nothing else; a failing render fails identically.  `N2 = []`: padding
    at the end. -/
theorem C14_padding_between_nodes_render (N1 N2 : List Node) (p : Bytes) (vars : List (Bytes × Val))
    (hn : NXL (N1 ++ N2) = true) :
    renderNodesTop (N1 ++ N2) vars = (renderTwo N1 N2 vars >>= fun o => pure (o.1 ++ o.2)) ∧
    renderNodesTop (N1 ++ .text p :: N2) vars = (renderTwo N1 N2 vars >>= fun o => pure (o.1 ++ p ++ o.2)) :=
  ⟨renderNodesTop_two N1 N2 hn vars, renderNodesTop_insert_text N1 N2 p hn vars⟩

/-- …on source bytes, for two templates whose parses differ by that one text node (the hypothesis on the parses is
    decidable for a given pair of templates; for padding in front it is `C14_padding_parse`, for the comment /
    print-variable fragment it follows from `C04_output_render`).  `A ++ B` becomes `A ++ p ++ B`; errors alike. -/
theorem C14_padding_between_render (s s' : Bytes) (N1 N2 : List Node) (p : Bytes) (vars : List (Bytes × Val))
    (hs : parseTemplate s = .ok (N1 ++ N2)) (hs' : parseTemplate s' = .ok (N1 ++ .text p :: N2))
    (hn : NXL (N1 ++ N2) = true) :
    (∀ out, renderSrc s vars = .ok out → ∃ A B, out = A ++ B ∧ renderSrc s' vars = .ok (A ++ p ++ B)) ∧
    (∀ e, renderSrc s vars = .error e → renderSrc s' vars = .error e) := by
  obtain ⟨h1, h2⟩ := C14_padding_between_nodes_render N1 N2 p vars hn
  unfold renderSrc
  rw [hs, hs']
  simp only [ok_bind]
  rw [h1, h2]
  cases renderTwo N1 N2 vars with
  | error e => exact ⟨fun out h => (by cases h), fun e' h => h⟩
  | ok o =>
    refine ⟨fun out h => ⟨o.1, o.2, ?_, rfl⟩, fun e' h => (by cases h)⟩
    simp only [ok_bind, pure_eq_ok, Except.ok.injEq] at h
    exact h.symm

/-! ## C13 — dashes, on rendered output (fragment: comments and prints of variables) -/

/-- Output of a template with any subset of dashes: the chunks lose exactly the whitespace runs next to a dashed
    delimiter (`undashS` / `undashLast`, the hand-trimmed chunks), nothing else changes. -/
theorem C13_output_render (ps : List (Bytes × STag)) (last : Bytes) (vars : List (Bytes × Val))
    (h : ∀ lt ∈ ps, Lit lt.1 ∧ WfTag lt.2.tag ∧ lt.2.ok = true) (hlast : NoOpener last)
    (hp : PiecesPlain vars (piecesOf false ps last) = true) :
    renderSrc (spell (tagsOf ps) last) vars =
      interleaveOut vars (undashS false ps) (undashLast false (tagsOf ps) last) := by
  rw [renderSrc_spell ps last vars h hlast hp, outPieces_piecesOf, outOf_undash]


theorem undashS_mem : ∀ (tn : Bool) (ps : List (Bytes × STag)), ∀ lt ∈ undashS tn ps, ∃ x ∈ ps, lt.2 = x.2.plain
  | _, [], lt, h => by simp [undashS] at h
  | tn, (l, s) :: ps, lt, h => by
    simp only [undashS, List.mem_cons] at h
    rcases h with rfl | h
    · exact ⟨(l, s), by simp, rfl⟩
    · obtain ⟨x, hx, e⟩ := undashS_mem _ ps lt h
      exact ⟨x, by simp [hx], e⟩

/-- C13 on rendered output, for the fragment (comments and prints of variables; block tags: see the report):
    the template with dashes renders exactly like the hand-trimmed dash-free template — same output or same
    error.  Hypotheses as in `C13_commutes`: tags well-formed with and without their dashes, the *trimmed*
    chunks literal. -/
theorem C13_commutes_render_fragment_partial (ps : List (Bytes × STag)) (last : Bytes) (vars : List (Bytes × Val))
    (hwf : ∀ lt ∈ ps, WfTag lt.2.tag ∧ WfTag lt.2.tag.plain ∧ lt.2.ok = true)
    (hlit : ∀ lt ∈ undashPairs false (tagsOf ps), Lit lt.1)
    (hlast : NoOpener (undashLast false (tagsOf ps) last))
    (hv : PlainVars vars = true) :
    renderSrc (spell (tagsOf ps) last) vars =
      renderSrc (spell (undashPairs false (tagsOf ps)) (undashLast false (tagsOf ps) last)) vars := by
  have hlit0 := lit_of_undash false (tagsOf ps) hlit
  have hL := C13_output_render ps last vars (by
    intro lt hm
    exact ⟨hlit0 (lt.1, lt.2.tag) (by simp only [tagsOf, List.mem_map]; exact ⟨lt, hm, rfl⟩),
      (hwf lt hm).1, (hwf lt hm).2.2⟩) (noOpener_of_ltIf hlast) (piecesPlain_of_plainVars hv _)
  rw [hL, ← tagsOf_undashS]
  symm
  apply C04_output_render_plainVars _ _ vars _ hlast hv
  intro lt hm
  obtain ⟨x, hx, e⟩ := undashS_mem false ps lt hm
  refine ⟨?_, ?_, ?_, undashS_noDash false ps lt hm⟩
  · apply hlit (lt.1, lt.2.tag)
    rw [← tagsOf_undashS]
    simp only [tagsOf, List.mem_map]
    exact ⟨lt, hm, rfl⟩
  · rw [e, plain_tag]; exact (hwf x hx).2.1
  · rw [e, plain_ok]; exact (hwf x hx).2.2

/-- C13 on rendered output for ALL tag kinds (prints of arbitrary expressions, `if`/`elseif`/`else`/`endif`,
    `for`, `block`, `set`, `macro`, … opening, middle and closing tags, every subset of dashes), when trimming
    does not reduce a non-empty chunk to nothing (`Kept`, decidable): the parser then sees for the dashed template
    literally the token stream of the hand-trimmed dash-free template, so parsing (success or the same error) and
    rendering under every context coincide.  The complementary case (a whitespace-only chunk next to a dash) leaves
    an empty TEXT token in the stream; `C13_commutes_render` covers both cases (rendered result only: the trees then
    differ by `.text []` nodes). -/
theorem C13_commutes_render_kept_partial (ps : List (Bytes × Tag)) (last : Bytes) (vars : List (Bytes × Val))
    (hwf : ∀ lt ∈ ps, WfTag lt.2 ∧ WfTag lt.2.plain)
    (hlit : ∀ lt ∈ undashPairs false ps, Lit lt.1)
    (hlast : NoOpener (undashLast false ps last)) (hk : Kept false ps last) :
    tokenize (spell ps last) = tokenize (spell (undashPairs false ps) (undashLast false ps last)) ∧
    parseTemplate (spell ps last) = parseTemplate (spell (undashPairs false ps) (undashLast false ps last)) ∧
    renderSrc (spell ps last) vars = renderSrc (spell (undashPairs false ps) (undashLast false ps last)) vars := by
  obtain ⟨h1, h2⟩ := tokenize_undash ps last hwf hlit hlast hk
  have ht : tokenize (spell ps last) = tokenize (spell (undashPairs false ps) (undashLast false ps last)) :=
    h1.trans h2.symm
  have hp : parseTemplate (spell ps last) = parseTemplate (spell (undashPairs false ps) (undashLast false ps last)) := by
    unfold parseTemplate; rw [ht]
  exact ⟨ht, hp, by unfold renderSrc; rw [hp]⟩

/-- Rendering is insensitive to empty text nodes (what an empty TEXT token becomes): removing every `.text []` node,
    at every depth (block, macro, loop and branch bodies included), from a parsed template changes nothing in the
    result of rendering — output or error — under any context.  (The general statement for engines with several
    templates is `Lift.renderTop_strip`; it also preserves the callback trace.) -/
theorem C13_render_dropEmptyText (nodes : List Node) (vars : List (Bytes × Val)) :
    renderNodesTop (stripL nodes) vars = renderNodesTop nodes vars :=
  renderNodesTop_strip nodes vars

/-- C13 on rendered output, EVERY tag kind, ANY chunks (also whitespace-only chunks that a dash trims to nothing),
    every subset of dashes: the dashed template renders like the hand-trimmed dash-free template — same output, same
    error, under every context.  Tags: prints of arbitrary expressions, comments, `if`/`elseif`/`else`/`endif`,
    `for`/`else`/`endfor`, `block`/`endblock`, `set`, `do`, `extends`, `include` (with all its options), `import`, `from`,
    `macro`/`endmacro`, `apply`/`endapply`, `spaceless`, `verbatim`/`endverbatim`, unknown tags.
    Remaining hypotheses — exactly those of the scan-level `C13_commutes`: every tag is well formed with and
    without its dashes (`WfTag`: its body does not contain its own closer, …), the hand-trimmed chunks are literal
    text (`Lit`: no opener inside, none created at the seam with the next tag), the trimmed final chunk has no opener.
    No fuel hypothesis (`parseTemplate_ne_fuel`).
    Route: `tokenize_dashed` (C13_commutes: the streams are equal up to empty TEXT tokens), `wfo_stream` (the stream is
    text / comment groups / tags with matching, empty-valued end tokens, up to the final EOF),
    `parseTokens_dropEmptyText` (the parser maps the two streams to trees equal up to `.text []` nodes; `include`:
    `inclHdr_sim`, `verbatim`: `verbBody_sim`), `C13_render_dropEmptyText` (such nodes are invisible to the renderer). -/
theorem C13_commutes_render (ps : List (Bytes × Tag)) (last : Bytes) (vars : List (Bytes × Val))
    (hwf : ∀ lt ∈ ps, WfTag lt.2 ∧ WfTag lt.2.plain)
    (hlit : ∀ lt ∈ undashPairs false ps, Lit lt.1)
    (hlast : NoOpener (undashLast false ps last)) :
    renderSrc (spell ps last) vars = renderSrc (spell (undashPairs false ps) (undashLast false ps last)) vars := by
  have hfuel := parseTemplate_ne_fuel (spell (undashPairs false ps) (undashLast false ps last))
  obtain ⟨hX, hY, hD⟩ := tokenize_dashed ps last hwf hlit hlast
  have hw : WFo (normalise (applyWs (expected ps last))) := wfo_stream last ps false
  have hpX := parseTemplate_tokens hX
  have hpY := parseTemplate_tokens hY
  rw [hpY, ← hD] at hfuel
  have hsim := parseTokens_dropEmptyText _ hw hfuel
  unfold renderSrc
  rw [hpX, hpY, ← hD]
  cases hres : parseTokens (dropEmptyText (normalise (applyWs (expected ps last)))) with
  | error e =>
    rw [hres] at hsim
    simp only at hsim
    rw [hsim]
  | ok ns' =>
    rw [hres] at hsim
    obtain ⟨ns, hx, hφ⟩ := hsim
    rw [hx]
    simp only [ok_bind]
    rw [← hφ, C13_render_dropEmptyText]

/-- the earlier, weaker statement (templates without `include` / `verbatim` tags — `tagSupB` —, and with the fuel
    hypothesis), kept under its old name; superseded by `C13_commutes_render` -/
theorem C13_commutes_render_partial (ps : List (Bytes × Tag)) (last : Bytes) (vars : List (Bytes × Val))
    (hwf : ∀ lt ∈ ps, WfTag lt.2 ∧ WfTag lt.2.plain)
    (hlit : ∀ lt ∈ undashPairs false ps, Lit lt.1)
    (hlast : NoOpener (undashLast false ps last))
    (_hsup : ∀ lt ∈ ps, tagSupB lt.2 = true)
    (_hfuel : parseTemplate (spell (undashPairs false ps) (undashLast false ps last)) ≠ .error .fuel) :
    renderSrc (spell ps last) vars = renderSrc (spell (undashPairs false ps) (undashLast false ps last)) vars :=
  C13_commutes_render ps last vars hwf hlit hlast

/-! ## non-vacuity and concrete instances (kernel evaluation of the whole pipeline) -/

/-- evaluation helper for closed instances -/
def isOk (r : R Bytes) (x : Bytes) : Bool := match r with | .ok y => y == x | _ => false
theorem isOk_eq {r : R Bytes} {x : Bytes} (h : isOk r x = true) : r = .ok x := by
  cases r with
  | error e => simp [isOk] at h
  | ok y => simp [isOk] at h; rw [h]

-- C04_text_only_render: arbitrary bytes incl. NUL, invalid UTF-8, lone braces, percent, backslash
example : NoOpener ([0, 0xff, 0xfe] ++ b "{ a } 100% #1 \\ }}") := by decide +kernel
example : renderSrc ([0, 0xff, 0xfe] ++ b "{ a } 100% #1 \\ }}") [] = .ok ([0, 0xff, 0xfe] ++ b "{ a } 100% #1 \\ }}") :=
  C04_text_only_render _ _ (by decide +kernel)

/-- a template of the fragment: `<p>{{ name }}</p>{# note {{ x }} #}{{greeting}}!` -/
def c04Sample : List (Bytes × STag) :=
  [(b "<p>", .pvar false (b " ") (b "name") (b " ") false), (b "</p>", .comment (b " note {{ x }} ")),
   ([], .pvar false [] (b "greeting") [] false)]
example : spell (tagsOf c04Sample) (b "!") = b "<p>{{ name }}</p>{# note {{ x }} #}{{greeting}}!" := by decide +kernel
example : (∀ lt ∈ c04Sample, Lit lt.1 ∧ WfTag lt.2.tag ∧ lt.2.ok = true ∧ lt.2.noDash = true) ∧ NoOpener (b "!") := by
  decide +kernel
example : PlainVars [(b "name", .str (b "Bob")), (b "greeting", .int 7)] = true := by decide +kernel
example : interleaveOut [(b "name", .str (b "Bob")), (b "greeting", .int 7)] c04Sample (b "!") = .ok (b "<p>Bob</p>7!") :=
  isOk_eq (by decide +kernel)
-- the whole pipeline evaluated on the same template agrees with the theorem
example : renderSrc (b "<p>{{ name }}</p>{# note {{ x }} #}{{greeting}}!")
    [(b "name", .str (b "Bob")), (b "greeting", .int 7)] = .ok (b "<p>Bob</p>7!") := isOk_eq (by decide +kernel)

/-- comments shield text from whitespace control: with a dashed tag after the comment, deleting the comment lets
    the trimming reach the text before it (`"x {##} {{- y }}"` → `"x "`, `"x  {{- y }}"` → `"x"`). This is why
    `C04_comment_inert_render` has the hypothesis `NoReach`. -/
theorem C04_comment_shields_trim_counterexample :
    renderSrc (b "x " ++ (b "{#" ++ [] ++ b "#}") ++ b " {{- y }}") [] = .ok (b "x ") ∧
    renderSrc (b "x " ++ b " {{- y }}") [] = .ok (b "x") :=
  ⟨isOk_eq (by decide +kernel), isOk_eq (by decide +kernel)⟩

-- C13: a dashed fragment template and its hand-trimmed form
def c13SampleS : List (Bytes × STag) :=
  [(b "<li> \n", .pvar true (b " ") (b "i") (b " ") true), (b " \t </li> ", .comment (b "-")),
   (b "  ", .pvar true [] (b "j") (b " ") false)]
example : (∀ lt ∈ c13SampleS, WfTag lt.2.tag ∧ WfTag lt.2.tag.plain ∧ lt.2.ok = true) ∧
    (∀ lt ∈ undashPairs false (tagsOf c13SampleS), Lit lt.1) ∧
    NoOpener (undashLast false (tagsOf c13SampleS) (b " end")) := by decide +kernel
example : spell (tagsOf c13SampleS) (b " end") = b "<li> \n{{- i -}} \t </li> {#-#}  {{-j }} end" := by decide +kernel
example : spell (undashPairs false (tagsOf c13SampleS)) (undashLast false (tagsOf c13SampleS) (b " end")) =
    b "<li>{{ i }}</li> {#-#}{{j }} end" := by decide +kernel
example : renderSrc (b "<li> \n{{- i -}} \t </li> {#-#}  {{-j }} end") [(b "i", .int 1), (b "j", .str (b "J"))] =
    .ok (b "<li>1</li> J end") := isOk_eq (by decide +kernel)

-- C14: both tokenizers on a concrete template
example : renderSrcWith scanOpt (b "a{{ x -}} b") [(b "x", .int 3)] = .ok (b "a3b") := isOk_eq (by decide +kernel)
example : renderSrcWith scanHtml (b "a{{ x -}} b") [(b "x", .int 3)] = .ok (b "a3b") := isOk_eq (by decide +kernel)

-- verbatim: a body containing tags is never evaluated (the parse has only text/verbatim nodes)
example : ∃ nodes, parseTemplate (b "a{% verbatim %}{{ secret }}{% if %}{% endverbatim %}b") = .ok nodes ∧
    onlyTV nodes = true ∧ tvBytes nodes = b "a{{secret}}{%if %}b" :=
  ⟨[.text (b "a"), .verbatim (b "{{secret}}{%if %}"), .text (b "b")], by with_unfolding_all rfl, by decide +kernel,
    by decide +kernel⟩
example : Lit (b "<pre>") ∧ Lit (b "{ x } 100%") ∧ NoOpener (b "</pre>") := by decide +kernel

-- C14_padding_render: a template with a block, a loop and a macro call; padding in front
example : Lit (b "<!-- pad { } % -->\n") ∧ TagOrEnd (b "{% for i in xs %}{{ i }},{% endfor %}") ∧
    dashedStart (b "{% for i in xs %}{{ i }},{% endfor %}") = false := by decide +kernel
example : ∃ nodes, parseTemplate (b "{% for i in xs %}{{ i }},{% endfor %}") = .ok nodes ∧ NXL nodes = true :=
  ⟨[.forN none (b "i") (.var (b "xs")) [.print (.var (b "i")), .text (b ",")] []], by with_unfolding_all rfl, by decide +kernel⟩
example : renderSrc (b "<!-- pad -->{% for i in xs %}{{ i }},{% endfor %}") [(b "xs", .list [.int 1, .int 2])] =
    .ok (b "<!-- pad -->1,2,") := isOk_eq (by decide +kernel)
-- the exclusion is real: a template that includes itself emits the padding at every level
theorem C14_padding_self_include_counterexample :
    renderSrc (b "{% if n %}{% include 'main' with {'n': 0} %}{% endif %}x") [(b "n", .int 1)] = .ok (b "xx") ∧
    renderSrc (b "p" ++ b "{% if n %}{% include 'main' with {'n': 0} %}{% endif %}x") [(b "n", .int 1)] = .ok (b "ppxx") :=
  ⟨isOk_eq (by decide +kernel), isOk_eq (by decide +kernel)⟩

-- C13_commutes_render_kept_partial: `c13Sample` of TwigProofs/C13.lean (a `for` block, three dashed delimiters)
example : (∀ lt ∈ c13Sample, WfTag lt.2 ∧ WfTag lt.2.plain) ∧ (∀ lt ∈ undashPairs false c13Sample, Lit lt.1) ∧
    NoOpener (undashLast false c13Sample (b "  </li>\n")) ∧ Kept false c13Sample (b "  </li>\n") := by
  decide +kernel

-- C13_commutes_render (and the old `_partial` form): an `if` block whose body is a whitespace-only chunk between two dashes
def c13Blocks : List (Bytes × Tag) :=
  [(b "a ", ⟨.block, true, b " if x ", true⟩), (b " \n ", ⟨.var, true, b " y ", true⟩),
   (b "  ", ⟨.block, true, b " endif ", false⟩)]
example : (∀ lt ∈ c13Blocks, WfTag lt.2 ∧ WfTag lt.2.plain) ∧ (∀ lt ∈ undashPairs false c13Blocks, Lit lt.1) ∧
    NoOpener (undashLast false c13Blocks (b " z")) ∧ (∀ lt ∈ c13Blocks, tagSupB lt.2 = true) ∧
    ¬ Kept false c13Blocks (b " z") := by decide +kernel
example : spell c13Blocks (b " z") = b "a {%- if x -%} \n {{- y -}}  {%- endif %} z" ∧
    spell (undashPairs false c13Blocks) (undashLast false c13Blocks (b " z")) = b "a{% if x %}{{ y }}{% endif %} z" := by
  decide +kernel
example : renderSrc (b "a {%- if x -%} \n {{- y -}}  {%- endif %} z") [(b "x", .bool true), (b "y", .int 7)] = .ok (b "a7 z") :=
  isOk_eq (by decide +kernel)


-- C13_commutes_render: `include` (with options) and `verbatim`, whitespace-only chunks between dashes trimmed to nothing
def c13Incl : List (Bytes × Tag) :=
  [(b "a ", ⟨.block, true, b " include 'p' ignore missing ", true⟩), (b " \n ", ⟨.block, true, b " verbatim ", true⟩),
   (b "  ", ⟨.var, false, b " x ", false⟩), (b " ", ⟨.block, true, b " endverbatim ", false⟩)]
example : (∀ lt ∈ c13Incl, WfTag lt.2 ∧ WfTag lt.2.plain) ∧ (∀ lt ∈ undashPairs false c13Incl, Lit lt.1) ∧
    NoOpener (undashLast false c13Incl (b " z")) ∧ (∃ lt ∈ c13Incl, tagSupB lt.2 = false) ∧
    ¬ Kept false c13Incl (b " z") := by decide +kernel
example : spell c13Incl (b " z") = b "a {%- include 'p' ignore missing -%} \n {%- verbatim -%}  {{ x }} {%- endverbatim %} z" ∧
    spell (undashPairs false c13Incl) (undashLast false c13Incl (b " z")) =
      b "a{% include 'p' ignore missing %}{% verbatim %}{{ x }}{% endverbatim %} z" := by
  decide +kernel
example : renderSrc (b "a {%- include 'p' ignore missing -%} \n {%- verbatim -%}  {{ x }} {%- endverbatim %} z") [(b "x", .int 7)] =
    .ok (b "a{{x}} z") := isOk_eq (by decide +kernel)
example : renderSrc (b "a{% include 'p' ignore missing %}{% verbatim %}{{ x }}{% endverbatim %} z") [(b "x", .int 7)] =
    .ok (b "a{{x}} z") := isOk_eq (by decide +kernel)

-- C04_comment_inert_render: the rest is a dashed `for` loop and an `include`; the comment body contains a tag
def c04Rest : List (Bytes × Tag) :=
  [(b "y \n", ⟨.block, true, b " for i in xs ", true⟩), (b " ", ⟨.var, false, b " i ", false⟩),
   (b ",", ⟨.block, true, b " endfor ", false⟩), (b "", ⟨.block, false, b " include 'q' ignore missing ", false⟩)]
example : Lit (b "x ") ∧ indexOf [35, 125] (b " note {{ z }} " ++ [35]) = none ∧
    (∀ lt ∈ c04Rest, Lit lt.1 ∧ WfTag lt.2) ∧ NoOpener (b "!") ∧ NoReach (b "x ") c04Rest := by decide +kernel
example : b "x " ++ (b "{#" ++ b " note {{ z }} " ++ b "#}") ++ spell c04Rest (b "!") =
    b "x {# note {{ z }} #}y \n{%- for i in xs -%} {{ i }},{%- endfor %}{% include 'q' ignore missing %}!" := by
  decide +kernel
example : renderSrc (b "x {# note {{ z }} #}y \n{%- for i in xs -%} {{ i }},{%- endfor %}{% include 'q' ignore missing %}!")
    [(b "xs", .list [.int 1, .int 2])] = .ok (b "x y1,2,!") := isOk_eq (by decide +kernel)
-- `NoReach` fails exactly in the situation of `C04_comment_shields_trim_counterexample`
example : ¬ NoReach (b "x ") [(b " ", ⟨.var, true, b " y ", false⟩)] := by decide +kernel

-- C14_comment_padding_render on the same rest (its hypotheses are the ones checked above)
example (vars : List (Bytes × Val)) :
    renderSrc ((b "{#" ++ b " pad " ++ b "#}") ++ spell c04Rest (b "!")) vars = renderSrc (spell c04Rest (b "!")) vars :=
  C14_comment_padding_render (b " pad ") c04Rest (b "!") vars (by decide +kernel) (by decide +kernel) (by decide +kernel)

-- C14_padding_between_render: padding between a block and a condition (with `N2 = []`: at the end)
example : parseTemplate (b "{% block a %}x{% endblock %}{% if y %}z{% endif %}") =
    .ok ([.block (b "a") [.text (b "x")]] ++ [.ifN (.var (b "y")) [.text (b "z")] []]) := by
  with_unfolding_all rfl
example : parseTemplate (b "{% block a %}x{% endblock %}p{% if y %}z{% endif %}") =
    .ok ([.block (b "a") [.text (b "x")]] ++ .text (b "p") :: [.ifN (.var (b "y")) [.text (b "z")] []]) := by
  with_unfolding_all rfl
example : NXL ([.block (b "a") [.text (b "x")]] ++ [.ifN (.var (b "y")) [.text (b "z")] []]) = true := by decide +kernel
example : renderSrc (b "{% block a %}x{% endblock %}p{% if y %}z{% endif %}") [(b "y", .bool true)] = .ok (b "xpz") :=
  isOk_eq (by decide +kernel)

/-! ## a stray block-end tag at the top level (C04: nothing outside delimiters is dropped)

  `parseOuter` returns at a tag that closes a block (`endif`, `else`, `elseif`, `endfor`, `endblock`, `endmacro`,
  `endapply`, `endspaceless`, `endverbatim`) so that the tag's own parser can go on. At the top level no block is open:
  `Parser.Parse` (`parseTemplate`) rejects whatever is left in front of the EOF token, instead of dropping the rest
  of the template without a word. -/

/-- the error of `parseTemplate` for a stray end tag -/
def strayErr : Err := .error .parse [] "unexpected tag without an open block"

/-- If the outer parse of the token stream of `src` stops in front of anything but the EOF token (a stray end tag),
    `parseTemplate src` is the parse error `strayErr` — in particular it is never `.ok`. -/
theorem C04_stray_end_tag_rejected (src : Bytes) (ts : List Token) (nodes : List Node) (rest : List Token)
    (ht : tokenize src = .ok ts) (hp : parseOuter (4 * ts.length + 16) ts = .ok (nodes, rest))
    (hs : strayEnd rest = true) :
    parseTemplate src = .error strayErr ∧ ∀ ns, parseTemplate src ≠ .ok ns := by
  have h : parseTemplate src = .error strayErr := by
    unfold parseTemplate
    rw [ht]
    simp only
    rw [hp]
    simp only [ok_bind, hs, if_true]
    rfl
  exact ⟨h, fun ns hn => by rw [h] at hn; cases hn⟩

/-- An accepted template was read to the end: the outer parse that produced its nodes consumed every token up to
    the EOF token (nothing, or the EOF token, is left). -/
theorem C04_accepted_template_is_read_to_the_end (src : Bytes) (nodes : List Node)
    (h : parseTemplate src = .ok nodes) :
    ∃ ts rest, tokenize src = .ok ts ∧ parseOuter (4 * ts.length + 16) ts = .ok (nodes, rest) ∧
      (rest = [] ∨ ∃ t r, rest = t :: r ∧ t.kind = EOF) := by
  unfold parseTemplate at h
  cases ht : tokenize src with
  | error e => rw [ht] at h; cases h
  | ok ts =>
    rw [ht] at h
    simp only at h
    cases hp : parseOuter (4 * ts.length + 16) ts with
    | error e => rw [hp] at h; cases h
    | ok x =>
      obtain ⟨ns, rest⟩ := x
      rw [hp] at h
      simp only [ok_bind] at h
      by_cases hs : strayEnd rest = true
      · simp only [hs, if_true] at h; cases h
      · simp only [hs, Bool.false_eq_true, if_false] at h
        by_cases hd : hasDup (blockNamesL ns) = true
        · simp only [hd, if_true] at h; cases h
        · simp only [hd, Bool.false_eq_true, if_false] at h
          cases h
          refine ⟨ts, rest, rfl, hp, ?_⟩
          cases rest with
          | nil => exact .inl rfl
          | cons t r =>
            refine .inr ⟨t, r, rfl, ?_⟩
            simpa [strayEnd] using hs

/-- evaluation helper: the parse fails with exactly the stray-end-tag parse error -/
def isStrayErr {α} : R α → Bool
  | .error (.error .parse [] m) => m == "unexpected tag without an open block"
  | _ => false
theorem isStrayErr_eq {α} {r : R α} (h : isStrayErr r = true) : r = .error strayErr := by
  unfold isStrayErr at h
  split at h
  · simp only [beq_iff_eq] at h; rw [h]; rfl
  · cases h

/-- Every block-closing tag at the top level of a template is a parse error (the unchanged tree rendered `a`). -/
theorem C04_stray_end_tag_examples :
    parseTemplate (b "a{% endif %}b") = .error strayErr ∧
    parseTemplate (b "a{% else %}b") = .error strayErr ∧
    parseTemplate (b "a{% endfor %}b") = .error strayErr ∧
    parseTemplate (b "a{% endblock %}b") = .error strayErr ∧
    parseTemplate (b "a{% elseif x %}b") = .error strayErr ∧
    parseTemplate (b "a{% endmacro %}b") = .error strayErr ∧
    parseTemplate (b "a{% endapply %}b") = .error strayErr ∧
    parseTemplate (b "a{% endspaceless %}b") = .error strayErr ∧
    parseTemplate (b "a{% endverbatim %}b") = .error strayErr ∧
    parseTemplate (b "{%- endif -%}") = .error strayErr ∧
    parseTemplate (b "{% if t %}a{% endif %}b{% endif %}c") = .error strayErr :=
  ⟨isStrayErr_eq (by decide +kernel), isStrayErr_eq (by decide +kernel), isStrayErr_eq (by decide +kernel),
   isStrayErr_eq (by decide +kernel), isStrayErr_eq (by decide +kernel), isStrayErr_eq (by decide +kernel),
   isStrayErr_eq (by decide +kernel), isStrayErr_eq (by decide +kernel), isStrayErr_eq (by decide +kernel),
   isStrayErr_eq (by decide +kernel), isStrayErr_eq (by decide +kernel)⟩

-- the hypotheses of `C04_stray_end_tag_rejected` on a concrete template: the outer parse stops in front of `endif`
example : ∃ ts nodes rest, tokenize (b "a{% endif %}b") = .ok ts ∧
    parseOuter (4 * ts.length + 16) ts = .ok (nodes, rest) ∧ strayEnd rest = true :=
  ⟨[⟨TEXT, b "a"⟩, ⟨BLOCK_START, []⟩, ⟨NAME, b "endif"⟩, ⟨BLOCK_END, []⟩, ⟨TEXT, b "b"⟩, ⟨EOF, []⟩],
   [.text (b "a")], [⟨BLOCK_START, []⟩, ⟨NAME, b "endif"⟩, ⟨BLOCK_END, []⟩, ⟨TEXT, b "b"⟩, ⟨EOF, []⟩],
   by with_unfolding_all rfl, by with_unfolding_all rfl, by decide +kernel⟩

-- a block that is closed where it was opened still parses, and the text behind it is kept
example : parseTemplate (b "{% if t %}a{% endif %}b") = .ok [.ifN (.var (b "t")) [.text (b "a")] [], .text (b "b")] := by
  with_unfolding_all rfl
example : renderSrc (b "{% if t %}a{% endif %}b") [(b "t", .bool true)] = .ok (b "ab") := isOk_eq (by decide +kernel)

-- the padding theorem (C14) on a template whose outer parse leaves a stray end tag needs no extra hypothesis:
-- both sides are the same parse error
example (vars : List (Bytes × Val)) :
    renderSrc (b "pad " ++ b "{% endif %}b") vars = .error strayErr ∧ renderSrc (b "{% endif %}b") vars = .error strayErr := by
  have hs : parseTemplate (b "{% endif %}b") = .error strayErr := isStrayErr_eq (by decide +kernel)
  have h2 : renderSrc (b "{% endif %}b") vars = .error strayErr := by unfold renderSrc; rw [hs]; rfl
  refine ⟨?_, h2⟩
  rw [C14_padding_render (by decide +kernel) (by decide +kernel) (by decide +kernel) vars
    (fun nodes h => by rw [hs] at h; cases h), h2]
  rfl

/-- A stray end tag inside an included template is a parse error of THAT template: the template set does not load
    (`envOfSources = none`, the engine never gets to render `main`), while the same set with the tag removed renders. -/
theorem C04_stray_end_tag_in_included_template :
    parseTemplate (b "x{% endif %}y") = .error strayErr ∧
    parseTemplate (b "[{% include 'p' %}]") = .ok [.text (b "["), .include (.str (b "p")) [] [] false false false, .text (b "]")] ∧
    (Inh.envOfSources [("main", "[{% include 'p' %}]"), ("p", "x{% endif %}y")]).isNone = true ∧
    Inh.renderSources [("main", "[{% include 'p' %}]"), ("p", "xy")] "main" = some (b "[xy]") :=
  ⟨isStrayErr_eq (by decide +kernel), by with_unfolding_all rfl, by decide +kernel, by decide +kernel⟩


end Twig
