/-
  C05 — No template source makes the front end hang: termination / totality of the modelled code.

  What a Lean model can carry of C05 is TERMINATION and TOTALITY (panics of the real Go code are
  searched by the harness).  Every loop / recursion of the Go front end is transliterated in the
  model as a function that is structurally recursive on a fuel argument; the Go code terminates on
  every input iff the model's fuel is always enough, i.e. iff the model's `.error .fuel` (or the
  silent fuel-0 clause of the lexer / trim loops) is unreachable with the fuel the model passes.
  This file proves exactly that, for every input:

  * lexer (`lexAux`), `strings.TrimSpace` loops, template scanners: the result does not depend on
    the fuel once fuel ≥ input length (the model passes length + 1);
  * expression parser (14 mutually recursive functions): more fuel never changes a non-fuel result
    (`C05_expr_fuel_mono`), and fuel `8 * tokens + d` is enough for every function
    (`C05_expr_fuel_enough`), hence `exprFuel = 8 * tokens + 16` is (`C05_expr_fuel_adequate`);
  * template parser (8 mutually recursive functions + `verbBody`): the same, with fuel
    `tokens + 1` (the model passes `4 * tokens + 16`) — `C05_tpl_fuel_mono`, `C05_tpl_fuel_enough`,
    `C05_tpl_fuel_adequate`;
  * hence `C05_parse_total`: for every source byte string `parseTemplate` returns nodes, a parse
    error or `unsupported` — never the fuel error;
  * rendering: `Err.fuel` only ever comes out of a cross-template transfer (`C05_render_*`).
-/
import TwigProofs.Lemmas.Fuel
import TwigProofs.Lemmas.Scan
import TwigModel.Codec
namespace Twig

namespace Fuel
/-- test helpers for the non-vacuity examples (not part of the model) -/
def okAll {α} : R (α × List Token) → Bool
  | .ok (_, []) => true
  | _ => false
def isOk {α} : R α → Bool
  | .ok _ => true
  | _ => false
def isFuel {α} : R α → Bool
  | .error .fuel => true
  | _ => false
end Fuel

open Fuel

/-! ## 1. lexer, trim loops, scanners -/

/-- `TokenizeExpression`: the result of the lexer loop does not depend on the fuel once the fuel
    is at least the number of remaining bytes — in every lexer state.  (The Go loop advances its
    position by at least one byte per iteration.) -/
theorem C05_lex_fuel (s : Bytes) (mode : LexMode) (esc : Bool) (fuel : Nat)
    (h : s.length ≤ fuel) : lexAux fuel mode esc s = lexAux s.length mode esc s :=
  lexAux_fuel s mode esc fuel h

/-- one more unit of fuel changes nothing: the fuel-0 clause (which silently stops) is not reached -/
theorem C05_lex_fuel_succ (s : Bytes) (mode : LexMode) (esc : Bool) (fuel : Nat)
    (h : s.length ≤ fuel) : lexAux (fuel + 1) mode esc s = lexAux fuel mode esc s :=
  lexAux_succ fuel s h mode esc

/-- `lexExpr` is the lexer loop run to the end of its input, whatever (sufficient) fuel is used -/
theorem C05_lexExpr_fuel (s : Bytes) (fuel : Nat) (h : s.length ≤ fuel) :
    lexExpr s = lexAux fuel .code false s := by
  unfold lexExpr
  rw [lexAux_fuel s _ _ (s.length + 1) (by omega), lexAux_fuel s _ _ fuel h]

/-- the two loops of `strings.TrimSpace`: result independent of the fuel once fuel ≥ length -/
theorem C05_trim_fuel (s : Bytes) (fuel : Nat) (h : s.length ≤ fuel) :
    trimLeftGo fuel s = trimLeftGo s.length s ∧ trimRightRev fuel s = trimRightRev s.length s :=
  ⟨trimLeftGo_fuel s fuel h, trimRightRev_fuel s fuel h⟩

/-- the template scanners (both), reusing C14: result independent of the fuel above the length -/
theorem C05_scan_fuel (f : Bytes → Option (Nat × Opener)) (g : TagKind → Bytes → Option TagEnd)
    (n m : Nat) (s : Bytes) (hn : s.length + 1 ≤ n) (hm : s.length + 1 ≤ m) :
    scanWith f g n s = scanWith f g m s := scanWith_fuel f g n m s hn hm

-- non-vacuity: a real expression, lexed with exactly the fuel of the definition and with more
example : lexExpr (b "a.b|f(1, 'x\\'y') ~ [2.50, not c]") =
    lexAux 1000 .code false (b "a.b|f(1, 'x\\'y') ~ [2.50, not c]") :=
  C05_lexExpr_fuel _ _ (by decide +kernel)
example : (lexExpr (b "a.b|f(1, 'x\\'y') ~ [2.50, not c]")).length = 17 := by decide +kernel
-- … and too little fuel IS observable (tokens are lost), so the statement is not vacuous
example : (lexAux 3 .code false (b "a + b + c")).length = 2 := by decide +kernel

/-! ## 2. expression parser: fuel monotonicity -/

/-- For each of the 14 functions of the expression parser (`Fuel.ExprStable` lists them): if it
    returns something other than the fuel error with fuel `f`, it returns the same with any `f' ≥ f`. -/
theorem C05_expr_fuel_mono {f f' : Nat} (h : f ≤ f') : ExprStable f f' := exprStable h

/-- the entry point, spelled out -/
theorem C05_parseExpression_fuel_mono {f f' : Nat} (h : f ≤ f') (ts : List Token)
    (hne : parseExpression f ts ≠ .error .fuel) : parseExpression f' ts = parseExpression f ts :=
  (exprStable h).expr ts hne

/-! ## 3. expression parser: the fuel is enough -/

/-- For each of the 14 functions: with fuel `f ≥ 8 * tokens + d` (`d` per function, between 1 and 6,
    see `Fuel.ExprGood`) the result is a success that consumed tokens (strictly, for the functions
    that must), a parse error or `unsupported` — never the fuel error. -/
theorem C05_expr_fuel_enough (f : Nat) : ExprGood f := exprGood f

/-- `exprFuel ts = 8 * ts.length + 16` is enough for `parseExpression`, for every token list. -/
theorem C05_expr_fuel_adequate (ts : List Token) : parseExpression (exprFuel ts) ts ≠ .error .fuel :=
  (good_expr ts).nf

/-- a successful `parseExpression` consumes at least one token (so the callers' loops progress) -/
theorem C05_expr_consumes (ts : List Token) (e : Expr) (r : List Token)
    (h : parseExpression (exprFuel ts) ts = .ok (e, r)) : r.length < ts.length :=
  (good_expr ts).2 _ h

/-- and any larger fuel gives the same result: the fuel is unobservable at the entry point -/
theorem C05_expr_fuel_irrelevant (ts : List Token) (f : Nat) (h : exprFuel ts ≤ f) :
    parseExpression f ts = parseExpression (exprFuel ts) ts :=
  (exprStable h).expr ts (C05_expr_fuel_adequate ts)

/-- the only errors of the expression parser are parse errors and `unsupported` -/
theorem C05_expr_errors (ts : List Token) (e : Err) (h : parseExpression (exprFuel ts) ts = .error e) :
    (∃ m, e = .error .parse [] m) ∨ (∃ w, e = .unsupported w) := (good_expr ts).1 e h

-- non-vacuity: deeply nested expressions parsed with exactly `exprFuel`
example : okAll (parseExpression (exprFuel (lexExpr (b "((((((((1))))))))"))) (lexExpr (b "((((((((1))))))))")))
    = true := by decide +kernel
example : okAll (parseExpression (exprFuel (lexExpr (b "a.b(1)[c|f(2,[3,{k:4}])] is not odd ? -x : not y ~ 'z'")))
    (lexExpr (b "a.b(1)[c|f(2,[3,{k:4}])] is not odd ? -x : not y ~ 'z'"))) = true := by decide +kernel
-- … and the fuel error is real: with too little fuel the model does report it
example : isFuel (parseExpression 3 [tk NUMBER (b "1")]) = true := by decide +kernel
example : isFuel (parseExpression 20 (lexExpr (b "((((((((1))))))))"))) = true := by decide +kernel

/-! ## 4. template parser -/

/-- fuel monotonicity for the 8 mutually recursive functions of the template parser -/
theorem C05_tpl_fuel_mono {f f' : Nat} (h : f ≤ f') : TplStable f f' := tplStable h

/-- For each of `parseOuter`, `parseTag`, `parseIfTail`, `parseIncludeOpts`, `parseWithBraces`,
    `parseWithPlain`, `parseMacroParams`, `parseFromNames`: fuel `f ≥ tokens + 1` is enough; the
    result is a success that did not lengthen the token list, a parse error or `unsupported`. -/
theorem C05_tpl_fuel_enough (f : Nat) : TplGood f := tplGood f

/-- `verbBody` (the verbatim loop) with the fuel `parseTag` gives it -/
theorem C05_verbBody_fuel (ts : List Token) : verbBody (ts.length + 1) ts ≠ .error .fuel :=
  (good_verbBody _ ts (Nat.le_refl _)).nf

/-- the fuel `parseTemplate` passes is enough, for every token list -/
theorem C05_tpl_fuel_adequate (ts : List Token) : parseOuter (4 * ts.length + 16) ts ≠ .error .fuel :=
  ((tplGood _).outer ts (by omega)).nf

theorem C05_tpl_fuel_irrelevant (ts : List Token) (f : Nat) (h : 4 * ts.length + 16 ≤ f) :
    parseOuter f ts = parseOuter (4 * ts.length + 16) ts :=
  (tplStable h).outer ts (C05_tpl_fuel_adequate ts)

/-- `Parser.Parse` on every byte string: nodes, a parse error, or `unsupported` (a construct outside
    the model) — never the fuel error: the modelled tokenizer + parser terminate on every input. -/
theorem C05_parse_total (src : Bytes) :
    (∃ nodes, parseTemplate src = .ok nodes) ∨
    (∃ m, parseTemplate src = .error (.error .parse [] m)) ∨
    (∃ w, parseTemplate src = .error (.unsupported w)) := by
  unfold parseTemplate
  split
  · exact .inr (.inl ⟨_, rfl⟩)
  · rename_i ts _
    have hg := (tplGood _).outer ts (show ts.length + 1 ≤ 4 * ts.length + 16 by omega)
    cases hp : parseOuter (4 * ts.length + 16) ts with
    | error e =>
      rcases hg.1 e hp with ⟨m, rfl⟩ | ⟨w, rfl⟩
      · exact .inr (.inl ⟨m, rfl⟩)
      · exact .inr (.inr ⟨w, rfl⟩)
    | ok p =>
      obtain ⟨nodes, rest⟩ := p
      show (∃ n, (if strayEnd rest then perr "unexpected tag without an open block"
            else if hasDup (blockNamesL nodes) then perr "the block has already been defined" else pure nodes) = .ok n) ∨
        (∃ m, (if strayEnd rest then perr "unexpected tag without an open block"
            else if hasDup (blockNamesL nodes) then perr "the block has already been defined" else pure nodes)
          = .error (.error .parse [] m)) ∨ _
      split
      · exact .inr (.inl ⟨_, rfl⟩)
      · split
        · exact .inr (.inl ⟨_, rfl⟩)
        · exact .inl ⟨nodes, rfl⟩

theorem C05_parse_never_fuel (src : Bytes) : parseTemplate src ≠ .error .fuel := by
  intro h
  rcases C05_parse_total src with ⟨n, hn⟩ | ⟨m, hm⟩ | ⟨w, hw⟩
  · rw [hn] at h; cases h
  · rw [hm] at h; cases h
  · rw [hw] at h; cases h

-- non-vacuity: nested blocks / loops / includes / verbatim parsed by `parseTemplate` itself
example : isOk (parseTemplate (b ("{% extends 'base' %}{% block a %}{% for k, v in m %}{% if v %}{{ v|upper }}" ++
    "{% elseif k %}x{% else %}{% include 'p' with {a: 1} only %}{% endif %}{% else %}-{% endfor %}{% endblock %}" ++
    "{% macro f(x, y = 2) %}{{ x }}{% endmacro %}{% verbatim %}{{ raw }}{% endverbatim %}{# c #}"))) = true := by
  decide +kernel
-- the fuel error is real for the template parser too
example : isFuel (parseOuter 1 [tk TEXT (b "a"), tk TEXT (b "b"), tk EOF]) = true := by decide +kernel

/-! ## 5. rendering: the fuel error is exactly (unbounded) template recursion

`run E fuel` is the only function of `TwigModel.Render` that looks at the fuel; it hands
`run E (fuel - 1)` to the body renderer as the transfer function `go`.  Everything else —
expression evaluation with every built-in filter / function / test, loops, conditionals, set, apply — is
structurally recursive and never produces `Err.fuel` by itself. -/

/-- `EvaluateExpression` never reports the fuel error (for any expression, state, environment) -/
theorem C05_eval_never_fuel (E : Env) (apply : Bool) (e : Expr) (st : St) :
    evalX E apply e st ≠ .error .fuel := nf_evalX E apply e st

/-- rendering a node list: a fuel error can only be a fuel error returned by a transfer (`go`) -/
theorem C05_render_fuel_is_transfer (E : Env) (go : Go) (tpl : Bytes) (nodes : List Node) (st : St)
    (h : renderNodes E go tpl nodes st = .error .fuel) : ∃ tr st', go tr st' = .error .fuel := by
  apply Classical.byContradiction
  intro hne
  exact nf_renderNodes E go (fun tr st' hfu => hne ⟨tr, st', hfu⟩) tpl nodes st h

/-- the same for the other two entry points of a transfer -/
theorem C05_renderRoot_fuel_is_transfer (E : Env) (go : Go) (tpl : Bytes) (st : St)
    (h : renderRoot E go tpl st = .error .fuel) : ∃ tr st', go tr st' = .error .fuel := by
  apply Classical.byContradiction
  intro hne
  exact nf_renderRoot E go (fun tr st' hfu => hne ⟨tr, st', hfu⟩) tpl st h

theorem C05_callMacro_fuel_is_transfer (E : Env) (go : Go) (tpl name : Bytes) (args : List Val) (st : St)
    (h : callMacro E go tpl name args st = .error .fuel) : ∃ tr st', go tr st' = .error .fuel := by
  apply Classical.byContradiction
  intro hne
  exact nf_callMacro E go (fun tr st' hfu => hne ⟨tr, st', hfu⟩) tpl name args st h

/-- corollary: with a transfer function that never reports the fuel error, rendering never does -/
theorem C05_render_no_fuel_of_go (E : Env) (go : Go) (hgo : ∀ tr st, go tr st ≠ .error .fuel)
    (tpl : Bytes) (nodes : List Node) (st : St) : renderNodes E go tpl nodes st ≠ .error .fuel :=
  nf_renderNodes E go hgo tpl nodes st

/-- a fuel error of `run` with fuel `f + 1` is a fuel error of a nested transfer run with fuel `f`:
    the fuel counts the nesting depth of transfers (include / extends / block / macro call / parent())
    and nothing else -/
theorem C05_render_fuel_is_recursion (E : Env) (f : Nat) (tr : Transfer) (st : St)
    (h : run E (f + 1) tr st = .error .fuel) : ∃ tr' st', run E f tr' st' = .error .fuel :=
  run_fuel_step E f tr st h

/-- more fuel never changes a rendering result other than the fuel error -/
theorem C05_render_fuel_mono (E : Env) {f f' : Nat} (h : f ≤ f') (tr : Transfer) (st : St)
    (hne : run E f tr st ≠ .error .fuel) : run E f' tr st = run E f tr st := run_stable E h tr st hne

/-- hence: if the transfers of a template set nest at most `d` deep (no transfer, in any state, runs
    out of fuel `d`), rendering with any fuel `≥ d` never reports the fuel error and does not depend on
    the fuel. -/
theorem C05_render_bounded_depth (E : Env) (d : Nat) (hd : ∀ tr st, run E d tr st ≠ .error .fuel)
    (f : Nat) (h : d ≤ f) (tr : Transfer) (st : St) :
    run E f tr st ≠ .error .fuel ∧ run E f tr st = run E d tr st := by
  have e := run_stable E h tr st (hd tr st)
  exact ⟨by rw [e]; exact hd tr st, e⟩

/-- `Engine.Render`: always a value or an error (the model is total), and the fuel error at the top
    means some transfer, nested inside 199 others, was still not finished -/
theorem C05_render_total (E : Env) (name : Bytes) (vars : List (Bytes × Val)) :
    (∃ o, renderTop E name vars = .ok o) ∨ (∃ e, renderTop E name vars = .error e) := by
  cases h : renderTop E name vars with
  | ok o => exact .inl ⟨o, rfl⟩
  | error e => exact .inr ⟨e, rfl⟩

theorem C05_renderTop_fuel (E : Env) (name : Bytes) (vars : List (Bytes × Val))
    (h : renderTop E name vars = .error .fuel) :
    ∃ tr st, run E (defaultFuel - 1) tr st = .error .fuel := by
  unfold renderTop at h
  split at h
  · cases h
  · have h' : run E defaultFuel (.root name) { ctx := { vars := vars } } = .error .fuel := by
      cases hr : run E defaultFuel (.root name) { ctx := { vars := vars } } with
      | ok o => rw [hr] at h; cases h
      | error e => rw [hr] at h; cases h; rfl
    exact run_fuel_step E (defaultFuel - 1) _ _ h'

-- non-vacuity: loops, conditionals, filters, a macro call (nesting depth 3) and an include render with fuel 3, not 2 …
def Fuel.exEnv : Env := { tpls := [
  (b "main", match parseTemplate (b ("{% macro m(x) %}<{{ x|upper }}>{% endmacro %}" ++
      "{% for i in [1, 2, 3] %}{% if i > 1 %}{{ m(i) }}{% endif %}{% endfor %}{% include 'part' %}")) with
    | .ok ns => ns | .error _ => []),
  (b "part", match parseTemplate (b "{{ 'p'|length + 1 }}") with | .ok ns => ns | .error _ => []),
  (b "loop", match parseTemplate (b "{% include 'loop' %}") with | .ok ns => ns | .error _ => [])] }
example : (match run exEnv 3 (.root (b "main")) { ctx := {} } with
    | .ok (o, _) => o == b "<2><3>2" | _ => false) = true := by decide +kernel
example : isFuel (run exEnv 2 (.root (b "main")) { ctx := {} }) = true := by decide +kernel
-- … and a template that includes itself unconditionally (excluded by the property) does hit the fuel error
example : isFuel (renderTop exEnv (b "loop") []) = true := by decide +kernel
example : isOk (renderTop exEnv (b "main") []) = true := by decide +kernel

/-! ## 6. compiled-template decoder (proved by C16; restated here for the property's third clause) -/

/-- decoding arbitrary bytes as a compiled template returns a value or an error (`Codec.decode` is a total
    Lean function; allocation bounds and prefix rejection are C16's) -/
theorem C05_decode_total (gob : Bytes → Option Codec.Compiled) (bs : Bytes) :
    (∃ c, Codec.decode gob bs = .ok c) ∨ (∃ e, Codec.decode gob bs = .error e) := by
  cases h : Codec.decode gob bs with
  | ok c => exact .inl ⟨c, rfl⟩
  | error e => exact .inr ⟨e, rfl⟩

end Twig
