/-
  TwigProofs.ProcFacts — the process-wide state of the package is a CLOSED list (properties C01 and C03).

  C01 (a render is independent of everything rendered before, on any engine) and C03 (the output is a function
  of templates and context) are proved about models in which the only things that survive from one call into the
  package to the next, across engines, are

    * the `sync.Pool`s (model `TwigModel/Pool.lean`, theorem `C01_history_independence`: a pool may hand back
      any object ever put into it and no step of any history can tell),
    * `attributeCache` (model `TwigModel/AttrCache.lean`, property C20: keyed by type and name, an answer does
      not depend on what was cached before),
    * `globalCache` (string interning: a string is replaced by an equal string),
    * `globalBufferPool` (byte buffers, reset on Get),
    * `debugger` (log output only; never read by a render),
    * `commonStrings` (handed to the tokenizer pool's constructor; never written).

  The extractor (`/verif/extract/procstate.go` → `TwigGen/ProcState.lean`) lists, on every run, every
  package-level variable of the Go package with every use that can change it or what it refers to (assignment
  to it or a part of it, address taken, pointer-receiver method call, delete/clear/copy/append, a reference-typed
  variable handed on as a value). The theorems below state that the variables with such a use are exactly the
  ones named above, and that a pool is only ever used through Get and Put. A change that adds a process-wide
  memo, counter, cache or "last used" hint — state the models do not have — breaks them.
-/
import TwigGen.ProcState
namespace Twig.ProcFacts
open TwigGen.ProcState

/-- stateful package-level variables that are not `sync.Pool`s -/
def nonPoolStateful : List String :=
  (vars.filter fun r => !r.2.2.isEmpty && r.2.1 != "sync.Pool").map (·.1)

/-- every use of a pool that can change it is a Get or a Put -/
def poolsGetPutOnly : Bool :=
  vars.all fun r => r.2.1 != "sync.Pool" || r.2.2.all fun u => u.2 == "ptrmethod Get" || u.2 == "ptrmethod Put"

/-- the closed list -/
def expected : List String := ["attributeCache", "commonStrings", "debugger", "globalBufferPool", "globalCache"]

theorem C01_process_state_closed : nonPoolStateful = expected := by decide
theorem C01_pools_get_put_only : poolsGetPutOnly = true := by decide
/-- the one reference-typed variable that is handed on is only read by its holder's constructor -/
theorem C01_common_strings_only_in_pool_constructor :
    (vars.filter fun r => r.1 == "commonStrings").map (·.2.2) = [[("var tokenizerPool", "escape")]] := by decide

/-- the same facts under C03: no process-wide state other than pools (whose objects are reset on Get: C01), the
    attribute cache (C20), string interning, byte buffers and the logger can make two renders of one input differ -/
theorem C03_process_state_closed : nonPoolStateful = expected := C01_process_state_closed
theorem C03_pools_get_put_only : poolsGetPutOnly = true := C01_pools_get_put_only

-- non-vacuity: the list is read from a table with the pools and the cache in it
example : vars.length ≥ 50 ∧ "renderContextPool" ∈ vars.map (·.1) ∧ "attributeCache" ∈ nonPoolStateful := by decide

end Twig.ProcFacts
