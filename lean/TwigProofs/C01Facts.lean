/-
  TwigProofs.C01Facts — ties the facts `TwigModel/Pool.lean` is parameterised by (`fixedFacts`) to the
  tables the extractor regenerates from the Go source on every run (`TwigGen/Pools.lean`, emitter
  `/verif/extract/pools.go`).

  * `Raw`            the generated tables, as a record (so that variants can be written down for the
                     regression examples);
  * `Raw.wellFormed` the structural expectations the model relies on: one pool per kind, the only
                     functions that take an object out of / put it back into each pool are the ones the
                     model knows (`Acq` / `Rel`), nothing was left unrecognised;
  * `Facts.ofRaw`    the `Facts` record computed from the tables;
  * `C01_facts_source`        the hand-written `fixedFacts` agrees with it (assign / clear sets equal,
                     every field the source reads is in the model's `reads`, the three scalar facts equal);
  * `C01_facts_source_ok`     `Facts.ok` of the generated record, by `decide`;
  * `C01_history_independence_source`  the property theorem instantiated with the generated record.

  A change of the Go code that changes a fact changes `TwigGen/Pools.lean`, and this file stops building.
-/
import TwigProofs.C01
import TwigGen.Pools
namespace Twig.Pool

def Kind.all : List Kind := [.root, .ctx, .ctxMap, .blocksMap, .macrosMap, .tokenizer, .strbuf]
def Rel.all : List Rel :=
  [.releaseRootNode, .ctxRelease, .ctxMapPut, .blocksMapPut, .macrosMapPut, .releaseTokenizer, .strbufRelease]

/-- the name the extractor uses for a kind -/
def Kind.tag : Kind → String
  | .root => "root" | .ctx => "ctx" | .ctxMap => "ctxMap" | .blocksMap => "blocksMap"
  | .macrosMap => "macrosMap" | .tokenizer => "tokenizer" | .strbuf => "strbuf"

def Kind.isMap : Kind → Bool
  | .ctxMap | .blocksMap | .macrosMap => true
  | _ => false

/-- the Go function behind an acquire path (map Gets have no function of their own) -/
def Acq.goFunc : Acq → Option String
  | .getRootNode => some "GetRootNode"
  | .newRenderContext => some "NewRenderContext"
  | .clone => some "RenderContext.Clone"
  | .getTokenizer => some "GetTokenizer"
  | .newStringBuffer => some "NewStringBuffer"
  | .ctxMapGet | .blocksMapGet | .macrosMapGet => none

/-- the Go function that holds the `Put` of a release path -/
def Rel.goFunc : Rel → String
  | .releaseRootNode => "ReleaseRootNode"
  | .ctxRelease | .ctxMapPut | .blocksMapPut | .macrosMapPut => "RenderContext.Release"
  | .releaseTokenizer => "ReleaseTokenizer"
  | .strbufRelease => "StringBuffer.Release"

def relKind : Rel → Kind
  | .releaseRootNode => .root | .ctxRelease => .ctx | .ctxMapPut => .ctxMap | .blocksMapPut => .blocksMap
  | .macrosMapPut => .macrosMap | .releaseTokenizer => .tokenizer | .strbufRelease => .strbuf

/-- the tables of `TwigGen.Pools` -/
structure Raw where
  poolVars : List (String × String)
  kindFields : List (String × List String)
  getSites : List (String × String × Nat × String × Bool)
  putSites : List (String × String × Nat × String × Bool)
  assigns : List (String × String × List String)
  clears : List (String × String × Nat × List String)
  reads : List (String × String × Nat × Bool × String)
  rootReleaseSites : List (String × Nat × Bool × String)
  childReleaseSites : List (String × Nat × Bool × String)
  tokRelease : List (String × Nat × TwigGen.Pools.Order)
  unknown : List String

def Raw.current : Raw where
  poolVars := TwigGen.Pools.poolVars
  kindFields := TwigGen.Pools.kindFields
  getSites := TwigGen.Pools.getSites
  putSites := TwigGen.Pools.putSites
  assigns := TwigGen.Pools.assigns
  clears := TwigGen.Pools.clears
  reads := TwigGen.Pools.reads
  rootReleaseSites := TwigGen.Pools.rootReleaseSites
  childReleaseSites := TwigGen.Pools.childReleaseSites
  tokRelease := TwigGen.Pools.tokRelease
  unknown := TwigGen.Pools.unknown

def sameSet (a b : List String) : Bool := a.all b.contains && b.all a.contains
def subSet (a b : List String) : Bool := a.all b.contains

/-- functions holding a `Get` of the kind (a pool's own `New` function, "var …", allocates: it is what a
    fresh object looks like, not an acquire path) -/
def Raw.acquirers (R : Raw) (k : Kind) : List String :=
  (R.getSites.filter fun s => s.1 == k.tag && !s.2.2.2.2).map (·.2.1)

def Raw.releasers (R : Raw) (k : Kind) : List String :=
  (R.putSites.filter fun s => s.1 == k.tag).map (·.2.1)

/-- the functions the model lets take a map out of a map pool: the two context constructors, and for the
    macros map the two lazy initialisers (`if ctx.macros == nil { ctx.macros = macrosMapPool.Get() }`) -/
def mapAcquirersAllowed : Kind → List String
  | .macrosMap => ["NewRenderContext", "RenderContext.Clone", "RenderContext.InitMacros", "RenderContext.SetMacro"]
  | _ => ["NewRenderContext", "RenderContext.Clone"]

def Raw.wellFormed (R : Raw) : Bool :=
  R.unknown.isEmpty
  -- exactly one pool variable per kind
  && Kind.all.all (fun k => (R.poolVars.filter fun v => v.1 == k.tag).length == 1)
  -- struct kinds: the acquirers are exactly the model's acquire paths of the kind, each with one Get
  && Kind.all.all (fun k => k.isMap ||
       sameSet (R.acquirers k) ((Acq.all.filter fun p => acqKind p = k).filterMap Acq.goFunc)
       && (R.acquirers k).length == ((Acq.all.filter fun p => acqKind p = k).filterMap Acq.goFunc).length)
  -- map kinds: taken only by the functions the model knows about
  && Kind.all.all (fun k => !k.isMap || subSet (R.acquirers k) (mapAcquirersAllowed k))
  -- every kind is put back by exactly the model's release function
  && Rel.all.all (fun r => !(R.releasers (relKind r)).isEmpty && (R.releasers (relKind r)).all (· == r.goFunc))
  -- one row of assigned fields per acquire function, one row of cleared fields per struct release function
  && Acq.all.all (fun p => match p.goFunc with
       | none => true
       | some fn => (R.assigns.filter fun a => a.1 == (acqKind p).tag && a.2.1 == fn).length == 1)
  && Rel.all.all (fun r => (relKind r).isMap ||
       (R.clears.filter fun c => c.1 == (relKind r).tag && c.2.1 == r.goFunc).length == 1)

def Raw.assignsOf (R : Raw) (p : Acq) : List String :=
  match p.goFunc with
  | none => []     -- a map taken from a map pool is used as it is (no statement empties it after the Get)
  | some fn => ((R.assigns.filter fun a => a.1 == (acqKind p).tag && a.2.1 == fn).map (·.2.2)).flatten

def Raw.clearsOf (R : Raw) (r : Rel) : List String :=
  if (relKind r).isMap then
    -- every Put of the kind is preceded by the loop that deletes every key
    if (R.putSites.filter fun s => s.1 == (relKind r).tag).all (·.2.2.2.2) then ["entries"] else []
  else ((R.clears.filter fun c => c.1 == (relKind r).tag && c.2.1 == r.goFunc).map (·.2.2.2)).flatten

/-- fields some function reads, except an intern table whose lookup returns its argument (`getStringConstant_eq`) -/
def Raw.readsOf (R : Raw) (k : Kind) : List String :=
  if k.isMap then ["entries"]
  else (R.reads.filter fun r => r.1 == k.tag && r.2.2.1 != 0 && !r.2.2.2.1).map (·.2.1)

/-- the facts of the model, computed from the generated tables -/
def Facts.ofRaw (R : Raw) : Facts where
  reads := R.readsOf
  resets := R.assignsOf
  clears := R.clearsOf
  renderReleasesRoot := R.rootReleaseSites.any (·.1 == "Template.RenderTo")
  tokReleasedBeforeRead := R.tokRelease.any fun s => s.2.2 == .before || s.2.2 == .unknown
  childNodeReleaseSites := R.childReleaseSites.length

/-- the hand-written facts `M` agree with the facts `S` read off the source: same assigned and cleared
    sets on every path, every field the source reads is a field the model treats as read (the model may
    over-approximate reads: that only adds obligations), same scalar facts -/
def Facts.agrees (M S : Facts) : Bool :=
  Kind.all.all (fun k => subSet (S.reads k) (M.reads k))
  && Acq.all.all (fun p => sameSet (M.resets p) (S.resets p))
  && Rel.all.all (fun r => sameSet (M.clears r) (S.clears r))
  && M.renderReleasesRoot == S.renderReleasesRoot
  && M.tokReleasedBeforeRead == S.tokReleasedBeforeRead
  && M.childNodeReleaseSites == S.childNodeReleaseSites

/-- the facts regenerated from the Go source by this run of the extractor -/
def sourceFacts : Facts := Facts.ofRaw Raw.current

/-- **tie**: the source has the shape the model assumes, and the model's `fixedFacts` are the source's facts -/
theorem C01_facts_source : Raw.current.wellFormed = true ∧ Facts.agrees fixedFacts sourceFacts = true := by
  decide

/-- the pool discipline check holds of the facts regenerated from the source -/
theorem C01_facts_source_ok : Facts.ok sourceFacts := by decide

/-- stronger than `renderReleasesRoot = false`: NO function hands a root node back to its pool -/
theorem C01_facts_no_root_release : Raw.current.rootReleaseSites = [] := by decide

/-- the property, for the facts of the source as it is now -/
theorem C01_history_independence_source (h : List Op) (ω : Oracle) :
    outs (run sourceFacts ω h) = outs (runPure h) :=
  C01_history_independence sourceFacts C01_facts_source_ok h ω

theorem C01_never_stale_source (h : List Op) (ω : Oracle) :
    ∀ o ∈ outs (run sourceFacts ω h), o.stale = false :=
  C01_never_stale sourceFacts C01_facts_source_ok h ω

/-! ### regression: what the extractor reports on the pinned commit (fa21d8c)

  `extract -repo <pinned>` differs from the current tables in exactly two facts (besides the fields the
  repair series added to `RenderContext`): `rootReleaseSites = [("Template.RenderTo", 0, true, "Release")]`
  (the `defer rootNode.Release()`) and `tokRelease = [("Parser.Parse", 0, .before), …]`. -/

def Raw.pinnedVariant : Raw :=
  { Raw.current with
    rootReleaseSites := [("Template.RenderTo", 0, true, "Release")]
    tokRelease := [("Parser.Parse", 0, .before), ("Parser.HtmlPreservingTokenize", 0, .noRead)] }

example : (Facts.ofRaw Raw.pinnedVariant).renderReleasesRoot = pinnedFacts.renderReleasesRoot
    ∧ (Facts.ofRaw Raw.pinnedVariant).tokReleasedBeforeRead = pinnedFacts.tokReleasedBeforeRead := by decide

example : ¬ Facts.ok (Facts.ofRaw Raw.pinnedVariant) := by decide
example : Facts.agrees fixedFacts (Facts.ofRaw Raw.pinnedVariant) = false := by decide

/-- an acquire function that stops assigning a field the render reads (and the release does not zero) is caught -/
example : ¬ Facts.ok (Facts.ofRaw { Raw.current with
    assigns := Raw.current.assigns.map fun a =>
      if a.2.1 == "NewRenderContext" then (a.1, a.2.1, a.2.2.filter (· != "sandboxed")) else a }) := by decide

end Twig.Pool
