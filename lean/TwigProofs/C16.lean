/-
  C16 — a compiled template is interchangeable with its source.

  Container level (compiled.go, modelled byte for byte in TwigModel.Codec): proofs for every byte content
  and every Int64 timestamp.  The two uses of encoding/gob are function parameters (see the model file).
-/
import TwigModel.Codec
import TwigProofs.Lemmas.Codec
namespace Twig.Codec

/-! ## round trip -/

/-- Serialise then deserialise reproduces name, source, both timestamps and the AST bytes exactly — for
    every byte content (empty, binary, invalid UTF-8: `Bytes` is any list of bytes) and every Int64
    timestamp, whatever the legacy gob decoder would do — provided the three lengths fit their 32-bit
    prefixes. -/
theorem C16_roundtrip (gob : Bytes → Option Compiled) (c : Compiled) (h : c.fits) :
    decode gob (encode c) = .ok c := by
  have hb : decodeBin (encode c) = .ok c := by
    have := decodeBin_encode_append c h []
    rwa [List.append_nil] at this
  have hne : (encode c).isEmpty = false := by simp [encode]
  simp only [decode, hne, hb]
  rfl

/-- non-vacuity: binary / invalid UTF-8 / empty fields and extreme timestamps satisfy the hypothesis -/
example : (⟨[0xff, 0x00, 0xc3], [], Int64.minValue, Int64.maxValue, [0x80]⟩ : Compiled).fits := by decide
example : decode gobModel (encode ⟨[0xff, 0x00, 0xc3], [], Int64.minValue, -1, [0x80]⟩)
    = .ok ⟨[0xff, 0x00, 0xc3], [], Int64.minValue, -1, [0x80]⟩ := by rfl

/-- bytes after the encoding are ignored by the decoder (the Go code never checks for the end of input) -/
theorem C16_trailing_ignored (gob : Bytes → Option Compiled) (c : Compiled) (h : c.fits) (t : Bytes) :
    decode gob (encode c ++ t) = .ok c := by
  have hb := decodeBin_encode_append c h t
  have hne : (encode c ++ t).isEmpty = false := by simp [encode]
  simp only [decode, hne, hb]
  rfl

/-- converse of the round trip: whatever the binary decoder accepts is exactly `encode` of its result
    followed by bytes it did not look at -/
theorem C16_decode_sound {bs : Bytes} {c : Compiled} (h : decodeBin bs = .ok c) :
    ∃ t, bs = encode c ++ t ∧ c.fits := decodeBin_sound h

/-- the encoder is injective on values whose lengths fit -/
theorem C16_encode_injective (c₁ c₂ : Compiled) (h₁ : c₁.fits) (h₂ : c₂.fits)
    (h : encode c₁ = encode c₂) : c₁ = c₂ := by
  have e₁ := decodeBin_encode_append c₁ h₁ []
  have e₂ := decodeBin_encode_append c₂ h₂ []
  rw [h, e₂] at e₁
  injection e₁ with e₁
  exact e₁.symm

/-- … and no encoding is a proper prefix of another (the code is prefix-free) -/
theorem C16_encode_prefix_free (c₁ c₂ : Compiled) (h₁ : c₁.fits) (h₂ : c₂.fits) (t : Bytes)
    (h : encode c₁ ++ t = encode c₂) : c₁ = c₂ ∧ t = [] := by
  have e₁ := decodeBin_encode_append c₁ h₁ t
  have e₂ := decodeBin_encode_append c₂ h₂ []
  rw [List.append_nil, ← h, e₁] at e₂
  injection e₂ with e₂
  subst e₂
  refine ⟨rfl, ?_⟩
  have := congrArg List.length h
  rw [List.length_append] at this
  exact List.eq_nil_of_length_eq_zero (by omega)

/-! ## totality, truncation, allocation -/

/-- Decoding is a total function: for every byte string (and every behaviour of the gob fallback) the
    answer is a value or an error.  (`decode` is a Lean function without `partial`, so this is true by
    construction; the content is in `C16_prefix_rejected`, `C16_alloc_bounded` and in the harness's panic
    guard, watchdog and allocation oracle.) -/
theorem C16_decode_total (gob : Bytes → Option Compiled) (bs : Bytes) :
    (∃ c, decode gob bs = .ok c) ∨ (∃ e, decode gob bs = .error e) := by
  cases h : decode gob bs with
  | ok c => exact .inl ⟨c, rfl⟩
  | error e => exact .inr ⟨e, rfl⟩

/-- The decoder never asks `make` for more bytes than its input has, on any input: every length prefix is
    compared with what is left before the buffer is allocated (FACT `lengthCheckedBeforeAlloc`). -/
theorem C16_alloc_bounded (bs : Bytes) : allocBin lengthCheckedBeforeAlloc bs ≤ bs.length :=
  allocBin_le bs

/-- non-vacuity / tightness: a valid encoding makes the decoder allocate exactly its three variable fields -/
example : allocBin true (encode ⟨[1, 2], [3, 4, 5], 7, 8, [9]⟩) = 6 := by decide

/-- the binary decoder rejects every strict prefix of an encoding -/
theorem C16_prefix_rejected_bin (c : Compiled) (h : c.fits) (k : Nat) (hk : k < (encode c).length) :
    ∃ e, decodeBin ((encode c).take k) = .error e := by
  cases hd : decodeBin ((encode c).take k) with
  | error e => exact ⟨e, rfl⟩
  | ok c' =>
    exfalso
    obtain ⟨t, ht, hfit⟩ := decodeBin_sound hd
    -- encode c = take k ++ drop k = encode c' ++ t ++ drop k, so c' = c and the prefix is not strict
    have hsplit : encode c' ++ (t ++ (encode c).drop k) = encode c := by
      rw [← List.append_assoc, ← ht, List.take_append_drop]
    obtain ⟨hcc, hnil⟩ := C16_encode_prefix_free c' c hfit h _ hsplit
    have hl := congrArg List.length ht
    rw [List.length_take, List.length_append, hcc] at hl
    omega

/-- FULL STRENGTH, through the public entry point `DeserializeCompiledTemplate`: every strict prefix of an
    encoding is rejected — with no assumption about encoding/gob, because an input that starts with the version
    byte is never handed to it (FACT `gobFallbackOnV1 = false`). -/
theorem C16_prefix_rejected (gob : Bytes → Option Compiled) (c : Compiled) (h : c.fits)
    (k : Nat) (hk : k < (encode c).length) :
    ∃ e, decode gob ((encode c).take k) = .error e := by
  obtain ⟨e, he⟩ := C16_prefix_rejected_bin c h k hk
  by_cases h0 : k = 0
  · subst h0; exact ⟨.empty, by simp [decode]⟩
  · obtain ⟨k', rfl⟩ : ∃ k', k = k' + 1 := ⟨k - 1, by omega⟩
    have ht : (encode c).take (k' + 1) = formatVersion :: (encode c).tail.take k' := by
      simp [encode]
    rw [ht] at he ⊢
    refine ⟨e, ?_⟩
    simp only [decode, List.isEmpty_cons, he, List.head?_cons]
    simp

/-- non-vacuity: the 36-byte-name value that the pinned tree got wrong (see below) -/
def cex36 : Compiled := ⟨List.replicate 36 97, [123, 123, 32, 120, 32, 125, 125], 1, 2, astExample⟩
example : cex36.fits ∧ 10 < (encode cex36).length := ⟨by decide, by rw [encode_length]; decide⟩

/-- the decoder selected by the facts is the one the theorems above speak about -/
theorem C16_current_dispatch (gob : Bytes → Option Compiled) : decodeFor gobFallbackOnV1 gob = decode gob := rfl

/-! ### pinned-tree regressions (the defects that the two `fix:` commits in compiled.go removed)

  Kept so that a revert is recognised: the harness keys `truncated-accepted-as-empty` and
  `alloc-unchecked-length-prefix` correspond to these two counterexamples. -/

/-- decidable exclusion: the low byte of the name length is a gob type id of a builtin struct type that
    has a field called `Name` (0x24 = id 18 CommonType, 0x2a = id 21 fieldType) -/
def gobConfusable (c : Compiled) : Bool :=
  c.name.length % 256 == 36 || c.name.length % 256 == 42

theorem take_encode_two (c : Compiled) (k : Nat) (hk : 2 ≤ k) :
    ∃ t, (encode c).take k = 1 :: (c.name.length % 4294967296 % 256).toUInt8 :: t := by
  obtain ⟨k', rfl⟩ : ∃ k', k = k' + 2 := ⟨k - 2, by omega⟩
  simp only [encode, wrStr, u32le, formatVersion, List.cons_append, List.take_succ_cons]
  exact ⟨_, rfl⟩

theorem lowbyte (n : Nat) : n % 4294967296 % 256 = n % 256 := by omega

/-- pinned tree: strict prefixes were rejected only when the name's length was not ≡ 36 or 42 (mod 256).
    `GobFacts` is the only thing assumed about encoding/gob. -/
theorem C16_pinned_prefix_rejected_partial (gob : Bytes → Option Compiled) (hg : GobFacts gob)
    (c : Compiled) (h : c.fits) (hx : gobConfusable c = false)
    (k : Nat) (hk : k < (encode c).length) :
    ∃ e, decodePinned gob ((encode c).take k) = .error e := by
  obtain ⟨e, he⟩ := C16_prefix_rejected_bin c h k hk
  by_cases h0 : k = 0
  · subst h0; exact ⟨.empty, by simp [decodePinned]⟩
  by_cases h1 : k = 1
  · subst h1
    have : (encode c).take 1 = [1] := by simp [encode, formatVersion]
    rw [this] at he ⊢
    refine ⟨e, ?_⟩
    simp only [decodePinned, List.isEmpty_cons, he, hg.single]
    rfl
  · obtain ⟨t, ht⟩ := take_encode_two c k (by omega)
    rw [ht] at he ⊢
    refine ⟨e, ?_⟩
    have hgob : gob (1 :: (c.name.length % 4294967296 % 256).toUInt8 :: t) = none := by
      rw [hg.v1, lowbyte, gobOnV1]
      have hlt : c.name.length % 256 < 256 := Nat.mod_lt _ (by decide)
      simp only [gobConfusable, Bool.or_eq_false_iff, beq_eq_false_iff_ne] at hx
      have n1 : ((c.name.length % 256).toUInt8 == 0x24) = false := by
        rw [beq_eq_false_iff_ne]; intro hc
        have := congrArg UInt8.toNat hc
        rw [toUInt8_toNat_of_lt hlt] at this
        exact hx.1 this
      have n2 : ((c.name.length % 256).toUInt8 == 0x2a) = false := by
        rw [beq_eq_false_iff_ne]; intro hc
        have := congrArg UInt8.toNat hc
        rw [toUInt8_toNat_of_lt hlt] at this
        exact hx.2 this
      simp [n1, n2]
    simp only [decodePinned, List.isEmpty_cons, he, hgob]
    rfl

/-- non-vacuity of the partial theorem: `gobModel` satisfies `GobFacts`, an ordinary value is not confusable -/
theorem gobModel_facts : GobFacts gobModel := ⟨rfl, fun _ _ => rfl⟩
example : gobConfusable ⟨[109, 97, 105, 110], [123, 123, 32, 120, 32, 125, 125], 5, 6, astExample⟩ = false := by decide

/-- PINNED-TREE COUNTEREXAMPLE (harness key `truncated-accepted-as-empty`): a compiled file whose template
    name is 36 bytes long, truncated anywhere after its second byte, was accepted by
    `DeserializeCompiledTemplate` — as a template with empty name and empty source. -/
theorem C16_pinned_counterexample_prefix_gob (gob : Bytes → Option Compiled) (hg : GobFacts gob) :
    cex36.fits ∧ 10 < (encode cex36).length ∧ decodePinned gob ((encode cex36).take 10) = .ok emptyCompiled
      ∧ emptyCompiled ≠ cex36 := by
  have hfit : cex36.fits := by decide
  have hlen : 10 < (encode cex36).length := by rw [encode_length]; decide
  refine ⟨hfit, hlen, ?_, by decide⟩
  obtain ⟨e, he⟩ := C16_prefix_rejected_bin cex36 hfit 10 hlen
  obtain ⟨t, ht⟩ := take_encode_two cex36 10 (by decide)
  have hx : (cex36.name.length % 4294967296 % 256).toUInt8 = 0x24 := by decide
  rw [ht, hx] at he ⊢
  simp only [decodePinned, List.isEmpty_cons, he, hg.v1]
  rfl

/-- PINNED-TREE COUNTEREXAMPLE (harness key `alloc-unchecked-length-prefix`): without the check a five-byte
    input made the decoder allocate 64 MiB (and `01 ff ff ff ff` 4 GiB). -/
theorem C16_pinned_counterexample_alloc :
    allocBin false [1, 0, 0, 0, 4] = 67108864 ∧ ([1, 0, 0, 0, 4] : Bytes).length = 5
      ∧ allocBin false [1, 0xff, 0xff, 0xff, 0xff] = 4294967295 := by
  refine ⟨by rfl, rfl, by rfl⟩

/-! ## the 2^32 boundary -/

/-- the arithmetic of `uint32(len(s))` at the boundary -/
theorem C16_counterexample_4GiB_lengths : (4294967296 : Nat) % 4294967296 = 0 ∧ u32le (4294967296 % 4294967296) = [0, 0, 0, 0] := by
  decide

/-- A source of exactly 2^32 bytes does not round-trip: its length prefix is written as 0, the decoder
    reads an empty source (and then interprets the source bytes as timestamps …).  Stated for every such
    value; it cannot be replayed in memory by the harness (known limit, theoretical). -/
theorem C16_counterexample_4GiB (c : Compiled) (hn : c.name.length < 4294967296)
    (hs : c.source.length = 4294967296) : decodeBin (encode c) ≠ .ok c := by
  intro h
  have hsrc : rdStr (wrStr c.source ++ (i64le c.lastModified ++ (i64le c.compileTime ++ wrStr c.ast)))
      = some ([], c.source ++ (i64le c.lastModified ++ (i64le c.compileTime ++ wrStr c.ast))) := by
    rw [wrStr, hs, Nat.mod_self, List.append_assoc, rdStr, rdU32_u32le 0 (by decide)]
    simp only [Nat.zero_le, if_true, List.take_zero, List.drop_zero]
  simp only [encode] at h
  rw [decodeBin_v1, decName_of (rdStr_wrStr _ _ hn), decSource_of hsrc] at h
  obtain ⟨lm, r3, -, h3⟩ := decLm_inv h
  obtain ⟨ct, r4, -, h4⟩ := decCt_inv h3
  obtain ⟨n, r5, -, -, hc⟩ := decAst_inv h4
  have := congrArg (fun c => c.source.length) hc
  simp only [hs, List.length_nil] at this
  omega

/-- the hypothesis is satisfiable (mathematically; 4 GiB of zero bytes) -/
example : (List.replicate 4294967296 (0 : UInt8)).length = 4294967296 := List.length_replicate ..

/-! ## loading a compiled template -/

/-- `LoadFromCompiled (CompileTemplate t)` parses the stored source again whenever the stored AST does not
    decode.  On this tree it never does (see `astExample`: the encoder fails after writing a type descriptor,
    the decoder answers "unexpected EOF" — checked by the harness on every compiled template), so a
    compiled template is, after loading, the result of parsing its source: same name, same source, same
    lastModified, nodes = `parse source`. -/
theorem C16_load_equiv {N E : Type} (astDecode : Bytes → Option N) (parse : Bytes → Except E N)
    (gobEnc : N → Bytes) (now : Int64) (t : Tpl N)
    (hast : astDecode (gobEnc t.nodes) = none) :
    loadFromCompiled astDecode parse (compile gobEnc now t)
      = (parse t.source).map (fun n => ⟨t.name, t.source, n, t.lastModified⟩) := by
  simp only [loadFromCompiled, compile, hast, ite_self]

/-- the same through the bytes: compile, serialise, deserialise (any engine, any gob fallback), load -/
theorem C16_load_equiv_bytes {N E : Type} (gob : Bytes → Option Compiled)
    (astDecode : Bytes → Option N) (parse : Bytes → Except E N)
    (gobEnc : N → Bytes) (now : Int64) (t : Tpl N)
    (hfit : (compile gobEnc now t).fits)
    (hast : astDecode (gobEnc t.nodes) = none) :
    (match decode gob (encode (compile gobEnc now t)) with
     | .ok c => some (loadFromCompiled astDecode parse c)
     | .error _ => none)
      = some ((parse t.source).map (fun n => ⟨t.name, t.source, n, t.lastModified⟩)) := by
  rw [C16_roundtrip gob _ hfit]
  simp only [C16_load_equiv astDecode parse gobEnc now t hast]

/-- if the source parsed when the template was registered (`t.nodes` came from `parse t.source`), the
    loaded template is the original one, field for field: rendering it is rendering the source -/
theorem C16_load_is_original {N E : Type} (astDecode : Bytes → Option N) (parse : Bytes → Except E N)
    (gobEnc : N → Bytes) (now : Int64) (t : Tpl N)
    (hparsed : parse t.source = .ok t.nodes) (hast : astDecode (gobEnc t.nodes) = none) :
    loadFromCompiled astDecode parse (compile gobEnc now t) = .ok t := by
  rw [C16_load_equiv astDecode parse gobEnc now t hast, hparsed]
  rfl

end Twig.Codec
