/-
  `#audit "C14_"` prints, for every theorem of the environment whose last name component starts with
  the given prefix, one JSON line {"theorem": name, "axioms": [...]} with the axioms it depends on
  (the same computation as `#print axioms`).  Used by /verif/check for the axiom audit.
-/
import Lean
open Lean Elab Command

elab "#audit " pfx:str : command => do
  let env ← getEnv
  let p := pfx.getString
  let names := env.constants.fold (init := #[]) fun acc n ci =>
    match ci with
    | .thmInfo _ =>
      match n with
      | .str _ s => if s.startsWith p then acc.push n else acc
      | _ => acc
    | _ => acc
  for n in names.qsort (fun a b => a.toString < b.toString) do
    let axs ← liftCoreM (collectAxioms n)
    let j := Json.mkObj [("theorem", Json.str n.toString),
      ("axioms", Json.arr (axs.map (fun a => Json.str a.toString)))]
    logInfo m!"{j.compress}"
