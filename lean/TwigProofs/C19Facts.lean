/-
  TwigProofs.C19Facts — ties facts that `TwigModel/Filters.lean` transcribes from the Go source to what the
  extractor regenerates on every run (`TwigGen/FilterFacts.lean`, emitter `/verif/extract/filterfacts.go`).

  * `C19_facts_whitespace`    `Utf8.isSpaceRune` is membership in the White_Space ranges of the toolchain's
                              `unicode.IsSpace`, for every code point; `spaceEncs` are their UTF-8 encodings;
  * `C19_facts_number_format` the defaults of `number_format` (0 decimals, "." and ","), and the model's
                              `numberFormatV` with no arguments is `numberFormatV` with exactly these;
  * `C19_facts_round`         `round` takes the decimal path (`roundDecimal`) when `precision >= 0` and the value
                              is finite; the method names "ceil", "ceiling", "floor" select the modes the model's
                              `roundMode` selects, anything else is "common";
  * `C19_facts_slice`         every `end = start + length` of `slice` is followed by
                              `if end > n || end < start { end = n }` (the guard of `Slice.endIdx64`);
  * `C19_facts_misc`          `capitalize` and `title` have identical bodies (one model function); the printers
                              format a float64 as `FormatFloat(v+0, 'f', -1, 64)`; `range` refuses 1 000 000 elements.
-/
import TwigProofs.C19
import TwigGen.FilterFacts
namespace Twig.C19
open Twig.Flt
open TwigGen

def inRanges (rs : List (Nat × Nat)) (r : Nat) : Bool := rs.any fun p => p.1 ≤ r && r ≤ p.2

/-- FACT `isSpaceRune`: the model's White_Space test is the toolchain's table, for EVERY code point -/
theorem C19_facts_whitespace (r : Nat) : Utf8.isSpaceRune r = inRanges FilterFacts.whiteSpaceRanges r := by
  simp only [Utf8.isSpaceRune, inRanges, FilterFacts.whiteSpaceRanges, List.any_cons, List.any_nil, Bool.or_false]
  rw [Bool.eq_iff_iff]
  simp only [Bool.or_eq_true, Bool.and_eq_true, decide_eq_true_eq, beq_iff_eq]
  omega

/-- FACT `spaceEncs`: the cut set of TrimSpace is the list of their UTF-8 encodings -/
theorem C19_facts_space_encs : spaceEncs = FilterFacts.spaceEncs.map (·.map UInt8.ofNat) := by decide

/-! ### number_format -/

def nfDefault (name : String) : Option (String × List Nat) :=
  (FilterFacts.numberFormatDefaults.lookup name)

theorem C19_facts_number_format :
    nfDefault "decimals" = some ("int", [48])            -- 0
    ∧ nfDefault "decPoint" = some ("string", [46])       -- "."
    ∧ nfDefault "thousandsSep" = some ("string", [44])   -- ","
    ∧ FilterFacts.numberFormatArgs = [(0, "decimals"), (1, "decPoint"), (2, "thousandsSep")] := by decide

/-- the model's defaults are those: no arguments = (0, ".", ",") spelled out -/
theorem C19_number_format_defaults (v : Val) :
    numberFormatV v [] = numberFormatV v [.sc (.int 0), .sc (.str [46]), .sc (.str [44])] := by
  simp [numberFormatV, optIntArg, toIntArg, inInt64]
  rfl

/-! ### round -/

def modeOfByte (b : Nat) : Option Num.Mode :=
  if b = 99 then some .common else if b = 117 then some .up else if b = 100 then some .down else none

theorem C19_facts_round :
    FilterFacts.roundHelper = "roundDecimal" ∧ FilterFacts.roundHelperThreeArgs = true
    ∧ FilterFacts.roundHelperGuard = ["precision >= 0", "!math.IsInf(num, 0)", "!math.IsNaN(num)"]
    ∧ modeOfByte FilterFacts.roundDefaultMode = some .common
    -- every name of the Go switch selects in the model the mode it selects in Go
    ∧ FilterFacts.roundModes.all (fun p =>
        roundMode [.sc .null, .sc (.str (p.1.map UInt8.ofNat))] == modeOfByte p.2 && (modeOfByte p.2).isSome) = true
    -- and the model knows no other name: exactly ceil, ceiling, floor
    ∧ FilterFacts.roundModes.map (·.1) = [[99, 101, 105, 108], [99, 101, 105, 108, 105, 110, 103], [102, 108, 111, 111, 114]] := by
  decide

/-! ### slice -/

theorem C19_facts_slice :
    FilterFacts.sliceEndSites ≠ []
    ∧ FilterFacts.sliceEndSites.all (fun s => s.2.2.1 && s.2.2.2) = true := by decide

/-! ### the rest -/

theorem C19_facts_misc :
    FilterFacts.unknown = []
    ∧ FilterFacts.sameBody.contains ("capitalize", "title") = true
    -- float64 printers of filter arguments and of the print tag: FormatFloat(v+0, 'f', -1, 64)
    ∧ (["toString", "PrintNode.Render"].all fun fn =>
        (FilterFacts.formatFloatSites.filter (·.1 == fn)).map (·.2.2) == [(true, 102, -1, 64)]) = true
    ∧ (FilterFacts.formatFloatSites.filter (·.1 == "RenderContext.ToString")).map (·.2.2)
        = [(false, 102, -1, 32), (true, 102, -1, 64)]
    ∧ FilterFacts.rangeLimit = 1000000 ∧ FilterFacts.rangeLimitOp = ">=" := by decide

/-- `capitalize` and `title` are one function in the model as well -/
theorem C19_capitalize_is_title (cm : CaseMap) (v : Val) (args : List Val) :
    applyFilter cm "capitalize" v args = applyFilter cm "title" v args := rfl

/-! ### regression: the pinned commit (fa21d8c)

  There the extractor reports `roundHelper = ""` (no decimal path, cf59beb), `sliceEndSites` with the overflow
  test `false` at every site (27a7ba4), `rangeLimit = 0` (a1bea5f) and `x + 0` missing in the three printers
  (f1a58d0). -/
example : ([("CoreExtension.filterSlice", 0, true, false)] : List (String × Nat × Bool × Bool)).all
    (fun s => s.2.2.1 && s.2.2.2) = false := by decide

end Twig.C19
