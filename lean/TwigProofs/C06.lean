/-
  C06 — A sandboxed include can never run a filter or function the policy forbids.

  The model (`TwigModel.Render`, frozen) threads two flags through every render context:
  `sandboxed`, the code's flag, derived at each context constructor exactly as the Go code does
  (whether it is propagated is a fact of `SbxFacts`, regenerated from the Go source as
  `TwigGen.Sandbox.facts`), and `inside`, a ghost flag set by `include … sandboxed`, inherited by
  every derived context and never consulted by the model's code paths.  Every callback invocation
  is recorded as an `Event` carrying the ghost flag.  The property is stated on the ghost flag:
  every filter/function event with `inside = true` is allowed by the policy.

  Proof architecture (the one of notes/lean-prototypes/SandboxConfinement.lean): the invariant
  `CtxOk c := c.inside → c.sandboxed` is preserved by all context derivations
  (`C06_flag_invariant`, the only place the propagation facts are used); under `CtxOk` the two choke
  points only let allowed callbacks through; the generic passes of `Lemmas/RenderTrace.lean`
  (mutual structural induction over expressions / nodes, induction on fuel for template transfer)
  lift this to every program, policy, nesting and fuel.
-/
import TwigProofs.Lemmas.RenderTrace
import TwigGen.Sandbox
namespace Twig

/-! ## Statement vocabulary -/

/-- the code's flag is set wherever the ghost flag is -/
def CtxOk (c : Ctx) : Prop := c.inside = true → c.sandboxed = true

/-- an event is fine if, when it happened inside a sandboxed include, the policy allows it
    (tests are not restricted by the property) -/
def EvAllowed (E : Env) (ev : Event) : Prop :=
  ev.inside = true →
    (ev.kind = .filter → ev.name ∈ E.allowedFilters) ∧ (ev.kind = .function → ev.name ∈ E.allowedFunctions)

def Good (E : Env) (evs : List Event) : Prop := ∀ ev ∈ evs, EvAllowed E ev

/-- all eight facts about the Go code hold (this is what the repaired tree satisfies) -/
def SbxFacts.ok (F : SbxFacts) : Prop :=
  F.chokeFilter = true ∧ F.chokeFunc = true ∧ F.outerCheck = true ∧ F.propIncludeFresh = true ∧
  F.propExtends = true ∧ F.propImport = true ∧ F.propFrom = true ∧ F.propMacro = true

instance (F : SbxFacts) : Decidable F.ok := by unfold SbxFacts.ok; infer_instance

/-- the propagation facts alone -/
def SbxFacts.propOk (F : SbxFacts) : Prop :=
  F.propIncludeFresh = true ∧ F.propExtends = true ∧ F.propImport = true ∧ F.propFrom = true ∧ F.propMacro = true

theorem SbxFacts.ok.prop {F : SbxFacts} (h : F.ok) : F.propOk := ⟨h.2.2.2.1, h.2.2.2.2.1, h.2.2.2.2.2.1, h.2.2.2.2.2.2.1, h.2.2.2.2.2.2.2⟩

/-- what the proof actually consumes: the filter choke point, the outer check and the propagation facts.
    (`chokeFunc` is implied for the property by `outerCheck`: `CallFunction` is reached only from function
    nodes, which the outer check has vetted in a state with the same context; and `chokeFunc` ALONE would
    not do, because the check inside `CallFunction` exempts names that are also macros of the context —
    see `C06_counterexample_without_outer_check`.) -/
def SbxFacts.core (F : SbxFacts) : Prop := F.chokeFilter = true ∧ F.outerCheck = true ∧ F.propOk

theorem SbxFacts.ok.core {F : SbxFacts} (h : F.ok) : F.core := ⟨h.1, h.2.2.1, h.prop⟩

theorem SbxFacts.fixed_ok : SbxFacts.fixed.ok := by decide

/-- the later trace extends the earlier one by events that are all fine -/
def TraceExt (E : Env) (o o' : Obs) : Prop := ∃ new, o'.1 = new ++ o.1 ∧ Good E new

theorem Good.nil (E : Env) : Good E [] := by intro ev h; cases h
theorem Good.append {E : Env} {a c : List Event} (ha : Good E a) (hc : Good E c) : Good E (a ++ c) := by
  intro ev h; rcases List.mem_append.mp h with h | h
  · exact ha ev h
  · exact hc ev h
theorem Good.single {E : Env} {ev : Event} (h : EvAllowed E ev) : Good E [ev] := by
  intro ev' h'; simp only [List.mem_singleton] at h'; subst h'; exact h

theorem traceExt_pre (E : Env) : PreO (TraceExt E) where
  refl := fun o => ⟨[], rfl, Good.nil E⟩
  trans := by
    rintro a c d ⟨n1, h1, g1⟩ ⟨n2, h2, g2⟩
    exact ⟨n2 ++ n1, by rw [h2, h1, List.append_assoc], g2.append g1⟩

/-! ## The flag invariant -/

/-- **C06_flag_invariant**: every context the model derives — `include` in its three forms (clone,
    `only`, `sandboxed`), `extends`, `import`, `from`, a macro call, the transfer to a block body,
    `parent()`, and the variable / macro / block-table updates in between — satisfies `CtxOk` if the
    deriving context does, GIVEN the five propagation facts.  This is the only place they are used. -/
theorem C06_flag_invariant (E : Env) (hF : E.F.propOk) : CtxDeriv E CtxOk := by
  obtain ⟨h1, h2, h3, h4, h5⟩ := hF
  constructor
  case includeFresh =>
    intro c vars sb hc
    simp only [CtxOk, freshCtx, h1, Bool.true_and, Bool.or_eq_true]
    rintro (h | h)
    · exact Or.inl h
    · exact Or.inr (hc h)
  all_goals intros
  all_goals simp_all [CtxOk, Ctx.setVar, Ctx.delVar, freshCtx]

/-! ## The choke points -/

theorem mem_of_contains {l : List Bytes} {x : Bytes} (h : l.contains x = true) : x ∈ l := by
  simpa using h

theorem not_denied {E : Env} {c : Ctx} {allowed : List Bytes} {name : Bytes} (hp : E.hasPolicy = true)
    (hs : c.sandboxed = true) (h : denied E c allowed name = false) : name ∈ allowed := by
  simp [denied, hp, hs] at h; exact h

theorem emit_obs (E : Env) (st : St) (k : CbKind) (name : Bytes) (spy : Bool)
    (h : EvAllowed E ⟨k, name, st.ctx.inside, spy⟩) : TraceExt E st.obs (st.emit k name spy).obs :=
  ⟨[⟨k, name, st.ctx.inside, spy⟩], rfl, Good.single h⟩

/-- the state relation of the expression level: context unchanged, and under `CtxOk` only fine events -/
def ERel (E : Env) (st st' : St) : Prop := st'.ctx = st.ctx ∧ (CtxOk st.ctx → TraceExt E st.obs st'.obs)

theorem erel_pre (E : Env) : Pre (ERel E) where
  refl := fun st => ⟨rfl, fun _ => (traceExt_pre E).refl _⟩
  trans := by
    rintro a c d ⟨e1, t1⟩ ⟨e2, t2⟩
    exact ⟨e2.trans e1, fun hk => (traceExt_pre E).trans (t1 hk) (t2 (e1 ▸ hk))⟩

theorem erel_emit (E : Env) (st : St) (k : CbKind) (name : Bytes) (spy : Bool)
    (h : CtxOk st.ctx → EvAllowed E ⟨k, name, st.ctx.inside, spy⟩) : ERel E st (st.emit k name spy) :=
  ⟨rfl, fun hk => emit_obs E st k name spy (h hk)⟩

theorem erel_spy (E : Env) {st st' : St} {k : CbKind} {name : Bytes} (hs : invokeSpy E k name st = .ok st')
    (h : CtxOk st.ctx → EvAllowed E ⟨k, name, st.ctx.inside, true⟩) : ERel E st st' := by
  rw [invokeSpy_ok hs]
  exact ⟨rfl, fun hk => ⟨[⟨k, name, st.ctx.inside, true⟩], rfl, Good.single (h hk)⟩⟩

theorem evAllowed_test (E : Env) (name : Bytes) (i s : Bool) : EvAllowed E ⟨.test, name, i, s⟩ := by
  intro _; exact ⟨fun h => (by cases h), fun h => (by cases h)⟩

/-- a filter event is fine once the filter check of `ApplyFilter` has let it through -/
theorem evAllowed_filter {E : Env} {st : St} {name : Bytes} (hp : E.hasPolicy = true) (hk : CtxOk st.ctx)
    (hd : denied E st.ctx E.allowedFilters name = false) (s : Bool) :
    EvAllowed E ⟨.filter, name, st.ctx.inside, s⟩ := by
  intro hin
  exact ⟨fun _ => not_denied hp (hk hin) hd, fun h => (by cases h)⟩

theorem evAllowed_function {E : Env} {st : St} {name : Bytes} (hp : E.hasPolicy = true) (hk : CtxOk st.ctx)
    (hd : denied E st.ctx E.allowedFunctions name = false) (s : Bool) :
    EvAllowed E ⟨.function, name, st.ctx.inside, s⟩ := by
  intro hin
  exact ⟨fun h => (by cases h), fun _ => not_denied hp (hk hin) hd⟩

/-- `ApplyFilter` under the filter choke point -/
theorem applyFilter_erel (E : Env) (hc : E.F.chokeFilter = true) (hp : E.hasPolicy = true)
    (name v args st) : Holds (ERel E st) (applyFilter E name v args st) := by
  intro r st' h
  unfold applyFilter at h
  rw [hc, Bool.true_and] at h
  split at h
  · cases h
  · rename_i hd
    have hd : denied E st.ctx E.allowedFilters name = false := by simpa using hd
    split at h
    · obtain ⟨s1, h1, h2⟩ := rt_bind_ok h
      cases h2
      exact erel_spy E h1 (fun hk => evAllowed_filter hp hk hd true)
    · split at h
      · obtain ⟨x, _, h2⟩ := rt_bind_ok h
        cases h2
        exact erel_emit E st _ _ _ (fun hk => evAllowed_filter hp hk hd false)
      · cases h

/-- `CallFunction` after the outer check of `EvaluateExpression` (made in a state with the same
    context).  The check inside `CallFunction` exempts names that are also macros of the context, so
    it is the outer check that carries the proof. -/
theorem callFunction_erel (E : Env) (ho : E.F.outerCheck = true) (hp : E.hasPolicy = true)
    (name args) (st0 st : St) (h0 : ERel E st0 st)
    (hcheck : allowedCheck E st0 E.allowedFunctions name "function not allowed" = .ok ()) :
    Holds (ERel E st) (callFunction E name args st) := by
  have hd : denied E st.ctx E.allowedFunctions name = false := by
    unfold allowedCheck at hcheck
    rw [ho, Bool.true_and] at hcheck
    split at hcheck
    · cases hcheck
    · rename_i hd; rw [h0.1]; simpa using hd
  intro r st' h
  unfold callFunction at h
  split at h
  · cases h
  · split at h
    · cases h
      exact erel_emit E st _ _ _ (fun hk => evAllowed_function hp hk hd false)
    · split at h
      · obtain ⟨s1, h1, h2⟩ := rt_bind_ok h
        cases h2
        exact erel_spy E h1 (fun hk => evAllowed_function hp hk hd true)
      · split at h
        · obtain ⟨x, _, h2⟩ := rt_bind_ok h
          cases h2
          exact erel_emit E st _ _ _ (fun hk => evAllowed_function hp hk hd false)
        · split at h
          · cases h; exact (erel_pre E).refl _
          · cases h

theorem erel_ok (E : Env) (hF : E.F.core) (hp : E.hasPolicy = true) : RelOk E (ERel E) where
  toPre := erel_pre E
  filter := applyFilter_erel E hF.1 hp
  func := fun name args st0 st h0 hc => callFunction_erel E hF.2.1 hp name args st0 st h0 hc
  spyTest := fun name _ _ hs => erel_spy E hs (fun _ => evAllowed_test E name _ _)
  emitTest := fun name st => erel_emit E st _ _ _ (fun _ => evAllowed_test E name _ _)

theorem nodeOk (E : Env) (hF : E.F.core) (hp : E.hasPolicy = true) : NodeOk E CtxOk (TraceExt E) where
  toCtxDeriv := C06_flag_invariant E hF.2.2
  pre := traceExt_pre E
  expr := erel_ok E hF hp

/-! ## The property -/

/-- **C06_confinement**: for every environment (templates, policy, registered callbacks), every
    fuel, every transfer (template root, block body, macro call) and every start state whose context
    satisfies `CtxOk`: if the run succeeds, the events it appended to the trace are all fine — every
    filter / function invoked in the dynamic extent of an `include … sandboxed` is on the policy's
    allow-list, wherever it is written and however the sandboxed template reached it.  (A run that
    fails returns no trace; `C06_violation_is_error` covers the failing invocation itself.) -/
theorem C06_confinement_core (E : Env) (hF : E.F.core) (hp : E.hasPolicy = true) :
    ∀ (fuel : Nat) (tr : Transfer) (st : St) (out : Bytes) (st' : St), CtxOk st.ctx →
      run E fuel tr st = .ok (out, st') →
      CtxOk st'.ctx ∧ ∃ new, st'.trace = new ++ st.trace ∧
        ∀ ev ∈ new, ev.inside = true →
          (ev.kind = .filter → ev.name ∈ E.allowedFilters) ∧
          (ev.kind = .function → ev.name ∈ E.allowedFunctions) := by
  intro fuel tr st out st' hk h
  exact run_post (nodeOk E hF hp) fuel tr st hk out st' h

/-- the same under all eight facts (what `C06_facts_current` establishes for the Go source) -/
theorem C06_confinement (E : Env) (hF : E.F.ok) (hp : E.hasPolicy = true) :
    ∀ (fuel : Nat) (tr : Transfer) (st : St) (out : Bytes) (st' : St), CtxOk st.ctx →
      run E fuel tr st = .ok (out, st') →
      CtxOk st'.ctx ∧ ∃ new, st'.trace = new ++ st.trace ∧
        ∀ ev ∈ new, ev.inside = true →
          (ev.kind = .filter → ev.name ∈ E.allowedFilters) ∧
          (ev.kind = .function → ev.name ∈ E.allowedFunctions) :=
  C06_confinement_core E hF.core hp

/-- the same at the top level: the whole trace of a successful `Engine.Render` -/
theorem C06_confinement_top (E : Env) (hF : E.F.ok) (hp : E.hasPolicy = true)
    (name : Bytes) (vars : List (Bytes × Val)) (out : Bytes) (trace : List Event)
    (h : renderTop E name vars = .ok (out, trace)) :
    ∀ ev ∈ trace, ev.inside = true →
      (ev.kind = .filter → ev.name ∈ E.allowedFilters) ∧ (ev.kind = .function → ev.name ∈ E.allowedFunctions) := by
  unfold renderTop at h
  split at h
  · cases h
  · obtain ⟨⟨o, st⟩, h1, h2⟩ := rt_bind_ok h
    have h3 : o = out ∧ st.trace.reverse = trace := by
      simp only [pure, Except.pure, Except.ok.injEq, Prod.mk.injEq] at h2; exact h2
    obtain ⟨rfl, rfl⟩ := h3
    have hk : CtxOk ({ ctx := { vars := vars } } : St).ctx := by intro hin; cases hin
    obtain ⟨_, new, hnew, hg⟩ := C06_confinement E hF hp defaultFuel (.root name) _ o st hk h1
    intro ev hev
    rw [List.mem_reverse, hnew, List.append_nil] at hev
    exact hg ev hev

/-- **C06_violation_is_error**: a denied invocation makes the choke point return a security
    violation; being an error it carries no state, hence emits no event and invokes nothing. -/
theorem C06_violation_is_error (E : Env) (st : St) (name : Bytes) :
    (E.F.chokeFilter = true → denied E st.ctx E.allowedFilters name = true →
      ∀ v args, applyFilter E name v args st = .error (.error .security [] "filter not allowed")) ∧
    (E.F.chokeFunc = true → denied E st.ctx E.allowedFunctions name = true → st.ctx.getMacro name = none →
      ∀ args, callFunction E name args st = .error (.error .security [] "function not allowed")) ∧
    (E.F.outerCheck = true → denied E st.ctx E.allowedFunctions name = true →
      ∀ apply args, evalX E apply (.call name args) st = .error (.error .security [] "function not allowed")) := by
  refine ⟨?_, ?_, ?_⟩
  · intro hc hd v args; simp [applyFilter, hc, hd, secErr]
  · intro hc hd hm args; simp [callFunction, hc, hd, hm, secErr]
  · intro hc hd apply args; simp [evalX, allowedCheck, hc, hd, secErr, bind, Except.bind]

/-- inside the sandbox, with a policy, a name off the allow-list is denied (so the previous theorem applies) -/
theorem C06_denied_iff (E : Env) (c : Ctx) (allowed : List Bytes) (name : Bytes) :
    denied E c allowed name = true ↔ c.sandboxed = true ∧ E.hasPolicy = true ∧ name ∉ allowed := by
  simp [denied, and_assoc]

/-- **C06_outside_unrestricted**: in a context that is not sandboxed the checks never fire — the
    choke points and the outer check behave exactly as with no policy at all. -/
theorem C06_outside_unrestricted (E : Env) (st : St) (hs : st.ctx.sandboxed = false) :
    (∀ name v args, applyFilter E name v args st = applyFilter { E with hasPolicy := false } name v args st) ∧
    (∀ name args, callFunction E name args st = callFunction { E with hasPolicy := false } name args st) ∧
    (∀ allowed name what, allowedCheck E st allowed name what = .ok ()) := by
  refine ⟨?_, ?_, ?_⟩
  · intro name v args; simp [applyFilter, denied, hs, invokeSpy]
  · intro name args; simp [callFunction, denied, hs, invokeSpy]
  · intro allowed name what; simp [allowedCheck, denied, hs]

/-- **C06_allowed_unchanged**: inside the sandbox an allowed filter / function returns exactly what
    it returns without any policy. -/
theorem C06_allowed_unchanged (E : Env) (st : St) (name : Bytes) :
    (name ∈ E.allowedFilters →
      ∀ v args, applyFilter E name v args st = applyFilter { E with hasPolicy := false } name v args st) ∧
    (name ∈ E.allowedFunctions →
      ∀ args, callFunction E name args st = callFunction { E with hasPolicy := false } name args st) := by
  refine ⟨?_, ?_⟩
  · intro hm v args; simp [applyFilter, denied, hm, invokeSpy]
  · intro hm args; simp [callFunction, denied, hm, invokeSpy]

/-! ## Counterexample on the pinned facts, non-vacuity, tie to the extracted facts -/

namespace C06ex

/-- `main` includes `inc` sandboxed; `inc` applies a chain whose middle filter is forbidden
    (`{{ x|forbidden|upper }}`): the check on the outermost node sees only `upper`. -/
def tpls : List (Bytes × List Node) :=
  [(b "main", [.text (b "<"), .include (.str (b "inc")) [] [] false false true, .text (b ">")]),
   (b "inc", [.print (.filter (.filter (.var (b "x")) (b "forbidden") []) (b "upper") [])])]

def pinned : Env :=
  { tpls := tpls, F := .pinned, hasPolicy := true, allowedFilters := [b "upper"], spyFilters := [b "forbidden"] }
def fixed : Env := { pinned with F := .fixed }

/-- escape through a context constructor: the sandboxed template includes `leaf` with `only`; the fresh
    context drops the flag, so even the choke point would not see it.  (`{% apply forbidden %}` in `leaf`) -/
def tpls2 : List (Bytes × List Node) :=
  [(b "main", [.include (.str (b "mid")) [] [] false false true]),
   (b "mid", [.include (.str (b "leaf")) [] [] false true false]),
   (b "leaf", [.apply (b "forbidden") [.text (b "t")]])]
def pinned2 : Env :=
  { tpls := tpls2, F := { SbxFacts.pinned with chokeFilter := true, chokeFunc := true }, hasPolicy := true,
    allowedFilters := [b "upper"], spyFilters := [b "forbidden"] }
def fixed2 : Env := { pinned2 with F := .fixed }

/-- permissions outside and allowed constructs inside: `main` itself may use `forbidden`; the sandboxed
    `inc3` uses only `upper` and the function `range` through a macro, an import and a block -/
def tpls3 : List (Bytes × List Node) :=
  [(b "main", [.print (.filter (.var (b "x")) (b "forbidden") []),
               .include (.str (b "inc3")) [] [] false false true]),
   (b "inc3", [.importN (.str (b "lib")) (b "m"),
               .print (.mcall (.var (b "m")) (b "shout") [.var (b "x")]),
               .block (b "c") [.forN none (b "i") (.call (b "range") [.int 1, .int 2]) [.print (.var (b "i"))] []]]),
   (b "lib", [.macro (b "shout") [b "v"] [] [] [.print (.filter (.var (b "v")) (b "upper") [])]])]
def fixed3 : Env :=
  { tpls := tpls3, hasPolicy := true, allowedFilters := [b "upper"], allowedFunctions := [b "range", b "shout"],
    spyFilters := [b "forbidden"] }

/-- A sandboxed template that defines a macro named like a forbidden function and calls it as a method on an
    undefined object (`nothing.sfn()`).  Before the repair of `_self.name()` (a visible macro wins over a function
    of the same name, as in a direct call) this reached the function through `CallFunction`'s macro exemption
    when the check on the outermost function node was missing; now the macro runs and the function never does
    (and with the outer check in place the call is refused by name). -/
def tpls4 : List (Bytes × List Node) :=
  [(b "main", [.include (.str (b "inc")) [] [] false false true]),
   (b "inc", [.macro (b "sfn") [] [] [] [], .print (.mcall (.var (b "nothing")) (b "sfn") [])])]
def noOuter : Env :=
  { tpls := tpls4, F := { SbxFacts.fixed with outerCheck := false }, hasPolicy := true,
    spyFunctions := [b "sfn"] }

end C06ex

theorem C06_macro_named_like_forbidden_function :
    summary (renderTop C06ex.noOuter (b "main") []) = some ([], []) ∧
    errClass (renderTop { C06ex.noOuter with F := .fixed } (b "main") []) = some .security := by
  constructor <;> decide +kernel

/-- **C06_counterexample_pinned**: with the facts of the unrepaired tree the sandboxed include renders
    successfully and the forbidden filter runs inside the sandbox (`inside = true`, spy invoked). -/
theorem C06_counterexample_pinned :
    summary (renderTop C06ex.pinned (b "main") [(b "x", .str (b "a"))]) =
      some (b "<A>", [(.filter, b "forbidden", true, true), (.filter, b "upper", true, false)]) := by
  decide +kernel

/-- the same counterexample in the vocabulary of `C06_confinement`: a successful render whose trace
    contains a filter event inside the sandbox that the policy does not allow -/
theorem C06_counterexample_pinned_event :
    ∃ out trace, renderTop C06ex.pinned (b "main") [(b "x", .str (b "a"))] = .ok (out, trace) ∧
      ∃ ev ∈ trace, ev.inside = true ∧ ev.kind = .filter ∧ ev.name ∉ C06ex.pinned.allowedFilters := by
  have h := C06_counterexample_pinned
  unfold summary at h
  split at h
  · rename_i o t heq
    refine ⟨o, t, heq, ?_⟩
    simp only [Option.some.injEq, Prod.mk.injEq] at h
    obtain ⟨_, ht⟩ := h
    cases t with
    | nil => simp at ht
    | cons e1 r =>
      simp only [List.map_cons, List.cons.injEq, Event.key, Prod.mk.injEq] at ht
      refine ⟨e1, List.mem_cons_self, ht.1.2.2.1, ht.1.1, ?_⟩
      rw [ht.1.2.1]; decide +kernel
  · cases h

/-- second route (context constructor): with both choke points in place but the propagation facts false,
    `include … only` below the boundary drops the flag and the forbidden `apply` filter runs -/
theorem C06_counterexample_pinned_only :
    summary (renderTop C06ex.pinned2 (b "main") []) = some (b "t", [(.filter, b "forbidden", true, true)]) := by
  decide +kernel

/-- non-vacuity: the repaired facts and a policy satisfy the hypotheses of `C06_confinement` -/
example : C06ex.fixed.F.ok ∧ C06ex.fixed.hasPolicy = true := by decide
/-- with the repaired facts both programs are refused with a security violation -/
example : errClass (renderTop C06ex.fixed (b "main") [(b "x", .str (b "a"))]) = some .security := by decide +kernel
example : errClass (renderTop C06ex.fixed2 (b "main") []) = some .security := by decide +kernel
/-- … while allowed constructs keep working inside (through import, macro call, block, for, function
    call) and the including template keeps its permissions: `forbidden` runs outside (`inside = false`),
    everything inside is allowed -/
example : summary (renderTop C06ex.fixed3 (b "main") [(b "x", .str (b "a"))]) =
    some (b "aA12", [(.filter, b "forbidden", false, true), (.filter, b "upper", true, false),
                     (.function, b "range", true, false)]) := by decide +kernel

/-! ### Tie to the facts extracted from the Go source -/

/-- the facts as regenerated by `/verif/extract` (emitter `Sandbox`) from the repository under test -/
def genFacts : SbxFacts :=
  ⟨TwigGen.Sandbox.chokeFilter, TwigGen.Sandbox.chokeFunc, TwigGen.Sandbox.outerCheck,
   TwigGen.Sandbox.propIncludeFresh, TwigGen.Sandbox.propExtends, TwigGen.Sandbox.propImport,
   TwigGen.Sandbox.propFrom, TwigGen.Sandbox.propMacro⟩

/-- **C06_facts_current**: the current Go source has both choke points, the outer check and all five
    propagation sites — the model's `SbxFacts.fixed` is what the code does. -/
theorem C06_facts_current : genFacts = SbxFacts.fixed := by decide

theorem C06_facts_current_tuple :
    TwigGen.Sandbox.facts = (true, true, true, true, true, true, true, true) := by rfl

/-- the remaining assumptions the model makes about the Go source, also extracted: `Clone` copies the
    flag (include without `only`/`sandboxed`), the function check exempts macro names exactly as the
    model's `callFunction` does, and no context is constructed anywhere the model has no derivation for -/
theorem C06_facts_current_model_shape :
    TwigGen.Sandbox.cloneSitesPropagate = true ∧ TwigGen.Sandbox.funcCheckExemptsMacros = true ∧
    TwigGen.Sandbox.unmodelledSites = [] := by decide

/-- the property for the code as it is: confinement under the extracted facts -/
theorem C06_confinement_current (E : Env) (hE : E.F = genFacts) (hp : E.hasPolicy = true)
    (name : Bytes) (vars : List (Bytes × Val)) (out : Bytes) (trace : List Event)
    (h : renderTop E name vars = .ok (out, trace)) :
    ∀ ev ∈ trace, ev.inside = true →
      (ev.kind = .filter → ev.name ∈ E.allowedFilters) ∧ (ev.kind = .function → ev.name ∈ E.allowedFunctions) :=
  C06_confinement_top E (by rw [hE, C06_facts_current]; exact SbxFacts.fixed_ok) hp name vars out trace h

end Twig
