/-
  TwigProofs.C20Facts — ties the facts of `TwigModel/AttrCache.lean` (`codeFacts`, and the shape of
  `evict` / `lookupEntry`) to what the extractor regenerates from the Go source on every run
  (`TwigGen/AttrCache.lean`, emitter `/verif/extract/attrcache.go`).

  * `Raw` / `Raw.current`   the generated values as a record;
  * `Facts.ofRaw`           the model's `Facts` computed from them (C20 report, FACTs 1, 2, 3, 6);
  * `Raw.shapeOk`           FACTs 4, 5, 7: the eviction function only deletes and decrements once per delete,
                            the only writers of the cache are the lookup function (overwrite of a present
                            key; insert of an absent key with `currSize++`) and the eviction function, the
                            eviction is triggered by `currSize >= maxSize` before the insert;
  * `C20_facts_source`      `codeFacts = Facts.ofRaw Raw.current ∧ Raw.current.shapeOk`;
  * the property theorems instantiated with the regenerated facts.
-/
import TwigProofs.C20
import TwigGen.AttrCache
namespace Twig.AttrCache

structure Raw where
  lookupFunc : String
  evictFunc : String
  keyFields : List (String × String)
  keyLiteral : List (String × String)
  pathStores : List (String × String × String)
  fieldUses : List (String × String × String)
  cacheWrites : List (String × Nat × String × String × String)
  insertIncrements : Bool
  maxSize : Nat
  evictionPctNum : Nat
  evictionPctDen : Nat
  evictCountExpr : Bool
  evictAtLeastOne : Bool
  numToEvict : Nat
  evictLoopIsDeleteDec : Bool
  evictIndexIsLoopVar : Bool
  evictKeysFromMapRange : Bool
  evictTrigger : String × String × String
  evictTriggerBeforeInsert : Bool
  typedMapBranch : Bool
  typedMapAfterIndirection : Bool
  typedMapBeforeCache : Bool
  unknown : List String

def Raw.current : Raw where
  lookupFunc := TwigGen.AttrCache.lookupFunc
  evictFunc := TwigGen.AttrCache.evictFunc
  keyFields := TwigGen.AttrCache.keyFields
  keyLiteral := TwigGen.AttrCache.keyLiteral
  pathStores := TwigGen.AttrCache.pathStores
  fieldUses := TwigGen.AttrCache.fieldUses
  cacheWrites := TwigGen.AttrCache.cacheWrites
  insertIncrements := TwigGen.AttrCache.insertIncrements
  maxSize := TwigGen.AttrCache.maxSize
  evictionPctNum := TwigGen.AttrCache.evictionPctNum
  evictionPctDen := TwigGen.AttrCache.evictionPctDen
  evictCountExpr := TwigGen.AttrCache.evictCountExpr
  evictAtLeastOne := TwigGen.AttrCache.evictAtLeastOne
  numToEvict := TwigGen.AttrCache.numToEvict
  evictLoopIsDeleteDec := TwigGen.AttrCache.evictLoopIsDeleteDec
  evictIndexIsLoopVar := TwigGen.AttrCache.evictIndexIsLoopVar
  evictKeysFromMapRange := TwigGen.AttrCache.evictKeysFromMapRange
  evictTrigger := TwigGen.AttrCache.evictTrigger
  evictTriggerBeforeInsert := TwigGen.AttrCache.evictTriggerBeforeInsert
  typedMapBranch := TwigGen.AttrCache.typedMapBranch
  typedMapAfterIndirection := TwigGen.AttrCache.typedMapAfterIndirection
  typedMapBeforeCache := TwigGen.AttrCache.typedMapBeforeCache
  unknown := TwigGen.AttrCache.unknown

/-- the key struct has a component of type `ty`, and the key literal of the lookup function fills it from `src` -/
def Raw.keyComponent (R : Raw) (ty src : String) : Bool :=
  R.keyFields.any fun f => f.2 == ty && R.keyLiteral.any fun l => l.1 == f.1 && l.2 == src

/-- FACT 2: some entry field receives the WHOLE `StructField.Index`, and every field access of the lookup
    function is `FieldByIndexErr` of that entry field -/
def Raw.fullPath (R : Raw) : Bool :=
  R.pathStores.any fun s => s.2.2 == "Index" &&
    !R.fieldUses.isEmpty && R.fieldUses.all fun u => u.2.1 == "FieldByIndexErr" && u.2.2 == s.2.1

/-- FACT 3: `int(float64(maxSize) * evictionPct)`, at least 1.  The extractor evaluates the expression with
    float64 arithmetic; here it is cross-checked against the exact fraction. -/
def Raw.numToEvictOk (R : Raw) : Bool :=
  R.evictCountExpr && R.evictAtLeastOne && 0 < R.evictionPctDen
  && R.numToEvict == max 1 (R.maxSize * R.evictionPctNum / R.evictionPctDen)

def Facts.ofRaw (R : Raw) : Facts where
  keyHasType := R.keyComponent "reflect.Type" "reflect.Value.Type()"      -- FACT 1
  keyHasAttr := R.keyComponent "string" "param"                           -- FACT 1
  fullPath := R.fullPath                                                  -- FACT 2
  typedMapAttr := R.typedMapBranch && R.typedMapAfterIndirection && R.typedMapBeforeCache   -- FACT 6
  maxSize := R.maxSize                                                    -- FACT 3
  numToEvict := if R.numToEvictOk then R.numToEvict else 0

/-- FACTs 4, 5, 7 -/
def Raw.shapeOk (R : Raw) : Bool :=
  R.unknown.isEmpty
  -- the key has exactly the two components
  && R.keyFields.length == 2
  -- FACT 4: the eviction function writes the cache only by `delete(m, s[i].key); currSize--` in one counted loop
  --         over distinct keys taken from the map itself
  && (R.cacheWrites.filter (·.1 == R.evictFunc)).map (fun w => (w.2.2.1, w.2.2.2.1)) == [("m", "delete"), ("currSize", "dec")]
  && R.evictLoopIsDeleteDec && R.evictIndexIsLoopVar && R.evictKeysFromMapRange
  -- FACT 5: the writers are the lookup function and the eviction function; the lookup function overwrites a
  --         present key, or inserts under an absent key and increments
  && R.cacheWrites.all (fun w => w.1 == R.evictFunc || w.1 == R.lookupFunc)
  && (R.cacheWrites.filter (·.1 == R.lookupFunc)).map (fun w => (w.2.2.1, w.2.2.2.1, w.2.2.2.2))
       == [("m", "store", "present"), ("m", "store", "absent"), ("currSize", "inc", "none")]
  && R.insertIncrements
  -- FACT 7
  && R.evictTrigger == ("currSize", ">=", "maxSize") && R.evictTriggerBeforeInsert

/-- the facts regenerated from the Go source by this run of the extractor -/
def sourceFacts : Facts := Facts.ofRaw Raw.current

/-- **tie**: the model's `codeFacts` are the facts of the source, and the source has the shape `evict` and
    `lookupEntry` model -/
theorem C20_facts_source : codeFacts = sourceFacts ∧ Raw.current.shapeOk = true := by decide

theorem C20_facts_source_keyOk : sourceFacts.keyOk = true := by decide

/-- the property for the facts of the source as it is now: cached, evicting `getAttribute` = the spec -/
theorem C20_attribute_right_source (env : Env) (ω : Oracle) (hist : List Query) (victims : List Key)
    (obj : Val) (a : String) :
    (getAttribute sourceFacts env victims (run sourceFacts env ω hist) obj a).1 = specGet env obj a := by
  rw [← C20_facts_source.1]
  exact C20_attribute_right env ω hist victims obj a

/-! ### regression: what the extractor reports on the pinned commit (fa21d8c)

  `pathStores` lacks `("…getAttribute", "fieldPath", "Index")`, `fieldUses = [("…", "Field", "fieldIndex")]`
  and the three `typedMap*` flags are false; everything else is equal. -/

def Raw.pinnedVariant : Raw :=
  { Raw.current with
    pathStores := [("RenderContext.getAttribute", "fieldIndex", "Index[0]")]
    fieldUses := [("RenderContext.getAttribute", "Field", "fieldIndex")]
    typedMapBranch := false, typedMapAfterIndirection := false, typedMapBeforeCache := false }

example : Facts.ofRaw Raw.pinnedVariant = pinnedFacts := by decide
example : Raw.pinnedVariant.shapeOk = true := by decide

/-- a key without the type component is caught -/
example : (Facts.ofRaw { Raw.current with keyFields := [("attr", "string")] }).keyOk = false := by decide

end Twig.AttrCache
