/-
  C01 — Rendering is repeatable and independent of everything rendered before.

  Model: `TwigModel/Pool.lean` (pooled heap with a nondeterministic `Get`, engines with template caches,
  facts `F` about which fields every acquire path assigns and every release path zeroes).
  `run F ω h` executes the history `h` with pools, the oracle `ω` resolving every `sync.Pool.Get` and every
  `gc` operation dropping any part of the pools; `runPure h` executes the same history with no pools
  at all: each render is `renderFresh tpls n vars`, what a freshly created engine holding the
  templates registered so far returns.

  Property theorems (all histories, all oracles, all gc choices):
    C01_history_independence      outs (run F ω h) = outs (runPure h)
    C01_render_preserves_cache    a render leaves every engine's cache and every cached object as it was
    C01_invariant                 the ownership invariant holds in every reachable state
    C01_no_cached_object_pooled, C01_no_double_release, C01_pool_clean    its readable consequences
    C01_never_stale               no step of any history reads a field a previous user left behind
    C01_pure_is_fresh_engine      a pool-free render is a function of the current template table only
  Regression instances (the pinned commit's facts; these are tests of the model, by `decide`):
    C01_counterexample_pinned_second_render_empty, C01_counterexample_pinned_renders_other_template,
    C01_counterexample_unreset_field
-/
import TwigModel.Pool
import TwigProofs.Lemmas.Pool
namespace Twig.Pool

/-- an object some engine's cache refers to -/
def cached (st : St) (id : ObjId) : Prop := ∃ e n, (n, id) ∈ (st.engines e).cache

/-- the ownership invariant, relating the pooled state to the pool-free state -/
structure Inv (F : Facts) (st : St) (ps : PSt) : Prop where
  /-- I1 no cached object is in a pool; the pool holds every object once (no double release);
      I2 every pooled object is zero in the read fields some acquire path leaves untouched -/
  pool : PoolInv F (cached st) st []
  /-- every cached root still holds the nodes its source parsed to -/
  agree : ∀ e n, ((st.engines e).cache.lookup n).map (fun id => (st.heap id).children) = (ps e).tpls.lookup n
  flags : ∀ e, (st.engines e).cacheOn = (ps e).cacheOn

theorem Inv.init (F : Facts) : Inv F St.init PSt.init := by
  refine ⟨⟨?_, ?_, ?_, ?_, ?_, ?_, ?_, ?_, ?_⟩, ?_, ?_⟩ <;> simp [St.init, PSt.init, freeIds, cached]

theorem cached_lookup {st : St} {e : EngId} {n : Name} {id : ObjId}
    (h : (st.engines e).cache.lookup n = some id) : cached st id :=
  ⟨e, n, mem_of_lookup _ _ _ h⟩

/-- the state after a step that kept the engines and the cached objects -/
theorem Inv.frame {F st ps st'} (h : Inv F st ps) (heng : st'.engines = st.engines)
    (hheap : ∀ j, cached st j → st'.heap j = st.heap j) (hp : PoolInv F (cached st) st' []) : Inv F st' ps := by
  have hc : ∀ j, cached st' j ↔ cached st j := by intro j; simp [cached, heng]
  refine ⟨hp.congrP hc, ?_, ?_⟩
  · intro e n
    rw [heng, ← h.agree e n]
    cases hl : (st.engines e).cache.lookup n with
    | none => rfl
    | some id => simp [hheap id (cached_lookup hl)]
  · intro e; rw [heng]; exact h.flags e

/-- one step of the pooled machine gives the output of the pool-free machine and keeps the invariant -/
theorem step_sim (F : Facts) (hF : F.ok) (ω : Oracle) (st : St) (ps : PSt) (h : Inv F st ps) (op : Op) :
    (step F ω st op).2 = (stepPure ps op).2 ∧ Inv F (step F ω st op).1 (stepPure ps op).1 := by
  cases op with
  | register e n s =>
    obtain ⟨hs, heng, hheap, hm⟩ := parseTpl_spec F hF ω (cached st) st s h.pool
    simp only [step, stepPure]
    cases hp : s.parse with
    | none =>
      rw [hp] at hm
      obtain ⟨hroot, hpool⟩ := hm
      simp only [hroot, hs]
      exact ⟨trivial, h.frame heng hheap hpool⟩
    | some nodes =>
      rw [hp] at hm
      obtain ⟨id, hroot, hpool, hch⟩ := hm
      simp only [hroot, hs]
      refine ⟨trivial, ?_⟩
      generalize parseTpl F ω st s = r at hs heng hheap hroot hpool hch
      have hc : ∀ j, cached (r.st.setEngine e { r.st.engines e with cache := (n, id) :: (r.st.engines e).cache }) j
          ↔ (cached st j ∨ j = id) := by
        intro j
        simp only [cached, St.setEngine, heng]
        constructor
        · rintro ⟨e', n', hmem⟩
          by_cases he : e' = e
          · subst he
            simp only [↓reduceIte, List.mem_cons, Prod.mk.injEq] at hmem
            rcases hmem with ⟨-, hj⟩ | hmem
            · exact Or.inr hj
            · exact Or.inl ⟨e', n', hmem⟩
          · simp only [he, ↓reduceIte] at hmem
            exact Or.inl ⟨e', n', hmem⟩
        · rintro (⟨e', n', hmem⟩ | hj)
          · refine ⟨e', n', ?_⟩
            by_cases he : e' = e
            · subst he; simp [hmem]
            · simp [he, hmem]
          · exact ⟨e, n, by simp [hj]⟩
      refine ⟨?_, ?_, ?_⟩
      · apply PoolInv.congrP _ hc
        apply PoolInv.of_eq hpool.adopt <;> rfl
      · intro e' m
        have hold : ((st.engines e').cache.lookup m).map (fun id => (r.st.heap id).children)
            = (ps e').tpls.lookup m := by
          rw [← h.agree e' m]
          cases hl : (st.engines e').cache.lookup m with
          | none => rfl
          | some id' => simp [hheap id' (cached_lookup hl)]
        by_cases he : e' = e
        · subst he
          simp only [St.setEngine, PSt.set, ↓reduceIte, heng]
          by_cases hmn : m = n
          · subst hmn; simp [List.lookup, hch]
          · have hb : (m == n) = false := by simpa using hmn
            simp only [List.lookup, hb]
            exact hold
        · simp only [St.setEngine, PSt.set, he, ↓reduceIte, heng]
          exact hold
      · intro e'
        by_cases he : e' = e
        · subst he; simp [St.setEngine, PSt.set, heng, h.flags e']
        · simp [St.setEngine, PSt.set, he, heng, h.flags e']
  | parseOnly e s =>
    obtain ⟨hs, heng, hheap, hm⟩ := parseTpl_spec F hF ω (cached st) st s h.pool
    simp only [step, stepPure]
    cases hp : s.parse with
    | none =>
      rw [hp] at hm
      obtain ⟨hroot, hpool⟩ := hm
      simp only [hroot, hs]
      exact ⟨rfl, h.frame heng hheap hpool⟩
    | some nodes =>
      rw [hp] at hm
      obtain ⟨id, hroot, hpool, -⟩ := hm
      simp only [hroot, hs]
      exact ⟨rfl, h.frame heng hheap hpool.drop⟩
  | render e n vars =>
    simp only [step, stepPure, renderFresh]
    have hag := h.agree e n
    cases hl : (st.engines e).cache.lookup n with
    | none =>
      rw [hl] at hag
      simp only [Option.map_none] at hag
      simp only [← hag]
      exact ⟨trivial, h⟩
    | some rid =>
      rw [hl] at hag
      simp only [Option.map_some] at hag
      have hlook : (fun m => ((st.engines e).cache.lookup m).map fun id => (st.heap id).children)
          = fun m => (ps e).tpls.lookup m := funext fun m => h.agree e m
      have hrel : releasesRoot F (st.heap rid).children = false := by
        simp [releasesRoot, Facts.ok_root hF]
      simp only [← hag, hrel, Bool.false_eq_true, ↓reduceIte, hlook]
      generalize (renderOf (fun m => (ps e).tpls.lookup m) vars (st.heap rid).children) = w
      have h0 : RInv F (cached st) ⟨st, [], false⟩ := ⟨by simpa [liveIds] using h.pool, by simp, rfl⟩
      obtain ⟨h1, hP1, he1⟩ := replay_spec F hF ω (cached st)
        (.enter [.newStringBuffer] :: .enter (ctxBundle .newRenderContext) :: w.evs) _ h0
      obtain ⟨h2, hP2, he2⟩ := replay_spec F hF ω (cached st) [.leave, .leave] _ h1
      refine ⟨?_, ?_⟩
      · simp only [h2.fresh]
      · exact h.frame (he2.trans he1) (fun j hj => (hP2 j hj).trans (hP1 j hj)) h2.pool.drop
  | setCache e on =>
    simp only [step, stepPure]
    refine ⟨trivial, ?_, ?_, ?_⟩
    · have hc : ∀ j, cached (st.setEngine e { st.engines e with cacheOn := on }) j ↔ cached st j := by
        intro j
        simp only [cached, St.setEngine]
        constructor
        · rintro ⟨e', n', hm⟩
          by_cases he : e' = e
          · subst he; exact ⟨e', n', by simpa using hm⟩
          · exact ⟨e', n', by simpa [he] using hm⟩
        · rintro ⟨e', n', hm⟩
          by_cases he : e' = e
          · subst he; exact ⟨e', n', by simpa using hm⟩
          · exact ⟨e', n', by simpa [he] using hm⟩
      apply PoolInv.congrP _ hc
      apply PoolInv.of_eq h.pool <;> rfl
    · intro e' m
      by_cases he : e' = e
      · subst he; simpa [St.setEngine, PSt.set] using h.agree e' m
      · simpa [St.setEngine, PSt.set, he] using h.agree e' m
    · intro e'
      by_cases he : e' = e
      · subst he; simp [St.setEngine, PSt.set]
      · simpa [St.setEngine, PSt.set, he] using h.flags e'
  | gc keep =>
    simp only [step, stepPure]
    refine ⟨trivial, ?_, h.agree, h.flags⟩
    have hp := h.pool
    constructor
    · intro x hx; exact hp.freeLt x (List.mem_filter.mp hx).1
    · exact hp.nodup.sublist (List.filter_sublist.map _)
    · intro x hx; exact hp.freeNotP x (List.mem_filter.mp hx).1
    · intro x hx; exact hp.clean x (List.mem_filter.mp hx).1
    · exact hp.pLt
    · exact hp.liveLt
    · exact hp.liveNodup
    · intro j hj; simp at hj
    · exact hp.liveNotP

theorem runFrom_sim (F : Facts) (hF : F.ok) (ω : Oracle) :
    ∀ (h : List Op) (st : St) (ps : PSt), Inv F st ps →
      (runFrom F ω st h).2 = (runPureFrom ps h).2 ∧ Inv F (runFrom F ω st h).1 (runPureFrom ps h).1
  | [], _, _, hi => ⟨rfl, hi⟩
  | op :: rest, st, ps, hi => by
    obtain ⟨ho, hi'⟩ := step_sim F hF ω st ps hi op
    obtain ⟨ho2, hi2⟩ := runFrom_sim F hF ω rest _ _ hi'
    simp only [runFrom, runPureFrom]
    exact ⟨by rw [ho, ho2], hi2⟩

/-! ## the property theorems -/

/-- **C01.** For every history of engine operations, every behaviour of the pools (which object a
    `Get` returns, or a fresh one) and every effect of garbage collections on them, every operation
    returns what the pool-free machine returns: the output bytes or the error of a freshly created engine
    holding the same templates, and no read of a left-over field. -/
theorem C01_history_independence (F : Facts) (hF : Facts.ok F) (h : List Op) (ω : Oracle) :
    outs (run F ω h) = outs (runPure h) :=
  (runFrom_sim F hF ω h St.init PSt.init (Inv.init F)).1

/-- the ownership invariant holds after every history -/
theorem C01_invariant (F : Facts) (hF : Facts.ok F) (h : List Op) (ω : Oracle) :
    Inv F (run F ω h).1 (runPure h).1 :=
  (runFrom_sim F hF ω h St.init PSt.init (Inv.init F)).2

/-- **A render never consumes, alters or recycles the cached template it used**: in any state satisfying
    the invariant (so: in every reachable state) a render step leaves every engine's cache and every
    object a cache refers to exactly as it was. -/
theorem C01_render_preserves_cache (F : Facts) (hF : Facts.ok F) (ω : Oracle) (st : St) (ps : PSt)
    (hI : Inv F st ps) (e : EngId) (n : Name) (vars : Vars) :
    (step F ω st (.render e n vars)).1.engines = st.engines
    ∧ ∀ id, cached st id → (step F ω st (.render e n vars)).1.heap id = st.heap id := by
  simp only [step]
  cases hl : (st.engines e).cache.lookup n with
  | none => exact ⟨rfl, fun _ _ => rfl⟩
  | some rid =>
    have hrel : releasesRoot F (st.heap rid).children = false := by
      simp [releasesRoot, Facts.ok_root hF]
    simp only [hrel, Bool.false_eq_true, ↓reduceIte]
    generalize (renderOf _ vars (st.heap rid).children) = w
    have h0 : RInv F (cached st) ⟨st, [], false⟩ := ⟨by simpa [liveIds] using hI.pool, by simp, rfl⟩
    obtain ⟨h1, hP1, he1⟩ := replay_spec F hF ω (cached st)
      (.enter [.newStringBuffer] :: .enter (ctxBundle .newRenderContext) :: w.evs) _ h0
    obtain ⟨_, hP2, he2⟩ := replay_spec F hF ω (cached st) [.leave, .leave] _ h1
    exact ⟨he2.trans he1, fun j hj => (hP2 j hj).trans (hP1 j hj)⟩

/-- I1: no object a cache refers to is ever in a pool -/
theorem C01_no_cached_object_pooled (F : Facts) (hF : Facts.ok F) (h : List Op) (ω : Oracle) (k : Kind) (id : ObjId) :
    cached (run F ω h).1 id → (k, id) ∉ (run F ω h).1.free :=
  fun hc hm => (C01_invariant F hF h ω).pool.freeNotP (k, id) hm hc

/-- no object is in the pools twice (no double release), whatever the kind -/
theorem C01_no_double_release (F : Facts) (hF : Facts.ok F) (h : List Op) (ω : Oracle) :
    ((run F ω h).1.free.map (·.2)).Nodup :=
  (C01_invariant F hF h ω).pool.nodup

/-- I2: a pooled object is zero in every read field that some acquire path does not assign;
    together with the decidable check `readFields ⊆ resetFields ∪ clearedFields` inside `Facts.ok`
    this is why an acquired object is indistinguishable from a new one -/
theorem C01_pool_clean (F : Facts) (hF : Facts.ok F) (h : List Op) (ω : Oracle) (k : Kind) (id : ObjId) (f : String) :
    (k, id) ∈ (run F ω h).1.free → f ∈ F.needsClean k → ((run F ω h).1.heap id).f f = 0 :=
  fun hm hf => (C01_invariant F hF h ω).pool.clean (k, id) hm f hf

/-- the decidable field check inside `Facts.ok`, spelled out: a read field is assigned by every acquire
    path of its kind or zeroed by the release path -/
theorem C01_reads_reset_or_cleared (F : Facts) (hF : Facts.ok F) (p : Acq) (f : String) :
    f ∈ F.reads (acqKind p) → f ∈ F.resets p ∨ f ∈ F.clears (relOf p) := by
  intro hr
  by_cases hn : f ∈ F.resets p
  · exact Or.inl hn
  · exact Or.inr (Facts.ok_clean hF p f (mem_needsClean hr hn))

/-- no step of any history reads a left-over field -/
theorem C01_never_stale (F : Facts) (hF : Facts.ok F) (h : List Op) (ω : Oracle) :
    ∀ o ∈ outs (run F ω h), o.stale = false := by
  rw [C01_history_independence F hF h ω]
  unfold runPure outs
  generalize PSt.init = ps
  induction h generalizing ps with
  | nil => intro o ho; simp [runPureFrom] at ho
  | cons op rest ih =>
    intro o ho
    simp only [runPureFrom, List.mem_cons] at ho
    rcases ho with ho | ho
    · rw [ho]; cases op <;> simp only [stepPure] <;> (try split) <;> rfl
    · exact ih _ o ho

/-- the pool-free machine's render is `renderFresh` of the engine's current templates: a function of the
    template table, the name and the context only — "a freshly created engine holding the same templates" -/
theorem C01_pure_is_fresh_engine (ps : PSt) (e : EngId) (n : Name) (vars : Vars) :
    (stepPure ps (.render e n vars)).2 = ⟨.rendered (renderFresh (ps e).tpls n vars), false⟩ := rfl

/-! ## non-vacuity -/

/-- the facts of the fixed tree pass the check -/
example : Facts.ok fixedFacts := by decide
/-- the facts of the pinned tree do not -/
example : ¬ Facts.ok pinnedFacts := by decide
/-- the tokenizer hand-off order alone is invisible to a serial history (it is C02's business) -/
example : Facts.ok { fixedFacts with tokReleasedBeforeRead := true } := by decide
/-- dropping a reset breaks the check: `sandboxed` is not zeroed by `Release` -/
example : ¬ Facts.ok { fixedFacts with
    resets := fun p => if p = .newRenderContext then newRenderContextResets.erase "sandboxed" else fixedFacts.resets p } := by
  decide

def srcHi : Src := ⟨[.text [104, 105]], false⟩                         -- hi
def srcB : Src := ⟨[.text [66]], false⟩                                -- B
def srcInc : Src := ⟨[.text [60], .incl "t", .text [62]], false⟩       -- <{% include 't' %}>
def srcBase : Src := ⟨[.text [91], .block "c" [.text [100]], .text [93]], false⟩   -- [{% block c %}d{% endblock %}]
def srcChild : Src := ⟨[.ext "base", .block "c" [.print "v"]], false⟩   -- {% extends 'base' %}{% block c %}{{ v }}{% endblock %}

/-- a history with includes, extends, a failing render, a parse error, a garbage collection and two engines,
    run with recycling pools on the fixed facts, gives the pool-free outputs (instance of the theorem, and a
    check that the outputs are not trivial) -/
example :
    outs (run fixedFacts Oracle.lifo
      [.register 0 "t" srcHi, .register 0 "i" srcInc, .render 0 "i" [], .render 0 "i" [],
       .register 0 "base" srcBase, .register 0 "child" srcChild, .render 0 "child" [("v", .s [120])],
       .render 0 "child" [], .register 1 "t" ⟨[.fail], false⟩, .render 1 "t" [], .gc (fun _ => false),
       .register 1 "x" ⟨[], true⟩, .render 1 "i" [], .render 0 "t" []])
    = [⟨.parsed true, false⟩, ⟨.parsed true, false⟩, ⟨.rendered (.ok [60, 104, 105, 62]), false⟩,
       ⟨.rendered (.ok [60, 104, 105, 62]), false⟩, ⟨.parsed true, false⟩, ⟨.parsed true, false⟩,
       ⟨.rendered (.ok [91, 120, 93]), false⟩, ⟨.rendered (.ok [91, 93]), false⟩, ⟨.parsed true, false⟩,
       ⟨.rendered (.err .render), false⟩, ⟨.unit, false⟩, ⟨.parsed false, false⟩,
       ⟨.rendered (.err .notFound), false⟩, ⟨.rendered (.ok [104, 105]), false⟩] := by decide

/-! ## regression instances: the pinned commit (tests of the model, not theorems about the code) -/

/-- pinned facts: the second render of a cached template is empty, with no error -/
theorem C01_counterexample_pinned_second_render_empty :
    outs (run pinnedFacts Oracle.lifo [.register 0 "t" srcHi, .render 0 "t" [], .render 0 "t" []])
      = [⟨.parsed true, false⟩, ⟨.rendered (.ok [104, 105]), false⟩, ⟨.rendered (.ok []), false⟩]
    ∧ outs (runPure [.register 0 "t" srcHi, .render 0 "t" [], .render 0 "t" []])
      = [⟨.parsed true, false⟩, ⟨.rendered (.ok [104, 105]), false⟩, ⟨.rendered (.ok [104, 105]), false⟩] := by
  decide

/-- pinned facts: the released root is handed to the next parse, so the older cached template renders
    the later-registered template's body -/
theorem C01_counterexample_pinned_renders_other_template :
    outs (run pinnedFacts Oracle.lifo
        [.register 0 "a" srcHi, .render 0 "a" [], .register 0 "b" srcB, .render 0 "a" []])
      = [⟨.parsed true, false⟩, ⟨.rendered (.ok [104, 105]), false⟩, ⟨.parsed true, false⟩, ⟨.rendered (.ok [66]), false⟩]
    ∧ outs (runPure [.register 0 "a" srcHi, .render 0 "a" [], .register 0 "b" srcB, .render 0 "a" []])
      = [⟨.parsed true, false⟩, ⟨.rendered (.ok [104, 105]), false⟩, ⟨.parsed true, false⟩, ⟨.rendered (.ok [104, 105]), false⟩] := by
  decide

/-- the same two histories are fine when the pool never recycles or on the fixed facts: the defect needs
    both the release of the root and a `Get` that returns it -/
example : outs (run pinnedFacts Oracle.fresh [.register 0 "a" srcHi, .render 0 "a" [], .register 0 "b" srcB, .render 0 "b" []])
    = outs (runPure [.register 0 "a" srcHi, .render 0 "a" [], .register 0 "b" srcB, .render 0 "b" []]) := by decide

/-- were `NewRenderContext` to stop resetting `sandboxed` (a field `Release` does not zero), the second
    render would read the flag the first one left behind: the model reports the step as stale -/
def noSandboxReset : Facts := { fixedFacts with
  resets := fun p => if p = .newRenderContext then newRenderContextResets.erase "sandboxed" else fixedFacts.resets p }

theorem C01_counterexample_unreset_field :
    (outs (run noSandboxReset Oracle.lifo [.register 0 "t" srcHi, .render 0 "t" [], .render 0 "t" []])).map (·.stale)
      = [false, false, true] := by decide

end Twig.Pool
