import TwigProofs.Audit
import TwigProofs.C01
import TwigProofs.C04
import TwigProofs.C13
import TwigProofs.C14
import TwigProofs.C15
import TwigProofs.C19
import TwigProofs.C20
