#!/usr/bin/env python3
"""Regenerates /verif/MANIFEST.json from the table below (claimed checks) and properties.jsonl."""
import json, os
ROOT = os.path.dirname(os.path.dirname(os.path.abspath(__file__)))
props = [json.loads(l) for l in open(os.path.join(ROOT, "properties.jsonl"))]

TRUST = ("Trusted: Lean 4.33 kernel (axioms ⊆ {propext, Classical.choice, Quot.sound}, audited on every run); the go/types fact extractor /verif/extract; "
         "the hand-written Lean model is tied to the Go code only by the correspondence run (differential testing, reported in the evidence); "
         "harness generators and canonicalisation; Go standard library and runtime. ")

# id -> (category, text, note, technique, design_ref)
CLAIMS = {
 "C05": ("proof",
         "PARTIAL by nature: a Lean model cannot exhibit a Go panic, a runtime fatal error or a wall-clock hang; what it carries is TERMINATION and TOTALITY of the modelled code, proved for every input: the fuel of the lexer, trim loops and scanners is always enough (C05_lex_fuel, C05_trim_fuel, C05_scan_fuel); all 14 mutually recursive expression-parser functions and the 8 template-parser functions are fuel-monotone and never run out of the fuel the model gives them on ANY token list (C05_expr_fuel_adequate, C05_tpl_fuel_adequate), so parsing returns nodes or a parse error, never diverges (C05_parse_total); expression evaluation never runs out of fuel and a render only does so through template/macro recursion, the case the property excludes (C05_render_fuel_is_recursion); the container decoder is total (C05_decode_total). "
         "Search for panics/hangs on the real code (implementation-only): mutation fuzz of generator templates and tag soup with engine reuse afterwards, a zoo of ≈ 45 Go value shapes × ≈ 70 templates over every built-in filter/function/test/operator in two passes (cold and warm process-wide caches), hostile compiled-template bytes incl. 32-bit boundary length prefixes; every case under recover and a 10 s watchdog.",
         TRUST + "Not verifiable here: reflection over arbitrary user-defined types (methods with side effects), encoding/gob on hostile bytes, memory exhaustion. Panic freedom of the Go index arithmetic is evidenced by the correspondence (the model uses total list operations where Go slices) and the fuzz, not by a theorem.",
         "Lean 4 proof (fuel adequacy/monotonicity = termination of the transliterated parsers; totality of the decoder) + fuzz/type-zoo search on the real code", "DESIGN.md §4 C05"),
 "C11": ("proof",
         "Lean theorems over the validated whole-pipeline model, for every include node, option combination, context and `go`: after an include the includer's context (variables, macros, blocks, flags) is exactly what it was (C11_non_interference, built on evalX_ctx: expression evaluation never changes the context); the included template sees the `with` variables (last duplicate wins) over the includer's visible variables, only the `with` variables under `only`, the flattened copy of the whole scope chain under `sandboxed` (C11_visibility_*); a missing template is empty output under `ignore missing` and notFound otherwise, any other failure propagates even with `ignore missing` (C11_ignore_missing, _only_missing, _existing_failure_reported). An included template that extends a layout keeps the includer's scopes (C11_extends_keeps_visibility, C11_extends_hands_over). Relative names (./x, ../x) resolve against the directory of the template the render call started from, then fall back to the name as written (resolveTpl over pathClean/pathDir/pathJoin = Go's filepath: C11_relative_resolves_against_entry, C11_relative_falls_back_to_written, C11_relative_without_entry, C11_resolved_name_is_clean, C11_include_resolved). Engine globals are in the model: C11_context_shadows_global, C11_global_visible_everywhere, C11_global_visible_in_only_include, C11_defined_iff / C11_defined_scope_independent. "
         "Tie: 4 variable names × unset/context/set-before × with/only/ignore missing/sandboxed × static/computed/missing/failing target × placement at top level, in a loop, block, macro, nested include; view of the included template and probes before/after checked against the scope rule on the real engine and against the Lean pipeline.",
         TRUST + "The includer's macros are hidden from a sandboxed include and loop variables stay bound after a loop — modelled as in Go; the property is silent on both.",
         "Lean 4 proof (frame reasoning over the context chain) + differential correspondence + scope-rule oracle", "DESIGN.md §4 C11"),
 "C03": ("proof",
         "Lean permutation-invariance lemma per loop schema (copy-all, delete-all, collect-then-sort, any-match, min-key, keyed copy, guarded fallback …) and C03_sites_order_independent: every `range` over a map and every reflect MapKeys/MapRange call in the package, regenerated from the Go source with its schema, is order-insensitive or in a justified allow-list; the key comparator of sortedMapKeys is modelled and proved a total order on everything observable (C03_sorted_keys_total_order, any number of NaN keys), hash literals are last-wins in source order, merge is stable, the date-format translation is a single left-to-right pass (C03_dateformat_single_pass); no process-wide state other than the closed list of C01 exists (C03_process_state_closed, regenerated from the source). "
         "Tie: 46 extracted map-iteration sites re-classified on every run; programs over nested/typed/interface-keyed maps rendered 30× in-process and in child processes; 16 155 date formats against time.Format of the model's layout. Known findings: printing addresses / macro objects, pointer keys with equal content, printing a map with several NaN keys.",
         TRUST + "Schema recognisers are syntactic and conservative; error-text nondeterminism (which of several failing `with` expressions is reported) is counted, not treated as a violation.",
         "Lean 4 proof (permutation invariance per schema, total-order proof of the comparator) + regenerated site table + repeated-render / fresh-process oracle", "DESIGN.md §4 C03"),
 "C06": ("proof",
         "Lean theorem C06_confinement over the validated whole-pipeline model, for EVERY environment, policy, template set, fuel and nesting: every filter/function event emitted inside the dynamic extent of `include … sandboxed` (tracked by a ghost flag the code never reads) is on the policy's allow-lists; C06_flag_invariant: all twelve context derivations (include in three forms, extends, import, from, macro call, block transfer, parent()) preserve `inside → sandboxed`; a denied call is a security error and emits no event; outside the sandbox and for allowed names behaviour is unchanged; pinned-tree counterexamples by kernel evaluation. "
         "Tie: the eight sandbox facts (policy checks dominating every dynamic FilterFunc/FunctionFunc call found by TYPE, flag propagation at every NewRenderContext/Clone site) are regenerated from the Go source (C06_facts_current); 24 positions × 10 routes with forbidden/allowed/outside variants and random sandboxed programs with random policies, spy callbacks counted on the real engine and compared with the model's trace.",
         TRUST + "Callbacks themselves are opaque; IsTagAllowed is never consulted by the engine (outside the property).",
         "Lean 4 proof (ghost-flag invariant, induction on fuel + mutual structural induction) + regenerated sandbox facts + differential correspondence with spy counters", "DESIGN.md §4 C06"),
 "C07": ("proof",
         "Lean theorems for ALL byte strings about the byte-wise escaper (the html.EscapeString table): no raw < > \" ' and every & starts one of the five references (C07_no_raw), decoding gives back the input (C07_roundtrip), all other bytes unchanged (C07_others_unchanged), e ≡ escape (C07_alias on the registration table), plus the fallback escaper for valid UTF-8 with its invalid-UTF-8 counterexample (reachable only with a nil environment). "
         "Tie: 22 application routes (print, chain, apply, macro via _self/import/from, include, for, set × e/escape) on all 256 bytes and all 65 536 byte pairs exhaustively, invalid UTF-8, 1 MiB strings, non-string values; Go's html.UnescapeString as the independent decoder.",
         TRUST + "Trusted: html.EscapeString is the byte-wise replacer modelled (validated exhaustively on pairs).",
         "Lean 4 proof (per-byte lemma + induction) + exhaustive small-scope correspondence", "DESIGN.md §4 C07"),
 "C08": ("proof",
         "Lean theorems about the REAL model parser (the fuel-indexed transliteration of parser.go): the minimal-parenthesis and the full-parenthesis spelling of every expression tree over prefix/binary operators, argument-less tests and the conditional parse back to that tree (C08_parse_printMin/_printFull, hence equal values), left associativity, precedence order or < and < comparison < additive < multiplicative < power (C08_table_order), fuel monotonicity and adequacy on EVERY token list, lexer spacing invariance (C08_lex_spacing), exact integer arithmetic/comparison/concatenation and error cases (C08_arith_exact), short-circuit and one-branch conditional for any right operand (C08_short_circuit_*). "
         "Tie: precedence table, operator words and climbing structure regenerated from getOperatorPrecedence/peekBinaryOperator/parseBinaryPrec (C08_facts_current); every ordered operator pair × both groupings, random trees in minimal/full/random spellings, ten syntactic positions, spy-observed short-circuit, arithmetic against math/big.",
         TRUST + "Not covered by the round-trip theorem: tests with arguments, attribute/index/filter/call suffixes, array/hash literals and the eight positions (covered by the correspondence only). Floats beyond ±2^53 and non-integral results are outside the property and `unsupported` in the model.",
         "Lean 4 proof (Pratt-parser round trip, fuel adequacy) + regenerated precedence facts + differential correspondence", "DESIGN.md §4 C08"),
 "C09": ("proof",
         "Lean theorems over the validated whole-pipeline model: falsy table (C09_falsy_table); an if/elseif/else chain of any length renders exactly the first truthy branch, later conditions are not evaluated (C09_if_chain_*); for over lists, maps and ASCII strings unrolls to one body rendering per element in order with value/key/loop bound and state threaded between iterations, else exactly when nothing to iterate (C09_for_*), loop counters (C09_loop_meta), the surrounding loop variable is restored (C09_nested), set is visible to everything after it incl. later iterations (C09_set_visible, _persists), range = inclusive arithmetic progression, error for step 0 (C09_range). "
         "Tie: random programs nesting if/for/set/include/apply/verbatim over every value kind rendered by the real engine and by the Lean pipeline from source; loop metadata for every length (lists and typed slices) checked directly.",
         TRUST + "Non-ASCII string loops and ranges over 10 000 elements are `unsupported` in the model (C09_for_string_partial names the exclusion); covered by the direct oracles only.",
         "Lean 4 proof (loop unrolling by induction on the item list, chain induction) + differential correspondence", "DESIGN.md §4 C09"),
 "C16": ("proof",
         "Lean theorems about the byte-exact model of the compiled-template container: decode (encode c) = c for every content below 2^32 bytes (C16_roundtrip), encode is injective and prefix-free, decode is total and never allocates beyond the input length (C16_decode_total, C16_alloc_bounded), every strict prefix of an encoding is rejected (C16_prefix_rejected, full strength after the repair), loading a compiled template re-parses exactly the stored source (C16_load_equiv), 4 GiB truncation shown on lengths. "
         "Tie: byte-for-byte encode comparison, every truncation and every single-position mutation of small encodings, junk suffixes, legacy gob streams, measured allocation; end to end through RegisterCompiledTemplate / LoadFromCompiledData / CompiledLoader in a temp dir rendered against the source engine.",
         TRUST + "The gob/AST payload is modelled as opaque bytes (it never decodes in practice: the source is always re-parsed — checked by experiment); encoding/gob and encoding/binary are trusted.",
         "Lean 4 proof (codec round trip, prefix-freeness) + differential correspondence", "DESIGN.md §4 C16"),
 "C17": ("proof",
         "Lean theorem over the validated whole-pipeline model: for every program without `<expr>.attr is defined` and every n, if the fault-free render performs more than n callback invocations then failing the n-th yields exactly an error carrying cause n and no output (C17_propagates_partial; the full statement is refuted by C17_counterexample_isdefined — a recorded finding); unknown filter/function/test/macro/template are errors (C17_unresolved); undefined variables/attributes and `ignore missing` are the only tolerances (C17_tolerances, _only). "
         "Tie: every statement of the render path that discards an error, regenerated from the Go source, equals a 22-entry justified allow-list (C17_facts_current); fault injection at every spy invocation of generated programs (include/extends/parent/import/from/macros/loops) with errors.As on the sentinel, unresolved names, a failing custom loader reached by include/extends/import/from.",
         TRUST + "One allow-listed drop site (renderVariableString, macro-body text containing a literal `{{`) is outside the model and not verified.",
         "Lean 4 proof (parallel-run simulation up to the failing invocation) + regenerated error-drop table + fault-injection correspondence", "DESIGN.md §4 C17"),
 "C10": ("proof",
         "Lean theorems over the validated whole-pipeline model for extends chains of ANY length: the root pass hands the base template exactly the list of definitions of every block, most derived first (C10_registerBlocks_spec); an extending template renders none of its own top-level nodes (C10_child_text_no_output); every block node, wherever it stands, renders the head of that list, an empty override renders nothing (C10_block_renders_most_derived, C10_empty_override); parent() renders the next definition with the same variables and restores the level, error when there is none (C10_parent); nothing but the root pass changes the block table (C10_frame); C10_substitution ties renderTop of the most derived template to the base rendered under the chain's table; the chain theorem holds from an ARBITRARY starting context, i.e. also for an extending template that was reached through an include. "
         "Tie: every assignment of omit/define/blank/parent() for ≤ 3 levels × ≤ 2 blocks and sampled chains to 5 levels, rendered by the real engine, by the Lean pipeline from source, and by an independent substitution spec written in the harness.",
         TRUST + "The deep claim 'every block at any nesting depth sees the table' follows compositionally from the frame lemma; it is not stated as one closed equation.",
         "Lean 4 proof (induction on chain length and fuel, frame lemma over the mutual recursion) + differential correspondence + independent spec oracle", "DESIGN.md §4 C10"),
 "C12": ("proof",
         "Lean theorems over the validated whole-pipeline model: positional binding with defaults evaluated in the caller's state, null for the rest, extra arguments ignored (C12_binding and corollaries); the body runs in a context whose own variables are exactly the parameters with the caller's scope as parent chain and the caller's context is restored exactly (C12_shadow_and_isolation); a parameter reads as its bound value whatever macros are visible (C12_param_read); direct, _self, import, from-import and aliased calls evaluate to the same callable (C12_routes_agree, C12_import_and_from_agree); for every macro NAME, also names of built-in functions (C12_routes_agree_function_named); every top-level macro of the defining template is callable from a macro body however it was reached (C12_siblings). "
         "Tie: all signatures of arity ≤ 3 × default subsets × argument counts × five routes (and sampled placements in loops, blocks, macros) on the real engine, the Lean pipeline and an independent binding spec.",
         TRUST + "Not proved: agreement of the two macro declaration parsers (the combined-token path is unreachable from the tokenizer).",
         "Lean 4 proof (route-by-route evaluation lemmas, binding induction) + differential correspondence + independent spec oracle", "DESIGN.md §4 C12"),
 "C01": ("proof",
         "Lean proof for ALL histories, all pool behaviours (Get picks any pooled object or allocates; gc drops any subset) and 1..n engines: the pooled machine, parameterised by facts about which fields every acquire path resets and every release clears, produces exactly the outputs of the pool-free machine (C01_history_independence), a render leaves every cache and cached object unchanged (C01_render_preserves_cache), no cached object is ever pooled, no double release, no stale field is ever read. The process-wide state of the package is a closed list regenerated from the source (emitter ProcState: every package-level variable with every use that can change it): C01_process_state_closed, C01_pools_get_put_only — only the pools (used through Get/Put), attributeCache (C20), string interning, byte buffers and the logger survive a call. "
         "Tie: histories on real engines (register, parse-only, ok/failing renders, cache toggles, GC, several engines) compared per render with a fresh engine, with a pristine child process and with the Lean model under LIFO/FIFO/random pool oracles.",
         TRUST + "The field/reset tables of the facts record are hand-transcribed (cross-checked with a go/ast script, validated by the correspondence); sync.Pool's real scheduling is over-approximated by the oracle; the per-template render function of this model is a small evaluator (the full renderer is the separate pipeline model).",
         "Lean 4 proof (simulation invariant over all operation histories and pool oracles) + differential correspondence + pristine-process oracle", "DESIGN.md §4 C01"),
 "C02": ("proof",
         "PARTIAL by nature (a Lean model cannot exhibit the Go memory model, the runtime's race / concurrent-map-write detectors or sync.Pool internals). Proved for EVERY schedule: lockset race-freedom of the access tables regenerated from the Go source (C02_lockset, C02_facts_current), schedule-independence of every call's result for the property's workload (C02_serial_equiv_static, C02_concurrent_equals_serial) and that relative names resolve from the call's own context (C02_relative_names); pinned-tree counterexamples; the lost-update interleaving of Load/RegisterString is modelled for both values of the re-check fact. "
         "Tie: typed-AST extractor of every shared access with its lock region (regenerated each run), multi-goroutine stress in a child process (also under -race) checked against serially computed outputs with per-goroutine markers, deterministic replay of the lost-update schedule with a blocking loader.",
         TRUST + "Not covered by the emitter: node trees, RenderContext and the other pooled objects, user callbacks. Residual (documented): a relative name resolves against the template the render call started from, not the template containing the tag.",
         "Lean 4 proof (lockset + invariant over all schedules) + regenerated lock facts + race-detector stress", "DESIGN.md §4 C02"),
 "C18": ("proof",
         "Lean frame theorem (C18_frame: any sequence of heap operations that writes only addresses allocated after entry leaves every caller address unchanged; compositional), aliasing lemmas for slice windows and append into spare capacity, context-copy lemma, and C18_sites_ok: every store / append / copy / delete / sort / reflect setter site in the render path, regenerated from the Go source with its provenance, writes only fresh, context-private or lock-guarded cache memory (decide over the generated table). "
         "Tie: deep snapshots (incl. slice capacity tails) of nested typed/untyped context data before and after ≈ 27 000 renders covering every pair of list/map filters, set/loop/include/macro shadowing, serial and concurrent sharing.",
         TRUST + "Provenance classification is intra-procedural and conservative; user methods called through attribute access may mutate their receivers (callbacks, excluded by the property).",
         "Lean 4 proof (frame rule) + regenerated write-site provenance table + snapshot oracle", "DESIGN.md §4 C18"),
 "C19": ("proof",
         "Lean theorems for every input of the stated type: idempotence of upper/lower/trim/capitalize/title (under case-map laws checked against Go's unicode tables for every code point on every run), reverse involution and length preservation (with Go's exact UTF-8 decoding), sort = ordered permutation (and canonical), length = number of items first/last/slice/for observe, split∘join, default, merge, keys, slice = Twig's index rules for every 64-bit start/length (C19_slice_total), round = exact decimal rounding for common/ceil/floor (C19_round_exact, C19_round_mode_exact), abs, number_format digit grouping (a negative number of decimals means none, more than a million is an error: C19_number_format_negative_decimals, C19_number_format_too_many_decimals). The same filters inside arbitrary programs: TwigProofs/C19Pipe.lean (34 theorems C19_pipe_*) proves that the pipeline model's length/first/last/reverse/trim/slice/sort/split/capitalize/title are the filter model's functions on converted values and transports the equations to pipeline level. "
         "Tie: ≈ 190 000 model comparisons per quick run through real templates, plus the equations checked directly on implementation output. Known findings (pinned by the repo's own tests): number_format decimal ties, multi-character split, split of an empty join.",
         TRUST + "Trusted: strings.Map/Fields/TrimSpace/regexp.Split read into rune-level definitions; FormatFloat/ParseFloat round-trip of decimals with ≤ 15 digits; binary evaluation exact away from ties for number_format.",
         "Lean 4 proof (per-filter algebraic laws for all inputs) + differential correspondence", "DESIGN.md §4 C19"),
 "C04": ("proof",
         "Lean theorems over ALL byte strings about the exact model of both tokenizers (C04_text_only, C04_chunks, C04_chunks_texts, C04_comment_inert_tokens): literal chunks come out as TEXT tokens exactly once, unmodified, in order; comments contribute one inert token triple. Lifted to the whole pipeline (TwigProofs/Lift.lean): C04_text_only_render, C04_output_render (output = literals interleaved with values, errors included), C04_comment_inert_render (any rest of template, under the decidable NoReach; the counterexample theorem shows why), C04_verbatim_*_render. "
         "The model is tied to the code on every run by the token-stream and whole-pipeline (scan→parse→render in Lean) correspondence plus implementation-only oracles (chunks interleaved with marker values, comment/verbatim inertness with spy callbacks).",
         TRUST + "Modelled, not verified: parser/renderer paths of text, comment and verbatim nodes are covered by the pipeline correspondence, not by a theorem yet. Known finding: backslash before an opener (C04_counterexample_backslash).",
         "Lean 4 proof (induction over byte strings / chunk lists) + differential correspondence", "DESIGN.md §4 C04"),
 "C13": ("proof",
         "Lean theorems for every template shape and every subset of dashed delimiters (C13_commutes: scanning the dashed source and applying whitespace control + kind normalisation equals scanning the hand-trimmed source, up to empty TEXT tokens; C13_only_ws; C13_applyWs_spec). Lifted to rendering: C13_commutes_render — for ALL tag kinds (include with every option and verbatim included), any subset of dashes, any context: the dashed template renders exactly like the hand-trimmed one (same output or same error), no fuel hypothesis (parser fuel adequacy proved); C13_render_dropEmptyText. "
         "Tie: Lean pipeline vs real engine on dashed programs; implementation-only oracle render(dashed) = render(hand-trimmed) for every tag kind and delimiter.",
         TRUST + "The lift from token streams to rendered output (an empty TEXT token prints nothing and never affects parsing) is covered by the correspondence, not yet by a theorem.",
         "Lean 4 proof (token-stream commutation lemma, induction over chunk/tag lists) + differential correspondence", "DESIGN.md §4 C13"),
 "C14": ("proof",
         "Lean theorem C14_scanners_agree: the two tokenizers produce the same token stream (or the same error) for EVERY byte string, hence the 4096-byte threshold is unobservable (C14_scan_threshold_irrelevant); C14_padding_*: literal padding only extends/introduces TEXT tokens; fuel adequacy. Lifted: C14_scanners_agree_render / C14_threshold_render (rendering does not depend on which tokenizer ran), C14_padding_parse, C14_padding_render, C14_comment_padding_render, C14_padding_between_nodes_render. "
         "Tie: threshold and token constants regenerated from the Go source (C14_facts_tokens), exhaustive small-scope + random token-stream correspondence for both real tokenizers, padded renders straddling every size class.",
         TRUST + "Buffer/pool size classes are exercised by the padding oracle only (runtime behaviour outside the model).",
         "Lean 4 proof (scanner equivalence for all inputs) + regenerated facts + differential correspondence", "DESIGN.md §4 C14"),
 "C15": ("proof",
         "Refinement proof in Lean: the transliterated Engine.Load/Register*/Set* state machine serves, for EVERY history of configuration changes, registrations, loader updates and calls, exactly what the six sentences of the property (written as an independent spec over the history) call for (C15_refines, C15_S1…S6, C15_inv, C15_notfound_cache_unchanged). "
         "Tie: step-by-step correspondence (served version, error class, loader read counters, cache keys) on all op words of length ≤ 4 and random long histories, plus direct per-sentence oracles on the real engine.",
         TRUST + "Not modelled: parse errors of loader sources, GetModifiedTime failures, concurrency, FileSystemLoader's path memo. The eager reading of S5 under auto-reload is refuted and documented (C15_S5_eager_counterexample).",
         "Lean 4 refinement proof (invariant over all histories) + differential correspondence", "DESIGN.md §4 C15"),
 "C20": ("proof",
         "Lean proof that the attribute cache is transparent for every lookup history and every eviction behaviour (eviction = arbitrary subset removal): C20_cache_transparent, C20_history_independent, C20_key_injective, C20_resolution_right (full index path ⇒ promoted fields; value/pointer methods; string-keyed maps), C20_size_bounded. "
         "Tie: the same lookup histories on the real engine (reflect.StructOf types + hand-written zoo, cache floods beyond capacity) compared per lookup with the model and with an independent reflection oracle.",
         TRUST + "Not modelled: embedded interfaces, embedded named non-struct types, concurrency; the FACT record (key components, index path, maxSize, eviction count) is validated by the correspondence.",
         "Lean 4 proof (cache invariant over all histories and eviction oracles) + differential correspondence", "DESIGN.md §4 C20"),
}

checks = []
for p in props:
    pid = p["id"]
    if pid not in CLAIMS:
        continue
    cat, text, note, tech, ref = CLAIMS[pid]
    checks.append({
        "property_id": pid,
        "quick_cmd": "./check %s quick" % pid,
        "thorough_cmd": "./check %s thorough" % pid,
        "evidence_file": "/verif/evidence/%s.json" % pid,
        "replay_cmd_template": "./check --replay {path}",
        "engine": "lean4-proof+correspondence",
        "level_claimed": {"category": cat, "text": text, "design_ref": ref},
        "level_note": note,
        "technique": tech,
    })

na = [{"property_id": p["id"], "reason": "check under construction in this session (model/proofs/harness not integrated yet); see DESIGN.md §8 staging"}
      for p in props if p["id"] not in CLAIMS]

m = {
 "version": 1,
 "setup_cmd": "./setup.sh",
 "hooks": {"guard": "verif", "enable": "go build -tags verif (the harness is always built with the tag; no hook file is needed so far: everything is observed through the exported API)",
           "baseline_off_cmd": "cd /repo && go test -json -vet=off -count=1 -timeout 25m ./...", "source_commits": [], "add_only": True},
 "engines": [{"name": "lean4-proof+correspondence", "path": "/verif/check",
              "serves_properties": [c["property_id"] for c in checks],
              "kind_free_text": "per property: regenerate TwigGen facts from /repo (go/types extractor) → lake build TwigProofs.<id> (Lean kernel) → axiom audit → Go harness runs the real code and the compiled Lean model (JSON line protocol) on the same generated cases and implementation-only oracles → known findings / violations / evidence"}],
 "checks": checks,
 "notes": "All machinery is in /verif; `./check <id> <quick|thorough>`; known findings in known_findings.json; replays under replays/.",
 "not_applicable": na,
}
json.dump(m, open(os.path.join(ROOT, "MANIFEST.json"), "w"), indent=1, ensure_ascii=False)
print("claimed:", [c["property_id"] for c in checks])
