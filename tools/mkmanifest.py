#!/usr/bin/env python3
"""Regenerates /verif/MANIFEST.json from the table below (claimed checks) and properties.jsonl."""
import json, os
ROOT = os.path.dirname(os.path.dirname(os.path.abspath(__file__)))
props = [json.loads(l) for l in open(os.path.join(ROOT, "properties.jsonl"))]

TRUST = ("Trusted: Lean 4.33 kernel (axioms ⊆ {propext, Classical.choice, Quot.sound}, audited on every run); the go/types fact extractor /verif/extract; "
         "the hand-written Lean model is tied to the Go code only by the correspondence run (differential testing, reported in the evidence); "
         "harness generators and canonicalisation; Go standard library and runtime. ")

# id -> (category, text, note, technique, design_ref)
CLAIMS = {
 "C10": ("proof",
         "Lean theorems over the validated whole-pipeline model for extends chains of ANY length: the root pass hands the base template exactly the list of definitions of every block, most derived first (C10_registerBlocks_spec); an extending template renders none of its own top-level nodes (C10_child_text_no_output); every block node, wherever it stands, renders the head of that list, an empty override renders nothing (C10_block_renders_most_derived, C10_empty_override); parent() renders the next definition with the same variables and restores the level, error when there is none (C10_parent); nothing but the root pass changes the block table (C10_frame); C10_substitution ties renderTop of the most derived template to the base rendered under the chain's table. "
         "Tie: every assignment of omit/define/blank/parent() for ≤ 3 levels × ≤ 2 blocks and sampled chains to 5 levels, rendered by the real engine, by the Lean pipeline from source, and by an independent substitution spec written in the harness.",
         TRUST + "The deep claim 'every block at any nesting depth sees the table' follows compositionally from the frame lemma; it is not stated as one closed equation.",
         "Lean 4 proof (induction on chain length and fuel, frame lemma over the mutual recursion) + differential correspondence + independent spec oracle", "DESIGN.md §4 C10"),
 "C12": ("proof",
         "Lean theorems over the validated whole-pipeline model: positional binding with defaults evaluated in the caller's state, null for the rest, extra arguments ignored (C12_binding and corollaries); the body runs in a context whose own variables are exactly the parameters with the caller's scope as parent chain and the caller's context is restored exactly (C12_shadow_and_isolation); a parameter reads as its bound value whatever macros are visible (C12_param_read); direct, _self, import, from-import and aliased calls evaluate to the same callable (C12_routes_agree, C12_import_and_from_agree); every top-level macro of the defining template is callable from a macro body however it was reached (C12_siblings). "
         "Tie: all signatures of arity ≤ 3 × default subsets × argument counts × five routes (and sampled placements in loops, blocks, macros) on the real engine, the Lean pipeline and an independent binding spec.",
         TRUST + "Not proved: agreement of the two macro declaration parsers (the combined-token path is unreachable from the tokenizer).",
         "Lean 4 proof (route-by-route evaluation lemmas, binding induction) + differential correspondence + independent spec oracle", "DESIGN.md §4 C12"),
 "C01": ("proof",
         "Lean proof for ALL histories, all pool behaviours (Get picks any pooled object or allocates; gc drops any subset) and 1..n engines: the pooled machine, parameterised by facts about which fields every acquire path resets and every release clears, produces exactly the outputs of the pool-free machine (C01_history_independence), a render leaves every cache and cached object unchanged (C01_render_preserves_cache), no cached object is ever pooled, no double release, no stale field is ever read. "
         "Tie: histories on real engines (register, parse-only, ok/failing renders, cache toggles, GC, several engines) compared per render with a fresh engine, with a pristine child process and with the Lean model under LIFO/FIFO/random pool oracles.",
         TRUST + "The field/reset tables of the facts record are hand-transcribed (cross-checked with a go/ast script, validated by the correspondence); sync.Pool's real scheduling is over-approximated by the oracle; the per-template render function of this model is a small evaluator (the full renderer is the separate pipeline model).",
         "Lean 4 proof (simulation invariant over all operation histories and pool oracles) + differential correspondence + pristine-process oracle", "DESIGN.md §4 C01"),
 "C02": ("proof",
         "PARTIAL by nature (a Lean model cannot exhibit the Go memory model, the runtime's race / concurrent-map-write detectors or sync.Pool internals). Proved for EVERY schedule: lockset race-freedom of the access tables regenerated from the Go source (C02_lockset, C02_facts_current), schedule-independence of every call's result for the property's workload (C02_serial_equiv_static, C02_concurrent_equals_serial) and that relative names resolve from the call's own context (C02_relative_names); pinned-tree counterexamples; the lost-update interleaving of Load/RegisterString is modelled for both values of the re-check fact. "
         "Tie: typed-AST extractor of every shared access with its lock region (regenerated each run), multi-goroutine stress in a child process (also under -race) checked against serially computed outputs with per-goroutine markers, deterministic replay of the lost-update schedule with a blocking loader.",
         TRUST + "Not covered by the emitter: node trees, RenderContext and the other pooled objects, user callbacks. Residual (documented): a relative name resolves against the template the render call started from, not the template containing the tag.",
         "Lean 4 proof (lockset + invariant over all schedules) + regenerated lock facts + race-detector stress", "DESIGN.md §4 C02"),
 "C18": ("proof",
         "Lean frame theorem (C18_frame: any sequence of heap operations that writes only addresses allocated after entry leaves every caller address unchanged; compositional), aliasing lemmas for slice windows and append into spare capacity, context-copy lemma, and C18_sites_ok: every store / append / copy / delete / sort / reflect setter site in the render path, regenerated from the Go source with its provenance, writes only fresh, context-private or lock-guarded cache memory (decide over the generated table). "
         "Tie: deep snapshots (incl. slice capacity tails) of nested typed/untyped context data before and after ≈ 27 000 renders covering every pair of list/map filters, set/loop/include/macro shadowing, serial and concurrent sharing.",
         TRUST + "Provenance classification is intra-procedural and conservative; user methods called through attribute access may mutate their receivers (callbacks, excluded by the property).",
         "Lean 4 proof (frame rule) + regenerated write-site provenance table + snapshot oracle", "DESIGN.md §4 C18"),
 "C19": ("proof",
         "Lean theorems for every input of the stated type: idempotence of upper/lower/trim/capitalize/title (under case-map laws checked against Go's unicode tables for every code point on every run), reverse involution and length preservation (with Go's exact UTF-8 decoding), sort = ordered permutation (and canonical), length = number of items first/last/slice/for observe, split∘join, default, merge, keys, slice = Twig's index rules for every 64-bit start/length (C19_slice_total), round = exact decimal rounding for common/ceil/floor (C19_round_exact, C19_round_mode_exact), abs, number_format digit grouping. "
         "Tie: ≈ 190 000 model comparisons per quick run through real templates, plus the equations checked directly on implementation output. Known findings (pinned by the repo's own tests): number_format decimal ties, multi-character split, split of an empty join.",
         TRUST + "Trusted: strings.Map/Fields/TrimSpace/regexp.Split read into rune-level definitions; FormatFloat/ParseFloat round-trip of decimals with ≤ 15 digits; binary evaluation exact away from ties for number_format.",
         "Lean 4 proof (per-filter algebraic laws for all inputs) + differential correspondence", "DESIGN.md §4 C19"),
 "C04": ("proof",
         "Lean theorems over ALL byte strings about the exact model of both tokenizers (C04_text_only, C04_chunks, C04_chunks_texts, C04_comment_inert_tokens): literal chunks come out as TEXT tokens exactly once, unmodified, in order; comments contribute one inert token triple. "
         "The model is tied to the code on every run by the token-stream and whole-pipeline (scan→parse→render in Lean) correspondence plus implementation-only oracles (chunks interleaved with marker values, comment/verbatim inertness with spy callbacks).",
         TRUST + "Modelled, not verified: parser/renderer paths of text, comment and verbatim nodes are covered by the pipeline correspondence, not by a theorem yet. Known finding: backslash before an opener (C04_counterexample_backslash).",
         "Lean 4 proof (induction over byte strings / chunk lists) + differential correspondence", "DESIGN.md §4 C04"),
 "C13": ("proof",
         "Lean theorems for every template shape and every subset of dashed delimiters (C13_commutes: scanning the dashed source and applying whitespace control + kind normalisation equals scanning the hand-trimmed source, up to empty TEXT tokens; C13_only_ws; C13_applyWs_spec). "
         "Tie: Lean pipeline vs real engine on dashed programs; implementation-only oracle render(dashed) = render(hand-trimmed) for every tag kind and delimiter.",
         TRUST + "The lift from token streams to rendered output (an empty TEXT token prints nothing and never affects parsing) is covered by the correspondence, not yet by a theorem.",
         "Lean 4 proof (token-stream commutation lemma, induction over chunk/tag lists) + differential correspondence", "DESIGN.md §4 C13"),
 "C14": ("proof",
         "Lean theorem C14_scanners_agree: the two tokenizers produce the same token stream (or the same error) for EVERY byte string, hence the 4096-byte threshold is unobservable (C14_scan_threshold_irrelevant); C14_padding_*: literal padding only extends/introduces TEXT tokens; fuel adequacy. "
         "Tie: threshold and token constants regenerated from the Go source (C14_facts_tokens), exhaustive small-scope + random token-stream correspondence for both real tokenizers, padded renders straddling every size class.",
         TRUST + "Buffer/pool size classes are exercised by the padding oracle only (runtime behaviour outside the model).",
         "Lean 4 proof (scanner equivalence for all inputs) + regenerated facts + differential correspondence", "DESIGN.md §4 C14"),
 "C15": ("proof",
         "Refinement proof in Lean: the transliterated Engine.Load/Register*/Set* state machine serves, for EVERY history of configuration changes, registrations, loader updates and calls, exactly what the six sentences of the property (written as an independent spec over the history) call for (C15_refines, C15_S1…S6, C15_inv, C15_notfound_cache_unchanged). "
         "Tie: step-by-step correspondence (served version, error class, loader read counters, cache keys) on all op words of length ≤ 4 and random long histories, plus direct per-sentence oracles on the real engine.",
         TRUST + "Not modelled: parse errors of loader sources, GetModifiedTime failures, concurrency, FileSystemLoader's path memo. The eager reading of S5 under auto-reload is refuted and documented (C15_S5_eager_counterexample).",
         "Lean 4 refinement proof (invariant over all histories) + differential correspondence", "DESIGN.md §4 C15"),
 "C20": ("proof",
         "Lean proof that the attribute cache is transparent for every lookup history and every eviction behaviour (eviction = arbitrary subset removal): C20_cache_transparent, C20_history_independent, C20_key_injective, C20_resolution_right (full index path ⇒ promoted fields; value/pointer methods; string-keyed maps), C20_size_bounded. "
         "Tie: the same lookup histories on the real engine (reflect.StructOf types + hand-written zoo, cache floods beyond capacity) compared per lookup with the model and with an independent reflection oracle.",
         TRUST + "Not modelled: embedded interfaces, embedded named non-struct types, concurrency; the FACT record (key components, index path, maxSize, eviction count) is validated by the correspondence.",
         "Lean 4 proof (cache invariant over all histories and eviction oracles) + differential correspondence", "DESIGN.md §4 C20"),
}

checks = []
for p in props:
    pid = p["id"]
    if pid not in CLAIMS:
        continue
    cat, text, note, tech, ref = CLAIMS[pid]
    checks.append({
        "property_id": pid,
        "quick_cmd": "./check %s quick" % pid,
        "thorough_cmd": "./check %s thorough" % pid,
        "evidence_file": "/verif/evidence/%s.json" % pid,
        "replay_cmd_template": "./check --replay {path}",
        "engine": "lean4-proof+correspondence",
        "level_claimed": {"category": cat, "text": text, "design_ref": ref},
        "level_note": note,
        "technique": tech,
    })

na = [{"property_id": p["id"], "reason": "check under construction in this session (model/proofs/harness not integrated yet); see DESIGN.md §8 staging"}
      for p in props if p["id"] not in CLAIMS]

m = {
 "version": 1,
 "setup_cmd": "./setup.sh",
 "hooks": {"guard": "verif", "enable": "go build -tags verif (the harness is always built with the tag; no hook file is needed so far: everything is observed through the exported API)",
           "baseline_off_cmd": "cd /repo && go test -json -vet=off -count=1 -timeout 25m ./...", "source_commits": [], "add_only": True},
 "engines": [{"name": "lean4-proof+correspondence", "path": "/verif/check",
              "serves_properties": [c["property_id"] for c in checks],
              "kind_free_text": "per property: regenerate TwigGen facts from /repo (go/types extractor) → lake build TwigProofs.<id> (Lean kernel) → axiom audit → Go harness runs the real code and the compiled Lean model (JSON line protocol) on the same generated cases and implementation-only oracles → known findings / violations / evidence"}],
 "checks": checks,
 "notes": "All machinery is in /verif; `./check <id> <quick|thorough>`; known findings in known_findings.json; replays under replays/.",
 "not_applicable": na,
}
json.dump(m, open(os.path.join(ROOT, "MANIFEST.json"), "w"), indent=1, ensure_ascii=False)
print("claimed:", [c["property_id"] for c in checks])
