#!/usr/bin/env python3
"""Regenerates /verif/MANIFEST.json from the table below (claimed checks) and properties.jsonl."""
import json, os
ROOT = os.path.dirname(os.path.dirname(os.path.abspath(__file__)))
props = [json.loads(l) for l in open(os.path.join(ROOT, "properties.jsonl"))]

TRUST = ("Trusted: Lean 4.33 kernel (axioms ⊆ {propext, Classical.choice, Quot.sound}, audited on every run); the go/types fact extractor /verif/extract; "
         "the hand-written Lean model is tied to the Go code only by the correspondence run (differential testing, reported in the evidence); "
         "harness generators and canonicalisation; Go standard library and runtime. ")

# id -> (category, text, note, technique, design_ref)
CLAIMS = {
 "C04": ("proof",
         "Lean theorems over ALL byte strings about the exact model of both tokenizers (C04_text_only, C04_chunks, C04_chunks_texts, C04_comment_inert_tokens): literal chunks come out as TEXT tokens exactly once, unmodified, in order; comments contribute one inert token triple. "
         "The model is tied to the code on every run by the token-stream and whole-pipeline (scan→parse→render in Lean) correspondence plus implementation-only oracles (chunks interleaved with marker values, comment/verbatim inertness with spy callbacks).",
         TRUST + "Modelled, not verified: parser/renderer paths of text, comment and verbatim nodes are covered by the pipeline correspondence, not by a theorem yet. Known finding: backslash before an opener (C04_counterexample_backslash).",
         "Lean 4 proof (induction over byte strings / chunk lists) + differential correspondence", "DESIGN.md §4 C04"),
 "C13": ("proof",
         "Lean theorems for every template shape and every subset of dashed delimiters (C13_commutes: scanning the dashed source and applying whitespace control + kind normalisation equals scanning the hand-trimmed source, up to empty TEXT tokens; C13_only_ws; C13_applyWs_spec). "
         "Tie: Lean pipeline vs real engine on dashed programs; implementation-only oracle render(dashed) = render(hand-trimmed) for every tag kind and delimiter.",
         TRUST + "The lift from token streams to rendered output (an empty TEXT token prints nothing and never affects parsing) is covered by the correspondence, not yet by a theorem.",
         "Lean 4 proof (token-stream commutation lemma, induction over chunk/tag lists) + differential correspondence", "DESIGN.md §4 C13"),
 "C14": ("proof",
         "Lean theorem C14_scanners_agree: the two tokenizers produce the same token stream (or the same error) for EVERY byte string, hence the 4096-byte threshold is unobservable (C14_scan_threshold_irrelevant); C14_padding_*: literal padding only extends/introduces TEXT tokens; fuel adequacy. "
         "Tie: threshold and token constants regenerated from the Go source (C14_facts_tokens), exhaustive small-scope + random token-stream correspondence for both real tokenizers, padded renders straddling every size class.",
         TRUST + "Buffer/pool size classes are exercised by the padding oracle only (runtime behaviour outside the model).",
         "Lean 4 proof (scanner equivalence for all inputs) + regenerated facts + differential correspondence", "DESIGN.md §4 C14"),
 "C15": ("proof",
         "Refinement proof in Lean: the transliterated Engine.Load/Register*/Set* state machine serves, for EVERY history of configuration changes, registrations, loader updates and calls, exactly what the six sentences of the property (written as an independent spec over the history) call for (C15_refines, C15_S1…S6, C15_inv, C15_notfound_cache_unchanged). "
         "Tie: step-by-step correspondence (served version, error class, loader read counters, cache keys) on all op words of length ≤ 4 and random long histories, plus direct per-sentence oracles on the real engine.",
         TRUST + "Not modelled: parse errors of loader sources, GetModifiedTime failures, concurrency, FileSystemLoader's path memo. The eager reading of S5 under auto-reload is refuted and documented (C15_S5_eager_counterexample).",
         "Lean 4 refinement proof (invariant over all histories) + differential correspondence", "DESIGN.md §4 C15"),
 "C20": ("proof",
         "Lean proof that the attribute cache is transparent for every lookup history and every eviction behaviour (eviction = arbitrary subset removal): C20_cache_transparent, C20_history_independent, C20_key_injective, C20_resolution_right (full index path ⇒ promoted fields; value/pointer methods; string-keyed maps), C20_size_bounded. "
         "Tie: the same lookup histories on the real engine (reflect.StructOf types + hand-written zoo, cache floods beyond capacity) compared per lookup with the model and with an independent reflection oracle.",
         TRUST + "Not modelled: embedded interfaces, embedded named non-struct types, concurrency; the FACT record (key components, index path, maxSize, eviction count) is validated by the correspondence.",
         "Lean 4 proof (cache invariant over all histories and eviction oracles) + differential correspondence", "DESIGN.md §4 C20"),
}

checks = []
for p in props:
    pid = p["id"]
    if pid not in CLAIMS:
        continue
    cat, text, note, tech, ref = CLAIMS[pid]
    checks.append({
        "property_id": pid,
        "quick_cmd": "./check %s quick" % pid,
        "thorough_cmd": "./check %s thorough" % pid,
        "evidence_file": "/verif/evidence/%s.json" % pid,
        "replay_cmd_template": "./check --replay {path}",
        "engine": "lean4-proof+correspondence",
        "level_claimed": {"category": cat, "text": text, "design_ref": ref},
        "level_note": note,
        "technique": tech,
    })

na = [{"property_id": p["id"], "reason": "check under construction in this session (model/proofs/harness not integrated yet); see DESIGN.md §8 staging"}
      for p in props if p["id"] not in CLAIMS]

m = {
 "version": 1,
 "setup_cmd": "./setup.sh",
 "hooks": {"guard": "verif", "enable": "go build -tags verif (the harness is always built with the tag; no hook file is needed so far: everything is observed through the exported API)",
           "baseline_off_cmd": "cd /repo && go test -json -vet=off -count=1 -timeout 25m ./...", "source_commits": [], "add_only": True},
 "engines": [{"name": "lean4-proof+correspondence", "path": "/verif/check",
              "serves_properties": [c["property_id"] for c in checks],
              "kind_free_text": "per property: regenerate TwigGen facts from /repo (go/types extractor) → lake build TwigProofs.<id> (Lean kernel) → axiom audit → Go harness runs the real code and the compiled Lean model (JSON line protocol) on the same generated cases and implementation-only oracles → known findings / violations / evidence"}],
 "checks": checks,
 "notes": "All machinery is in /verif; `./check <id> <quick|thorough>`; known findings in known_findings.json; replays under replays/.",
 "not_applicable": na,
}
json.dump(m, open(os.path.join(ROOT, "MANIFEST.json"), "w"), indent=1, ensure_ascii=False)
print("claimed:", [c["property_id"] for c in checks])
