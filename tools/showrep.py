import json,sys
r=json.load(open(sys.argv[1]))
print({k:r[k] for k in ['evaluations','distinct_nontrivial','model_calls','traces_validated_against_impl','wall_s']})
print('skipped',r['skipped']); print('dist',r['distribution'])
print('violations',len(r['violations']))
for v in r['violations'][:int(sys.argv[2]) if len(sys.argv)>2 else 5]:
    print('---',v['key'],'|',v['what'][:400])
    rp=v['replay']
    if 'templates' in rp:
        for k,t in rp['templates'].items(): print('   tpl',k,':',repr(t)[:1500])
        print('   impl',rp.get('impl')); print('   model',rp.get('model'))
    else: print('   ',json.dumps(rp)[:800])
