#!/usr/bin/env python3
"""hunks.py <patch> list | hunks.py <patch> pick i,j,k  -> writes a patch with only those hunks (global 1-based index) to stdout"""
import sys, re
def parse(path):
    lines = open(path, encoding='utf-8', errors='surrogateescape').read().split('\n')
    files = []  # (header_lines, [hunk_lines])
    i = 0
    # skip mail header
    while i < len(lines) and not lines[i].startswith('diff --git'):
        i += 1
    cur = None
    while i < len(lines):
        l = lines[i]
        if l.startswith('diff --git'):
            cur = {'header': [l], 'hunks': []}
            files.append(cur)
            i += 1
            while i < len(lines) and not lines[i].startswith('@@') and not lines[i].startswith('diff --git'):
                cur['header'].append(lines[i]); i += 1
            continue
        if l.startswith('@@'):
            h = [l]; i += 1
            while i < len(lines) and not lines[i].startswith('@@') and not lines[i].startswith('diff --git') and not lines[i].startswith('-- '):
                h.append(lines[i]); i += 1
            cur['hunks'].append(h)
            continue
        i += 1
    return files
files = parse(sys.argv[1])
if sys.argv[2] == 'list':
    n = 0
    for f in files:
        for h in f['hunks']:
            n += 1
            changed = [x for x in h[1:] if x.startswith('+') or x.startswith('-')]
            print(n, f['header'][0].split(' b/')[-1], h[0][:90])
            for c in changed[:4]: print('      ', c[:110])
else:
    want = set(int(x) for x in sys.argv[3].split(','))
    n = 0; out = []
    for f in files:
        sel = []
        for h in f['hunks']:
            n += 1
            if n in want: sel.append(h)
        if sel:
            out += f['header']
            for h in sel: out += h
    sys.stdout.write('\n'.join(out) + '\n')
