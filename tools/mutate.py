#!/usr/bin/env python3
"""
mutate.py <ID> <variant> [--keep]   verify a seeded change and run the property's check against it.

 /tmp/mut/out-<ID>/<variant>.diff, <variant>_demo_test.go, meta.json  are what a fresh sub-agent produced from
 the property text alone. Steps: scratch worktree of /repo HEAD → apply → build → whole suite must pass →
 demonstration must fail with the change and pass without it → `VERIF_REPO=<worktree> ./check <ID> quick`
 must report a VIOLATION. The outcome is stored under /verif/seeded/<ID>-<variant>/ and the worktree removed.
"""
import json, os, shutil, subprocess, sys, time

ROOT = os.path.dirname(os.path.dirname(os.path.abspath(__file__)))
ENV = dict(os.environ, GOFLAGS="-mod=mod", GOPROXY="off")


def sh(cmd, cwd=None, timeout=1800, env=None):
    p = subprocess.run(cmd, cwd=cwd, shell=isinstance(cmd, str), env=env or ENV, stdout=subprocess.PIPE, stderr=subprocess.STDOUT, text=True, timeout=timeout)
    return p.returncode, p.stdout


def main():
    pid, var = sys.argv[1], sys.argv[2]
    checks = sys.argv[3].split(",") if len(sys.argv) > 3 and not sys.argv[3].startswith("--") else [pid]
    src = "/tmp/mut/out%s-%s" % ({"C": "2", "D": "2", "E": "3", "F": "3", "G": "4", "H": "4", "I": "5", "J": "5", "K": "6", "L": "6", "M": "7", "N": "7", "O": "8", "P": "8", "Q": "9", "R": "9"}.get(var, ""), pid)
    diff = os.path.join(src, var + ".diff")
    demo = os.path.join(src, var + "_demo_test.go")
    wt = "/tmp/mt-%s-%s" % (pid, var)
    sh(["git", "-C", "/repo", "worktree", "remove", "--force", wt])
    rc, out = sh(["git", "-C", "/repo", "worktree", "add", "--detach", wt, "HEAD"])
    res = {"property": pid, "variant": var, "repo_head": sh(["git", "-C", "/repo", "rev-parse", "HEAD"])[1].strip()}
    try:
        # demo on the clean tree
        shutil.copy(demo, os.path.join(wt, "zz_demo_test.go"))
        rc, out = sh("go test -vet=off -count=1 -run . ./ 2>&1 | tail -5", cwd=wt)
        rc0, out0 = sh(["go", "test", "-vet=off", "-count=1", "."], cwd=wt)
        res["demo_passes_without_change"] = rc0 == 0
        os.remove(os.path.join(wt, "zz_demo_test.go"))
        rc, out = sh(["git", "apply", diff], cwd=wt)
        if rc != 0:
            # the tree has moved since the change was written: let git merge it
            rc, out = sh(["git", "apply", "--3way", diff], cwd=wt)
            if rc == 0:
                sh(["git", "reset", "-q"], cwd=wt)
                res["applied_with_3way"] = True
        res["applies"] = rc == 0
        if rc != 0:
            res["apply_log"] = out[-500:]
        rc, out = sh(["go", "build", "./..."], cwd=wt)
        res["compiles"] = rc == 0
        rc, out = sh(["go", "test", "-vet=off", "-count=1", "./..."], cwd=wt)
        res["suite_passes_with_change"] = rc == 0
        shutil.copy(demo, os.path.join(wt, "zz_demo_test.go"))
        rc, out = sh(["go", "test", "-vet=off", "-count=1", "."], cwd=wt)
        res["demo_fails_with_change"] = rc != 0
        os.remove(os.path.join(wt, "zz_demo_test.go"))
        res["checks"] = {}
        for c in checks:
            t0 = time.time()
            env = dict(ENV, VERIF_REPO=wt)
            rc, out = sh([os.path.join(ROOT, "check"), c, "quick"], cwd=ROOT, env=env, timeout=3000)
            lines = [l for l in out.splitlines() if l.startswith(("VIOLATION", "KNOWN-FINDING", "OK ", "BROKEN"))]
            detected = rc != 0 and any(l.startswith("VIOLATION") for l in lines)
            rep = None
            for l in lines:
                if l.startswith("VIOLATION") and "replay=" in l:
                    path = l.split("replay=")[1].split()[0]
                    try:
                        rep = json.load(open(path))
                    except Exception:
                        pass
                    break
            res["checks"][c] = {"exit": rc, "detected": detected, "wall_s": round(time.time() - t0, 1), "lines": lines[:8],
                                "first_replay": {"key": (rep or {}).get("key"), "what": ((rep or {}).get("what") or "")[:400], "broken": (rep or {}).get("broken")} if rep else None}
    finally:
        sh(["git", "-C", "/repo", "worktree", "remove", "--force", wt])
        # restore generated facts and the harness build for /repo
        sh([os.path.join(ROOT, ".work", "extract"), "-repo", "/repo", "-out", os.path.join(ROOT, "lean", "TwigGen")])
    out_dir = os.path.join(ROOT, "seeded", "%s-%s" % (pid, var))
    os.makedirs(out_dir, exist_ok=True)
    shutil.copy(diff, os.path.join(out_dir, "patch.diff"))
    shutil.copy(demo, os.path.join(out_dir, "demo_test.go"))
    meta = {}
    try:
        m = json.load(open(os.path.join(src, "meta.json")))
        items = m if isinstance(m, list) else m.get("variants", m)
        if isinstance(items, dict):
            items = list(items.values()) if all(isinstance(v, dict) for v in items.values()) else [items]
        for it in items:
            if isinstance(it, dict) and str(it.get("variant", "")).upper().startswith(var):
                meta = it
    except Exception as ex:
        meta = {"meta_error": str(ex)}
    json.dump({"seed": meta, "verification": res, "what_i_ran": "tools/mutate.py %s %s (scratch worktree, suite, demo, VERIF_REPO=<worktree> ./check … quick)" % (pid, var)},
              open(os.path.join(out_dir, "meta.json"), "w"), indent=1)
    print(json.dumps(res, indent=1))


if __name__ == "__main__":
    main()
