#!/bin/bash
# Applies the validated repair series to /repo as one "fix:" commit per defect.
# usage: apply_fixes.sh  (idempotence not attempted; run once on the pinned commit)
set -e
export GOFLAGS=-mod=mod GOPROXY=off
S=/verif/notes/fix-series
step() { # patchglob hunks|all message
  local p=$(ls $S/$1*.patch) hunks=$2 msg=$3
  if [ "$hunks" = all ]; then git -C /repo apply --whitespace=nowarn "$p"; else python3 /verif/tools/hunks.py "$p" pick "$hunks" > /tmp/part.patch; git -C /repo apply --whitespace=nowarn --recount /tmp/part.patch; fi
  (cd /repo && gofmt -l . | grep -v '^examples\|^benchmark' | head -3; go build ./... && go test -vet=off -count=1 . > /tmp/fixtest.log 2>&1 || { tail -20 /tmp/fixtest.log; echo "TESTS FAIL after: $msg"; exit 1; })
  git -C /repo commit -qam "$msg"
  echo "committed: $msg"
}
step 0001 all "fix: do not release a cached template's root node after rendering

Template.RenderTo returned the root node to the node pool after the first
render, so the second render of a cached template produced empty output and
the recycled root was handed to the next parse (an older cached template then
rendered the newer template's body)."
step 0002 all "fix: keep the pooled tokenizer until its tokens have been parsed

Parser.Parse returned the tokenizer, whose buffer p.tokens aliases, to the pool
before parseOuterTemplate read the tokens, and handed the same buffer to the
token slice pool as well; a concurrent parse could overwrite tokens in use."
step 0003 all "fix: tokenize the content of every print tag as an expression

A shortcut turned print-tag contents that looked name-like (4, a and b,
x is defined, x ? 1 : 2) into a single NAME token."
step 0004 all "fix: parse binary operators by precedence climbing

parseBinaryExpression did not honour the operator table: 1 + 2 * 3 * 4 gave 28,
1 + 2 < 4 and 2 * 2 == 4 was false, (-a + b) was -(a+b), a ternary after
2 * 3 bound to the product and filters or subscripts on a right operand were
not parsed."
step 0005 all "fix: accept whitespace-control dashes on every tag boundary

{%- endif %}, {%- endfor %}, {%- else -%}, {% set x = 1 -%}, {%- endblock -%}
and others were parse errors: each handler tested the plain delimiter token
kinds only. The trimming kinds are now normalised once after whitespace
control has been applied."
step 0006 all "fix: make TokenizeOptimized read closing delimiters like TokenizeHtmlPreserving

In templates larger than 4096 bytes -}} and -%} were recognised only when the
opener also had a dash, the byte following a dashed closer was dropped
({{- x -}}abc rendered 1bc), {{-}} sliced tagContent[:-1], and empty block tags
and unclosed comments were reported differently from small templates."
step 0007 all "fix: treat zero of every numeric type as false and empty

toBool and isEmptyValue compared interface values with an untyped 0 in
multi-type cases, so float64(0), int64(0), uint8(0) were truthy and non-empty
and {% if 1 - 1 %} took the true branch."
step 0008 1 "fix: an inner for loop no longer overwrites the outer loop's counters

The inner loop replaced the context variable 'loop' and never restored it, so
loop.index read after a nested loop was the inner loop's."
step 0008 2 "fix: count for-loop positions over a string in characters, not bytes

Iterating over a string used the byte offset of each character as its index, so
'h','é','y' were numbered 1,2,4 and loop.length was the byte length."
step 0009 all "fix: include with variables no longer writes them into the including template

include 'x' with {'a': 1} without only stored a in the includer's own context,
where it stayed defined after the include."
step 0010 all "fix: enforce the sandbox policy wherever a filter or function is invoked

The policy was consulted for the outermost filter or function node of an
expression only, and contexts created by include ... only, extends, import,
from, macro calls and parent() dropped the sandbox flag, so
x|forbidden|upper, for ... in xs|forbidden, apply forbidden and every
template reached from the sandboxed one escaped the sandbox."
step 0011 1,2 "fix: keep loader errors reachable through errors.Is after a failed load

Engine.Load flattened the loaders' errors into the text of the not-found error,
so the cause of a loader failure could not be found with errors.Is / errors.As."
step 0011 3 "fix: report a failing spaceless filter instead of swallowing it

SpacelessNode.Render wrote the unfiltered body and returned nil when the
spaceless filter failed."
step 0012 9,10,11,12,13,14 "fix: slice without a length runs to the end

filterSlice used -1 both for 'no length given' and for 'stop one before the
end', so 'hello'|slice(1) returned 'ell'."
step 0012 1,2,3,4,6,7,8 "fix: length, first and last count characters, not bytes

'héllo'|length was 6 and 'éa'|first half a character."
step 0012 5 "fix: first on a map returns the entry with the smallest key

It returned whichever entry Go's randomised map iteration produced first."
step 0013 1 "fix: translate date format letters in one left-to-right pass

convertDateFormat applied strings.ReplaceAll once per format letter while
ranging over a Go map, so replacement text was replaced again in random order
('D, d M Y' gave about twenty different strings)."
step 0013 2,3 "fix: capitalize and title upper-case the first character, not the first byte

A multi-byte first letter was cut in half."
step 0013 4,5,6,7 "fix: visit maps in key order in for loops, keys and first

for loops over maps and keys/first on typed maps followed Go's randomised map
order, so the same template and context rendered differently from run to run."
step 0014 3,5,6 "fix: attribute access follows the full index path of a promoted field

getAttribute used only the first step of a promoted field's index path and
returned the embedded struct; a nil embedded pointer now yields an empty value."
step 0014 4 "fix: a nil index on a typed map is not a key instead of a panic

getItem called Type() on the zero reflect.Value."
step 0014 1 "fix: merge of a typed slice with differently typed elements no longer panics

filterMerge set interface{} elements into a typed slice; it now merges into a
generic list when an argument holds anything the slice cannot take."
step 0014 12 "fix: a template path consisting of a single quote no longer panics

tokenizeTemplatePath sliced path[1:0]."
step 0014 7,8,9,10,11,13 "fix: search tag keywords with ASCII case folding so byte offsets stay valid

processBlockTag searched keywords in strings.ToLower(content) and applied the
offsets to content; ToLower changes the length of invalid UTF-8 and of some
letters, which made the slices panic."
step 0015 3,4,5,6 "fix: guard the file-system loader's path memo with a mutex

FileSystemLoader.templatePaths was written by Load and GetModifiedTime without a
lock (fatal error: concurrent map writes under concurrent loads)."
step 0015 1,2,7,8,9,10,11,12,13,14,15,16,17,18,19,20,21,22 "fix: keep the rendering template's name in the render context

Engine.Render and RenderTo stored the template name in an engine-wide field
without synchronisation and relative names (./x, ../x) were resolved from it,
so concurrent renders raced and could resolve against each other's template."
step 0016 all "fix: resolve blocks through the chain of definitions along the extends chain

An empty override fell back to the parent's text, parent() in a middle
template failed when a descendant did not override, parent() inside content
reached through parent() failed, and parent() in a block nested in a loop or
block rendered the override again. Every block name now maps to the list of its
definitions, most derived first."
step 0017 all "fix: a macro can call the other macros of its own template however it was reached

A macro reached through import or from could not call a sibling macro of its
own library (function 'b' not found)."
step 0018 all "fix: keep registered templates when caching is disabled

RegisterString and RegisterTemplate silently did nothing while caching was
off, although a registered template has no loader to be read from again."
step 0019 all "fix: tokenize do and include tags as a whole

processBlockTag cut do at the first '=' (do a == 2) and include at the first
' with ' even inside a quoted name (include 'x with y')."
step 0020 all "fix: reject a second definition of a block in the same template

{% block a %}x{% block a %}y{% endblock %}{% endblock %} rendered itself
recursively until the process died with a stack overflow."
