#!/bin/bash
# mutrun.sh ID [checks]  — run both variants
cd "$(dirname "$0")/.."
for v in ${VARIANTS:-A B}; do
  d=/tmp/mut/out-$1; case $v in C|D) d=/tmp/mut/out2-$1;; E|F) d=/tmp/mut/out3-$1;; G|H) d=/tmp/mut/out4-$1;; I|J) d=/tmp/mut/out5-$1;; K|L) d=/tmp/mut/out6-$1;; M|N) d=/tmp/mut/out7-$1;; O|P) d=/tmp/mut/out8-$1;; Q|R) d=/tmp/mut/out9-$1;; esac
  [ -f $d/$v.diff ] || continue
  python3 tools/mutate.py $1 $v $2 2>&1 | python3 -c "
import sys,json
try:
    r=json.load(sys.stdin)
except Exception as e:
    print('ERR',e); sys.exit()
print(r['property'],r['variant'],'applies',r.get('applies'),'suite',r.get('suite_passes_with_change'),'demoFail',r.get('demo_fails_with_change'),'demoPass',r.get('demo_passes_without_change'))
for c,v in r['checks'].items(): print('  check',c,'DETECTED' if v['detected'] else 'MISSED',v['wall_s'],'s', (v['first_replay'] or {}).get('key'), ((v['first_replay'] or {}).get('what') or '')[:260])"
done
