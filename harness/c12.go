package main

import (
	"fmt"
	"strings"

	"github.com/semihalev/twig"
)

// C12 — macros bind arguments positionally with defaults, alike however they are reached.

func init() { register("C12", runC12) }

func runC12(e *Env) error {
	r := e.Rep
	rg := e.Rng
	r.Rule = "macro signatures with 0–4 parameters and every subset of defaults (exhaustive for arity ≤ 3), argument lists of 0…arity+2 values, bodies that print every parameter, an outer variable, a sibling macro call and assign a variable; " +
		"each call made through five routes (local name, _self, import … as, from … import, from … import … as) and from inside a for loop, a block, an included template and another macro; " +
		"the default of a parameter as an expression like any other: string literals built from every escape sequence × alone/leading/trailing/middle/doubled/mixed × both quoting styles, signature punctuation inside the literal, numbers, word constants, operator/filter/function/list/hash expressions × the defaulted parameter the only one, last, in the middle, all of them × spaced and tight '=' × five routes — argument omitted ≡ the default expression passed explicitly ≡ the body in place after set, and equal to the value known by construction (deterministic sweep); " +
		"the value of a macro call handed to another macro as an argument or stored with set and printed 0–3 times, interleaved with other calls, through every route; " +
		"the caller's names read AFTER the call (and after a second call): macro alone in its template / with siblings before, after, around × 0–2 parameters × body assigning by set, for, for key/value, do, import as, from import as, include, several × caller holding the name as data, set, loop variable, macro parameter, in a block, in an include, import alias, from-imported macro × five routes (deterministic sweep); " +
		"oracles (implementation-only): positional binding with defaults/null (independent spec), all routes give identical output, the body's assignments are invisible to the caller; plus the Lean pipeline; " +
		"non-trivial = arity ≥ 1; distinct by signature × argument count × route × placement"
	params := []string{"p", "q", "r", "s"}
	defaultsPool := []string{"'dq'", "7", "true", "'d' ~ 'x'"}
	defaultOut := []string{"dq", "7", "true", "dx"}
	// further kinds of default expression, used by the sampled part: bare words and operators are expressions too
	moreDefaults := [][2]string{{"null", ""}, {"none", ""}, {"g", "G"}, {"1 == 1", "true"}, {"g ~ '!'", "G!"}, {"false", "false"}, {"-3", "-3"}, {"[1, 2]|length", "2"}, {"g|lower", "g"}, {"not g", "false"}, {"undefinedname", ""}, {`'a\tb'`, "a\tb"}, {`"l1\nl2"`, "l1\nl2"}, {`'it\'s'`, "it's"}, {`"b\\s"`, `b\s`}, {"1.5", "1.5"}}
	useMore := false
	runSig := func(arity int, defMask int, argc int, placement int, mn string) error {
		var sig []string
		dflt := make([][2]string, arity)
		for i := 0; i < arity; i++ {
			dflt[i] = [2]string{defaultsPool[i], defaultOut[i]}
			if useMore && rg.Intn(2) == 0 {
				dflt[i] = pick(rg, moreDefaults)
			}
			if defMask&(1<<i) != 0 {
				sig = append(sig, params[i]+" = "+dflt[i][0])
			} else {
				sig = append(sig, params[i])
			}
		}
		var body strings.Builder
		body.WriteString("M(")
		for i := 0; i < arity; i++ {
			body.WriteString("[{{ " + params[i] + " }}]")
		}
		// an escaped delimiter in the body is literal text there as anywhere else: the argument is not substituted into it
		// one signature in four carries escaped delimiters in its body (literal text there as anywhere; the Lean model
		// leaves such bodies unmodelled, so the other three keep the model correspondence)
		escTxt, escOut := "", ""
		if (arity+defMask+argc+placement)%4 == 0 {
			escTxt, escOut = "L\\{{ g }}\\{{ p }};", "L{{ g }}{{ p }};"
		}
		body.WriteString("g={{ g }};" + escTxt + "{{ sib('z') }}{% set leak = 'LEAK' %}{% set g = 'changed' %}{% do h = 'changed-by-do' %}{% do leak2 = 1 %})")
		lib := "{% macro " + mn + "(" + strings.Join(sig, ", ") + ") %}" + body.String() + "{% endmacro %}{% macro sib(x) %}S{{ x }}{% endmacro %}"
		args := make([]string, argc)
		argOut := make([]string, argc)
		for i := range args {
			switch rg.Intn(4) {
			case 0:
				args[i], argOut[i] = fmt.Sprint(i+10), fmt.Sprint(i+10)
			case 1:
				args[i], argOut[i] = "'s"+fmt.Sprint(i)+"'", "s"+fmt.Sprint(i)
			case 2:
				args[i], argOut[i] = "g ~ '!'", "G!"
			default:
				args[i], argOut[i] = "null", ""
			}
		}
		// spec
		var want strings.Builder
		want.WriteString("M(")
		for i := 0; i < arity; i++ {
			switch {
			case i < argc:
				want.WriteString("[" + argOut[i] + "]")
			case defMask&(1<<i) != 0:
				want.WriteString("[" + dflt[i][1] + "]")
			default:
				want.WriteString("[]")
			}
		}
		want.WriteString("g=G;" + escOut + "Sz)")
		call := func(prefix string) string { return "{{ " + prefix + "(" + strings.Join(args, ", ") + ") }}" }
		after := "|{{ leak is defined or leak2 is defined ? 'LEAKED' : 'clean' }}|{{ g }}{{ h == 'H' ? '' : h }}"
		wrap := func(inner string) string {
			switch placement {
			case 1:
				return "{% for i in [1] %}" + inner + "{% endfor %}"
			case 2:
				return "{% block bb %}" + inner + "{% endblock %}"
			case 3:
				return "{% macro outer() %}" + inner + "{% endmacro %}{{ outer() }}"
			}
			return inner
		}
		routes := map[string]string{
			"local":      lib + wrap(call(mn)) + after,
			"self":       lib + wrap(call("_self."+mn)) + after,
			"import":     "{% import 'lib' as L %}" + wrap(call("L."+mn)) + after,
			"from":       "{% from 'lib' import " + mn + " %}" + wrap(call(mn)) + after,
			"from-alias": "{% from 'lib' import " + mn + " as mm %}" + wrap(call("mm")) + after,
			// the importing template has macros of its own under the same names: the module's macro is the library's
			"import-namesake":     "{% macro " + mn + "() %}LOCAL{% endmacro %}{% macro sib(x) %}LOCALSIB{% endmacro %}{% import 'lib' as L %}" + wrap(call("L."+mn)) + after,
			"from-other-namesake": "{% from 'lib2' import " + mn + " %}{% import 'lib' as L %}" + wrap(call("L."+mn)) + after,
			// the library is reached through another library that re-exports it
			"reexport-from":   "{% from 'libR' import " + mn + " %}" + wrap(call(mn)) + after,
			"reexport-import": "{% import 'libR' as R %}" + wrap(call("R."+mn)) + after,
			"reexport-alias":  "{% from 'libR' import " + mn + " as viaR %}" + wrap(call("viaR")) + after,
		}
		if placement == 3 {
			// inside another macro the module variable L is not visible by name lookup? it is: macros read the caller's variables
		}
		wantAll := want.String() + "|clean|G"
		for _, route := range []string{"local", "self", "import", "from", "from-alias", "import-namesake", "from-other-namesake", "reexport-from", "reexport-import", "reexport-alias"} {
			tpls := map[string]string{"main": routes[route], "lib": lib, "lib2": "{% macro " + mn + "() %}OTHERLIB{% endmacro %}", "libR": "{% from 'lib' import " + mn + ", sib %}{% macro own() %}own{% endmacro %}"}
			c := &Case{Templates: tpls, Main: "main", Ctx: map[string]any{"g": "G", "h": "H", "p": "OUTER-p", "q": "OUTER-q", "r": "OUTER-r", "s": "OUTER-s"}, FailAt: -1}
			im, _, _, err := compareCase(e, c, "render-model-c12", "correspondence (Lean pipeline vs real engine) on macro programs")
			if err != nil {
				return err
			}
			r.Seen(fmt.Sprintf("%s/%d/%d/%d/%d/%s/%v", mn, arity, defMask, argc, placement, route, args), arity >= 1)
			r.Hit("route:" + route)
			if route == "local" || route == "import" || route == "from" {
				// the same engine rendered again with other caller data: defaults and arguments that read the caller's
				// variables are evaluated at each call
				c2 := *c
				c2.Ctx = map[string]any{"g": "H", "p": "OUTER-p", "q": "OUTER-q", "r": "OUTER-r", "s": "OUTER-s"}
				ref := runImpl(&c2)
				res := guarded(func() (string, error) {
					eng, err := newEngine(tpls)
					if err != nil {
						return "", err
					}
					for k := 0; k < 2; k++ {
						if _, err := eng.Render("main", map[string]interface{}{"g": "G", "p": "OUTER-p", "q": "OUTER-q", "r": "OUTER-r", "s": "OUTER-s"}); err != nil {
							return "", err
						}
					}
					return eng.Render("main", map[string]interface{}{"g": "H", "p": "OUTER-p", "q": "OUTER-q", "r": "OUTER-r", "s": "OUTER-s"})
				})
				if mapClass(res.Class) != ref.Class || res.Out != ref.Out {
					if r.Violate(Violation{Key: "macro-binding-or-route", What: fmt.Sprintf("macro %s(%s) via %s: rendered with g = G twice and then with g = H the engine gives %q (%s), a fresh engine gives %q (%s)", mn, strings.Join(sig, ", "), route, truncate(res.Out, 120), res.Class, truncate(ref.Out, 120), ref.Class),
						Broken: "theorem C12_binding (defaults are evaluated at every call; implementation-only oracle: re-render with other caller data)",
						Replay: map[string]any{"kind": "render", "templates": tpls, "main": "main", "ctx": map[string]any{"g": "H"}, "want": ref.Out, "got": res.Out}}) {
						return nil
					}
				}
			}
			if im.Class != "" || im.Out != wantAll {
				if r.Violate(Violation{Key: "macro-binding-or-route", What: fmt.Sprintf("macro %s(%s) called with %d args via %s (placement %d): got %q (%s), expected %q", mn, strings.Join(sig, ", "), argc, route, placement, truncate(im.Out, 160), im.Class, wantAll),
					Broken: "theorem C12_binding / C12_routes_agree / C12_shadow_and_isolation no longer describes the code (implementation-only oracle: independent binding spec, route agreement)",
					Replay: map[string]any{"kind": "render", "templates": tpls, "main": "main", "ctx": map[string]any{"g": "G"}, "want": wantAll, "got": im.Out, "class": im.Class, "msg": im.Msg}}) {
					return nil
				}
			}
		}
		return nil
	}
	// exhaustive: arity ≤ 3, every default subset, argc 0..arity+1, placement 0; then sampled placements / arity 4
	for arity := 0; arity <= 3 && !r.Full(); arity++ {
		for mask := 0; mask < (1 << arity); mask++ {
			for argc := 0; argc <= arity+1; argc++ {
				if err := runSig(arity, mask, argc, 0, "m"); err != nil {
					return err
				}
			}
		}
	}
	// the default of a parameter is an expression like any other: escapes, spellings, positions (c12_defaults.go)
	if err := runC12Defaults(e); err != nil {
		return err
	}
	n := e.N(150, 20000)
	for i := 0; i < n && !r.Full(); i++ {
		arity := rg.Intn(5)
		// a macro may carry the name of a built-in function or filter: the macro is what the template defined
		useMore = true
		mn := pick(rg, []string{"m", "m", "range", "max", "min", "length", "date", "merge", "cycle", "upper", "block", "include"})
		if err := runSig(arity, rg.Intn(1<<arity), rg.Intn(arity+3), rg.Intn(4), mn); err != nil {
			return err
		}
	}
	// a parameter left null next to a visible macro of the same name: the parameter is the (null) parameter
	{
		lib := "{% macro field(name, label, sib2) %}[{{ name }}|{{ label }}|{{ sib2 }}|{{ label is null ? 'n' : 'v' }}]{% endmacro %}{% macro label(x) %}L{% endmacro %}{% macro sib2() %}S{% endmacro %}"
		routes := map[string]string{
			"local": lib + "{{ field('q') }}{{ field('q', null) }}{{ field('q', 'lbl', null) }}", "self": lib + "{{ _self.field('q') }}{{ _self.field('q', null) }}{{ _self.field('q', 'lbl', null) }}",
			"import": "{% import 'flib' as F %}{{ F.field('q') }}{{ F.field('q', null) }}{{ F.field('q', 'lbl', null) }}", "from": "{% from 'flib' import field, label %}{{ field('q') }}{{ field('q', null) }}{{ field('q', 'lbl', null) }}",
			"in-loop": "{% from 'flib' import field as ff %}{% for i in [1] %}{{ ff('q') }}{{ ff('q', null) }}{{ ff('q', 'lbl', null) }}{% endfor %}",
		}
		want := "[q|||n][q|||n][q|lbl||v]"
		for _, name := range sortedKeys(routes) {
			c := &Case{Templates: map[string]string{"main": routes[name], "flib": lib}, Main: "main", Ctx: map[string]any{}, FailAt: -1}
			im, _, _, err := compareCase(e, c, "render-model-c12", "correspondence on null parameters named like macros")
			if err != nil {
				return err
			}
			r.Seen("null-param:"+name, true)
			if im.Class != "" || im.Out != want {
				r.Violate(Violation{Key: "macro-binding-or-route", What: fmt.Sprintf("parameters left null next to macros of the same names, via %s: %q (%s), expected %q", name, truncate(im.Out, 160), im.Class, want),
					Broken: "theorem C12_param_read (implementation-only oracle)", Replay: c.replay(im, Outcome{})})
			}
		}
	}
	// the library is registered again with other defaults and another body: every route follows it
	{
		lib1 := "{% macro field(name, type = 'text', value) %}<input {{ name }}/{{ type }}/{{ value }}>{% endmacro %}"
		lib2 := "{% macro field(name, type = 'search', value = 'none') %}<field {{ name }}|{{ type }}|{{ value }}>{% endmacro %}"
		pages := map[string]string{
			"import":     "{% import 'forms' as f %}{{ f.field('u') }}{{ f.field('u', 'number', 'x', 'extra') }}",
			"from":       "{% from 'forms' import field %}{{ field('u') }}{{ field('u', 'number', 'x', 'extra') }}",
			"from-alias": "{% from 'forms' import field as ff %}{{ ff('u') }}{% for i in [1, 2] %}{{ ff(i) }}{% endfor %}",
			"in-loop":    "{% for i in [1, 2] %}{% import 'forms' as f %}{{ f.field(i) }}{% endfor %}",
			"in-include": "{% include 'part' %}{% include 'part' %}",
			"in-macro":   "{% macro wrap(x) %}{% import 'forms' as f %}{{ f.field(x) }}{% endmacro %}{{ wrap(1) }}{{ _self.wrap(2) }}",
		}
		for _, name := range sortedKeys(pages) {
			page := pages[name]
			extra := map[string]string{"part": "{% import 'forms' as f %}{{ f.field('p') }}"}
			ref := runImpl(&Case{Templates: map[string]string{"main": page, "forms": lib2, "part": extra["part"]}, Main: "main", Ctx: map[string]any{}, FailAt: -1})
			res := guarded(func() (string, error) {
				eng := twig.New()
				for _, kv := range [][2]string{{"forms", lib1}, {"part", extra["part"]}, {"main", page}} {
					if err := eng.RegisterString(kv[0], kv[1]); err != nil {
						return "", err
					}
				}
				if _, err := eng.Render("main", map[string]interface{}{}); err != nil {
					return "", err
				}
				if err := eng.RegisterString("forms", lib2); err != nil {
					return "", err
				}
				return eng.Render("main", map[string]interface{}{})
			})
			r.Seen("reregister:"+name, true)
			if res.Class != "" || ref.Class != "" || res.Out != ref.Out {
				r.Violate(Violation{Key: "macro-library-reregistered", What: fmt.Sprintf("route %s: after the macro library is registered again the page renders %q (%s), a fresh engine renders %q", name, res.Out, res.Class, ref.Out),
					Broken: "theorem C12_routes_agree (implementation-only oracle: an import reads the library that is registered now)",
					Replay: map[string]any{"kind": "render", "templates": map[string]string{"main": page, "forms": lib2, "part": extra["part"]}, "main": "main", "first_library": lib1, "got": res.Out, "want": ref.Out, "class": res.Class}})
			}
		}
	}
	// a library with ONE macro that calls itself, reached through every route
	{
		lib := "{% macro countdown(n) %}{{ n }}{% if n > 0 %},{{ countdown(n - 1) }}{% endif %}{% endmacro %}"
		want := "3,2,1,0"
		routes := map[string]string{
			"local":      lib + "{{ countdown(3) }}",
			"self":       lib + "{{ _self.countdown(3) }}",
			"import":     "{% import 'lib1' as L %}{{ L.countdown(3) }}",
			"from":       "{% from 'lib1' import countdown %}{{ countdown(3) }}",
			"from-alias": "{% from 'lib1' import countdown as cd %}{{ cd(3) }}",
			"in-loop":    "{% import 'lib1' as L %}{% for i in [1] %}{{ L.countdown(3) }}{% endfor %}",
			"via-macro":  "{% import 'lib1' as L %}{% macro outer() %}{% import 'lib1' as M %}{{ M.countdown(3) }}{% endmacro %}{{ outer() }}",
		}
		for name, main := range routes {
			tpls := map[string]string{"main": main, "lib1": lib}
			c := &Case{Templates: tpls, Main: "main", Ctx: map[string]any{}, FailAt: -1}
			im, _, _, err := compareCase(e, c, "render-model-c12", "correspondence on a self-recursive library macro")
			if err != nil {
				return err
			}
			r.Seen("rec:"+name, true)
			if im.Class != "" || im.Out != want {
				r.Violate(Violation{Key: "macro-binding-or-route", What: fmt.Sprintf("a lone recursive macro called via %s renders %q (%s %s), expected %q", name, im.Out, im.Class, truncate(im.Msg, 100), want),
					Broken: "theorem C12_siblings / C12_routes_agree (implementation-only oracle)", Replay: map[string]any{"kind": "render", "templates": tpls, "main": "main", "want": want, "got": im.Out, "class": im.Class, "msg": im.Msg}})
			}
		}
	}
	// the value of a macro call handed on as an argument / stored with set and printed 0…3 times (c12_values.go)
	if err := runC12Values(e); err != nil {
		return err
	}
	// what a macro call leaves behind in its caller, by what else lives in the macro's template (c12_isolation.go)
	if err := runC12Isolation(e); err != nil {
		return err
	}
	r.Sample(map[string]any{"lib": "{% macro m(p, q = 7) %}M([{{ p }}][{{ q }}]g={{ g }};{{ sib('z') }}…){% endmacro %}", "routes": []string{"m(1)", "_self.m(1)", "L.m(1)", "from 'lib' import m", "from 'lib' import m as mm"}})
	return nil
}
