package main

import (
	"encoding/json"
	"fmt"
	"os"
)

// genericReplay re-runs a recorded violation whose replay object carries a complete input: kind "render"
// (templates, main, ctx[, globals, prime, config, want]) or kind "src" (src or src_hex [, want]). It prints what the
// real engine and the Lean model give now and returns 1 while they still disagree (or differ from the recorded
// expectation), 0 when the input passes, -1 when the replay is of another kind (left to the property's own runner).
func genericReplay(e *Env) int {
	raw, err := os.ReadFile(e.Replay)
	if err != nil {
		return -1
	}
	var obj map[string]any
	if json.Unmarshal(raw, &obj) != nil {
		return -1
	}
	cs, _ := obj["case"].(map[string]any)
	if cs == nil {
		return -1
	}
	kind, _ := cs["kind"].(string)
	str := func(k string) string { s, _ := cs[k].(string); return s }
	c := &Case{Templates: map[string]string{}, Main: "main", Ctx: map[string]any{}, FailAt: -1}
	switch kind {
	case "render":
		tp, _ := cs["templates"].(map[string]any)
		if len(tp) == 0 {
			return -1
		}
		for k, v := range tp {
			c.Templates[k], _ = v.(string)
		}
		if m := str("main"); m != "" {
			c.Main = m
		}
		if cx, ok := cs["ctx"].(map[string]any); ok {
			c.Ctx = jsonInts(cx).(map[string]any)
		}
		if g, ok := cs["globals"].(map[string]any); ok {
			c.Globals = jsonInts(g).(map[string]any)
		}
		c.Prime, c.Config = str("prime"), str("config")
		c.Route = routeByName(str("route"))
	case "src":
		src := str("src")
		if src == "" && str("src_hex") != "" {
			src = unhx(str("src_hex"))
		}
		if src == "" {
			return -1
		}
		c.Templates["main"] = src
		if cx, ok := cs["ctx"].(map[string]any); ok {
			c.Ctx = jsonInts(cx).(map[string]any)
		}
	default:
		return -1
	}
	im := runImpl(c)
	fmt.Printf("input: %s\n", truncate(fmt.Sprint(c.Templates), 600))
	fmt.Printf("real engine: class=%q output=%q %s\n", im.Class, truncate(im.Out, 400), truncate(im.Msg, 200))
	status := 0
	if im.Class == "panic" || im.Class == "timeout" {
		status = 1
	}
	if e.Model != nil {
		mo, _, err := runModel(e.Model, c)
		switch {
		case err != nil:
			fmt.Println("model: driver error:", err)
		case mo.Unsupported != "":
			fmt.Println("model: outside the modelled fragment:", mo.Unsupported)
		case mo.Fuel:
			fmt.Println("model: out of fuel (self-recursive templates)")
		default:
			fmt.Printf("Lean model:  class=%q output=%q\n", mo.Class, truncate(mo.Out, 400))
			if same, why := agree(im, mo); !same {
				fmt.Println("DISAGREE:", why)
				status = 1
			}
		}
	}
	if want, ok := cs["want"].(string); ok && want != "" && im.Out != want {
		fmt.Printf("recorded expectation %q not met\n", truncate(want, 400))
		status = 1
	}
	if status == 0 {
		fmt.Println("this input passes now (a history-dependent violation needs the whole check: ./check <id> quick)")
	}
	return status
}

// jsonInts: a JSON decoder delivers every number as float64; the recorded contexts hold Go ints (the only number
// the generators and the model driver's encoding know), so whole numbers within +-2^53 become int again.
func jsonInts(v any) any {
	switch x := v.(type) {
	case float64:
		if x == float64(int64(x)) && x <= 1<<53 && x >= -(1<<53) {
			return int(x)
		}
	case []any:
		for i := range x {
			x[i] = jsonInts(x[i])
		}
	case map[string]any:
		for k := range x {
			x[k] = jsonInts(x[k])
		}
	}
	return v
}
