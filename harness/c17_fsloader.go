package main

import (
	"errors"
	"fmt"
	"io/fs"
	"os"
	"path/filepath"
	"strings"
	"time"

	"github.com/semihalev/twig"
)

// C17, the library's own FileSystemLoader — "a loader invoked during a render fails" with real files.
//
// The fake loaders of c17.go / c17_loaders.go never reach the search loop of twig.FileSystemLoader. Here the templates
// are files in temporary directories and the nested template is a file that IS THERE (os.Stat succeeds) but CANNOT BE
// READ (os.ReadFile fails): a directory in its place, a symbolic link to a directory, a link to a file whose read
// fails, a file without read permission. Which of these faults the platform and the user of this process can produce
// is probed in Go (Stat ok, ReadFile fails) before a fault is used; the read error found by the probe is the cause
// the render has to report.
//
// Such a file is not a missing template: the render that needs it fails, the *fs.PathError and its errno are found
// with errors.As / errors.Is, the output is "" — for every statement that loads a template, at every place in a
// template structure, under plain, suffixed and relative names (with healthy decoys under the as-written name), for
// every arrangement of search directories (alone, behind an empty directory, with an older copy of the file in a
// LATER directory of the same loader, the program before or after it), cold and after a successful load of the same
// name (the loader has memoised the path; the cache is off), and when the unreadable file is the top-level template.
//
// Independent expectation: the statement of C17 plus the probe. Every combination is first rendered with the file
// readable (it must render and must not show a decoy or an older copy), which proves that the render reaches the file.

type fsFault struct {
	name string
	// make puts the unreadable thing at path (which does not exist); scratch is a directory outside the search path
	make func(path, scratch string) error
}

var fsFaults = []fsFault{
	{"directory", func(path, scratch string) error { return os.Mkdir(path, 0o755) }},
	{"link-to-directory", func(path, scratch string) error {
		d := filepath.Join(scratch, "target-dir")
		if err := os.MkdirAll(d, 0o755); err != nil {
			return err
		}
		return os.Symlink(d, path)
	}},
	{"link-to-file-with-read-error", func(path, scratch string) error { return os.Symlink("/proc/self/mem", path) }},
	{"no-read-permission", func(path, scratch string) error {
		if err := os.WriteFile(path, []byte(loaderPartSrc), 0o644); err != nil {
			return err
		}
		return os.Chmod(path, 0)
	}},
}

// probeFault says whether the thing at path is "there but unreadable" and returns the read error.
func probeFault(path string) (error, bool) {
	if _, err := os.Stat(path); err != nil {
		return nil, false
	}
	_, rerr := os.ReadFile(path)
	return rerr, rerr != nil
}

var fsNames = []struct {
	name, written, computed string
	file                    string   // the unreadable file, relative to its search directory, without suffix
	decoys                  []string // healthy files under other names
}{
	{"plain", "'pages/part'", "'pages/' ~ 'part'", "pages/part", nil},
	{"plain-with-suffix", "'pages/part.twig'", "'pages/part' ~ '.twig'", "pages/part", nil},
	{"relative", "'./part'", "'./' ~ 'part'", "pages/part", []string{"part"}},
	{"relative-up", "'../pages/part'", "'../pages/' ~ 'part'", "pages/part", []string{"part"}},
	// the resolved name is nowhere; the name as written is the unreadable one
	{"relative-fallback", "'./part'", "'./' ~ 'part'", "part", nil},
}

// fsArrangements: the search directories of the one FileSystemLoader, in order. H = the rest of the program,
// F = the unreadable file, S = an older, readable copy of it, - = nothing.
var fsArrangements = []struct {
	name string
	dirs []string
}{
	{"one-directory", []string{"HF"}},
	{"older-copy-in-later-directory", []string{"HF", "S"}},
	{"empty-directory-first", []string{"-", "HF"}},
	{"fault-first-program-and-older-copy-later", []string{"F", "HS"}},
	{"program-first-fault-later", []string{"H", "F"}},
	{"three-directories", []string{"-", "F", "HS", "S"}},
}

var fsWrappings = []string{"registered", "in-chain-loader", "after-empty-array-loader", "before-array-loader"}

const fsStaleSrc = "STALE{% macro m() %}sm{% endmacro %}{% block c %}S{% endblock %}"
const fsDecoySrc = "DECOY{% macro m() %}dm{% endmacro %}{% block c %}D{% endblock %}"

type fsScenario struct {
	id        string
	files     map[string]string // healthy program: template name → source (pages/main is rendered)
	main      string
	failing   string // name of the unreadable file (relative, without suffix)
	decoys    []string
	dirs      []string
	wrapping  string
	fault     fsFault
	mode      string // cold | cache-off-warm
	route     *renderRoute
	stmt      string
	formName  string
	topLevel  bool
	searchDir []string
}

func writeTpl(dir, name, src string) error {
	p := filepath.Join(dir, name+".twig")
	if err := os.MkdirAll(filepath.Dir(p), 0o755); err != nil {
		return err
	}
	return os.WriteFile(p, []byte(src), 0o644)
}

// run lays the scenario out on disk and renders it; returns false when the scenario could not be used.
func (sc *fsScenario) run(e *Env) bool {
	r := e.Rep
	root, err := os.MkdirTemp("", "c17-fs-*")
	if err != nil {
		r.Skip("fs-loader: no temporary directory")
		return false
	}
	defer func() {
		filepath.Walk(root, func(p string, info os.FileInfo, err error) error {
			if err == nil && info.Mode().IsRegular() && info.Mode().Perm() == 0 {
				os.Chmod(p, 0o644)
			}
			return nil
		})
		os.RemoveAll(root)
	}()
	scratch := filepath.Join(root, "scratch")
	os.MkdirAll(scratch, 0o755)
	var dirs, faultPaths []string
	for i, roles := range sc.dirs {
		d := filepath.Join(root, fmt.Sprintf("d%d", i))
		os.MkdirAll(d, 0o755)
		dirs = append(dirs, d)
		for _, role := range roles {
			switch role {
			case 'H':
				for n, src := range sc.files {
					if err := writeTpl(d, n, src); err != nil {
						r.Skip("fs-loader: cannot write templates")
						return false
					}
				}
				for _, n := range sc.decoys {
					writeTpl(d, n, fsDecoySrc)
				}
			case 'F':
				writeTpl(d, sc.failing, loaderPartSrc)
				faultPaths = append(faultPaths, filepath.Join(d, sc.failing+".twig"))
			case 'S':
				writeTpl(d, sc.failing, fsStaleSrc)
			}
		}
	}
	sc.searchDir = dirs
	mk := func() *twig.Engine {
		eng := twig.New()
		var fl twig.Loader = twig.NewFileSystemLoader(dirs)
		switch sc.wrapping {
		case "in-chain-loader":
			eng.RegisterLoader(twig.NewChainLoader([]twig.Loader{fl}))
		case "after-empty-array-loader":
			eng.RegisterLoader(twig.NewArrayLoader(map[string]string{}))
			eng.RegisterLoader(fl)
		case "before-array-loader":
			eng.RegisterLoader(fl)
			eng.RegisterLoader(twig.NewArrayLoader(map[string]string{"other": "o"}))
		default:
			eng.RegisterLoader(fl)
		}
		if sc.mode == "cache-off-warm" {
			eng.SetCache(false)
		}
		return eng
	}
	// with the file readable the program renders and reaches the file
	dry := guarded(func() (string, error) { return mk().Render(sc.main, nil) })
	if dry.Err != nil || dry.Class != "" || strings.Contains(dry.Out, "DECOY") || strings.Contains(dry.Out, "STALE") {
		r.Seen("fs-dry:"+sc.id, false)
		r.Hit("fs-loader-dry-run-unusable:" + sc.formName + "/" + strings.Join(sc.dirs, ","))
		return false
	}
	eng := mk()
	if sc.mode == "cache-off-warm" {
		if w := guarded(func() (string, error) { return eng.Render(sc.main, nil) }); w.Err != nil || w.Out != dry.Out {
			r.Hit("fs-loader-warm-up-unusable")
			return false
		}
	}
	// the file becomes unreadable
	var cause error
	for _, p := range faultPaths {
		os.Remove(p)
		if err := sc.fault.make(p, scratch); err != nil {
			r.Hit("fs-loader-fault-not-available:" + sc.fault.name)
			return false
		}
		rerr, ok := probeFault(p)
		if !ok {
			r.Hit("fs-loader-fault-not-available:" + sc.fault.name)
			return false
		}
		cause = rerr
	}
	var pe *fs.PathError
	if !errors.As(cause, &pe) {
		r.Hit("fs-loader-fault-not-a-path-error:" + sc.fault.name)
		return false
	}
	errno := pe.Err
	var second RenderResult
	res := guardedTimeout(5*time.Second, func() (string, error) {
		out, err := sc.route.render(eng, sc.main, nil)
		// and once more on the same engine: the failure is not remembered as an absence
		o2, e2 := eng.Render(sc.main, nil)
		second = RenderResult{Out: o2, Err: e2}
		return out, err
	})
	r.Seen("fs:"+sc.id, true)
	r.Hit("fs-loader:" + sc.formName)
	r.Hit("fs-loader-fault:" + sc.fault.name)
	for i, rr := range []RenderResult{res, second} {
		var got *fs.PathError
		if res.Panic == "" && res.Class != "timeout" && rr.Err != nil && rr.Out == "" && errors.As(rr.Err, &got) && errors.Is(rr.Err, errno) {
			continue
		}
		what := "the read error is not reachable through the returned error"
		if rr.Err == nil {
			what = "the read failure was replaced by output with a nil error"
		}
		via := sc.route.name
		if i == 1 {
			via = "Engine.Render (second render on the same engine)"
		}
		files := map[string]any{}
		for k, v := range sc.files {
			files[k+".twig"] = v
		}
		r.Violate(Violation{Key: "unreadable-template-file-not-reported", What: fmt.Sprintf("%s: FileSystemLoader over %v; %s.twig is there but cannot be read (%s: %v); %s of %q via %s → output %q, error %v — %s",
			sc.id, sc.dirs, sc.failing, sc.fault.name, errno, sc.stmt, sc.main, via, truncate(rr.Out, 80), truncateErr(rr.Err, 240), what),
			Broken: "theorem C17_propagates (loader causes, the library's FileSystemLoader; implementation-only oracle)",
			Replay: map[string]any{"kind": "fs-loader", "id": sc.id, "files": files, "unreadable": sc.failing + ".twig", "fault": sc.fault.name, "read_error": fmt.Sprint(cause),
				"directories": sc.dirs, "legend": "H = the files, F = the unreadable file, S = an older readable copy, - = empty", "decoys": sc.decoys, "loader": sc.wrapping, "mode": sc.mode,
				"main": sc.main, "route": via, "out": rr.Out, "err": fmt.Sprint(rr.Err), "panic": res.Panic}})
		break
	}
	return true
}

func fsLoaderOracle(e *Env) {
	r := e.Rep
	if _, err := os.Stat(os.TempDir()); err != nil {
		r.Skip("fs-loader: no temporary directory")
		return
	}
	// which faults this platform / user can produce
	available := map[string]bool{}
	if probe, err := os.MkdirTemp("", "c17-probe-*"); err == nil {
		for _, f := range fsFaults {
			p := filepath.Join(probe, f.name+".twig")
			if f.make(p, probe) == nil {
				if _, ok := probeFault(p); ok {
					available[f.name] = true
				}
			}
			if info, err := os.Lstat(p); err == nil && info.Mode().IsRegular() {
				os.Chmod(p, 0o644)
			}
		}
		os.RemoveAll(probe)
	}
	for _, f := range fsFaults {
		if !available[f.name] {
			r.Skip("fs-loader fault cannot be produced here: " + f.name)
		}
	}
	if !available["directory"] {
		return
	}
	forms := append([]loaderForm{{"top-level-render", "", true}}, loaderForms...)
	tick := 0
	budget := e.N(700, 1<<30)
	ran := 0
	for _, form := range forms {
		for pi, pos := range loaderPositions {
			if form.top && !pos.top {
				continue
			}
			if form.name == "top-level-render" && pi > 0 {
				continue
			}
			for ni, nm := range fsNames {
				if form.name == "top-level-render" && ni > 1 {
					continue
				}
				for ai, arr := range fsArrangements {
					for fi, fault := range fsFaults {
						for mi, mode := range []string{"cold", "cache-off-warm"} {
							tick++
							if r.Full() {
								return
							}
							if !available[fault.name] {
								continue
							}
							// on every seed: every statement at the top / after text, plain name, the two basic arrangements,
							// the fault every platform has, cold. Beyond that the quick tier walks a slice of the product
							// (a different one per seed), thorough all of it.
							always := (pos.name == "top" || pos.name == "after-text") && ni == 0 && ai < 2 && fi == 0 && mi == 0
							if !always && !e.Thorough() && ((int64(tick)+e.Seed)%37 != 0 || ran >= budget) {
								continue
							}
							ran++
							sc := &fsScenario{formName: form.name, failing: nm.file, decoys: nm.decoys, dirs: arr.dirs, fault: fault, mode: mode,
								wrapping: fsWrappings[tick%len(fsWrappings)], route: renderRoutes[0]}
							if tick%3 == 0 {
								sc.route = nextRoute()
							}
							if always {
								sc.wrapping = fsWrappings[0]
							}
							if form.name == "top-level-render" {
								sc.topLevel = true
								sc.stmt = "top-level render"
								sc.main = strings.Trim(nm.written, "'")
								sc.files = map[string]string{"pages/other": "o"}
							} else {
								sc.stmt = strings.ReplaceAll(strings.ReplaceAll(form.stmt, "NAME", nm.written), "COMPUTED", nm.computed)
								sc.files = pos.tpls(sc.stmt)
								sc.main = "pages/main"
							}
							sc.id = fmt.Sprintf("%s/%s/%s/%s/%s/%s/%s", form.name, pos.name, nm.name, arr.name, fault.name, mode, sc.wrapping)
							sc.run(e)
						}
					}
				}
			}
		}
	}
}
