package main

import (
	"fmt"
	"regexp"
	"strings"
)

// C04 (k) — a tag that closes a block where no block is open.
//
// parseOuterTemplate returns at a tag that closes a block (endif, else, elseif, endfor, endblock, endmacro, endapply,
// endspaceless, endverbatim) so that the tag's own parser can go on. At the top level of a template nobody goes on:
// before the repair Parser.Parse took what it had and dropped everything behind the stray tag without a word —
// `a{% endif %}b` rendered `a`, the literal text `b` was lost (C04: every byte outside delimiters appears in the output
// exactly once). The repaired parser reports a parse error.
//
// The corpus is the same on every seed. Two independent expectations:
//   - the Lean pipeline model through compareCase (parseTemplate rejects `strayEnd rest`); the model supports every
//     case of this corpus — a skip is reported as a violation;
//   - computed in Go, from the source text alone (c04StrayScan: a block stack over the tag names, comments and verbatim
//     bodies skipped): a template is a parse error whenever a closing tag stands where no block (of its kind) is open;
//     and — the C04 clause — an ACCEPTED template's output contains every literal chunk, in order.

// names at which parseOuterTemplate returns
var c04StrayClosers = []string{"endif", "else", "elseif", "endfor", "endblock", "endmacro", "endapply", "endspaceless", "endverbatim"}

// names that look like closers and are nobody's: unknown tags (a parse error of another kind)
var c04StrayUnknown = []string{"endfoo", "endwhile", "end", "endifx", "endset"}

// the tag spelled with plain, dashed and tight delimiters
type c04StraySpelling struct {
	name        string
	open, close string
}

var c04StraySpellings = []c04StraySpelling{
	{"plain", "{% ", " %}"},
	{"dashed", "{%- ", " -%}"},
	{"tight", "{%", "%}"},
}

func c04StrayTag(name string, sp c04StraySpelling) string {
	arg := ""
	if name == "elseif" {
		arg = " t"
	}
	return sp.open + name + arg + sp.close
}

// a complete block that the closer `name` would close, and one of another kind
func c04StrayBlockOf(name string) (same, other string) {
	ifB := "{% if t %}I{% endif %}"
	forB := "{% for i in xs %}{{ i }}{% endfor %}"
	switch name {
	case "endif":
		return ifB, forB
	case "else":
		return "{% if x %}I{% else %}E{% endif %}", "{% for i in none %}{{ i }}{% else %}F{% endfor %}"
	case "elseif":
		return "{% if x %}I{% elseif t %}J{% endif %}", forB
	case "endfor":
		return forB, ifB
	case "endblock":
		return "{% block bk %}B{% endblock %}", ifB
	case "endmacro":
		return "{% macro mm(a) %}M{{ a }}{% endmacro %}", ifB
	case "endapply":
		return "{% apply upper %}u{% endapply %}", ifB
	case "endspaceless":
		return "{% spaceless %}<b> </b>{% endspaceless %}", ifB
	case "endverbatim":
		return "{% verbatim %}{{ raw }}{% endif %}{% endverbatim %}", ifB
	}
	return ifB, forB
}

// what stands behind the tag: literal chunks it contributes when the template is accepted
type c04StrayFollow struct {
	name   string
	src    string
	chunks []string
}

var c04StrayFollows = []c04StrayFollow{
	{"text", "T-behind", []string{"T-behind"}},
	{"print", "{{ v }}", []string{"⟦V⟧"}},
	{"block", "{% if t %}Y-behind{% endif %}", []string{"Y-behind"}},
	{"nothing", "", nil},
}

var c04StrayFiller = strings.Repeat("<li>filler</li>\n", 257) // 4112 bytes: the large-template scanner

var c04StrayCtx = map[string]any{"t": true, "x": false, "v": "⟦V⟧", "xs": []interface{}{1, 2}, "one": []interface{}{1}, "none": []interface{}{}}

// --- the expectation computed from the source ------------------------------------------------------------------------

var c04StrayTagRe = regexp.MustCompile(`^\{%-?\s*([A-Za-z_][A-Za-z0-9_]*)`)

// c04StrayScan walks over one template source and says why the parser must reject it ("" = the block structure is
// sound). It knows the tag NAMES only: which ones open a block, which ones close which block.
func c04StrayScan(src string) string {
	var stack []string
	closes := map[string][]string{ // closer -> blocks it may stand in; for else/elseif the block stays open
		"endif": {"if"}, "else": {"if", "for"}, "elseif": {"if"}, "endfor": {"for"}, "endblock": {"block"}, "endmacro": {"macro"},
		"endapply": {"apply"}, "endspaceless": {"spaceless"}, "endverbatim": {"verbatim"},
	}
	opens := map[string]bool{"if": true, "for": true, "block": true, "macro": true, "apply": true, "spaceless": true}
	known := map[string]bool{"set": true, "include": true, "extends": true, "import": true, "from": true, "do": true}
	for i := 0; i < len(src); {
		switch {
		case strings.HasPrefix(src[i:], "{#"):
			j := strings.Index(src[i+2:], "#}")
			if j < 0 {
				return "unclosed comment"
			}
			i += 2 + j + 2
		case strings.HasPrefix(src[i:], "{{"):
			j := strings.Index(src[i+2:], "}}")
			if j < 0 {
				return "unclosed print tag"
			}
			i += 2 + j + 2
		case strings.HasPrefix(src[i:], "{%"):
			m := c04StrayTagRe.FindStringSubmatch(src[i:])
			j := strings.Index(src[i+2:], "%}")
			if m == nil || j < 0 {
				return "malformed block tag"
			}
			name := m[1]
			i += 2 + j + 2
			switch {
			case name == "verbatim":
				// raw until the next endverbatim tag
				loc := regexp.MustCompile(`\{%-?\s*endverbatim\s*-?%\}`).FindStringIndex(src[i:])
				if loc == nil {
					return "unclosed verbatim"
				}
				i += loc[1]
			case opens[name]:
				stack = append(stack, name)
			case closes[name] != nil:
				if len(stack) == 0 {
					return "stray " + name
				}
				top := stack[len(stack)-1]
				fits := false
				for _, b := range closes[name] {
					fits = fits || b == top
				}
				if !fits {
					return "mismatched " + name + " in " + top
				}
				if name != "else" && name != "elseif" {
					stack = stack[:len(stack)-1]
				}
			case known[name]:
			default:
				return "unknown tag " + name
			}
		default:
			i++
		}
	}
	if len(stack) > 0 {
		return "unclosed " + stack[len(stack)-1]
	}
	return ""
}

// c04StrayInOrder: every chunk occurs in out, each behind the one before
func c04StrayInOrder(out string, chunks []string) (bool, string) {
	at := 0
	for _, ch := range chunks {
		j := strings.Index(out[at:], ch)
		if j < 0 {
			return false, ch
		}
		at += j + len(ch)
	}
	return true, ""
}

type c04StrayCase struct {
	label  string
	tpls   map[string]string
	chunks []string // literal chunks (and marker values) of the rendered path, in order
	stray  bool     // by construction: some template of the set has a closing tag where no block of its kind is open
}

// c04StrayCorpus: every closing tag name × delimiter spelling × position × what follows; the same on every seed.
func c04StrayCorpus() []c04StrayCase {
	var cs []c04StrayCase
	add := func(label string, tpls map[string]string, chunks []string, stray bool) {
		cs = append(cs, c04StrayCase{label, tpls, chunks, stray})
	}
	one := func(src string) map[string]string { return map[string]string{"main": src} }
	names := append(append([]string{}, c04StrayClosers...), c04StrayUnknown...)
	for _, name := range names {
		same, other := c04StrayBlockOf(name)
		for _, sp := range c04StraySpellings {
			tag := c04StrayTag(name, sp)
			for _, fo := range c04StrayFollows {
				l := name + "/" + sp.name + "/" + fo.name + "/"
				after := append([]string{}, fo.chunks...)
				with := func(before ...string) []string { return append(append([]string{}, before...), after...) }
				// alone / at the start
				add(l+"start", one(tag+fo.src), with(), true)
				// in the middle (with nothing behind it: at the end)
				add(l+"middle", one("A-front "+tag+fo.src), with("A-front"), true)
				add(l+"after-print", one("A-front{{ v }}"+tag+fo.src), with("A-front", "⟦V⟧"), true)
				// after a complete block of the same and of another kind
				add(l+"after-same-block", one("A-front"+same+"|"+tag+fo.src), with("A-front", "|"), true)
				add(l+"after-other-block", one(other+"A-mid"+tag+fo.src), with("A-mid"), true)
				// twice
				add(l+"twice", one("A-front"+tag+"B-between"+tag+fo.src), with("A-front", "B-between"), true)
				// behind a comment whose body holds an opener of that block
				add(l+"behind-comment", one("A-front{# {% if t %} {% for i in xs %} {% block bk %} #}"+tag+fo.src), with("A-front"), true)
				// behind more than 4096 bytes of text
				add(l+"behind-4100", one(c04StrayFiller+"A-front"+tag+fo.src), with("<li>filler</li>\n<li>filler</li>", "A-front"), true)
				// inside an included, an extended and an imported template
				add(l+"in-included", map[string]string{"main": "[{% include 'p' %}]M-behind", "p": "P-front" + tag + fo.src}, with("[", "P-front"), true)
				add(l+"in-extended", map[string]string{"main": "{% extends 'p' %}{% block c %}C-child{% endblock %}", "p": "P-front{% block c %}c{% endblock %}" + tag + fo.src},
					with("P-front", "C-child"), true)
				add(l+"in-imported", map[string]string{"main": "[{% import 'p' as lib %}{{ lib.mm('x') }}]M-behind", "p": "{% macro mm(a) %}({{ a }}){% endmacro %}" + tag + fo.src}, []string{"[", "(x)", "]M-behind"}, true)
				// in the child that extends: its top level is not rendered, it is parsed all the same
				add(l+"in-extending-child", map[string]string{"main": "{% extends 'p' %}{% block c %}C-child{% endblock %}" + tag + fo.src, "p": "P-front{% block c %}c{% endblock %}P-behind"},
					[]string{"P-front", "C-child", "P-behind"}, true)
			}
		}
	}
	// a closer inside an open block of ANOTHER kind: no block of its kind is open
	wrong := []struct{ open, closer, end string }{
		{"{% if t %}", "endfor", "{% endif %}"}, {"{% if t %}", "endblock", "{% endif %}"}, {"{% if t %}", "endmacro", "{% endif %}"},
		{"{% if t %}", "endapply", "{% endif %}"}, {"{% if t %}", "endspaceless", "{% endif %}"}, {"{% if t %}", "endverbatim", "{% endif %}"},
		{"{% for i in one %}", "endif", "{% endfor %}"}, {"{% for i in one %}", "elseif", "{% endfor %}"}, {"{% for i in one %}", "endblock", "{% endfor %}"},
		{"{% block bk %}", "endif", "{% endblock %}"}, {"{% block bk %}", "else", "{% endblock %}"}, {"{% block bk %}", "endfor", "{% endblock %}"},
		{"{% macro mm(a) %}", "endif", "{% endmacro %}"}, {"{% macro mm(a) %}", "endblock", "{% endmacro %}"},
		{"{% apply upper %}", "endif", "{% endapply %}"}, {"{% apply upper %}", "else", "{% endapply %}"},
		{"{% spaceless %}", "endif", "{% endspaceless %}"}, {"{% spaceless %}", "endfor", "{% endspaceless %}"},
	}
	for _, w := range wrong {
		for _, sp := range c04StraySpellings {
			for _, fo := range c04StrayFollows {
				add("wrong-block/"+w.closer+"/"+sp.name+"/"+fo.name, one("A-front"+w.open+"B-body"+c04StrayTag(w.closer, sp)+fo.src+w.end+"Z-behind"), nil, true)
			}
		}
	}
	// the same tags where they belong: accepted, every chunk in order
	type ctl struct {
		name      string
		pre, post string // around the closer: pre TAG post
		chunks    []string
	}
	ctls := []ctl{
		{"endif", "L1{% if t %}L2", "L3", []string{"L1", "L2", "L3"}},
		{"else", "L1{% if x %}N{{ nope }}", "L2{% endif %}L3", []string{"L1", "L2", "L3"}},
		{"elseif", "L1{% if x %}N{{ nope }}", "L2{% endif %}L3", []string{"L1", "L2", "L3"}},
		{"endfor", "L1{% for i in one %}L2", "L3", []string{"L1", "L2", "L3"}},
		{"else", "L1{% for i in none %}N{{ nope }}", "L2{% endfor %}L3", []string{"L1", "L2", "L3"}},
		{"endblock", "L1{% block bk %}L2", "L3", []string{"L1", "L2", "L3"}},
		{"endmacro", "L1{% macro mm(a) %}L2{{ a }}", "L3{{ mm('!') }}", []string{"L1", "L3", "L2!"}},
		{"endapply", "L1{% apply upper %}L2", "L3", []string{"L1", "L2", "L3"}},
		// the model parses `spaceless` and does not render it: the block stands in a branch that is not taken
		{"endspaceless", "L1{% if x %}{% spaceless %}<b> N </b>", "{% endif %}L3", []string{"L1", "L3"}},
		{"endverbatim", "L1{% verbatim %}L2{{ raw }}", "L3", []string{"L1", "L2{{", "raw", "}}", "L3"}},
	}
	for _, c := range ctls {
		for _, sp := range c04StraySpellings {
			tag := c04StrayTag(c.name, sp)
			for _, fo := range c04StrayFollows {
				l := "in-place/" + c.name + "/" + sp.name + "/" + fo.name + "/"
				body := c.pre + tag + c.post + fo.src
				chunks := append(append([]string{}, c.chunks...), fo.chunks...)
				add(l+"top", one(body), chunks, false)
				add(l+"behind-4100", one(c04StrayFiller+body), chunks, false)
				add(l+"in-included", map[string]string{"main": "[{% include 'p' %}]M-behind", "p": body}, append(append([]string{"["}, chunks...), "]M-behind"), false)
				// …and the accepted block followed by the same closer once more: stray again
				add(l+"closed-twice", one(body+"|"+tag+"Z-behind"), nil, true)
			}
		}
	}
	return cs
}

func c04StrayTags(e *Env) error {
	r := e.Rep
	corpus := c04StrayCorpus()
	r.Note(fmt.Sprintf("stray-end-tag corpus: %d cases (the same on every seed)", len(corpus)))
	for _, sc := range corpus {
		if r.Full() {
			return nil
		}
		// the expectation computed from the sources: a template set is rejected when any template of it is
		why := ""
		for _, n := range sortedKeys(sc.tpls) {
			if w := c04StrayScan(sc.tpls[n]); w != "" && why == "" {
				why = w + " (template " + n + ")"
			}
		}
		if (why != "") != sc.stray {
			return fmt.Errorf("c04_stray: corpus case %s: built as stray=%v, the block scan says %q: %q", sc.label, sc.stray, why, truncate(fmt.Sprint(sc.tpls), 300))
		}
		c := &Case{Templates: sc.tpls, Main: "main", Ctx: c04StrayCtx, FailAt: -1}
		r.Seen("stray:"+sc.label+":"+fmt.Sprint(sc.tpls), true)
		if sc.stray {
			r.Hit("stray-end-tag:" + strings.SplitN(sc.label, "/", 2)[0])
		} else {
			r.Hit("end-tag-in-place")
		}
		skipsBefore := 0
		for _, n := range r.Skipped {
			skipsBefore += n
		}
		im, mo, _, err := compareCase(e, c, "render-model-c04", "correspondence render (Lean pipeline vs real engine) on block-closing tags at the top level of a template: theorem C04_stray_end_tag_rejected / C04_accepted_template_is_read_to_the_end")
		if err != nil {
			return err
		}
		if im.Class == "panic" || im.Class == "timeout" {
			continue
		}
		skipsAfter := 0
		for _, n := range r.Skipped {
			skipsAfter += n
		}
		if e.Model != nil && skipsAfter != skipsBefore {
			r.Violate(Violation{Key: "stray-corpus-model-skip", What: fmt.Sprintf("the Lean model does not support the stray-end-tag case %s (%s%s)", sc.label, mo.Unsupported, map[bool]string{true: "out of fuel", false: ""}[mo.Fuel]),
				Broken: "the model must decide every case of the stray-end-tag corpus", Replay: c.replay(im, mo)})
			continue
		}
		shown := fmt.Sprint(sc.tpls)
		if len(sc.tpls) == 1 {
			shown = sc.tpls["main"]
		}
		shown = strings.ReplaceAll(shown, c04StrayFiller, "<4112 bytes of text>")
		if why != "" {
			if im.Class != "parse" {
				rp := c.replay(im, Outcome{Class: "parse"})
				rp["expected"] = "parse error: " + why
				dropped := ""
				if ok, missing := c04StrayInOrder(im.Out, sc.chunks); !ok && im.Class == "" {
					dropped = fmt.Sprintf("; the chunk %q is dropped without a word", missing)
				}
				r.Violate(Violation{Key: "stray-end-tag-accepted", What: fmt.Sprintf("%q: %s, yet the template set is not a parse error: it renders %q (class %q)%s", truncate(shown, 200), why, truncate(im.Out, 120), im.Class, dropped),
					Broken: "theorem C04_stray_end_tag_rejected (a closing tag where no block is open is a parse error; expectation computed in Go from the tag names)", Replay: rp})
			}
			continue
		}
		// accepted by the block scan: accepted by the engine, every literal chunk in order
		if im.Class != "" {
			r.Violate(Violation{Key: "end-tag-in-place-rejected", What: fmt.Sprintf("%q: every closing tag closes an open block of its kind, yet the engine reports %q (%s)", truncate(shown, 200), im.Class, truncate(im.Msg, 120)),
				Broken: "theorem C04_accepted_template_is_read_to_the_end (non-vacuity: block tags closed where they were opened parse)", Replay: c.replay(im, Outcome{})})
			continue
		}
		if ok, missing := c04StrayInOrder(im.Out, sc.chunks); !ok {
			rp := c.replay(im, Outcome{})
			rp["chunks"] = fmt.Sprint(sc.chunks)
			r.Violate(Violation{Key: "chunks-not-exact", What: fmt.Sprintf("%q is accepted and renders %q: the literal chunk %q is missing or out of order (chunks %q)", truncate(shown, 200), truncate(im.Out, 160), missing, sc.chunks),
				Broken: "theorem C04_accepted_template_is_read_to_the_end / C04_chunks (an accepted template emits every literal chunk, in order)", Replay: rp})
		}
	}
	return nil
}
