package main

import (
	"fmt"
	"math"
	"math/rand"
	"regexp"
	"strconv"
	"strings"
)

// C08 (h) — a number held as TEXT has the value of the same number written as a literal.
//
// "On integers, booleans and strings the operators give the mathematically expected result: ... numeric comparison":
// a string operand of an arithmetic or comparison operator that spells a number (a form field, a CSV cell, a string
// literal, the result of ~ or of a string filter) is that number. The sections above only ever hand INTEGER text to
// the operators ('12', '3', '007'); the conversion of text to a number is its own routine in the engine and is not
// the one that reads number literals. Here every two-decimal fraction 0.00 .. 0.99, every one-decimal fraction, a grid
// of three- and four-decimal fractions, decimals with an integer part, negative ones, exponent spellings, other
// spellings of the same values (+0.3, .3, 00.3, 0.300), integers up to 2^53 and 17-digit decimals — plus random
// decimals — arrive as text from every kind of source and take part in every comparison and arithmetic operator, in
// every syntactic position. The expected results are computed here in Go from the correctly rounded double of the
// decimal (strconv.ParseFloat) with the IEEE operations the property's "numeric" means for fractions; the same
// templates are also rendered with the number written as a literal and handed over as a float64, which validates
// the expectation on numbers before it is asked of text (key decimal-number-operand vs number-as-text-operand).
// The Lean model has integers only ("unsupported: string that may parse as a non-integer float"): implementation-
// only oracle.

var plainDecimal = regexp.MustCompile(`^-?[0-9]+(\.[0-9]+)?$`)

// dtSpellings: the deterministic corpus, then `random` random decimals.
func dtSpellings(rg *rand.Rand, random int) []string {
	seen := map[string]bool{}
	var out []string
	add := func(s string) {
		if !seen[s] {
			seen[s] = true
			out = append(out, s)
		}
	}
	for i := 0; i < 100; i++ {
		add(fmt.Sprintf("0.%02d", i))
	}
	for i := 0; i < 10; i++ {
		add(fmt.Sprintf("0.%d", i))
	}
	for i := 1; i < 1000; i += 37 {
		add(fmt.Sprintf("0.%03d", i))
	}
	for i := 1; i < 10000; i += 1009 {
		add(fmt.Sprintf("0.%04d", i))
	}
	for _, s := range []string{"1.1", "19.99", "12.5", "123.456", "1234.5678", "100.01", "7.07", "3.30", "99.99", "1000000.3", "2.675", "1.005", "4.35", "0.000001", "0.0000003",
		"-0.3", "-0.06", "-12.5", "-0.7", "-1.15", "-0.01",
		"1e-3", "25e-1", "1.5e2", "1E3", "3e-1", "6E-2", "7e-1", "1e-7", "-3e-1", "1.5e+2", "12e-2",
		"+0.3", ".3", "3.", "00.3", "0.300", "0.3000000", "+.5", "-.06",
		"0", "5", "12", "-4", "1000", "123456789012345", "9007199254740991", "9007199254740992", "-9007199254740992",
		"0.30000000000000004", "0.1000000000000000055511151231257827", "3.141592653589793", "0.299999999999999988897769753748", "2.2250738585072014e-308"} {
		add(s)
	}
	for i := 0; i < random; i++ {
		fd := 1 + rg.Intn(6)
		s := fmt.Sprintf("%d.%0*d", []int{0, 0, rg.Intn(10), rg.Intn(1000), rg.Intn(100000)}[rg.Intn(5)], fd, rg.Intn(int(math.Pow10(fd))))
		if rg.Intn(5) == 0 {
			s = "-" + s
		}
		if rg.Intn(8) == 0 {
			s += fmt.Sprintf("e-%d", 1+rg.Intn(4))
		}
		add(s)
	}
	return out
}

// dtLine: one expression / tag with T = the text operand, N = the same number as a number, LO / HI = the doubles
// next to it, K = an integer variable (200); want computes the expected output from f.
type dtLine struct {
	name string
	tpl  string
	want func(f float64) string
	skip func(f float64) bool
}

func dtFmt(x float64) string {
	if x == 0 {
		x = 0 // no negative zero
	}
	return strconv.FormatFloat(x, 'f', -1, 64)
}

func dtConst(s string) func(float64) string { return func(float64) string { return s } }

func dtNum(op func(f float64) float64) func(float64) string {
	return func(f float64) string { return dtFmt(op(f)) }
}

var dtIsZero = func(f float64) bool { return f == 0 }

var dtLines = []dtLine{
	// comparison with the same number
	{"eq", "{{ T == N }}", dtConst("true"), nil},
	{"eq-flipped", "{{ N == T }}", dtConst("true"), nil},
	{"ne", "{{ T != N }}", dtConst("false"), nil},
	{"lt", "{{ T < N }}", dtConst("false"), nil},
	{"gt", "{{ T > N }}", dtConst("false"), nil},
	{"le", "{{ T <= N }}", dtConst("true"), nil},
	{"ge", "{{ T >= N }}", dtConst("true"), nil},
	{"lt-flipped", "{{ N < T }}", dtConst("false"), nil},
	{"ge-flipped", "{{ N >= T }}", dtConst("true"), nil},
	{"in-list-of-number", "{{ T in [N] }}", dtConst("true"), nil},
	{"number-in-list-of-text", "{{ N in [T] }}", dtConst("true"), nil},
	{"not-in", "{{ T not in [N, 'q'] }}", dtConst("false"), nil},
	// comparison with the neighbouring doubles
	{"gt-lower-neighbour", "{{ T > LO }}", dtConst("true"), nil},
	{"lt-upper-neighbour", "{{ T < HI }}", dtConst("true"), nil},
	{"eq-lower-neighbour", "{{ T == LO }}", dtConst("false"), nil},
	{"eq-upper-neighbour", "{{ T == HI }}", dtConst("false"), nil},
	{"le-lower-neighbour", "{{ T <= LO }}", dtConst("false"), nil},
	{"ge-upper-neighbour", "{{ T >= HI }}", dtConst("false"), nil},
	{"between-neighbours", "{{ LO < T and T < HI }}", dtConst("true"), nil},
	// arithmetic
	{"plus-zero", "{{ T + 0 }}", dtNum(func(f float64) float64 { return f + 0 }), nil},
	{"zero-plus", "{{ 0 + T }}", dtNum(func(f float64) float64 { return 0 + f }), nil},
	{"minus-zero", "{{ T - 0 }}", dtNum(func(f float64) float64 { return f - 0 }), nil},
	{"times-one", "{{ T * 1 }}", dtNum(func(f float64) float64 { return f * 1 }), nil},
	{"divided-by-one", "{{ T / 1 }}", dtNum(func(f float64) float64 { return f / 1 }), nil},
	{"unary-minus", "{{ -T }}", dtNum(func(f float64) float64 { return -f }), nil},
	{"double-minus", "{{ -(-T) }}", dtNum(func(f float64) float64 { return f }), nil},
	{"times-ten", "{{ T * 10 }}", dtNum(func(f float64) float64 { return f * 10 }), nil},
	{"times-hundred", "{{ T * 100 }}", dtNum(func(f float64) float64 { return f * 100 }), nil},
	{"plus-itself", "{{ T + T }}", dtNum(func(f float64) float64 { return f + f }), nil},
	{"times-itself", "{{ T * T }}", dtNum(func(f float64) float64 { return f * f }), nil},
	{"minus-number", "{{ T - N }}", dtConst("0"), nil},
	{"number-minus", "{{ N - T }}", dtConst("0"), nil},
	{"divided-by-number", "{{ T / N }}", dtConst("1"), dtIsZero},
	{"plus-one", "{{ T + 1 }}", dtNum(func(f float64) float64 { return f + 1 }), nil},
	{"one-minus", "{{ 1 - T }}", dtNum(func(f float64) float64 { return 1 - f }), nil},
	{"modulo-one", "{{ T % 1 }}", dtNum(func(f float64) float64 { return math.Mod(f, 1) }), nil},
	{"squared", "{{ T ^ 2 }}", dtNum(func(f float64) float64 { return math.Pow(f, 2) }), nil},
	{"times-integer-variable", "{{ K * T }}", dtNum(func(f float64) float64 { return 200 * f }), nil},
	{"products-equal", "{{ K * T == K * N }}", dtConst("true"), nil},
	{"sum-compared", "{{ T + 1 > N }}", dtConst("true"), func(f float64) bool { return f+1 == f }},
	// the other syntactic positions
	{"if-eq", "{% if T == N %}eq{% else %}ne{% endif %}", dtConst("eq"), nil},
	{"if-gt", "{% if T > N %}gt{% else %}le{% endif %}", dtConst("le"), nil},
	{"elseif-lt", "{% if false %}x{% elseif T < N %}lt{% else %}ge{% endif %}", dtConst("ge"), nil},
	{"set-sum", "{% set dt_r = T + 0 %}{{ dt_r }}", dtNum(func(f float64) float64 { return f }), nil},
	{"set-text-then-operate", "{% set dt_t = T %}{{ dt_t * 1 }}|{{ dt_t == N }}", func(f float64) string { return dtFmt(f) + "|true" }, nil},
	{"conditional-condition", "{{ T == N ? 'eq' : 'ne' }}", dtConst("eq"), nil},
	{"conditional-arm", "{{ t ? T + 0 : 'no' }}", dtNum(func(f float64) float64 { return f }), nil},
	{"array-element", "{{ [T + 0, T == N]|join(',') }}", func(f float64) string { return dtFmt(f) + ",true" }, nil},
	{"hash-value", "{{ {'v': T * 1}['v'] }}", dtNum(func(f float64) float64 { return f }), nil},
	{"concat-of-sum", "{{ (T + 0) ~ '' }}", dtNum(func(f float64) float64 { return f }), nil},
	{"filter-argument", "{{ nul|default(T) + 0 }}", dtNum(func(f float64) float64 { return f }), nil},
	{"function-argument", "{{ max(T + 0, LO) }}", dtNum(func(f float64) float64 { return f }), nil},
	{"macro-argument", "{{ dt_m(T, N) }}", func(f float64) string { return dtFmt(f) + "|true" }, nil},
	{"for-sequence", "{% for c in [T] %}{{ c + 0 }}|{{ c == N }}{% endfor %}", func(f float64) string { return dtFmt(f) + "|true" }, nil},
	{"include-variable", "{% include 'dtshow' with {'v': T, 'r': N} only %}", func(f float64) string { return dtFmt(f) + "|true" }, nil},
}

const dtMacro = "{% macro dt_m(q, r) %}{{ q + 0 }}|{{ q == r }}{% endmacro %}"

// dtSource: one way the text reaches the operator; spell returns how T is written, filling ctx as needed.
type dtSource struct {
	name  string
	text  bool // false: T is a number (validates the expectations)
	spell func(s string, f float64, ctx map[string]any) (string, bool)
}

var dtSources = []dtSource{
	{"number-literal", false, func(s string, f float64, ctx map[string]any) (string, bool) {
		if !plainDecimal.MatchString(s) {
			return "", false
		}
		if s[0] == '-' {
			return "(" + s + ")", true
		}
		return s, true
	}},
	{"float64-variable", false, func(s string, f float64, ctx map[string]any) (string, bool) { ctx["dt_f"] = f; return "dt_f", true }},
	{"string-literal", true, func(s string, f float64, ctx map[string]any) (string, bool) { return "'" + s + "'", true }},
	{"double-quoted-literal", true, func(s string, f float64, ctx map[string]any) (string, bool) { return "\"" + s + "\"", true }},
	{"context-string", true, func(s string, f float64, ctx map[string]any) (string, bool) { ctx["dt_s"] = s; return "dt_s", true }},
	{"concatenation", true, func(s string, f float64, ctx map[string]any) (string, bool) {
		h := (len(s) + 1) / 2
		return "('" + s[:h] + "' ~ '" + s[h:] + "')", true
	}},
	{"trim-filter", true, func(s string, f float64, ctx map[string]any) (string, bool) {
		ctx["dt_p"] = "  " + s + " "
		return "(dt_p|trim)", true
	}},
	{"lower-filter", true, func(s string, f float64, ctx map[string]any) (string, bool) {
		ctx["dt_s"] = s
		return "(dt_s|lower)", true
	}},
	{"element-of-text-list", true, func(s string, f float64, ctx map[string]any) (string, bool) {
		ctx["dt_l"] = []interface{}{"x", s}
		// in parentheses: on the unchanged tree a unary operator binds tighter than a subscript, {{ -xs[1] }} and
		// {{ not xs[1] }} print nothing while {{ -(xs[1]) }} and {{ -m.k }} are right (reported, not asked here)
		return "(dt_l[1])", true
	}},
	{"split-piece", true, func(s string, f float64, ctx map[string]any) (string, bool) {
		ctx["dt_c"] = "id;" + s + ";end"
		return "((dt_c|split(';'))[1])", true
	}},
	{"map-attribute", true, func(s string, f float64, ctx map[string]any) (string, bool) {
		ctx["dt_row"] = map[string]interface{}{"rate": s}
		return "dt_row.rate", true
	}},
}

func c08DecimalText(e *Env) error {
	r := e.Rep
	rg := e.Rng
	tpls := func(main string) map[string]string {
		return map[string]string{"main": main, "dtshow": "{{ v + 0 }}|{{ v == r }}"}
	}
	fill := func(tpl, t, n string) string {
		return strings.NewReplacer("T", t, "N", n, "LO", "dt_lo", "HI", "dt_hi", "K", "dt_k").Replace(tpl)
	}
	spellings := dtSpellings(rg, e.N(60, 6000))
	for si, s := range spellings {
		if r.Full() {
			return nil
		}
		f, err := strconv.ParseFloat(s, 64)
		if err != nil || math.IsInf(f, 0) || math.IsNaN(f) {
			continue
		}
		// the number reference N: the literal where the lexer can read the spelling, else a float64 variable;
		// thorough: every source of T against both
		literalOK := plainDecimal.MatchString(s)
		pickN := func(pref int) int {
			if !literalOK {
				return 1
			}
			return pref
		}
		for ti, ts := range dtSources {
			for ni, ns := range dtSources[:2] {
				if ti < 2 && ti != ni {
					continue // number against itself only
				}
				if !e.Thorough() {
					// quick tier, per spelling: one number run (alternating literal / float64), the string literal against
					// one reference, two of the other eight text sources (rotating) against one reference
					run := false
					switch {
					case ti < 2:
						run = pickN(si%2) == ti
					case ti == 2:
						run = pickN(si%2) == ni
					default:
						run = ((ti-3) == si%8 || (ti-3) == (si+4)%8) && pickN((si/8+ti)%2) == ni
					}
					if !run {
						continue
					}
				}
				ctx := map[string]any{"t": true, "nul": nil, "dt_k": 200, "dt_lo": math.Nextafter(f, math.Inf(-1)), "dt_hi": math.Nextafter(f, math.Inf(1))}
				T, ok1 := ts.spell(s, f, ctx)
				N, ok2 := ns.spell(s, f, ctx)
				if !ok1 || !ok2 {
					continue
				}
				var lines []dtLine
				var src, want strings.Builder
				src.WriteString(dtMacro)
				for _, l := range dtLines {
					if l.skip != nil && l.skip(f) {
						continue
					}
					lines = append(lines, l)
					src.WriteString(fill(l.tpl, T, N) + "\n")
					want.WriteString(l.want(f) + "\n")
				}
				c := &Case{Templates: tpls(src.String()), Main: "main", Ctx: ctx, FailAt: -1}
				im := runImpl(c)
				r.Seen(fmt.Sprintf("dectext:%s:%s:%s", s, ts.name, ns.name), true)
				r.Hit("number-as-text-source:" + ts.name)
				if si == 3 && ti == 2 && ni == 0 {
					r.Sample(map[string]any{"number_as_text": s, "T": T, "N": N, "lines": len(lines)})
				}
				if im.Class == "" && im.Out == want.String() {
					continue
				}
				key, what := "number-as-text-operand", "text holding a number"
				if !ts.text {
					key, what = "decimal-number-operand", "number"
				}
				reported := false
				for _, l := range lines {
					one := dtMacro + fill(l.tpl, T, N)
					oc := &Case{Templates: tpls(one), Main: "main", Ctx: ctx, FailAt: -1}
					om := runImpl(oc)
					if om.Class == "" && om.Out == l.want(f) {
						continue
					}
					reported = true
					rp := dtReplay(oc, om)
					rp["want"], rp["spelling"], rp["value"], rp["text_source"], rp["number_reference"], rp["line"] = l.want(f), s, dtFmt(f), ts.name, ns.name, l.name
					if r.Violate(Violation{Key: key, What: fmt.Sprintf("%s %q (%s: T = %s) against the number %s (%s: N = %s): %s gives %q (%s %s), expected %q",
						what, s, ts.name, T, dtFmt(f), ns.name, N, fill(l.tpl, T, N), om.Out, om.Class, truncate(om.Msg, 80), l.want(f)),
						Broken: "C08: on strings the operators give the mathematically expected result — numeric comparison and arithmetic on a numeric string use the number it spells (implementation-only oracle: strconv.ParseFloat and IEEE arithmetic in Go; fractions are outside the Lean model)",
						Replay: rp}) {
						return nil
					}
					break // one line per spelling and source is enough
				}
				if !reported {
					rp := dtReplay(c, im)
					rp["want"], rp["spelling"], rp["text_source"] = want.String(), s, ts.name
					if r.Violate(Violation{Key: key, What: fmt.Sprintf("%s %q (%s): every line alone is right, but all %d in one template give %q (%s %s), expected %q", what, s, ts.name, len(lines), truncate(im.Out, 300), im.Class, truncate(im.Msg, 80), truncate(want.String(), 300)),
						Broken: "C08: numeric comparison and arithmetic on a numeric string (implementation-only oracle)",
						Replay: rp}) {
						return nil
					}
				}
			}
		}
	}
	return nil
}

func dtReplay(c *Case, im Outcome) map[string]any {
	tpls := map[string]any{}
	for k, v := range c.Templates {
		tpls[k] = v
	}
	types := map[string]any{}
	for k, v := range c.Ctx {
		types[k] = fmt.Sprintf("%T", v)
	}
	return map[string]any{"kind": "render", "templates": tpls, "main": c.Main, "ctx": c.Ctx, "ctx_go_types": types,
		"impl": map[string]any{"out": im.Out, "class": im.Class, "msg": im.Msg, "panic": im.Panic}}
}
