package main

import (
	"fmt"
	"strings"
)

// C12 — what a macro call leaves behind in its CALLER.
//
// "Parameters shadow outer variables of the same name and assignments made in the body are invisible to the caller",
// and "the same macro produces the same output … however it is reached": the caller's state after a call is part of
// what the call does. The output of the call itself is not enough to observe it, so every case here reads the
// caller's names AFTER the call (and calls the macro a second time and reads them again).
//
// Dimensions (all crossed deterministically in the quick tier, see the budget below):
//   - what else lives in the macro's template: nothing (a LONE macro), a sibling after it, before it, on both sides;
//   - the signature: 0, 1 or 2 parameters, with and without a default; argument lists of 0 … arity+2 values;
//   - how the body assigns a name: set, for (value and key/value loop variables), do, import … as,
//     from … import … as, an include that sets, a nested macro call whose body sets, several of them at once, and
//     none (control);
//   - how the caller HOLDS the name that the body assigns: render data, set, a loop variable (loop.index is read after
//     the call too), a parameter of an enclosing macro, a variable read inside a block, inside an included template,
//     an import alias (a module) and a from-imported macro name;
//   - the route: local name, _self, import … as, from … import, from … import … as.
//
// Expected values are computed here (independent spec): the call prints the body's own text, the caller's names keep
// their values, a name the caller never had stays undefined, the parameters' namesakes in the caller keep their
// values. Part of the cases also goes through the Lean pipeline (compareCase).

type c12Assign struct {
	kind string
	body func(v string) string // body fragment assigning the name v
	out  string                // what that fragment prints
	mac  bool                  // the fragment binds a MACRO name (from … import … as v), not a variable
}

var c12Assigns = []c12Assign{
	{"none", func(v string) string { return "<->" }, "<->", false},
	{"set", func(v string) string { return "{% set " + v + " = 'in' %}<{{ " + v + " }}>" }, "<in>", false},
	{"for", func(v string) string { return "{% for " + v + " in ['a', 'b'] %}<{{ " + v + " }}>{% endfor %}" }, "<a><b>", false},
	{"for-key-value", func(v string) string {
		return "{% for leak, " + v + " in ['a', 'b'] %}<{{ leak }}{{ " + v + " }}>{% endfor %}"
	}, "<0a><1b>", false},
	{"do", func(v string) string { return "{% do " + v + " = 'in' %}<{{ " + v + " }}>" }, "<in>", false},
	{"import-as", func(v string) string { return "{% import 'aux' as " + v + " %}<{{ " + v + ".am() }}>" }, "<AM>", false},
	{"from-import-as", func(v string) string { return "{% from 'aux' import am as " + v + " %}<{{ " + v + "() }}>" }, "<AM>", true},
	{"include-that-sets", func(v string) string { return "{% include 'setter_" + v + "' %}<->" }, "<inc>" + "<->", false},
	{"several", func(v string) string {
		return "{% set " + v + " = 'in' %}{% for " + v + " in ['a'] %}<{{ " + v + " }}>{% endfor %}{% do " + v + " = 'again' %}<{{ " + v + " }}>"
	}, "<a><again>", false},
}

// the caller's ways of holding the name v before the call and reading it after the call
var c12Holders = []string{"data", "set", "loop-var", "macro-param", "block", "include", "import-alias", "from-macro"}
var c12Shapes = []string{"lone", "sibling-after", "sibling-before", "siblings-around"}
var c12IsoRoutes = []string{"local", "self", "import", "from", "from-alias"}

type c12IsoCase struct {
	shape, holder, route string
	as                   c12Assign
	arity, argc          int
	withDefault          bool
	v                    string // the name the body assigns
	twice                bool   // the macro is called twice before the caller's names are read again
}

func (k c12IsoCase) String() string {
	return fmt.Sprintf("iso/%s/%s/%s/%s/%d/%d/%v/%s/%v", k.shape, k.as.kind, k.holder, k.route, k.arity, k.argc, k.withDefault, k.v, k.twice)
}

// build gives the templates, the render data and the expected output of one case.
func (k c12IsoCase) build() (tpls map[string]string, ctx map[string]any, want string, sig string) {
	v := k.v
	params := []string{"p", "q"}[:k.arity]
	sigParts := make([]string, k.arity)
	for i, p := range params {
		sigParts[i] = p
		if k.withDefault && i == k.arity-1 {
			sigParts[i] = p + " = 'dflt'"
		}
	}
	sig = strings.Join(sigParts, ", ")
	var body strings.Builder
	body.WriteString("M(")
	for _, p := range params {
		body.WriteString("[{{ " + p + " }}]")
	}
	body.WriteString(k.as.body(v) + "{% set leak = 'LEAK' %})")
	macro := "{% macro m(" + sig + ") %}" + body.String() + "{% endmacro %}"
	sibA := "{% macro za(x) %}ZA{{ x }}{% endmacro %}"
	sibB := "{% macro zb() %}ZB{% endmacro %}"
	lib := macro
	switch k.shape {
	case "sibling-after":
		lib = macro + sibA
	case "sibling-before":
		lib = sibB + macro
	case "siblings-around":
		lib = sibB + macro + sibA
	}
	var args, argOut []string
	for i := 0; i < k.argc; i++ {
		args = append(args, fmt.Sprintf("'a%d'", i))
		argOut = append(argOut, fmt.Sprintf("a%d", i))
	}
	callOut := "M("
	for i := 0; i < k.arity; i++ {
		switch {
		case i < k.argc:
			callOut += "[" + argOut[i] + "]"
		case k.withDefault && i == k.arity-1:
			callOut += "[dflt]"
		default:
			callOut += "[]"
		}
	}
	callOut += k.as.out + ")"

	var prelude, name string
	switch k.route {
	case "local":
		prelude, name = lib, "m"
	case "self":
		prelude, name = lib, "_self.m"
	case "import":
		prelude, name = "{% import 'lib' as L %}", "L.m"
	case "from":
		prelude, name = "{% from 'lib' import m %}", "m"
	case "from-alias":
		prelude, name = "{% from 'lib' import m as mm %}", "mm"
	}
	call := "{{ " + name + "(" + strings.Join(args, ", ") + ") }}"
	calls, callsOut := call, callOut
	if k.twice {
		calls, callsOut = call+"+"+call, callOut+"+"+callOut
	}
	// the caller reads: the held name, a name it never had, and the namesakes of the macro's parameters
	common := "|{{ leak is defined ? 'LEAKED' : 'clean' }}|{{ p }},{{ q }}"
	commonOut := "|clean|OUTER-p,OUTER-q"
	read, readOut := "{{ "+v+" }}", "CALLER"
	ctx = map[string]any{"p": "OUTER-p", "q": "OUTER-q"}
	tpls = map[string]string{"lib": lib,
		"aux":         "{% macro am() %}AM{% endmacro %}{% macro bm() %}BM{% endmacro %}",
		"caux":        "{% macro am() %}CAM{% endmacro %}{% macro bm() %}CBM{% endmacro %}",
		"setter_" + v: "{% set " + v + " = 'inc' %}<{{ " + v + " }}>"}
	var main string
	// the call, then the reads, then the call again and the reads again
	seq := func(read, readOut string) (string, string) {
		return "1:" + read + ";" + calls + "|" + read + common + ";" + call + "|" + read + common,
			"1:" + readOut + ";" + callsOut + "|" + readOut + commonOut + ";" + callOut + "|" + readOut + commonOut
	}
	switch k.holder {
	case "data":
		ctx[v] = "CALLER"
		s, o := seq(read, readOut)
		main, want = prelude+s, o
	case "set":
		s, o := seq(read, readOut)
		main, want = prelude+"{% set "+v+" = 'CALLER' %}"+s, o
	case "loop-var":
		s, o := seq(read+"{{ loop.index }}/{{ loop.length }}", readOut+"1/1")
		main, want = prelude+"{% for "+v+" in ['CALLER'] %}"+s+"{% endfor %}", o
	case "macro-param":
		s, o := seq(read, readOut)
		main, want = prelude+"{% macro outer("+v+") %}"+s+"{% endmacro %}{{ outer('CALLER') }}", o
	case "block":
		s, o := seq(read, readOut)
		main, want = prelude+"{% set "+v+" = 'CALLER' %}{% block bb %}"+s+"{% endblock %}|"+read, o+"|"+readOut
	case "include":
		s, o := seq(read, readOut)
		tpls["inc"] = prelude + s
		main, want = "{% set "+v+" = 'CALLER' %}{% include 'inc' %}|"+read, o+"|"+readOut
	case "import-alias":
		s, o := seq("{{ "+v+".bm() }}", "CBM")
		main, want = prelude+"{% import 'caux' as "+v+" %}"+s, o
	case "from-macro":
		s, o := seq("{{ "+v+"() }}", "CBM")
		main, want = prelude+"{% from 'caux' import bm as "+v+" %}"+s, o
	}
	tpls["main"] = main
	return
}

func runC12Isolation(e *Env) error {
	r := e.Rep
	rg := e.Rng
	names := []string{"v", "item", "sep"}
	one := func(k c12IsoCase, throughModel bool) error {
		tpls, ctx, want, sig := k.build()
		c := &Case{Templates: tpls, Main: "main", Ctx: ctx, FailAt: -1}
		var im Outcome
		if throughModel {
			var err error
			im, _, _, err = compareCase(e, c, "render-model-c12", "correspondence (Lean pipeline vs real engine) on what a macro call leaves in its caller")
			if err != nil {
				return err
			}
		} else {
			im = runImpl(c)
		}
		r.Seen(k.String(), true)
		r.Hit("iso-shape:" + k.shape)
		r.Hit("iso-assign:" + k.as.kind)
		r.Hit("iso-holder:" + k.holder)
		if im.Class != "" || im.Out != want {
			r.Violate(Violation{Key: "macro-call-changes-caller", What: fmt.Sprintf("macro m(%s) [%s in its template] whose body assigns %q by %s, called with %d args via %s by a caller holding %q as %s: got %q (%s %s), expected %q", sig, k.shape, k.v, k.as.kind, k.argc, k.route, k.v, k.holder, truncate(im.Out, 200), im.Class, truncate(im.Msg, 80), want),
				Broken: "theorem C12_shadow_and_isolation / C12_routes_agree (implementation-only oracle: the caller's names after a macro call, independent spec)",
				Replay: map[string]any{"kind": "render", "templates": tpls, "main": "main", "ctx": ctx, "want": want, "got": im.Out, "class": im.Class, "msg": im.Msg}})
		}
		return nil
	}
	// deterministic sweep: shape × assignment × holder × route × arity 0…2; the argument count, the default, the
	// assigned name and the repeated call rotate. Every case is checked against the independent spec; one in `every`
	// also goes through the Lean pipeline (all of them in the thorough tier).
	every := e.N(7, 1)
	i := 0
	for _, shape := range c12Shapes {
		for _, as := range c12Assigns {
			for _, holder := range c12Holders {
				for _, route := range c12IsoRoutes {
					for arity := 0; arity <= 2; arity++ {
						if r.Full() {
							return nil
						}
						i++
						k := c12IsoCase{shape: shape, as: as, holder: holder, route: route, arity: arity,
							argc: []int{0, arity, arity + 2, 1}[i%4], withDefault: arity > 0 && (i/4)%2 == 0, v: names[i%len(names)], twice: i%5 == 0}
						if err := one(k, i%every == 0); err != nil {
							return err
						}
					}
				}
			}
		}
	}
	// sampled: the rotating dimensions drawn freely
	n := e.N(40, 8000)
	for j := 0; j < n && !r.Full(); j++ {
		arity := rg.Intn(3)
		k := c12IsoCase{shape: pick(rg, c12Shapes), as: pick(rg, c12Assigns), holder: pick(rg, c12Holders), route: pick(rg, c12IsoRoutes), arity: arity,
			argc: rg.Intn(arity + 3), withDefault: arity > 0 && rg.Intn(2) == 0, v: pick(rg, names), twice: rg.Intn(2) == 0}
		if err := one(k, true); err != nil {
			return err
		}
	}
	return nil
}
