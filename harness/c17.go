package main

import (
	"errors"
	"fmt"
	"strings"

	"github.com/semihalev/twig"
)

// C17 — failures during rendering always surface as errors that wrap their cause.

func init() { register("C17", runC17) }

type sentinelLoader struct {
	name string
	err  error
	src  map[string]string
}

func (l *sentinelLoader) Load(name string) (string, error) {
	if name == l.name {
		return "", l.err
	}
	if s, ok := l.src[name]; ok {
		return s, nil
	}
	return "", fmt.Errorf("%w: %s", twig.ErrTemplateNotFound, name)
}
func (l *sentinelLoader) Exists(name string) bool { _, ok := l.src[name]; return ok || name == l.name }

type flakyLoader struct {
	src   map[string]string
	mtime map[string]int64
	fail  map[string]error
}

func (l *flakyLoader) Load(name string) (string, error) {
	if err, ok := l.fail[name]; ok {
		return "", err
	}
	if s, ok := l.src[name]; ok {
		return s, nil
	}
	return "", fmt.Errorf("%w: %s", twig.ErrTemplateNotFound, name)
}
func (l *flakyLoader) Exists(name string) bool { _, ok := l.src[name]; return ok }
func (l *flakyLoader) GetModifiedTime(name string) (int64, error) {
	if _, ok := l.src[name]; !ok {
		return 0, fmt.Errorf("%w: %s", twig.ErrTemplateNotFound, name)
	}
	return l.mtime[name], nil
}

func runC17(e *Env) error {
	r := e.Rep
	rg := e.Rng
	r.Rule = "programs from the control-flow/include/extends/macro/import generators with spy filters, functions and tests at random positions; a dry run counts the spy invocations, then for every n (all n when ≤ 60, sampled beyond) the n-th invocation returns a sentinel error: " +
		"the real engine must return \"\" and an error through which the sentinel is found with errors.As, and the Lean model must agree (class and cause); unresolved filter/function/test/macro/template names and a failing loader must surface; documented tolerances (undefined variable/attribute, ignore missing) must not; " +
		"a loader that has the nested template but fails, in every arrangement of 1–4 loaders (before/after loaders that do not know the name, ArrayLoader, ChainLoader) × loading statement × place in the template structure × plain/relative name with healthy decoys, cold and warm with the cache off, rendered twice; " +
		"macro calls stored (set, list, hash, conditional, macro argument, include with) before they are printed once, several times or never, every invocation failing in turn: an invocation that was made and failed fails the render; " +
		"every failing program also through every other top-level render call (Engine.RenderTo, Template.Render, Template.RenderTo, the engine-level ones in debug mode) and into every kind of io.Writer (bare Write, io.StringWriter, bytes.Buffer, strings.Builder, the library's buffers, bufio, file, pipe, MultiWriter, http recorder): same failure, same cause; " +
		"twig.FileSystemLoader over real directories where the nested (or top-level) template file is there but cannot be read (directory in its place, links, permissions — probed), for every loading statement × place × plain/suffixed/relative name × arrangement of search directories (older copy in a later directory) × cold/memoised: the read error is the error of the render; " +
		"non-trivial = program with ≥ 1 spy invocation; distinct by program × failing invocation"
	// unresolved names and tolerances (implementation-only)
	table := []struct {
		name, src string
		wantErr   bool
	}{
		{"unknown-filter", "a{{ x|nosuchfilter }}b", true},
		{"unknown-function", "a{{ nosuchfn(1) }}b", true},
		{"unknown-test", "a{% if x is nosuchtest %}y{% endif %}b", true},
		{"unknown-template-include", "a{% include 'nosuch' %}b", true},
		{"unknown-template-extends", "{% extends 'nosuch' %}", true},
		{"unknown-template-import", "{% import 'nosuch' as m %}", true},
		{"unknown-macro-from", "{% from 'lib' import nosuchmacro %}", true},
		{"unknown-macro-module", "{% import 'lib' as m %}{{ m.nosuch() }}", true},
		{"in-loop", "{% for i in [1,2] %}{{ i|nosuchfilter }}{% endfor %}", true},
		{"in-block-parent", "{% extends 'base' %}{% block c %}{{ parent() }}{{ nosuchfn() }}{% endblock %}", true},
		{"in-included", "a{% include 'bad' %}b", true},
		{"in-macro", "{% import 'lib' as m %}{{ m.broken() }}", true},
		{"in-spaceless", "{% spaceless %}<a> {{ x|nosuchfilter }} </a>{% endspaceless %}", true},
		{"in-apply", "{% apply upper %}{{ nosuchfn() }}{% endapply %}", true},
		{"index-out-of-range", "{{ xs[9] }}", true},
		// the failure does not depend on there being something to work on: empty bodies, empty subjects, empty sequences
		{"apply-empty-body-unknown-filter", "a{% apply nosuchfilter %}{% endapply %}b", true},
		{"apply-body-renders-nothing-unknown-filter", "a{% apply nosuchfilter %}{% if false %}x{% endif %}{{ '' }}{% endapply %}b", true},
		{"apply-empty-body-failing-argument", "a{% apply default(nosuchfn()) %}{% endapply %}b", true},
		{"apply-empty-body-inner-unknown-filter", "a{% apply upper|nosuchfilter %}{% endapply %}b", true},
		{"empty-string-unknown-filter", "a{{ ''|nosuchfilter }}b", true},
		{"null-unknown-filter", "a{{ null|nosuchfilter }}{{ undefinedvar|nosuchfilter }}b", true},
		{"empty-list-unknown-filter", "a{{ []|nosuchfilter|length }}b", true},
		{"empty-sequence-unknown-filter-in-for", "a{% for i in []|nosuchfilter %}x{% else %}e{% endfor %}b", true},
		{"empty-string-failing-argument", "a{{ ''|upper(nosuchfn()) }}{{ ''|default(nosuchfn()) }}b", true},
		{"set-empty-unknown-filter", "a{% set q = ''|nosuchfilter %}b", true},
		{"spaceless-empty-unknown-filter", "a{% spaceless %}{{ ''|nosuchfilter }}{% endspaceless %}b", true},
		{"empty-loop-body-failing-sequence", "a{% for i in nosuchfn() %}{% endfor %}b", true},
		{"if-empty-branches-failing-condition", "a{% if nosuchfn() %}{% else %}{% endif %}b", true},
		{"unknown-test-on-null", "a{{ null is nosuchtest ? '' : '' }}b", true},
		// a library that fails while it is being imported: every top-level statement form, both import forms
		{"import-lib-print-fails", "{% import 'libprint' as m %}x", true},
		{"from-lib-print-fails", "{% from 'libprint' import ok %}x", true},
		{"import-lib-do-fails", "{% import 'libdo' as m %}{{ m.ok() }}", true},
		{"from-lib-do-fails", "{% from 'libdo' import ok %}{{ ok() }}", true},
		{"import-lib-if-fails", "{% import 'libif' as m %}x", true},
		{"from-lib-if-fails", "{% from 'libif' import ok %}x", true},
		{"import-lib-for-fails", "{% import 'libfor' as m %}x", true},
		{"import-lib-include-fails", "{% import 'libinc' as m %}x", true},
		{"from-lib-include-fails", "{% from 'libinc' import ok %}x", true},
		{"import-lib-apply-fails", "{% import 'libapply' as m %}x", true},
		{"import-lib-block-fails", "{% from 'libblock' import ok %}x", true},
		{"import-lib-set-fails", "{% import 'libset' as m %}x", true},
		{"import-lib-nested-import-fails", "{% import 'libnest' as m %}x", true},
		{"division-by-zero", "{{ 1 / 0 }}", true},
		{"ignore-missing-nested-missing", "a{% include 'hasmissing' ignore missing %}b", true},
		{"ignore-missing-nested-extends-missing", "a{% include 'extmissing' ignore missing %}b", true},
		{"ignore-missing-nested-import-missing", "a{% include 'impmissing' ignore missing %}b", true},
		{"ignore-missing-inner-failure", "a{% include 'bad' ignore missing %}b", true},
		{"defined-on-subscript-failing-index", "a{% if xs[nosuchfn()] is defined %}y{% endif %}b", true},
		{"defined-on-subscript-failing-container", "a{{ nosuchfn()[0] is defined }}b", true},
		{"not-defined-on-subscript-failing-index", "a{% if xs[1|nosuchfilter] is not defined %}y{% endif %}b", true},
		{"defined-on-subscript-failing-filter-in-index", "a{{ m1[x|nosuchfilter] is defined }}b", true},
		{"range-zero-step", "a{% for i in range(1, 5, 0) %}x{% else %}E{% endfor %}b", true},
		{"range-no-arguments", "a{% for i in range() %}x{% else %}E{% endfor %}b", true},
		{"range-printed-zero-step", "a{{ range(1, 5, 0)|length }}b", true},
		{"length-function-no-arguments", "a{{ length() }}b", true},
		{"range-failing-argument", "a{% for i in range(1, nosuchfn()) %}x{% else %}E{% endfor %}b", true},
		{"filter-first-argument-fails", "a{{ x|default(nosuchfn(), x) }}b", true},
		{"filter-middle-argument-fails", "a{{ xs|slice(0, nosuchfn(), x) }}b", true},
		{"function-first-argument-fails", "a{{ max(nosuchfn(), 1, x) }}b", true},
		{"test-argument-fails", "a{% if 4 is divisible_by(nosuchfn()) %}y{% endif %}b", true},
		{"tolerated-undefined-variable", "a{{ undefinedvar }}b", false},
		{"tolerated-undefined-attribute", "a{{ m1.nosuch }}{{ undefinedvar.x.y }}b", false},
		{"tolerated-ignore-missing", "a{% include 'nosuch' ignore missing %}b", false},
	}
	libs := map[string]string{"lib": "{% macro ok() %}ok{% endmacro %}{% macro broken() %}{{ nosuchfn() }}{% endmacro %}", "base": "[{% block c %}base{% endblock %}]", "bad": "{{ 1|nosuchfilter }}", "hasmissing": "<{% include 'nosuch-inner' %}>", "extmissing": "{% extends 'nosuch-parent' %}", "impmissing": "{% import 'nosuch-lib' as q %}x",
		"libprint": "{% macro ok() %}ok{% endmacro %}{{ nosuchfn() }}", "libdo": "{% macro ok() %}ok{% endmacro %}{% do nosuchfn() %}", "libif": "{% macro ok() %}ok{% endmacro %}{% if true %}{{ 1|nosuchfilter }}{% endif %}",
		"libfor": "{% macro ok() %}ok{% endmacro %}{% for i in [1] %}{{ 1 / 0 }}{% endfor %}", "libinc": "{% macro ok() %}ok{% endmacro %}{% include 'nosuch' %}", "libapply": "{% apply upper %}{{ nosuchfn() }}{% endapply %}{% macro ok() %}ok{% endmacro %}",
		"libblock": "{% block b %}{{ nosuchfn() }}{% endblock %}{% macro ok() %}ok{% endmacro %}", "libset": "{% set q = nosuchfn() %}{% macro ok() %}ok{% endmacro %}", "libnest": "{% import 'libprint' as inner %}{% macro ok() %}ok{% endmacro %}"}
	for _, tc := range table {
		tpls := map[string]string{"main": tc.src}
		for k, v := range libs {
			tpls[k] = v
		}
		c := &Case{Templates: tpls, Main: "main", Ctx: map[string]any{"x": "v", "xs": []interface{}{1}, "m1": map[string]interface{}{"k": 1}}, FailAt: -1}
		im := runImpl(c)
		if !strings.Contains(tc.src, "spaceless") {
			if _, _, _, err := compareCase(e, c, "render-model-c17", "correspondence on unresolved-name programs"); err != nil {
				return err
			}
		}
		r.Seen("tbl:"+tc.name, true)
		if tc.wantErr && (im.Class == "" || im.Out != "") {
			r.Violate(Violation{Key: "failure-swallowed", What: fmt.Sprintf("%s: %q renders %q with error class %q — a failure was replaced by output", tc.name, tc.src, im.Out, im.Class),
				Broken: "theorem C17_unresolved / C17_propagates no longer describes the code (implementation-only oracle)", Replay: c.replay(im, Outcome{})})
		}
		if !tc.wantErr && im.Class != "" {
			r.Violate(Violation{Key: "tolerance-broken", What: fmt.Sprintf("%s: documented tolerance now fails: %s", tc.name, im.Msg),
				Broken: "theorem C17_tolerances", Replay: c.replay(im, Outcome{})})
		}
		// the same through every other top-level entry point and every kind of writer (c17_routes.go)
		if routeOracle(e, c, im, renderRoutes[1:], "tbl:"+tc.name) {
			return nil
		}
	}
	// a loader failure keeps its cause (implementation-only: needs a custom loader)
	sentinel := errors.New("disk on fire")
	for _, src := range []string{"{% include 'burning' %}", "{% extends 'burning' %}", "{% import 'burning' as b %}", "{% from 'burning' import x %}", "{% include 'burning' ignore missing %}"} {
		res := guarded(func() (string, error) {
			eng := twig.New()
			eng.RegisterLoader(&sentinelLoader{name: "burning", err: sentinel, src: map[string]string{"main": src}})
			return eng.Render("main", nil)
		})
		r.Seen("loader:"+src, true)
		if res.Err == nil || !errors.Is(res.Err, sentinel) || res.Out != "" {
			r.Violate(Violation{Key: "loader-cause-lost", What: fmt.Sprintf("%q with a failing loader: output %q, error %v — the loader's cause is not reachable with errors.Is", src, res.Out, res.Err),
				Broken: "theorem C17_propagates (loader causes; implementation-only oracle)", Replay: map[string]any{"kind": "loader", "src": src, "err": fmt.Sprint(res.Err), "out": res.Out}})
		}
	}
	// a loader that starts failing after a successful load (auto-reload): the failure must surface, not the stale copy
	{
		ld := &flakyLoader{src: map[string]string{"main": "v1{% include 'part' %}", "part": "P1"}, mtime: map[string]int64{"main": 1, "part": 1}}
		res := guarded(func() (string, error) {
			eng := twig.New()
			eng.RegisterLoader(ld)
			eng.SetAutoReload(true)
			if out, err := eng.Render("main", nil); err != nil || out != "v1P1" {
				return "", fmt.Errorf("first render: %q %v", out, err)
			}
			ld.mtime["part"] = 5
			ld.fail = map[string]error{"part": sentinel}
			out, err := eng.Render("main", nil)
			if err == nil || !errors.Is(err, sentinel) || out != "" {
				return "", fmt.Errorf("STALE-SERVED: after the loader started failing Render returned %q, %v", out, err)
			}
			ld.fail = nil
			delete(ld.src, "part")
			out, err = eng.Render("main", nil)
			if err == nil || out != "" {
				return "", fmt.Errorf("STALE-SERVED: after the template was removed Render returned %q, %v", out, err)
			}
			return "ok", nil
		})
		r.Seen("loader:flaky", true)
		if res.Class != "" {
			r.Violate(Violation{Key: "reload-failure-swallowed", What: fmt.Sprintf("auto-reload of a template whose loader fails or lost it: %v %s", res.Err, truncate(res.Panic, 200)),
				Broken: "theorem C17_propagates (loader causes; implementation-only oracle)", Replay: map[string]any{"kind": "flaky-loader", "err": fmt.Sprint(res.Err)}})
		}
	}
	relativeFailureOracle(e, "relative-parent-failure-replaced", "theorem C17_propagates (relative names: model `resolveTpl`, theorems C11_relative_*; implementation-only oracle with a custom loader)")
	// recorded finding: `<failing expression>.attr is defined` swallows the failure
	{
		c := &Case{Templates: map[string]string{"main": "{% import 'lib' as lib %}{{ lib.spyfn().y is defined }}", "lib": "{% macro ok() %}ok{% endmacro %}"},
			Main: "main", Ctx: map[string]any{}, SpyFunctions: []string{"spyfn"}, FailAt: 0}
		// implementation only: the model's error values carry no state, so the invocation made before the
		// swallowed failure is not in its trace (theorem C17_propagates_partial excludes this shape)
		im := runImpl(c)
		r.Seen("known:is-defined", true)
		if im.Class == "" {
			r.Violate(Violation{Key: "defined-test-swallows-failure", What: fmt.Sprintf("a failing callback inside `x.f().y is defined` is swallowed: Render returns %q with a nil error", im.Out),
				Broken: "C17_propagates (full strength); see C17_propagates_partial / C17_counterexample_isdefined", Replay: c.replay(im, Outcome{})})
		}
	}
	// loaders: every arrangement of several loaders around the one that fails (c17_loaders.go)
	loaderArrangementOracle(e)
	// the library's FileSystemLoader over real files that are there but cannot be read (c17_fsloader.go)
	fsLoaderOracle(e)
	// macro calls that are stored before they are printed (c17_stored.go)
	if err := storedCallsOracle(e); err != nil {
		return err
	}
	if r.Full() {
		return nil
	}
	// fault injection at every spy invocation
	n := e.N(120, 6000)
	for i := 0; i < n && !r.Full(); i++ {
		g := NewGen(rg)
		ctx := g.BaseCtx()
		g.Filters = []string{"sf1", "sf2"}
		g.Functions = []string{"sg1"}
		var main []GNode
		tpls := map[string]string{"partial": "<{{ n|sf2 }}{% if s is st1 %}y{% endif %}{{ n|sf1(sg1(1), n, sg1(2), 'lit') }}{{ s|default(sg1(3), n) }}>", "base": "[{% block c %}{{ sg1(1) }}{% endblock %}|{% block d %}d{% endblock %}]",
			"lib": "{% macro mac(a, d = sg1(2)|sf1, e = 'lit') %}({{ a|sf1 }}{{ sg1(a) }}{{ d }}{{ e }}){% endmacro %}"}
		switch rg.Intn(4) {
		case 0:
			main = g.Body(2, BodyOpts{Includes: []string{"partial"}})
		case 1:
			main = append([]GNode{NExtends{ELit{"base"}}, NBlock{"c", append(g.Body(1, BodyOpts{Includes: []string{"partial"}}), NPrint{ECall{"parent", nil}})}}, NText{"ignored"})
		case 2:
			main = append([]GNode{NImport{ELit{"lib"}, "L"}, NPrint{EMCall{EVar{"L"}, "mac", []GExpr{g.StrE(1)}}}}, g.Body(1, BodyOpts{Includes: []string{"partial"}})...)
		default:
			main = append([]GNode{NFrom{"lib", [][2]string{{"mac", "mm"}}}, NFor{Val: "v", Seq: EVar{"xs"}, Body: []GNode{NPrint{ECall{"mm", []GExpr{EVar{"v"}}}}}}}, g.Body(1, BodyOpts{Includes: []string{"partial"}})...)
		}
		tpls["main"] = plainTpl.nodes(main)
		c := &Case{Templates: tpls, Main: "main", Ctx: ctx, SpyFilters: []string{"sf1", "sf2"}, SpyFunctions: []string{"sg1"}, SpyTests: []string{"st1"}, FailAt: -1}
		dry, mo, ok, err := compareCase(e, c, "render-model-c17", "correspondence on programs with spy callbacks (dry run)")
		if err != nil {
			return err
		}
		if !ok || dry.Class != "" {
			r.Seen("dry:"+tpls["main"], false)
			continue
		}
		_ = mo
		if routeOracle(e, c, dry, []*renderRoute{nextRoute()}, "dry run") {
			return nil
		}
		total := len(dry.Spies)
		r.Hit(fmt.Sprintf("spy-invocations:%d", min(total, 10)))
		if i < 1 {
			r.Sample(map[string]any{"templates": tpls, "spy_invocations": total})
		}
		for k := 0; k < total && !r.Full(); k++ {
			if total > 60 && rg.Intn(total) >= 60 {
				continue
			}
			cf := *c
			cf.FailAt = k
			im, _, _, err := compareCase(e, &cf, "render-model-c17", "correspondence on fault injection (class and cause)")
			if err != nil {
				return err
			}
			r.Seen(fmt.Sprintf("fail:%d:%s", k, tpls["main"]), true)
			if im.Class == "" || im.Out != "" || !sameInts(im.Causes, []int{k}) {
				if r.Violate(Violation{Key: "failure-swallowed", What: fmt.Sprintf("spy invocation %d of %d (%v) fails but Render returns %q, class %q, causes %v", k, total, dry.Spies[k], truncate(im.Out, 80), im.Class, im.Causes),
					Broken: "theorem C17_propagates no longer describes the code (implementation-only oracle: errors.As on the sentinel)", Replay: cf.replay(im, Outcome{})}) {
					return nil
				}
			}
			// the same failing invocation through another top-level entry point / writer kind (a different one each time)
			if routeOracle(e, &cf, im, []*renderRoute{nextRoute()}, fmt.Sprintf("spy invocation %d of %d (%v) fails", k, total, dry.Spies[k])) {
				return nil
			}
		}
	}
	return nil
}

// relativeFailureOracle: see the comment at its first statement; shared by C11 and C17.
func relativeFailureOracle(e *Env, key, broken string) {
	r := e.Rep
	sentinel := errors.New("disk on fire")
	// relative names (./x, ../x): a parent / partial / library that EXISTS at the resolved place but fails to load or to
	// parse is an error with its cause — never replaced by a same-named template at the loader root
	for _, rel := range []struct{ name, page string }{
		{"extends", "{% extends './layout.twig' %}{% block c %}home{% endblock %}"},
		{"include", "a{% include './layout.twig' %}b"},
		{"include-ignore-missing", "a{% include './layout.twig' ignore missing %}b"},
		{"import", "{% import './layout.twig' as l %}x"},
		{"from", "{% from './layout.twig' import m %}x"},
		{"extends-up", "{% extends '../dir/layout.twig' %}{% block c %}home{% endblock %}"},
	} {
		for _, failure := range []string{"syntax", "loader"} {
			src := map[string]string{"dir/page.twig": rel.page, "layout.twig": "ROOT[{% block c %}{% endblock %}]{% macro m() %}rootm{% endmacro %}"}
			failing := "-"
			if failure == "syntax" {
				src["dir/layout.twig"] = "broken {% if %}{{ "
			} else {
				failing = "dir/layout.twig"
			}
			res := guarded(func() (string, error) {
				eng := twig.New()
				eng.RegisterLoader(&sentinelLoader{name: failing, err: sentinel, src: src})
				return eng.Render("dir/page.twig", nil)
			})
			r.Seen("relative:"+rel.name+":"+failure, true)
			r.Hit("relative-name-failure")
			bad := res.Err == nil || res.Out != "" || (failure == "loader" && !errors.Is(res.Err, sentinel)) || (failure == "syntax" && res.Class != "parse-error")
			if bad {
				r.Violate(Violation{Key: key, What: fmt.Sprintf("%s of './layout.twig' from dir/page.twig where dir/layout.twig exists but fails (%s): output %q, error %v (%s)", rel.name, failure, res.Out, res.Err, res.Class),
					Broken: broken,
					Replay: map[string]any{"kind": "loader", "page": rel.page, "failure": failure, "out": res.Out, "err": fmt.Sprint(res.Err), "class": res.Class}})
			}
		}
	}
}
