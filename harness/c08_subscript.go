package main

import (
	"fmt"
	"strings"
)

// C08 (g) — an index access takes the value of its subscript EXPRESSION.
//
// "The value of an expression is the same in every place it can be written" includes the place between the square
// brackets of an index access: xs[1 + 1] is xs[2]. Inside the engine a literal subscript is a Go int, a context
// variable is whatever Go type the caller handed over (int, int64, a JSON decoder's float64), and every arithmetic
// or unary result is a float64 — the routine that turns a subscript into a position sees a different Go type for
// the same number depending on how the number was written. The random trees of section (b) only ever subscript
// with literals. Here every position p of sequences of every kind the engine distinguishes ([]interface{} from the
// context, typed Go slices and arrays, array literals, range(), nested lists, filter results, attribute of a map,
// a list above the lookup-table size) is addressed by a subscript that is COMPUTED to p in every way numExpr
// (c08_numstr.go) and subProducers know: + - * / % ^, unary minus, three operands, from context variables and from
// literals, Go int / int64 / float64 variables, a set variable holding a result, filter and function results,
// conditionals, text holding the number, another index access, loop variables. The access is written in every
// syntactic position; the expected text is the element the harness itself put at position p.

type subSeq struct {
	name  string
	src   string         // how the sequence is written in the template
	elems []string       // the printed text of every element, in order (all distinct, non-empty)
	ints  bool           // every element is an integer (the access also takes part in arithmetic)
	ctx   map[string]any // context variables the spelling needs
	model bool           // the model driver can encode the context (Go int, string, []interface{}, map only)
}

func subSeqs() []subSeq {
	mixed := func(n, base int) ([]interface{}, []string) {
		vals, txt := make([]interface{}, n), make([]string, n)
		for i := range vals {
			if i%2 == 0 {
				vals[i] = base + i
			} else {
				vals[i] = fmt.Sprintf("s%d", base+i)
			}
			txt[i] = fmt.Sprint(vals[i])
		}
		return vals, txt
	}
	var out []subSeq
	xs, xt := mixed(6, 100)
	out = append(out, subSeq{"context-list", "sq", xt, false, map[string]any{"sq": xs}, true})
	out = append(out, subSeq{"typed-string-slice", "sq", []string{"ann", "bob", "cy", "dee", "eve", "fay"}, false, map[string]any{"sq": []string{"ann", "bob", "cy", "dee", "eve", "fay"}}, false})
	out = append(out, subSeq{"typed-int-slice", "sq", []string{"7", "14", "21", "28", "35", "42"}, true, map[string]any{"sq": []int{7, 14, 21, 28, 35, 42}}, false})
	out = append(out, subSeq{"typed-array", "sq", []string{"1.5", "2.5", "3.5", "4.5"}, false, map[string]any{"sq": [4]float64{1.5, 2.5, 3.5, 4.5}}, false})
	out = append(out, subSeq{"array-literal", "['a0', 11, 'a2', 13, 'a4', 15]", []string{"a0", "11", "a2", "13", "a4", "15"}, false, map[string]any{}, true})
	out = append(out, subSeq{"range", "range(50, 55)", []string{"50", "51", "52", "53", "54", "55"}, true, map[string]any{}, true})
	g0, _ := mixed(3, 200)
	g1, g1t := mixed(5, 300)
	out = append(out, subSeq{"nested-list", "sq[1]", g1t, false, map[string]any{"sq": []interface{}{g0, g1}}, true})
	out = append(out, subSeq{"map-attribute", "box.items", g1t, false, map[string]any{"box": map[string]interface{}{"items": g1}}, true})
	out = append(out, subSeq{"filter-result", "'p,q,r,s,t'|split(',')", []string{"p", "q", "r", "s", "t"}, false, map[string]any{}, true})
	out = append(out, subSeq{"parenthesised-filter-result", "(sq|reverse)", []string{"s105", "104", "s103", "102", "s101", "100"}, false, map[string]any{"sq": xs}, true})
	ls, lt := mixed(70, 1000)
	out = append(out, subSeq{"long-list", "sq", lt, false, map[string]any{"sq": ls}, true})
	return out
}

// subForm is one syntactic position of the access: Q = the sequence, E = the subscript expression, P = the position
// as a literal.
type subForm struct {
	name     string
	tpl      string
	want     func(w string) string
	intsOnly bool
}

var subForms = []subForm{
	{"print", "{{ Q[E] }}", sameW, false},
	{"print-subscript-in-parens", "{{ Q[(E)] }}", sameW, false},
	{"print-subscript-spaced", "{{ Q[ E ] }}", sameW, false},
	{"print-access-in-parens", "{{ (Q[E]) }}", sameW, false},
	{"equals-literal-subscript", "{{ Q[E] == Q[P] }}", trueW, false},
	{"concat", "{{ Q[E] ~ '|' ~ Q[P] }}", func(w string) string { return w + "|" + w }, false},
	{"if-condition", "{% if Q[E] == Q[P] %}yes{% else %}no{% endif %}", func(string) string { return "yes" }, false},
	{"set-value", "{% set sub_v = Q[E] %}{{ sub_v }}", sameW, false},
	{"set-subscript", "{% set sub_k = E %}{{ Q[sub_k] }}", sameW, false},
	{"conditional-arm", "{{ t ? Q[E] : 'no' }}", sameW, false},
	{"conditional-condition", "{{ Q[E] == Q[P] ? 'same' : 'other' }}", func(string) string { return "same" }, false},
	{"array-element", "{{ [Q[E], 'z']|join(',') }}", func(w string) string { return w + ",z" }, false},
	{"hash-value", "{{ {'v': Q[E]}['v'] }}", sameW, false},
	{"filter-subject", "{{ Q[E]|default('none') }}", sameW, false},
	{"filter-argument", "{{ nul|default(Q[E]) }}", sameW, false},
	{"macro-argument", "{{ sub_id(Q[E]) }}", sameW, false},
	{"for-sequence", "{% for c in [Q[E]] %}{{ c }};{% endfor %}", func(w string) string { return w + ";" }, false},
	{"include-variable", "{% include 'show' with {'v': Q[E]} only %}", sameW, false},
	{"member-of-its-sequence", "{{ Q[E] in Q }}", trueW, false},
	{"arithmetic-operand", "{{ Q[E] + 1 }}", func(w string) string {
		var n int
		fmt.Sscan(w, &n)
		return fmt.Sprint(n + 1)
	}, true},
	{"comparison-operand", "{{ Q[E] > Q[P] - 1 }}", trueW, true},
}

const subMacro = "{% macro sub_id(q) %}{{ q }}{% endmacro %}"

func fillSubForm(tpl, q, expr string, p int) string {
	return strings.NewReplacer("Q", q, "E", expr, "P", fmt.Sprint(p)).Replace(tpl)
}

// subProducers: ways of computing the position p that numExpr does not know (no arithmetic operator at the top, or a
// value that went through another construct first).
var subProducers = []string{"filter-abs", "filter-length", "function-max", "function-min", "conditional-of-sums", "conditional-of-literals", "text-literal", "text-concat", "text-variable",
	"index-of-index", "sum-in-parens-twice", "unary-plus", "double-minus", "default-of-sum", "first-of-array", "sum-of-text"}

func subProduce(how string, p int, vars map[string]any) (string, bool) {
	switch how {
	case "filter-abs":
		vars["x"] = -p
		return "x|abs", true
	case "filter-length":
		l := make([]interface{}, p)
		for i := range l {
			l[i] = "e"
		}
		vars["x"] = l
		return "x|length", true
	case "function-max":
		vars["x"], vars["y"] = p, p-3
		return "max(x, y)", true
	case "function-min":
		vars["x"], vars["y"] = p+2, p
		return "min(x, y)", true
	case "conditional-of-sums":
		vars["x"], vars["y"] = p-1, 1
		return "t ? x + y : x - y", true
	case "conditional-of-literals":
		return fmt.Sprintf("t ? %d : 0", p), true
	case "text-literal":
		return fmt.Sprintf("'%d'", p), true
	case "text-concat":
		if p < 10 {
			return fmt.Sprintf("'' ~ %d", p), true
		}
		return fmt.Sprintf("'%d' ~ '%d'", p/10, p%10), true
	case "text-variable":
		vars["x"] = fmt.Sprint(p)
		return "x", true
	case "index-of-index":
		id := make([]interface{}, p+2)
		for i := range id {
			id[i] = i
		}
		vars["x"], vars["y"] = id, p+1
		return "x[y - 1]", true
	case "sum-in-parens-twice":
		vars["x"], vars["y"] = p+4, 4
		return "((x - y))", true
	case "unary-plus":
		vars["x"] = p
		return "+x", true
	case "double-minus":
		vars["x"] = p
		return "-(-x)", true
	case "default-of-sum":
		vars["x"], vars["y"] = p-2, 2
		return "nul|default(x + y)", true
	case "first-of-array":
		vars["x"], vars["y"] = p*2, 2
		return "[x / y]|first", true
	case "sum-of-text":
		vars["x"] = fmt.Sprint(p - 1)
		return "x + 1", true
	}
	return "", false
}

func c08ComputedSubscripts(e *Env) error {
	r := e.Rep
	rg := e.Rng
	tpls := func(main string) map[string]string { return map[string]string{"main": main, "show": "{{ v }}"} }
	modelSample := 0
	check := func(sq subSeq, p int, how, expr string, vars map[string]any) (stop bool, err error) {
		ctx := map[string]any{"t": true, "nul": nil}
		for k, v := range sq.ctx {
			ctx[k] = v
		}
		for k, v := range vars {
			ctx[k] = v
		}
		w := sq.elems[p]
		var src, want strings.Builder
		src.WriteString(subMacro)
		for _, f := range subForms {
			if f.intsOnly && !sq.ints {
				continue
			}
			src.WriteString(fillSubForm(f.tpl, sq.src, expr, p) + "\n")
			want.WriteString(f.want(w) + "\n")
		}
		c := &Case{Templates: tpls(src.String()), Main: "main", Ctx: ctx, FailAt: -1}
		im := runImpl(c)
		r.Seen(fmt.Sprintf("subscript:%s:%d:%s:%s", sq.name, p, how, expr), true)
		r.Hit("computed-subscript:" + how)
		r.Hit("computed-subscript-sequence:" + sq.name)
		if im.Class == "" && im.Out == want.String() {
			// the model's view (Lean Int arithmetic, its own getItem), for a sample of the cases its driver can encode
			modelSample++
			_, i64 := vars["x"].(int64)
			_, f64 := vars["x"].(float64)
			if sq.model && !i64 && !f64 && !strings.HasPrefix(how, "function-") && modelSample%3 == 0 { // the model has no max / min
				mc := &Case{Templates: tpls("{{ " + sq.src + "[" + expr + "] }}|{{ " + sq.src + "[" + fmt.Sprint(p) + "] }}"), Main: "main", Ctx: ctx, FailAt: -1}
				if _, _, _, err := compareCase(e, mc, "render-model-c08", "correspondence (Lean evaluator vs real engine) on computed subscripts"); err != nil {
					return false, err
				}
			}
			return false, nil
		}
		for _, f := range subForms {
			if f.intsOnly && !sq.ints {
				continue
			}
			oc := &Case{Templates: tpls(subMacro + fillSubForm(f.tpl, sq.src, expr, p)), Main: "main", Ctx: ctx, FailAt: -1}
			om := runImpl(oc)
			if om.Class == "" && om.Out == f.want(w) {
				continue
			}
			rp := numReplay(oc, om)
			rp["want"], rp["position_in_sequence"], rp["subscript"], rp["sequence"], rp["syntactic_position"], rp["computed_by"] = f.want(w), p, expr, sq.name, f.name, how
			return r.Violate(Violation{Key: "computed-subscript", What: fmt.Sprintf("%s with %s is exactly %d, and element %d of the %s %s is %s; as %s, %s gives %q (%s %s), expected %q",
				expr, ctxXYZ(vars), p, p, sq.name, sq.src, w, f.name, fillSubForm(f.tpl, sq.src, expr, p), om.Out, om.Class, truncate(om.Msg, 80), f.want(w)),
				Broken: "theorem C08_position no longer describes the code: the subscript of an index access is an expression position (implementation-only oracle: the element the harness put at that position)",
				Replay: rp}), nil
		}
		rp := numReplay(c, im)
		rp["want"], rp["position_in_sequence"], rp["subscript"], rp["sequence"], rp["computed_by"] = want.String(), p, expr, sq.name, how
		return r.Violate(Violation{Key: "computed-subscript", What: fmt.Sprintf("%s with %s is exactly %d; every syntactic position of %s[%s] alone is right, but all in one template give %q (%s %s), expected %q",
			expr, ctxXYZ(vars), p, sq.src, expr, truncate(im.Out, 300), im.Class, truncate(im.Msg, 80), truncate(want.String(), 300)),
			Broken: "theorem C08_position no longer describes the code (implementation-only oracle)",
			Replay: rp}), nil
	}

	seqs := subSeqs()
	// (1) deterministic sweep: every sequence kind × every position × every way of computing it
	for si, sq := range seqs {
		positions := make([]int, 0, len(sq.elems))
		for p := range sq.elems {
			if len(sq.elems) > 10 && !(p < 2 || p%9 == 0 || p >= len(sq.elems)-2 || p == 50 || p == 51) && !e.Thorough() {
				continue
			}
			positions = append(positions, p)
		}
		for pi, p := range positions {
			for hi, how := range numHows {
				// quick tier: the long list takes a rotating third of the ways per position
				if len(sq.elems) > 10 && !e.Thorough() && (hi+pi)%3 != 0 {
					continue
				}
				vars := map[string]any{}
				expr, ok := numExpr(rg, how, int64(p), vars)
				if !ok {
					continue
				}
				if stop, err := check(sq, p, how, expr, vars); err != nil || stop || r.Full() {
					return err
				}
			}
			for hi, how := range subProducers {
				if !e.Thorough() && (hi+pi+si)%2 != 0 && si > 0 {
					continue // quick tier: all of them on the first sequence, every other one (rotating) elsewhere
				}
				vars := map[string]any{}
				expr, ok := subProduce(how, p, vars)
				if !ok {
					continue
				}
				if stop, err := check(sq, p, how, expr, vars); err != nil || stop || r.Full() {
					return err
				}
			}
		}
		// loop variables and loop arithmetic as subscripts: the whole sequence walked by a computed index
		n := len(sq.elems)
		if n > 10 {
			n = 10
		}
		for _, lf := range []struct {
			name, body string
			at         func(i int) int // the element addressed in iteration i (0-based) of n-1 iterations
		}{
			{"loop-value-plus-one", "Q[j + 1]", func(i int) int { return i + 1 }},
			{"loop-index0-plus-one", "Q[loop.index0 + 1]", func(i int) int { return i + 1 }},
			{"loop-index", "Q[loop.index]", func(i int) int { return i + 1 }},
			{"loop-index-minus-one", "Q[loop.index - 1]", func(i int) int { return i }},
			{"loop-revindex0", "Q[loop.revindex0]", func(i int) int { return n - 2 - i }},
			{"loop-length-minus-index", "Q[loop.length - loop.index]", func(i int) int { return n - 2 - i }},
			{"loop-value-times-one", "Q[j * 1]", func(i int) int { return i }},
			{"loop-value-set", "{% set sub_k = j + 1 %}Q[sub_k]", func(i int) int { return i + 1 }},
		} {
			body := lf.body
			if strings.HasPrefix(body, "{% set") {
				body = strings.Replace(body, "Q[sub_k]", "{{ Q[sub_k] }}", 1)
			} else {
				body = "{{ " + body + " }}"
			}
			src := fmt.Sprintf("{%% for j in range(0, %d) %%}%s,{%% endfor %%}", n-2, strings.ReplaceAll(body, "Q", sq.src))
			var want strings.Builder
			for i := 0; i < n-1; i++ {
				want.WriteString(sq.elems[lf.at(i)] + ",")
			}
			ctx := map[string]any{"t": true, "nul": nil}
			for k, v := range sq.ctx {
				ctx[k] = v
			}
			c := &Case{Templates: tpls(src), Main: "main", Ctx: ctx, FailAt: -1}
			im := runImpl(c)
			r.Seen("subscript-loop:"+sq.name+":"+lf.name, true)
			r.Hit("computed-subscript:" + lf.name)
			if im.Class != "" || im.Out != want.String() {
				rp := numReplay(c, im)
				rp["want"], rp["sequence"], rp["computed_by"] = want.String(), sq.name, lf.name
				if r.Violate(Violation{Key: "computed-subscript", What: fmt.Sprintf("walking the %s %s by a computed subscript: %s gives %q (%s %s), expected %q", sq.name, sq.src, src, im.Out, im.Class, truncate(im.Msg, 80), want.String()),
					Broken: "theorem C08_position no longer describes the code: the subscript of an index access is an expression position (implementation-only oracle: the elements the harness put there)",
					Replay: rp}) || r.Full() {
					return nil
				}
			} else if sq.model && (si+len(lf.name))%2 == 0 {
				if _, _, _, err := compareCase(e, c, "render-model-c08", "correspondence (Lean evaluator vs real engine) on sequences walked by a computed subscript"); err != nil {
					return err
				}
			}
		}
	}
	// (2) random: the subscript is p + T - T for a random integer tree T (exact: integers within 2^53), written
	// minimal / fully parenthesised / with random spacing, through the model as well
	n := e.N(150, 6000)
	for i := 0; i < n && !r.Full(); i++ {
		g := NewGen(rg)
		gctx := g.BaseCtx()
		sq := seqs[rg.Intn(len(seqs))]
		if !sq.model {
			sq = seqs[0]
		}
		for k, v := range sq.ctx {
			gctx[k] = v
		}
		p := rg.Intn(len(sq.elems))
		T := g.IntE(e.N(2, 3))
		tv := runImpl(exprCase(canon.expr(T), gctx))
		if tv.Class != "" || len(tv.Out) > 14 || strings.ContainsAny(tv.Out, ".e") {
			r.Skip("computed-subscript-random:offset-not-a-small-integer")
			continue
		}
		var tree GExpr
		switch rg.Intn(3) {
		case 0:
			tree = EBin{"-", EBin{"+", ELit{p}, T}, T}
		case 1:
			tree = EBin{"+", EBin{"-", T, T}, ELit{p}}
		default:
			tree = EBin{"-", ELit{p}, EBin{"-", T, T}}
		}
		for _, sp := range []string{canon.expr(tree), fullParens.expr(tree), Style{Rng: rg, Extra: 0.3}.expr(tree)} {
			src := sq.src + "[" + sp + "]"
			c := exprCase(src, gctx)
			im, _, _, err := compareCase(e, c, "render-model-c08", "correspondence (Lean evaluator vs real engine) on random computed subscripts")
			if err != nil {
				return err
			}
			r.Seen("subscript-random:"+src, true)
			r.Hit("computed-subscript:random-tree")
			if im.Class != "" || im.Out != sq.elems[p] {
				if r.Violate(Violation{Key: "computed-subscript", What: fmt.Sprintf("%s is exactly %d (T = %s prints %s), element %d of the %s %s is %s, but {{ %s }} gives %q (%s %s)",
					sp, p, canon.expr(T), tv.Out, p, sq.name, sq.src, sq.elems[p], src, im.Out, im.Class, truncate(im.Msg, 80)),
					Broken: "theorem C08_position no longer describes the code: the subscript of an index access is an expression position (implementation-only oracle: the element the harness put at that position)",
					Replay: c.replay(im, Outcome{})}) {
					return nil
				}
				break
			}
		}
	}
	return nil
}
