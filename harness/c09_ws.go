package main

import (
	"fmt"
	"strings"
)

// C09, string literals whose CONTENT is whitespace-sensitive, written inside the tags themselves.
//
// if, elseif, for, set, do and include tags are cut up by tag-specific code before their expressions are tokenized
// (the `in` of a for tag, the `=` of a set tag are looked for in the raw text). Whatever that code does to the text
// between the delimiters, a string literal reaches the expression with every byte it was written with: a loop over
// "a  b" has four iterations, a list element "x \t y" is seven characters long. The generators' string pool has single
// blanks only and spells tabs and line breaks as escapes, so this file adds
//   - a matrix: every whitespace-bearing literal × every expression position of a for tag (the sequence itself, a list
//     element, a hash key and value, a filter argument, a function argument, an operand, a conditional branch) and the
//     same literal in if / elseif / set / do / include / print tags and in a for tag spelled over several lines;
//   - the random control-flow programs of this property once more with such literals (and literal lists holding them)
//     standing wherever a string or list variable can stand.
// Both go through compareCase: the Lean model's scanner keeps literals byte for byte.

var wsLiterals = []string{
	`"a  b"`, `'x   y  z'`, `"  "`, `'  lead'`, `"trail  "`, "\"a\tb\"", "'a\nb'", "\"p \t q\"", "'l1\n\n  l2'", `"é  世"`, `'  in  '`, `"a = b  ==  c"`, "' \t '",
}

var wsFrames = []string{
	// the literal in every position of a for tag's sequence expression
	"{% for c in @ %}[{{ loop.index }}/{{ loop.length }}:{{ c }}{% if loop.last %}:last{% endif %}]{% else %}E{% endfor %}",
	"{% for w in [@, 'z', @] %}<{{ w }}|{{ w|length }}>{% endfor %}",
	"{% for k, v in {'a': @, @: 1} %}{{ k }}={{ v }};{% endfor %}",
	"{% for w in @|split(' ') %}<{{ w }}>{{ loop.revindex }}{% endfor %}",
	"{% for w in 'p  q r'|split(@) %}<{{ w }}>{% endfor %}",
	"{% for c in (@ ~ s)|upper %}{{ c }}{{ loop.revindex0 }},{% endfor %}",
	"{% for c in s ~ @ %}{{ loop.index0 }}{{ c }}{% endfor %}",
	"{% for c in t ? @ : 'n' %}{{ c }}{{ loop.last }}{% endfor %}",
	"{% for c in nul|default(@) %}{{ c }},{{ loop.first }};{% endfor %}",
	"{% for i in range(1, @|length) %}{{ i }}{% endfor %}",
	"{% for c in @|slice(1, 3) %}({{ c }}){% endfor %}",
	"{% for idx, c in @ %}{{ idx }}{{ c }}{{ loop.revindex }}{% endfor %}",
	"{% for c in @|reverse %}{{ c }}{% endfor %}|{% for c in @|trim %}{{ c }}{% endfor %}",
	// the loop tag itself spread out; the literal unchanged
	"{% for   c   in   @ %}{{ c }}.{% endfor %}",
	"{%   for c in [ @ ,  @ ] -%} {{ c }}/{{ loop.length }} {%- endfor %}",
	// nested: the inner tag holds the literal, the outer loop's counters go on
	"{% for o in [1, 2] %}{% for c in @ %}{{ o }}{{ c }}{{ loop.index }}{% endfor %}#{{ loop.index }}{% endfor %}",
	// the other control-flow tags
	"{% if @ == s %}T{% else %}F{% endif %}{% if @ %}T{% endif %}{% if @|length > 3 %}L{% else %}S{% endif %}",
	"{% if f %}no{% elseif @|trim == 'a' %}A{% elseif @ starts with ' ' %}B{% else %}C{% endif %}",
	"{% set w = @ %}{{ w|length }}:{% for c in w %}{{ c }}.{% endfor %}{% set l = [@, @ ~ 'x'] %}{% for e in l %}<{{ e }}>{% endfor %}",
	"{% do w = @ %}{{ w }}|{{ w|length }}",
	"{{ @ }}|{{ @|length }}|{{ [@, @]|join('-') }}|{{ {'k': @}['k'] }}",
	"{% include 'partial' with {'p': @, 'n': 1} %}",
	"{% for c in s %}{% if c == @|first %}Y{% else %}n{% endif %}{% endfor %}{% set q = @ ~ @ %}{{ q|length }}",
	"{% apply upper %}{% for c in @ %}{{ c }}-{% endfor %}{% endapply %}",
}

func runWhitespaceLiterals(e *Env) error {
	r := e.Rep
	partial := "<{{ n }}{{ p|default('-') }}{{ p|length }}>"
	ctx := map[string]any{"s": "a b", "t": true, "f": false, "nul": nil, "n": 2}
	for fi, frame := range wsFrames {
		for li, lit := range wsLiterals {
			if r.Full() {
				return nil
			}
			// every frame with every literal in the quick tier would be 300 cases: a frame meets the literals in turn
			if !e.Thorough() && (fi+li)%3 != int(e.Seed%3) && li > 1 {
				continue
			}
			src := strings.ReplaceAll(frame, "@", lit)
			c := &Case{Templates: map[string]string{"main": src, "partial": partial}, Main: "main", Ctx: ctx, FailAt: -1}
			_, _, ok, err := compareCase(e, c, "render-model-c09", "correspondence render on string literals with runs of blanks, tabs and line breaks written inside if/for/set/do/include tags")
			if err != nil {
				return err
			}
			r.Seen("ws-literal:"+src, ok)
			r.Hit("ws-literal-matrix")
		}
	}
	// the random programs with such literals in every place a string or a list variable can take
	n := e.N(200, 10000)
	for i := 0; i < n && !r.Full(); i++ {
		c := genWsLiteralCase(e)
		im, _, ok, err := compareCase(e, c, "render-model-c09", "correspondence render on control-flow programs whose tags hold string literals with runs of blanks, tabs and line breaks")
		if err != nil {
			return err
		}
		main := c.Templates["main"]
		r.Seen("ws:"+main, ok && im.Class == "" && hasAny(main, "  ", "\t", "\n"))
		r.Hit("ws-literal-program")
	}
	return nil
}

// genWsLiteralCase is genControlCase with one difference: the generator's pools of string and list VARIABLES also
// hold literals (EVar prints its name verbatim, so a "name" that is a quoted literal is spelled raw — with real tabs
// and line breaks, which ELit would escape). Wherever the grammar puts a string or list variable — the sequence of a
// for tag, a condition, the value of a set, a filter or function argument, a `with` hash — such a literal can stand.
func genWsLiteralCase(e *Env) *Case {
	g := NewGen(e.Rng)
	ctx := g.BaseCtx()
	for k := 0; k < 4; k++ {
		g.Strs = append(g.Strs, pick(e.Rng, wsLiterals))
	}
	a, b := pick(e.Rng, wsLiterals), pick(e.Rng, wsLiterals)
	g.Lists = append(g.Lists, fmt.Sprintf("[%s, 'z',%s]", a, b), fmt.Sprintf("[ %s ]", b))
	partial := plainTpl.nodes([]GNode{NText{"<"}, NPrint{EVar{"n"}}, NPrint{EFilter{EVar{"p"}, "default", []GExpr{ELit{"-"}}}}, NText{">"}})
	body := g.Body(3, BodyOpts{Includes: []string{"partial"}})
	st := &TplStyle{Expr: Style{Rng: e.Rng, Extra: 0.1}}
	return &Case{Templates: map[string]string{"main": st.nodes(body), "partial": partial}, Main: "main", Ctx: ctx, FailAt: -1}
}
