package main

import (
	"errors"
	"fmt"
	"math/rand"
	"os"
	"path/filepath"
	"strings"
	"time"

	"github.com/semihalev/twig"
)

// c16DirHistories: histories over ONE directory of compiled files that several CompiledLoader instances and several
// engines look at for a while (added after seeded changes C16-Q and C16-R were missed: every earlier check wrote a
// directory once and read it once, through loaders and engines that were created after the files were there).
//
// The directory is the only truth: whatever was asked before, by whichever loader instance or engine, and whichever
// instance (or a plain file copy) wrote the file,
//   - every CompiledLoader on the directory says Exists / Load / GetModifiedTime for what is on disk NOW,
//   - an engine that reads the file on every render (cache off), and an engine that was told to notice changes
//     (auto-reload, development mode), renders like the SOURCE of the release whose compiled form is on disk now,
//   - a caching engine renders like the source of the release it loaded (or of the one on disk), never anything else,
//     and when it holds nothing yet it reads what is on disk now.
//
// Dimensions: the order of releases written into the same file (forward, rollback, same release again, removed and
// written again), where the release's source came from (this decides the LastModified stamp inside the file: a source
// file with an older / newer / equal mtime, an ArrayLoader (stamp 0), RegisterString (now)), who writes (the observing
// loader itself, another long-lived instance, a throw-away instance, a plain file copy of the serialised bytes), who
// asked before the file was there, and the engine setting. The file's own mtime is set explicitly and grows with every
// write (os.Chtimes), so nothing depends on the wall clock crossing a second.
//
// Expected values: renders of the release's source registered with RegisterString on a fresh engine; the source text
// itself; os.Stat of the file.

const c16DirName = "page"

// c16DirBase is where the clock of the compiled files starts; the source files of the releases are older
const c16DirBase = int64(1600000000)

type c16Release struct {
	id   string
	src  string
	eng  *twig.Engine // holds the source under c16DirName; SaveCompiled reads it from here
	want []c16Render  // per context: what the source renders (fresh engine, RegisterString)
}

// c16MakeRelease builds the engine a release is compiled from. origin: "string" (RegisterString), "array" (ArrayLoader,
// no timestamps), "file" (FileSystemLoader on its own directory; the source file's mtime is set to stamp).
func c16MakeRelease(id, origin, src string, stamp int64, scratch string, ctxs []map[string]any) (*c16Release, error) {
	rel := &c16Release{id: id, src: src, eng: twig.New()}
	switch origin {
	case "string":
		if err := rel.eng.RegisterString(c16DirName, src); err != nil {
			return nil, err
		}
	case "array":
		rel.eng.RegisterLoader(twig.NewArrayLoader(map[string]string{c16DirName: src}))
	case "file":
		d := filepath.Join(scratch, "src-"+id)
		if err := os.MkdirAll(d, 0o755); err != nil {
			return nil, err
		}
		f := filepath.Join(d, c16DirName+".twig")
		if err := os.WriteFile(f, []byte(src), 0o644); err != nil {
			return nil, err
		}
		ts := time.Unix(stamp, 0)
		if err := os.Chtimes(f, ts, ts); err != nil {
			return nil, err
		}
		rel.eng.RegisterLoader(twig.NewFileSystemLoader([]string{d}))
	default:
		return nil, fmt.Errorf("unknown origin %q", origin)
	}
	if _, err := rel.eng.Load(c16DirName); err != nil {
		return nil, err
	}
	ref := twig.New()
	if err := ref.RegisterString(c16DirName, src); err != nil {
		return nil, err
	}
	for _, ctx := range ctxs {
		w := c16RenderOn(ref, c16DirName, ctx)
		if w.pn != "" {
			return nil, fmt.Errorf("source render panics/hangs (C05, not C16)")
		}
		rel.want = append(rel.want, w)
	}
	return rel, nil
}

// c16DirStep is one event in the life of the directory
type c16DirStep struct {
	Op     string `json:"op"`               // "ask" (nothing is written), "save" (CompiledLoader.SaveCompiled), "copy" (serialised bytes written as a file), "remove"
	Rel    int    `json:"release"`          // save/copy: which release
	Writer string `json:"writer,omitempty"` // save: "L0", "L1", … (a long-lived instance that is also observed) or "fresh" (an instance made for this write)
	Ask    []int  `json:"ask,omitempty"`    // which observers look afterwards; nil = all
}

type c16DirObserver struct {
	id    string
	mode  string // "loader" or an engine setting
	ld    *twig.CompiledLoader
	eng   *twig.Engine
	held  int   // caching engine: the release it has loaded, -1 none
	seen  int64 // loader: GetModifiedTime at its last look (0 none)
	seenW int   // loader: number of writes at that moment; engine: how often it rendered
}

var c16DirModes = []string{"cached", "auto-reload", "development-mode", "development-mode-cache-on", "cache-off", "auto-reload-cache-off", "cache-off-before-fallback"}

const c16DirFallback = "FALLBACK {{ name }}"

func c16DirObservers(dir string, loaders int) ([]*twig.CompiledLoader, []*c16DirObserver) {
	var lds []*twig.CompiledLoader
	var obs []*c16DirObserver
	for li := 0; li < loaders; li++ {
		// engines first, the bare loader last: what a change does to rendering is reported before what it does to the loader's own answers
		for _, mode := range c16DirModes {
			ld := twig.NewCompiledLoader(dir) // every engine has its own instance; L<li> below is the one that also writes
			eng := twig.New()
			switch mode {
			case "auto-reload":
				eng.SetAutoReload(true)
			case "development-mode":
				eng.SetDevelopmentMode(true)
			case "development-mode-cache-on":
				eng.SetDevelopmentMode(true)
				eng.SetCache(true)
			case "cache-off":
				eng.SetCache(false)
			case "auto-reload-cache-off":
				eng.SetAutoReload(true)
				eng.SetCache(false)
			case "cache-off-before-fallback":
				eng.SetCache(false)
			}
			eng.RegisterLoader(ld)
			if mode == "cache-off-before-fallback" {
				eng.RegisterLoader(twig.NewArrayLoader(map[string]string{c16DirName: c16DirFallback}))
			}
			obs = append(obs, &c16DirObserver{id: fmt.Sprintf("E%d/%s", li, mode), mode: mode, ld: ld, eng: eng, held: -1})
		}
		// the writing instance: it serves an engine of its own as well (the loader an application registers and later saves through)
		ld := twig.NewCompiledLoader(dir)
		lds = append(lds, ld)
		for _, mode := range []string{"cached", "auto-reload"} {
			eng := twig.New()
			if mode == "auto-reload" {
				eng.SetAutoReload(true)
			}
			eng.RegisterLoader(ld)
			obs = append(obs, &c16DirObserver{id: fmt.Sprintf("L%d/%s", li, mode), mode: mode, ld: ld, eng: eng, held: -1})
		}
		obs = append(obs, &c16DirObserver{id: fmt.Sprintf("L%d", li), mode: "loader", ld: ld, held: -1})
	}
	return lds, obs
}

// c16DirHistory runs one history; it reports at most one violation. tag names the corpus for the statistics.
func c16DirHistory(e *Env, rels []*c16Release, ctxs []map[string]any, steps []c16DirStep, loaders int, tag string) {
	r := e.Rep
	dir, err := os.MkdirTemp("", "c16-dir-")
	if err != nil {
		r.Skip("no temp dir: " + err.Error())
		return
	}
	defer os.RemoveAll(dir)
	file := filepath.Join(dir, c16DirName+".twig.compiled")
	lds, obs := c16DirObservers(dir, loaders)
	relIDs := make([]string, len(rels))
	srcs := map[string]string{}
	for i, rel := range rels {
		relIDs[i] = rel.id
		srcs[rel.id] = rel.src
	}
	fallbackRef := twig.New()
	fallbackRef.RegisterString(c16DirName, c16DirFallback)
	cur, clock, writes := -1, c16DirBase, 0
	var done []c16DirStep
	viol := func(key, what string, extra map[string]any) {
		rp := map[string]any{"kind": "compiled-directory-history", "template": c16DirName, "releases": relIDs, "sources": srcs, "steps": done, "loader_instances": loaders,
			"on_disk_now": "nothing"}
		if cur >= 0 {
			rp["on_disk_now"] = rels[cur].id
		}
		for k, v := range extra {
			rp[k] = v
		}
		r.Violate(Violation{Key: key, What: what, Broken: "C16_load_equiv / C16_load_is_original no longer describe the code (implementation-only oracle: a directory of compiled files read over time by several loaders and engines)", Replay: rp})
	}
	relName := func(i int) string {
		if i < 0 {
			return "nothing"
		}
		return rels[i].id
	}
	for si, st := range steps {
		done = steps[:si+1]
		var werr error
		res := guarded(func() (string, error) {
			switch st.Op {
			case "save":
				var w *twig.CompiledLoader
				if st.Writer == "fresh" {
					w = twig.NewCompiledLoader(dir)
				} else {
					var li int
					fmt.Sscanf(st.Writer, "L%d", &li)
					w = lds[li%len(lds)]
				}
				werr = w.SaveCompiled(rels[st.Rel].eng, c16DirName)
			case "copy":
				ct, err := rels[st.Rel].eng.CompileTemplate(c16DirName)
				if err != nil {
					return "", err
				}
				data, err := twig.SerializeCompiledTemplate(ct)
				if err != nil {
					return "", err
				}
				// the way a deploy replaces a file: write next to it, rename over it
				tmp := file + ".tmp"
				if err := os.WriteFile(tmp, data, 0o644); err != nil {
					return "", err
				}
				werr = os.Rename(tmp, file)
			case "remove":
				if err := os.Remove(file); err != nil && !os.IsNotExist(err) {
					return "", err
				}
			}
			return "", werr
		})
		if res.Class == "panic" || res.Class == "timeout" || res.Err != nil {
			viol("dir-step-"+st.Op, fmt.Sprintf("step %d (%s release %s by %s) failed: %v %s", si, st.Op, relName(st.Rel), st.Writer, res.Err, truncate(res.Panic, 200)), nil)
			return
		}
		switch st.Op {
		case "save", "copy":
			cur = st.Rel
			clock += 7
			writes++
			ts := time.Unix(clock, 0)
			if err := os.Chtimes(file, ts, ts); err != nil {
				r.Skip("chtimes: " + err.Error())
				return
			}
			r.Hit("dir:" + st.Op)
		case "remove":
			cur = -1
			r.Hit("dir:remove")
		default:
			r.Hit("dir:ask")
		}
		asked := st.Ask
		if asked == nil {
			asked = make([]int, len(obs))
			for i := range asked {
				asked[i] = i
			}
		}
		for _, oi := range asked {
			o := obs[oi%len(obs)]
			if o.eng == nil {
				if !c16DirAskLoader(o, file, cur, clock, writes, rels, relName, viol) {
					return
				}
				continue
			}
			for ci, ctx := range ctxs {
				got := c16RenderOn(o.eng, c16DirName, ctx)
				okv := false
				expect := ""
				switch {
				case o.mode == "cached" && o.held >= 0:
					// a cache entry: the release it loaded; the one on disk would be acceptable too (the property does not forbid looking)
					expect = "like the source of release " + relName(o.held) + " (which it loaded)"
					okv = got == rels[o.held].want[ci]
					if !okv && cur >= 0 && got == rels[cur].want[ci] {
						okv = true
						o.held = cur
					}
				case cur >= 0:
					expect = "like the source of release " + relName(cur) + " (whose compiled form is in the file now)"
					okv = got == rels[cur].want[ci]
				case o.mode == "cache-off-before-fallback":
					expect = "the fallback loader's template (no compiled file)"
					okv = got == c16RenderOn(fallbackRef, c16DirName, ctx)
				default:
					expect = "a template-not-found error (no compiled file)"
					okv = got.err != "" && got.pn == "" && got.out == ""
				}
				if !okv {
					var wantOut, wantErr string
					if cur >= 0 {
						wantOut, wantErr = rels[cur].want[ci].out, rels[cur].want[ci].err
					}
					viol("dir-render-"+o.mode, fmt.Sprintf("after step %d (%s) the compiled file holds %s, but engine %s (%s; it looked %d time(s) before) renders %q / error %q — expected %s",
						si, c16DirStepText(st, rels), relName(cur), o.id, o.mode, o.seenW, truncate(got.out, 60), truncate(got.err, 120), expect),
						map[string]any{"observer": o.id, "engine_setting": o.mode, "context": fmt.Sprint(ctx), "got_out_hex": c16short(hx(got.out)), "got_err": got.err, "got_panic": got.pn,
							"source_out_hex": c16short(hx(wantOut)), "source_err": wantErr})
					return
				}
				if ci == 0 {
					if o.mode == "cached" && o.held < 0 && cur >= 0 {
						o.held = cur
					}
					r.Seen(fmt.Sprintf("%sdir:%s:%d:%s:%d", tag, o.id, si, relName(cur), len(steps))+fmt.Sprint(steps), got.out != "")
				}
			}
			o.seenW++
		}
	}
}

func c16DirStepText(st c16DirStep, rels []*c16Release) string {
	switch st.Op {
	case "save":
		return "SaveCompiled of release " + rels[st.Rel].id + " by loader " + st.Writer
	case "copy":
		return "file copy of compiled release " + rels[st.Rel].id
	}
	return st.Op
}

// c16DirAskLoader: the answers of a bare CompiledLoader against the file system
func c16DirAskLoader(o *c16DirObserver, file string, cur int, clock int64, writes int, rels []*c16Release, relName func(int) string,
	viol func(key, what string, extra map[string]any)) bool {
	var exists bool
	var src string
	var lerr, merr error
	var mt int64
	res := guarded(func() (string, error) {
		exists = o.ld.Exists(c16DirName)
		src, lerr = o.ld.Load(c16DirName)
		mt, merr = o.ld.GetModifiedTime(c16DirName)
		return "", nil
	})
	if res.Class == "panic" || res.Class == "timeout" {
		viol("dir-loader-panic", fmt.Sprintf("loader %s panics or hangs: %s", o.id, truncate(res.Panic, 200)), map[string]any{"observer": o.id})
		return false
	}
	_, serr := os.Stat(file)
	onDisk := serr == nil
	if onDisk != (cur >= 0) {
		return true // the harness lost track of the directory; nothing to say
	}
	if exists != onDisk {
		viol("dir-exists", fmt.Sprintf("the compiled file of %q %s, but Exists on loader %s says %v", c16DirName, map[bool]string{true: "is there (release " + relName(cur) + ")", false: "is not there"}[onDisk], o.id, exists),
			map[string]any{"observer": o.id})
		return false
	}
	if onDisk {
		if lerr != nil || src != rels[cur].src {
			viol("dir-load", fmt.Sprintf("the compiled file holds release %s, but Load on loader %s returns %q, error %v", relName(cur), o.id, truncate(src, 60), lerr),
				map[string]any{"observer": o.id, "loaded_hex": c16short(hx(src)), "source_hex": c16short(hx(rels[cur].src))})
			return false
		}
		// the time an auto-reloading engine compares: it grows whenever the file is written again at a later time
		if merr != nil || (o.seen != 0 && writes > o.seenW && mt <= o.seen) {
			viol("dir-mtime-not-growing", fmt.Sprintf("the compiled file was written again (mtime now %d) since loader %s last looked, but GetModifiedTime went from %d to %d (error %v): an auto-reloading engine cannot notice the new file",
				clock, o.id, o.seen, mt, merr), map[string]any{"observer": o.id, "file_mtime": clock})
			return false
		}
		o.seen, o.seenW = mt, writes
	} else {
		if lerr == nil || !errors.Is(lerr, twig.ErrTemplateNotFound) || merr == nil {
			viol("dir-load", fmt.Sprintf("there is no compiled file, but loader %s: Load returns %q, error %v; GetModifiedTime error %v", o.id, truncate(src, 60), lerr, merr), map[string]any{"observer": o.id})
			return false
		}
		o.seen = 0 // an engine that saw the file missing loads whatever comes next
	}
	return true
}

// c16DirReleases: the fixed pool — every way a release can be stamped
func c16DirReleases(scratch string, ctxs []map[string]any, body func(i int) string) ([]*c16Release, error) {
	specs := []struct {
		id, origin string
		stamp      int64
	}{
		{"file-older", "file", c16DirBase - 2000},
		{"file-newer", "file", c16DirBase - 1000},
		{"file-same-mtime-as-older", "file", c16DirBase - 2000},
		{"array-no-stamp", "array", 0},
		{"string-now", "string", 0},
		{"string-now-2", "string", 0},
		{"file-in-the-future", "file", time.Now().Unix() + 86400*365},
	}
	var rels []*c16Release
	for i, s := range specs {
		rel, err := c16MakeRelease(s.id, s.origin, fmt.Sprintf("[release %d %s] ", i, s.id)+body(i), s.stamp, scratch, ctxs)
		if err != nil {
			return nil, fmt.Errorf("%s: %w", s.id, err)
		}
		rels = append(rels, rel)
	}
	return rels, nil
}

func c16DirHistories(e *Env) {
	r := e.Rep
	scratch, err := os.MkdirTemp("", "c16-dirsrc-")
	if err != nil {
		r.Skip("no temp dir: " + err.Error())
		return
	}
	defer os.RemoveAll(scratch)
	ctxs := []map[string]any{{"name": "World", "a": "x", "b": "", "c": 3, "t": true, "xs": []any{"p", 2}, "m": map[string]any{"k": "v"}}}
	bodies := []string{"Hello {{ name }}", "Hi {{ name|upper }}{% if t %}!{% endif %}", "{% for i in xs %}[{{ i }}]{% endfor %}", "{{ c + 1 }} {{ a ~ b }}", "plain text", "{% set q = c * 2 %}{{ q }}", "{{ m.k|default('none') }}"}
	rels, err := c16DirReleases(scratch, ctxs, func(i int) string { return bodies[i%len(bodies)] })
	if err != nil {
		r.Violate(Violation{Key: "dir-setup", What: "cannot build the releases: " + err.Error(), Broken: "harness setup", Replay: map[string]any{"kind": "compiled-directory-history"}})
		return
	}
	// ---- deterministic corpus: every ordered pair of releases (incl. the same one twice), asked before or not,
	// written by the same / another / a throw-away instance / a file copy; then removed and written again ----
	type wr struct{ op, w1, w2 string }
	writers := []wr{{"save", "L0", "L0"}, {"save", "L1", "L1"}, {"save", "fresh", "fresh"}, {"copy", "", ""}, {"save", "L0", "L1"}, {"save", "L1", "fresh"}}
	if e.Thorough() {
		writers = append(writers, wr{"save", "fresh", "L0"}, wr{"save", "L1", "L0"}, wr{"save", "fresh", "L1"})
	}
	hist := 0
	for a := range rels {
		for k := range rels {
			b := (a + 1 + k) % len(rels) // the same release written twice comes last
			for wi, w := range writers {
				for early := 0; early < 2; early++ {
					if r.Full() {
						return
					}
					// quick tier: the full cross for the first two writer combinations, a rotating one for the rest
					if !e.Thorough() && wi >= 2 && (a+b+early)%4 != wi-2 {
						continue
					}
					var steps []c16DirStep
					if early == 1 {
						steps = append(steps, c16DirStep{Op: "ask"})
					}
					steps = append(steps,
						c16DirStep{Op: w.op, Rel: a, Writer: w.w1},
						c16DirStep{Op: w.op, Rel: b, Writer: w.w2},
						c16DirStep{Op: "remove"},
						c16DirStep{Op: w.op, Rel: a, Writer: w.w2})
					c16DirHistory(e, rels, ctxs, steps, 2, "det:")
					hist++
				}
			}
		}
	}
	r.Note(fmt.Sprintf("compiled-directory histories: %d deterministic", hist))
	// ---- random histories: random sources and contexts, random order, writers and askers ----
	n := e.N(60, 2500)
	for i := 0; i < n && !r.Full(); i++ {
		rg := e.Rng
		rctxs := []map[string]any{c16Ctx(rg), c16Ctx(rg)}
		rrels, err := c16DirReleases(scratch, rctxs, func(int) string { return c16DirBody(rg) })
		if err != nil {
			r.Skip("random release does not parse: " + truncate(err.Error(), 60))
			continue
		}
		loaders := 1 + rg.Intn(3)
		nobs := loaders * (len(c16DirModes) + 3)
		steps := make([]c16DirStep, 3+rg.Intn(7))
		for j := range steps {
			st := c16DirStep{Rel: rg.Intn(len(rrels))}
			switch k := rg.Intn(10); {
			case k < 2:
				st.Op = "ask"
			case k < 7:
				st.Op = "save"
				st.Writer = pick(rg, []string{"L0", "L1", "L2", "fresh", "fresh"})
			case k < 9:
				st.Op = "copy"
			default:
				st.Op = "remove"
			}
			if rg.Intn(3) > 0 {
				// only some look this time
				st.Ask = []int{}
				for o := 0; o < nobs; o++ {
					if rg.Intn(3) == 0 {
						st.Ask = append(st.Ask, o)
					}
				}
			}
			steps[j] = st
		}
		c16DirHistory(e, rrels, rctxs, steps, loaders, "rnd:")
	}
}

// c16DirBody: a random template body that needs no other template
func c16DirBody(r *rand.Rand) string {
	var sb strings.Builder
	n := 1 + r.Intn(4)
	for i := 0; i < n; i++ {
		k := r.Intn(len(c16PieceAlts))
		if k == 7 || k == 8 {
			k = 1
		}
		sb.WriteString(c16PieceAlts[k](r))
	}
	return sb.String()
}
