package main

import (
	"fmt"
	"math/rand"
	"runtime"
	"strings"

	"github.com/semihalev/twig"
)

// C14 — template length and tag position do not change how a template is read.
//
// Correspondence M: TokenizeHtmlPreserving / TokenizeOptimized (real code) against scanHtml / scanOpt
// (Lean), whose agreement for every byte string is theorem C14_scanners_agree.
// Implementation-only oracles: (1) the two real tokenizers agree; (2) padding a template with literal
// text or comments at construct boundaries, across every size threshold, changes the output only by
// that text.

func init() { register("C14", runC14) }

var scanCalls int

var scanAlphabet = []string{"{", "}", "%", "#", "-", "\\", " ", "a", "\x80"}

// compareScan checks one source string against the model for both tokenizers, and the tokenizers
// against each other. Returns false when the violation budget is exhausted.
func compareScan(e *Env, src string, wsCtl bool, tag string) (bool, error) {
	r := e.Rep
	var got [2][]Tok
	var gotErr [2]string
	// The tokenizer objects are pooled, so each run starts on whatever the previous run left behind. The order of
	// the two runs alternates from call to call: each tokenizer then follows the other one on the same source as
	// often as it follows itself (or the other one) on the PREVIOUS source.
	scanCalls++
	order := []int{0, 1}
	if scanCalls%2 == 0 {
		order = []int{1, 0}
	}
	for _, i := range order {
		which := []string{"html", "opt"}[i]
		toks, ec, pn := goTokens(src, which, wsCtl)
		if pn != "" {
			ec = "panic"
		}
		got[i], gotErr[i] = toks, ec
		if e.Model != nil {
			mt, me, err := modelTokens(e.Model, src, which, wsCtl)
			if err != nil {
				return false, err
			}
			r.Compared++
			if me != ec || !sameToks(mt, toks) {
				v := Violation{Key: "scan-model-" + which,
					What:   fmt.Sprintf("tokenizer %s and model scan_%s differ on %q", which, which, truncate(src, 80)),
					Broken: "correspondence scan_" + which + " (TwigModel.Scan vs zero_alloc_tokenizer.go)",
					Replay: map[string]any{"kind": "scan", "src_hex": hx(src), "which": which, "ws": wsCtl,
						"impl": fmtToks(toks), "impl_err": ec, "model": fmtToks(mt), "model_err": me, "panic": pn}}
				if r.Violate(v) {
					return false, nil
				}
			}
		}
	}
	if gotErr[0] != gotErr[1] || !sameToks(got[0], got[1]) {
		v := Violation{Key: "tokenizers-disagree",
			What:   fmt.Sprintf("TokenizeHtmlPreserving and TokenizeOptimized differ on %q", truncate(src, 80)),
			Broken: "theorem C14_scanners_agree no longer describes the code (implementation-only oracle)",
			Replay: map[string]any{"kind": "scan-pair", "src_hex": hx(src), "ws": wsCtl,
				"html": fmtToks(got[0]), "html_err": gotErr[0], "opt": fmtToks(got[1]), "opt_err": gotErr[1]}}
		if r.Violate(v) {
			return false, nil
		}
	}
	nontrivial := strings.Contains(src, "{{") || strings.Contains(src, "{%") || strings.Contains(src, "{#")
	r.Seen(tag+src, nontrivial)
	if nontrivial {
		r.Hit("has-opener")
		if gotErr[0] != "" {
			r.Hit("scan-error:" + gotErr[0])
		}
	}
	return true, nil
}

func runC14(e *Env) error {
	r := e.Rep
	r.Rule = "token streams of both real tokenizers vs the Lean scanners on (a) every string of length ≤ N over {{ } % # - \\ space a 0x80} " +
		"(b) random tag/literal interleavings incl. malformed and every kind of atom as a whole print tag, (c) padded renders straddling 320, 4096, 20K, 64K, 100K (thorough: 512K), " +
		"(c2) families of same-length variants (constructs slid, reordered, blanked inside the same padding) read by one engine through ParseTemplate / RegisterString / RegisterTemplate / a loader, expected = pads + each piece's own output; " +
		"non-trivial = contains a tag opener (a) (b) or a padded render whose unpadded output is non-empty (c); distinct by source"
	// (a) exhaustive small scope
	depth := e.N(4, 6)
	if e.Thorough() {
		// depth 6 over 9 letters = 597 871 strings × 2 tokenizers; fine for the thorough tier
	}
	var ferr error
	allStrings(scanAlphabet, depth, func(s string) bool {
		ok, err := compareScan(e, s, false, "x:")
		if err != nil {
			ferr = err
			return false
		}
		return ok
	})
	if ferr != nil {
		return ferr
	}
	// (a2) every tag whose content is a string of length ≤ 3 over {dash, space, letter, quote}: the empty and
	// dash-only tags ({{-}}, {%--%}, {#-#}) sit at the edge of the delimiter arithmetic
	for _, src := range tagEdgeCorpus() {
		for _, wsc := range []bool{false, true} {
			if ok, err := compareScan(e, src, wsc, "e:"); err != nil {
				return err
			} else if !ok {
				return nil
			}
		}
	}
	// (a3) token counts around the powers of two (the token buffer's growth steps): dashes must still trim
	tokenBufferGrowthSweep(e, "C14: the number of tokens does not change how a template is read (implementation-only oracle; token buffer growth)")
	for _, total := range tokenCountTargets(e.Thorough()) {
		src := sourceWithTokens(e.Rng, total)
		if ok, err := compareScan(e, src, true, "n:"); err != nil {
			return err
		} else if !ok {
			return nil
		}
		r.Hit("token-count-boundary")
	}
	r.Exhaustive = false // the exhaustive part is (a) only; (b) and (c) are sampled
	r.Note(fmt.Sprintf("exhaustive over alphabet of %d letters to length %d", len(scanAlphabet), depth))
	if r.Full() {
		return nil
	}
	// (b) random structured and raw strings
	n := e.N(3000, 200000)
	for i := 0; i < n && !r.Full(); i++ {
		var src string
		switch e.Rng.Intn(3) {
		case 0:
			src = genRaw(e.Rng, 40)
		case 1:
			src = genTagSoup(e.Rng, 6)
		default:
			src = genTagSoup(e.Rng, 3) + genRaw(e.Rng, 12)
		}
		if i < 3 {
			r.Sample(map[string]any{"kind": "scan", "src": src})
		}
		if ok, err := compareScan(e, src, e.Rng.Intn(2) == 0, "r:"); err != nil {
			return err
		} else if !ok {
			break
		}
	}
	if r.Full() {
		return nil
	}
	// (c) padding
	if err := padOracle(e); err != nil {
		return err
	}
	// (c2) one engine reads a family of same-length variants of a padded template through every route
	familyOracle(e)
	// (d) long literal text with multi-byte characters around the 32 KiB / 64 KiB buffer sizes comes out unchanged
	bigTextOracle(e)
	// (e) templates whose only tags are comments (no {{ and no {% anywhere), of every size class: the comments vanish
	commentOnlyOracle(e)
	return nil
}

// tagEdgeCorpus: opener + content + closer for every content of length ≤ 3 over {-, space, a, ", 1}, bare and
// embedded in text; then every atom of printAtoms as the whole content of a print tag, with and without spaces
// and dashes (a tag that holds one token is where a tokenizer is tempted to take a short cut).
func tagEdgeCorpus() []string {
	var out []string
	pairs := [][2]string{{"{{", "}}"}, {"{%", "%}"}, {"{#", "#}"}, {"{{", "%}"}, {"{%", "}}"}}
	allStrings([]string{"-", " ", "a", "\"", "1"}, 3, func(in string) bool {
		for _, p := range pairs {
			out = append(out, p[0]+in+p[1], "x "+p[0]+in+p[1]+" y")
		}
		return true
	})
	for _, a := range printAtoms {
		for _, sp := range []string{" ", ""} {
			out = append(out, "{{"+sp+a+sp+"}}", "x {{-"+sp+a+sp+"-}} y", "{{"+sp+a+sp+"}}{{"+sp+a+"|upper"+sp+"}}")
		}
	}
	return out
}

// printAtoms: one spelling of every kind of token the expression lexer tells apart, usable as the whole content of
// a print tag: names (letters, digits, underscores in every position a name allows), integers (zero, leading
// zeros, long), floats, signed numbers, both string quotes, the word constants, and the shortest compound forms.
var printAtoms = []string{
	"a", "c", "name", "v1", "_k", "a1b2", "A_9", "undefinedvar", "x0",
	"0", "7", "42", "007", "00", "1234567890", "9007199254740993",
	"3.14", "0.5", "10.0", "1e3",
	"-1", "-0", "+2", "-0.5", "- 3",
	"'s'", "\"d\"", "''", "'4'", "'a b'", "'it\\'s'", "\"}}\"", "'{{'",
	"true", "false", "null", "none", "TRUE", "True",
	"(1)", "(a)", "[1]", "[]", "{}", "{'k': 1}", "1 + 2", "1+2", "2 * 3", "not t", "a ~ 1", "1 ~ 1", "xs[0]", "xs|first", "xs.0", "1..3", "c ? 1 : 2", "1 in xs", "c is odd",
}

func tokenCountTargets(thorough bool) []int {
	var ts []int
	for _, c := range []int{32, 64, 128, 256, 512, 1024, 2048} {
		if c > 600 && !thorough {
			break
		}
		for d := -3; d <= 3; d++ {
			ts = append(ts, c+d)
		}
	}
	return ts
}

// sourceWithTokens builds a template whose token stream has exactly `total` tokens (EOF included): text tokens
// (1 each) and print tags with random dashes (3 each).
func sourceWithTokens(rg *rand.Rand, total int) string {
	left := total - 1
	if left < 0 {
		left = 0
	}
	tags, texts := left/3, left%3
	for k := rg.Intn(tags/4 + 1); k > 0 && texts+3 <= tags; k-- {
		tags--
		texts += 3
	}
	if texts > tags+1 {
		texts = tags + 1 // only for total ≤ 3
	}
	gaps := rg.Perm(tags + 1)[:texts]
	isText := map[int]bool{}
	for _, g := range gaps {
		isText[g] = true
	}
	var sb strings.Builder
	for i := 0; i <= tags; i++ {
		if isText[i] {
			sb.WriteString(pick(rg, []string{"  t  ", " \n ", "x", "  "}))
		}
		if i < tags {
			sb.WriteString("{{" + pick(rg, []string{"", "-"}) + " a " + pick(rg, []string{"", "-"}) + "}}")
		}
	}
	return sb.String()
}

type plainWriter struct{ b []byte }

func (p *plainWriter) Write(x []byte) (int, error) { p.b = append(p.b, x...); return len(x), nil }

// bigTextOracle: a template of literal text (optionally with one print tag in the middle) is rendered to itself,
// through Render and through RenderTo into a writer that has only Write.
func bigTextOracle(e *Env) {
	r := e.Rep
	fillers := []string{"é", "世", "😀", "aé", "\u2028"}
	sizes := []int{32768, 65536, 98304}
	if e.Thorough() {
		sizes = append(sizes, 4096, 16384, 131072, 262144)
	}
	for _, size := range sizes {
		for _, f := range fillers {
			for shift := 0; shift < 5; shift++ {
				if r.Full() {
					return
				}
				text := strings.Repeat("a", shift) + strings.Repeat(f, (size+40)/len(f))
				for _, withTag := range []bool{false, true} {
					src, want := text, text
					if withTag {
						src, want = text+"{{ v }}"+text, text+"V"+text
					}
					key := fmt.Sprintf("bigtext:%d:%q:%d:%v", size, f, shift, withTag)
					res := guarded(func() (string, error) {
						eng := twig.New()
						if err := eng.RegisterString("big", src); err != nil {
							return "", err
						}
						out, err := eng.Render("big", map[string]interface{}{"v": "V"})
						if err != nil {
							return "", err
						}
						if out != want {
							return "", fmt.Errorf("RENDER-DIFF at byte %d of %d", firstDiff(out, want), len(want))
						}
						// the returned string is kept; after a few other renders it still holds the same bytes
						kept, keptCopy := out, strings.Clone(out)
						for k := 0; k < 3; k++ {
							o := twig.New()
							o.RegisterString("small", "[Hello {{ v }}]"+strings.Repeat("z", k*40000))
							o.Render("small", map[string]interface{}{"v": "World"})
						}
						if kept != keptCopy {
							return "", fmt.Errorf("KEPT-RESULT-CHANGED at byte %d of %d", firstDiff(kept, keptCopy), len(keptCopy))
						}
						pw := &plainWriter{}
						if err := eng.RenderTo(pw, "big", map[string]interface{}{"v": "V"}); err != nil {
							return "", err
						}
						if string(pw.b) != want {
							return "", fmt.Errorf("RENDERTO-DIFF at byte %d of %d", firstDiff(string(pw.b), want), len(want))
						}
						return "ok", nil
					})
					r.Seen(key, true)
					r.Hit("bigtext")
					if res.Err != nil || res.Class != "" {
						if r.Violate(Violation{Key: "long-text-changed", What: fmt.Sprintf("literal text of %d bytes (%q repeated, shifted by %d, tag in the middle: %v) does not come out unchanged: %v %s", len(src), f, shift, withTag, res.Err, res.Class),
							Broken: "theorem C14_padding / C14_text_passthrough no longer describes the code (implementation-only oracle)",
							Replay: map[string]any{"kind": "bigtext", "filler_hex": hx(f), "shift": shift, "size": size, "with_tag": withTag, "err": fmt.Sprint(res.Err), "class": res.Class}}) {
							return
						}
					}
				}
			}
		}
	}
}

func firstDiff(a, b string) int {
	n := len(a)
	if len(b) < n {
		n = len(b)
	}
	for i := 0; i < n; i++ {
		if a[i] != b[i] {
			return i
		}
	}
	return n
}

// genTagSoup: literal chunks interleaved with well-formed tags of every delimiter flavour.
func genTagSoup(r *rand.Rand, maxTags int) string {
	var sb strings.Builder
	n := r.Intn(maxTags + 1)
	for i := 0; i < n; i++ {
		sb.WriteString(genLit(r, 6))
		switch r.Intn(6) {
		case 0:
			content := pick(r, ident)
			if r.Intn(2) == 0 {
				content = pick(r, printAtoms)
			}
			sb.WriteString("{{" + pick(r, []string{"", "-"}) + ws(r) + content + ws(r) + pick(r, []string{"", "-"}) + "}}")
		case 1:
			sb.WriteString("{#" + strings.ReplaceAll(genRaw(r, 8), "#}", "# }") + "#}")
		case 2:
			sb.WriteString("{%" + pick(r, []string{"", "-"}) + " if " + pick(r, ident) + " " + pick(r, []string{"", "-"}) + "%}")
		case 3:
			sb.WriteString("{%" + pick(r, []string{"", "-"}) + ws(r) + pick(r, []string{"endif", "else", "endfor", "for a in b", "set a = 1", "include 'x' with {a: 1}", "from 'm' import a as b, c", "import \"m\" as m", "extends 'p'"}) + ws(r) + pick(r, []string{"", "-"}) + "%}")
		case 4:
			sb.WriteString("{{ " + pick(r, ident) + pick(r, []string{"|upper", ".b", "[0]", " + 1", " ~ 'x}'", " == \"a\\\"\"", "|default('-')"}) + " }}")
		default:
			sb.WriteString("\\{{ " + pick(r, ident))
		}
	}
	sb.WriteString(genLit(r, 6))
	return sb.String()
}

// ---- padding oracle ----------------------------------------------------------------------------

type piece struct{ src string }

// genPieces returns independent top-level constructs (no dash at a piece boundary; the value of a
// piece does not depend on where it stands) and a context for them.
func genPieces(r *rand.Rand) ([]string, map[string]any) {
	ctx := map[string]any{"a": "A1", "b": "", "c": 3, "xs": []interface{}{"p", "q", 7}, "t": true, "name": "<n&m>",
		"v1": "V1", "_k": "K", "a1b2": "AB", "A_9": 9, "x0": "X0"}
	n := 1 + r.Intn(5)
	ps := make([]string, 0, n)
	for i := 0; i < n; i++ {
		switch r.Intn(11) {
		case 0:
			ps = append(ps, genLit(r, 10))
		case 1:
			ps = append(ps, "{{ "+pick(r, []string{"a", "c", "name", "name|upper", "c + 1", "xs|length", "a ~ b ~ c"})+" }}")
		case 9, 10:
			// a print tag holding a single atom of any kind, with or without the optional spaces
			sp := pick(r, []string{" ", " ", ""})
			ps = append(ps, "{{"+sp+pick(r, printAtoms)+sp+"}}")
		case 2:
			ps = append(ps, "{# "+strings.ReplaceAll(genLit(r, 8), "#}", "")+" #}")
		case 3:
			ps = append(ps, "{% if "+pick(r, []string{"t", "b", "c > 2", "not t"})+" %}yes"+genLit(r, 4)+"{% else %}no{% endif %}")
		case 4:
			ps = append(ps, "{% for i in xs %}[{{ i }}:{{ loop.index }}]{% endfor %}")
		case 5:
			ps = append(ps, "{% set q = 'z' ~ c %}{{ q }}")
		case 6:
			ps = append(ps, "{% for k in [] %}x{% else %}empty{% endfor %}")
		case 7:
			ps = append(ps, "{% if t %}{% for i in xs %}{{ i }}{% if loop.last %}.{% else %},{% endif %}{% endfor %}{% endif %}")
		default:
			ps = append(ps, "{% verbatim %}{{ a }}{% endverbatim %}")
		}
	}
	return ps, ctx
}

func mkPad(n int, comment bool, k int) string {
	// \x01 … \x02 brackets a pad; \x03 is filler that no generator emits elsewhere
	if n < 2 {
		n = 2
	}
	if comment {
		return "\x01\x02{#" + strings.Repeat("c", n) + "#}"
	}
	return "\x01" + strings.Repeat("\x03", n-2) + "\x02"
}

func stripPads(s string) (string, int) {
	var sb strings.Builder
	count := 0
	for i := 0; i < len(s); i++ {
		if s[i] == 1 {
			j := i + 1
			for j < len(s) && s[j] == 3 {
				j++
			}
			if j < len(s) && s[j] == 2 {
				count++
				i = j
				continue
			}
		}
		sb.WriteByte(s[i])
	}
	return sb.String(), count
}

func padOracle(e *Env) error {
	r := e.Rep
	targets := []int{318, 320, 321, 4095, 4096, 4097, 4100, 20479, 20481, 65535, 65537, 102400}
	if e.Thorough() {
		targets = append(targets, 1023, 1025, 8191, 8193, 262145, 524289)
	}
	rounds := e.N(8, 120)
	for round := 0; round < rounds && !r.Full(); round++ {
		ps, ctx := genPieces(e.Rng)
		base := strings.Join(ps, "")
		ref := renderSrc(base, ctx)
		if ref.Class != "" {
			r.Skip("unpadded-does-not-render:" + ref.Class)
			continue
		}
		for _, target := range targets {
			big := e.Rng.Intn(len(ps) + 1)
			comment := e.Rng.Intn(3) == 0
			var sb strings.Builder
			npads := 0
			for i := 0; i <= len(ps); i++ {
				if i == big {
					need := target - len(base)
					if need < 2 {
						need = 2
					}
					sb.WriteString(mkPad(need, comment, i))
					npads++
				} else if e.Rng.Intn(3) == 0 {
					sb.WriteString(mkPad(2+e.Rng.Intn(40), e.Rng.Intn(4) == 0, i))
					npads++
				}
				if i < len(ps) {
					sb.WriteString(ps[i])
				}
			}
			padded := sb.String()
			got := renderSrc(padded, ctx)
			stripped, cnt := stripPads(got.Out)
			r.Seen(fmt.Sprintf("pad:%d:%s", target, base), ref.Out != "")
			r.Hit(fmt.Sprintf("pad-target-%d", target))
			if round == 0 && target == 4097 {
				r.Sample(map[string]any{"kind": "pad", "template": base, "padded_len": len(padded), "pads": npads, "output": ref.Out})
			}
			if got.Class != "" || stripped != ref.Out || cnt != npads {
				v := Violation{Key: "padding-changes-output",
					What:   fmt.Sprintf("padding %q to %d bytes changes its output (class %q)", truncate(base, 60), len(padded), got.Class),
					Broken: "theorem C14_padding / C14_scanners_agree no longer describes the code (implementation-only oracle)",
					Replay: map[string]any{"kind": "pad", "template_hex": hx(base), "padded_hex_prefix": hx(truncate(padded, 300)), "padded_len": len(padded),
						"expected": ref.Out, "got_stripped": truncate(stripped, 300), "pads_expected": npads, "pads_seen": cnt, "class": got.Class, "panic": got.Panic,
						"pieces": ps, "big_at": big, "comment_pad": comment, "target": target}}
				if r.Violate(v) {
					break
				}
			}
		}
	}
	return nil
}

func commentOnlyOracle(e *Env) {
	r := e.Rep
	n := e.N(120, 4000)
	for i := 0; i < n && !r.Full(); i++ {
		var src, want strings.Builder
		k := 1 + e.Rng.Intn(4)
		for j := 0; j < k; j++ {
			t := strings.NewReplacer("{{", "{ {", "{%", "{ %", "{#", "{ #").Replace(genLit(e.Rng, 10))
			src.WriteString(t)
			want.WriteString(t)
			body := strings.NewReplacer("#}", "# }", "{{", "{ {", "{%", "{ %").Replace(genRaw(e.Rng, 10))
			src.WriteString("{#" + body + "#}")
		}
		switch i % 4 {
		case 1:
			f := strings.Repeat("f", 4200)
			src.WriteString(f)
			want.WriteString(f)
		case 2:
			f := strings.Repeat("g", 70000)
			src.WriteString(f)
			want.WriteString(f)
		}
		res := renderSrc(src.String(), map[string]any{"a": 1})
		r.Seen("comment-only:"+src.String(), true)
		r.Hit("comment-only-template")
		if res.Class != "" || res.Out != want.String() {
			if r.Violate(Violation{Key: "comment-not-removed", What: fmt.Sprintf("a %d-byte template whose only tags are comments renders %q (%s), expected %q", len(src.String()), truncate(res.Out, 80), res.Class, truncate(want.String(), 80)),
				Broken: "theorem C04_comment_inert_render / C14_scanners_agree_render (implementation-only oracle)",
				Replay: map[string]any{"kind": "src", "src_hex": hx(truncate(src.String(), 600)), "len": len(src.String()), "got_hex": hx(truncate(res.Out, 600)), "class": res.Class}}) {
				return
			}
		}
	}
}

// tokenBufferGrowthSweep (implementation-only; after the detection of seeded change C13-E turned out to depend on
// which pooled tokenizer the run happened to get): the pooled tokenizers are dropped (two garbage collections empty
// sync.Pool), then templates with 1, 2, 3, … tokens are rendered one after the other on this goroutine, so the token
// count passes through every capacity the reused token buffer grows through (32, 64, 128, …) exactly when it is
// reached. Plain and dashed spellings; the expected output is computed here.
func tokenBufferGrowthSweep(e *Env, broken string) {
	r := e.Rep
	// one P: sync.Pool keeps the object a goroutine puts back in a per-P slot, so with several Ps a migrating
	// goroutine keeps getting fresh tokenizers and the buffer under test never grows through its capacities
	defer runtime.GOMAXPROCS(runtime.GOMAXPROCS(1))
	max := e.N(700, 2600)
	for pass := 0; pass < 2*max && !r.Full(); pass++ {
		// two passes, each after the pooled tokenizers were dropped: the dashed spelling first, then the plain one
		n := pass%max + 1
		if n == 1 {
			runtime.GC()
			runtime.GC()
		}
		for _, dashed := range []bool{pass < max} {
			tags, texts := n/3, n%3
			var src, want strings.Builder
			for i := 0; i < tags || i < texts; i++ {
				if i < texts {
					if dashed {
						src.WriteString("x \t \n ")
					} else {
						src.WriteString("x")
					}
					want.WriteString("x")
				}
				if i < tags {
					if dashed {
						src.WriteString("{{- a -}}")
					} else {
						src.WriteString("{{ a }}")
					}
					want.WriteString("A")
				}
			}
			if dashed && texts > tags {
				continue // a last text without a tag behind it keeps its trailing blanks: covered by the plain spelling
			}
			res := renderSrc(src.String(), map[string]any{"a": "A"})
			if res.Class != "" || res.Out != want.String() {
				r.Violate(Violation{Key: "token-count-boundary", What: fmt.Sprintf("a template of %d tokens (%d print tags, %d texts, dashed=%v) rendered right after templates of 1…%d tokens gives %q (%s %v), expected %q", n, tags, texts, dashed, n-1, truncate(res.Out, 80), res.Class, res.Err, truncate(want.String(), 80)),
					Broken: broken, Replay: map[string]any{"kind": "src", "src": src.String(), "want": want.String(), "got": res.Out, "class": res.Class, "tokens": n}})
				return
			}
		}
	}
	// …and a ladder that does not depend on what the pool holds: the tokenizer asks for len(source)/10 slots, so a
	// source of exactly n tokens and 10·n bytes gets a buffer of exactly n slots whenever the pooled one is smaller —
	// each rung is more than twice the one before, which is more than any buffer the earlier rungs left behind
	for n := 301; n <= e.N(24421, 73264) && !r.Full(); n = 3*n + 1 {
		for _, texts := range []int{1, 2} {
			tags := (n - texts) / 3
			if 3*tags+texts != n {
				continue
			}
			var src, want strings.Builder
			padTo := 10*n + 4 - 9*tags
			for i := 0; i < texts; i++ {
				k := padTo / texts
				if i == 0 {
					k = padTo - k*(texts-1)
				}
				body := "x" + strings.Repeat("y", k-7)
				src.WriteString(body + " \t \n  ")
				want.WriteString(body)
				src.WriteString("{{- a -}}")
				want.WriteString("A")
			}
			for i := texts; i < tags; i++ {
				src.WriteString("{{- a -}}")
				want.WriteString("A")
			}
			if len(src.String())/10 != n {
				r.Violate(Violation{Key: "harness-weak", What: fmt.Sprintf("ladder source for %d tokens has %d bytes", n, len(src.String())), Broken: broken, Replay: map[string]any{"kind": "src", "tokens": n}})
				return
			}
			res := renderSrc(src.String(), map[string]any{"a": "A"})
			r.Seen(fmt.Sprintf("token-ladder:%d:%d", n, texts), true)
			if res.Class != "" || res.Out != want.String() {
				r.Violate(Violation{Key: "token-count-boundary", What: fmt.Sprintf("a template of exactly %d tokens and %d bytes (the tokenizer sizes its buffer to %d slots) renders %d bytes (%s %v), expected %d bytes; first difference at %d", n, len(src.String()), n, len(res.Out), res.Class, res.Err, len(want.String()), firstDiff(res.Out, want.String())),
					Broken: broken, Replay: map[string]any{"kind": "src", "src": src.String(), "want": want.String(), "got": res.Out, "class": res.Class, "tokens": n}})
				return
			}
		}
	}
	r.Hit("token-buffer-growth-sweep")
}
