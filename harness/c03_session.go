package main

import (
	"encoding/json"
	"fmt"
	"math/rand"
	"path"
	"sort"
	"strings"

	"github.com/semihalev/twig"
)

// c03Sessions (added after seeded changes C03-Q and C03-R were missed): the bytes rendered for a template and a
// context value must not depend on what the SAME ENGINE rendered before, nor on what an earlier render did with the
// SAME CONTEXT OBJECT. Every other oracle of this runner gives each case an engine of its own that holds one entry
// template ("main") and a context of at most a handful of variables; an engine that serves many pages from several
// directories with one big context map was never looked at.
//
// A session = one set of templates, a list of entry templates, one context description. The reference for every
// entry is that entry ALONE: fresh engine, freshly built context. Then ONE engine and ONE context object render all
// entries in list order, in reverse order (so every ordered pair of entries occurs), every entry twice in a row, and
// (random part) in random orders; along four API routes (Engine.Render, Engine.RenderTo, Template.Render,
// Template.RenderTo) and with the templates registered up front as well as fetched through a loader on first use.
// Every render must give the bytes the entry gives alone. A difference is narrowed down to "one earlier entry, then
// this entry", to what carried the state (the engine, the context object, or both), and to the templates needed.
//
// New input dimensions:
//   - template sets spread over directories (root, a, b, a/sub, b/sub, c/d/e) in which the SAME relative name
//     (./leaf.twig, ../leaf.twig, ./sub/leaf.twig, ../b/leaf.twig, ../../leaf.twig, ./../leaf.twig) is used from
//     every directory through include (plain, in a loop, with, only, ignore missing), extends, import, from, and
//     through an included middle template; every leaf defines the same block and macro names and prints its own
//     name, so the required bytes are also computed directly in Go (path.Join of the entry's directory and the name);
//   - the number of top-level context variables: every size 0..40 and the sizes around 64, 128, 256 and 1000, with
//     templates that write their variable scope (set, loop variables, set in a loop, extends whose parent
//     sets, include, macros, import / from aliases, apply, overwriting and shadowing a variable the caller handed in)
//     and read it before they write; plus templates that read every variable / loop over a map of that size, whose
//     required bytes are computed directly in Go.

// ---- session ---------------------------------------------------------------------------------------------

type c03Session struct {
	Name    string            `json:"name"`
	Tpls    map[string]string `json:"tpls"`
	Ctx     map[string]c03Val `json:"ctx"`
	NilCtx  bool              `json:"nil_ctx,omitempty"` // hand in a nil context map (only with an empty Ctx)
	Entries []string          `json:"entries"`
	Expect  map[string]string `json:"expect,omitempty"` // entry -> required bytes (direct computation in Go)
}

var c03Routes = []string{"Engine.Render", "Engine.RenderTo", "Template.Render", "Template.RenderTo"}

// how the templates reach the engine
var c03Stores = []string{"registered", "loader"}

func c03SessionEngine(s *c03Session, store string) (*twig.Engine, error) {
	if store == "loader" {
		cp := make(map[string]string, len(s.Tpls))
		for k, v := range s.Tpls {
			cp[k] = v
		}
		eng := twig.New()
		eng.RegisterLoader(twig.NewArrayLoader(cp))
		return eng, nil
	}
	return newEngine(s.Tpls)
}

func c03SessionCtx(s *c03Session) map[string]any {
	if s.NilCtx && len(s.Ctx) == 0 {
		return nil
	}
	return c03Ctx(&c03Case{Ctx: s.Ctx}, 0)
}

func c03RenderVia(eng *twig.Engine, route, name string, ctx map[string]any) c03Out {
	res := guarded(func() (string, error) {
		switch route {
		case "Engine.RenderTo":
			var sb strings.Builder
			err := eng.RenderTo(&sb, name, ctx)
			if err != nil {
				return "", err
			}
			return sb.String(), nil
		case "Template.Render", "Template.RenderTo":
			t, err := eng.Load(name)
			if err != nil {
				return "", err
			}
			if route == "Template.Render" {
				return t.Render(ctx)
			}
			var sb strings.Builder
			if err := t.RenderTo(&sb, ctx); err != nil {
				return "", err
			}
			return sb.String(), nil
		}
		return eng.Render(name, ctx)
	})
	o := c03Out{Out: res.Out, Class: res.Class}
	if res.Err != nil {
		o.Err = res.Err.Error()
	}
	if res.Class == "panic" {
		o.Err = truncate(res.Panic, 200)
	}
	return o
}

// c03Alone: the entry on an engine and with a context nothing else has used
func c03Alone(s *c03Session, store, route, entry string) c03Out {
	eng, err := c03SessionEngine(s, store)
	if err != nil {
		return c03Out{Class: "parse-error", Err: err.Error()}
	}
	return c03RenderVia(eng, route, entry, c03SessionCtx(s))
}

// c03After renders `before` and then `entry`; shareEngine / shareCtx say what the two renders have in common
func c03After(s *c03Session, store, route, before, entry string, shareEngine, shareCtx bool) c03Out {
	eng, err := c03SessionEngine(s, store)
	if err != nil {
		return c03Out{Class: "parse-error", Err: err.Error()}
	}
	ctx := c03SessionCtx(s)
	c03RenderVia(eng, route, before, ctx)
	if !shareEngine {
		if eng, err = c03SessionEngine(s, store); err != nil {
			return c03Out{Class: "parse-error", Err: err.Error()}
		}
	}
	if !shareCtx {
		ctx = c03SessionCtx(s)
	}
	return c03RenderVia(eng, route, entry, ctx)
}

// c03CtxDelta: top-level variables a render added to / removed from the caller's context map
func c03CtxDelta(s *c03Session, store, route, entry string) (added, removed []string) {
	eng, err := c03SessionEngine(s, store)
	if err != nil {
		return nil, nil
	}
	ctx := c03SessionCtx(s)
	before := map[string]bool{}
	for k := range ctx {
		before[k] = true
	}
	c03RenderVia(eng, route, entry, ctx)
	for k := range ctx {
		if !before[k] {
			added = append(added, k)
		}
	}
	for k := range before {
		if _, ok := ctx[k]; !ok {
			removed = append(removed, k)
		}
	}
	sort.Strings(added)
	sort.Strings(removed)
	return added, removed
}

type c03SessionOrder struct {
	name  string
	order []string
}

func c03SessionOrders(s *c03Session, r *rand.Rand, random int) []c03SessionOrder {
	n := len(s.Entries)
	fwd := append([]string(nil), s.Entries...)
	bwd := make([]string, n)
	twice := make([]string, 0, 2*n)
	for i, x := range s.Entries {
		bwd[n-1-i] = x
		twice = append(twice, x, x)
	}
	os := []c03SessionOrder{{"list order", fwd}, {"reverse order", bwd}, {"every entry twice in a row", twice}}
	for k := 0; k < random && r != nil; k++ {
		p := make([]string, 0, 2*n)
		for _, i := range r.Perm(n) {
			p = append(p, s.Entries[i])
		}
		for _, i := range r.Perm(n) {
			p = append(p, s.Entries[i])
		}
		os = append(os, c03SessionOrder{fmt.Sprintf("random order %d (every entry twice)", k), p})
	}
	return os
}

// c03CheckSession: false if a violation was reported
func c03CheckSession(e *Env, rng *rand.Rand, s *c03Session, stores, routes []string, random int) bool {
	r := e.Rep
	for _, store := range stores {
		// the reference: every entry alone (per route: the routes are not required to agree on error texts)
		ref := map[string]map[string]c03Out{}
		for _, route := range routes {
			ref[route] = map[string]c03Out{}
			for _, en := range s.Entries {
				if _, done := ref[route][en]; done {
					continue
				}
				o := c03Alone(s, store, route, en)
				ref[route][en] = o
				r.Hit("session-alone-render")
				if want, ok := s.Expect[en]; ok && (o.Out != want || o.Class != "") {
					r.Violate(Violation{Key: "session-required-output",
						What:   fmt.Sprintf("%s: %s rendered alone (%s, templates %s) gives %q (%s %s), required %q", s.Name, en, route, store, truncate(o.Out, 100), o.Class, truncate(o.Err, 100), truncate(want, 100)),
						Broken: "C03: the rendered bytes are determined by templates and context (direct computation in Go: a ./ or ../ name is the path from the directory of the rendered template; every context variable is visible whatever the size of the context; a map is visited in key order)",
						Replay: map[string]any{"kind": "session", "session": c03Narrowed(s, []string{en}), "store": store, "route": route, "entry": en, "out_alone": o.Out, "class_alone": o.Class, "err_alone": o.Err, "required": want}})
					return false
				}
				if base := ref[routes[0]][en]; !c03SameOut(o, base) {
					r.Violate(Violation{Key: "output-depends-on-api-route",
						What:   fmt.Sprintf("%s: %s rendered alone gives %q (%s) through %s and %q (%s) through %s", s.Name, en, truncate(base.Out, 100), base.Class, routes[0], truncate(o.Out, 100), o.Class, route),
						Broken: "C03: the rendered bytes are determined by templates and context alone (implementation-only oracle: the same entry on fresh engines through the four render entry points)",
						Replay: map[string]any{"kind": "session", "session": c03Narrowed(s, []string{en}), "store": store, "route": route, "entry": en, "out_alone": base.Out, "out_route": o.Out, "class_route": o.Class, "err_route": o.Err}})
					return false
				}
			}
		}
		for oi, ord := range c03SessionOrders(s, rng, random) {
			for ri, route := range routes {
				if oi >= 3 && ri != oi%len(routes) {
					continue // random orders: one route each
				}
				eng, err := c03SessionEngine(s, store)
				if err != nil {
					continue // reported by the reference renders (class parse-error is part of every reference)
				}
				ctx := c03SessionCtx(s)
				for k, en := range ord.order {
					got := c03RenderVia(eng, route, en, ctx)
					r.Hit("session-render")
					if c03SameOut(got, ref[route][en]) {
						continue
					}
					c03ReportSession(e, s, store, route, ord, k, got, ref[route][en])
					return false
				}
			}
		}
	}
	return true
}

// c03Narrowed: the session restricted to the given entries (all templates kept)
func c03Narrowed(s *c03Session, entries []string) *c03Session {
	n := *s
	n.Entries = entries
	n.Expect = nil
	for _, en := range entries {
		if w, ok := s.Expect[en]; ok {
			if n.Expect == nil {
				n.Expect = map[string]string{}
			}
			n.Expect[en] = w
		}
	}
	return &n
}

func c03ReportSession(e *Env, s *c03Session, store, route string, ord c03SessionOrder, k int, got, want c03Out) {
	en := ord.order[k]
	replay := map[string]any{"kind": "session", "store": store, "route": route, "entry": en, "order": ord.name, "position": k,
		"out_alone": want.Out, "class_alone": want.Class, "err_alone": want.Err, "out_in_session": got.Out, "class_in_session": got.Class, "err_in_session": got.Err}
	key := "output-depends-on-engine-render-history"
	what := fmt.Sprintf("%s: %s gives %q (%s) alone and %q (%s) as render %d of [%s] on one engine with one context object (%s, templates %s)", s.Name, en,
		truncate(want.Out, 90), want.Class, truncate(got.Out, 90), got.Class, k+1, ord.name, route, store)
	ns := c03Narrowed(s, ord.order[:k+1])
	// one earlier entry, then this one
	for j := k - 1; j >= 0; j-- {
		before := ord.order[j]
		both := c03After(s, store, route, before, en, true, true)
		if c03SameOut(both, want) {
			continue
		}
		byEngine := !c03SameOut(c03After(s, store, route, before, en, true, false), want)
		byCtx := !c03SameOut(c03After(s, store, route, before, en, false, true), want)
		ns = c03Narrowed(s, []string{before, en})
		// drop the templates the difference does not need
		for _, name := range sortedKeys(s.Tpls) {
			if name == before || name == en {
				continue
			}
			t := *ns
			t.Tpls = map[string]string{}
			for n2, src := range ns.Tpls {
				if n2 != name {
					t.Tpls[n2] = src
				}
			}
			if c03SameOut(c03Alone(&t, store, route, en), want) && c03SameOut(c03After(&t, store, route, before, en, true, true), both) {
				ns = &t
			}
		}
		carrier := "the engine and the context object together"
		switch {
		case byCtx && !byEngine:
			carrier = "the context object (a fresh engine with the same context object shows it, the same engine with a freshly built equal context does not)"
			key = "same-context-rendered-again-differs"
		case byEngine && !byCtx:
			carrier = "the engine (the same engine with a freshly built equal context shows it, a fresh engine with the same context object does not)"
		case byEngine && byCtx:
			carrier = "the engine and, independently, the context object"
		}
		added, removed := c03CtxDelta(s, store, route, before)
		replay["before"] = before
		replay["out_after_before"] = both.Out
		replay["class_after_before"] = both.Class
		replay["state_in_engine"] = byEngine
		replay["state_in_context_object"] = byCtx
		replay["context_variables_added_by_before"] = added
		replay["context_variables_removed_by_before"] = removed
		what = fmt.Sprintf("%s: %s (%q) gives %q (%s) alone, but %q (%s) after %s (%q) was rendered; the state is carried by %s", s.Name, en, truncate(s.Tpls[en], 90),
			truncate(want.Out, 90), want.Class, truncate(both.Out, 90), both.Class, before, truncate(s.Tpls[before], 90), carrier)
		if len(added)+len(removed) > 0 {
			what += fmt.Sprintf("; rendering %s changed the caller's context map (%d variables before): added %v, removed %v", before, len(s.Ctx), added, removed)
		}
		what += fmt.Sprintf(" [%s, templates %s]", route, store)
		break
	}
	replay["session"] = ns
	e.Rep.Violate(Violation{Key: key, What: what,
		Broken: "C03: for fixed templates and a fixed context value the rendered bytes are determined by those alone, rendering again gives identical output (implementation-only oracle: every entry alone on a fresh engine with a fresh context vs the entries one after the other on one engine with one context object)",
		Replay: replay})
}

// ---- material: one relative name used from several directories ---------------------------------------------

var c03Dirs = []string{"", "a", "b", "a/sub", "b/sub", "c/d/e"}

var c03RelNames = []string{"./leaf.twig", "../leaf.twig", "./sub/leaf.twig", "../b/leaf.twig", "../../leaf.twig", "./../leaf.twig", "../sub/leaf.twig"}

// how a page refers to the leaf; %s = the name as written. want = what the page prints given what the leaf is called
var c03RefKinds = []struct {
	Kind string
	Src  string
	Want func(page, leaf string) string
}{
	{"include", "I[{% include '%s' %}]", func(p, l string) string { return "I[" + l + ":base]" }},
	{"include-in-loop", "{% for i in [1, 2, 3] %}{{ i }}{% include '%s' %};{% endfor %}", func(p, l string) string { return "1" + l + ":base;2" + l + ":base;3" + l + ":base;" }},
	{"include-with", "{% include '%s' with {'p': 1} %}", func(p, l string) string { return l + ":base" }},
	{"include-only", "{% include '%s' only %}", func(p, l string) string { return l + ":base" }},
	{"include-ignore-missing", "{% include '%s' ignore missing %}.", func(p, l string) string { return l + ":base." }},
	{"extends", "{% extends '%s' %}{% block b %}child{% endblock %}", func(p, l string) string { return l + ":child" }},
	{"extends-parent", "{% extends '%s' %}{% block b %}<{{ parent() }}>{% endblock %}", func(p, l string) string { return l + ":<base>" }},
	{"import", "{% import '%s' as L %}{{ L.who() }}", func(p, l string) string { return "M(" + l + ")" }},
	{"from", "{% from '%s' import who %}{{ who() }}", func(p, l string) string { return "M(" + l + ")" }},
	{"from-as", "{% from '%s' import who as w %}{{ w() }}", func(p, l string) string { return "M(" + l + ")" }},
}

// every leaf defines the same macro and the same block and prints its own name
func c03Leaf(name string) string {
	return "{% macro who() %}M(" + name + "){% endmacro %}" + name + ":{% block b %}base{% endblock %}"
}

func c03PageName(dir, kind string, ri int) string {
	return path.Join(dir, fmt.Sprintf("p-%s-%d.twig", kind, ri))
}

// c03AddPage adds a page in `dir` that refers to `rel` (and the leaf it should reach); false if the name leaves the root
func c03AddPage(s *c03Session, dir string, ki, ri int) bool {
	rel := c03RelNames[ri]
	leaf := path.Join(dir, rel)
	if strings.HasPrefix(leaf, "..") {
		return false
	}
	kind := c03RefKinds[ki]
	page := c03PageName(dir, kind.Kind, ri)
	s.Tpls[page] = strings.Replace(kind.Src, "%s", rel, 1)
	s.Tpls[leaf] = c03Leaf(leaf)
	s.Entries = append(s.Entries, page)
	s.Expect[page] = kind.Want(page, leaf)
	return true
}

func c03RelativeSessions() []c03Session {
	var out []c03Session
	// one session per kind of reference: every directory × every relative name
	for ki, kind := range c03RefKinds {
		s := c03Session{Name: "one relative name from several directories: " + kind.Kind, Tpls: map[string]string{}, Entries: nil, Expect: map[string]string{}}
		for ri := range c03RelNames {
			for _, d := range c03Dirs {
				c03AddPage(&s, d, ki, ri)
			}
		}
		out = append(out, s)
	}
	// one session per relative name: every kind from two or three directories (a name resolved for an include is
	// asked for again by an extends / import / from of another directory)
	for ri, rel := range c03RelNames {
		s := c03Session{Name: "one relative name through every kind of reference: " + rel, Tpls: map[string]string{}, Expect: map[string]string{}}
		for ki := range c03RefKinds {
			for di := 0; di < 3; di++ {
				c03AddPage(&s, c03Dirs[(di+ki)%len(c03Dirs)], ki, ri)
			}
		}
		out = append(out, s)
	}
	// through a middle template (of the same or of another directory) and with names that are not relative
	s := c03Session{Name: "relative names inside included / extended templates, absolute names", Tpls: map[string]string{}, Expect: map[string]string{}}
	for _, d := range []string{"a", "b", "a/sub", "b/sub"} {
		s.Tpls[path.Join(d, "leaf.twig")] = c03Leaf(path.Join(d, "leaf.twig"))
		s.Tpls[path.Join(d, "mid.twig")] = "mid(" + d + ")[{% include './leaf.twig' %}]"
		s.Tpls[path.Join(d, "midbase.twig")] = "{% extends './leaf.twig' %}{% block b %}midbase(" + d + "){% block c %}{% endblock %}{% endblock %}"
		for i, src := range []string{
			"{% include './mid.twig' %}",
			"{% include '../" + path.Base(d) + "/mid.twig' %}",
			"{% include '" + path.Join(d, "mid.twig") + "' %}",
			"{% extends './midbase.twig' %}{% block c %}page{% endblock %}",
			"{% include 'a/leaf.twig' %}|{% include './leaf.twig' %}|{% include 'b/sub/leaf.twig' %}",
			"{% import 'b/leaf.twig' as A %}{% import './leaf.twig' as B %}{{ A.who() }}{{ B.who() }}",
			"{% for n in ['./leaf.twig', 'a/leaf.twig', './mid.twig'] %}{% include n %},{% endfor %}",
		} {
			page := path.Join(d, fmt.Sprintf("q%d.twig", i))
			s.Tpls[page] = src
			s.Entries = append(s.Entries, page)
		}
		l := path.Join(d, "leaf.twig")
		s.Expect[path.Join(d, "q4.twig")] = "a/leaf.twig:base|" + l + ":base|b/sub/leaf.twig:base"
		s.Expect[path.Join(d, "q5.twig")] = "M(b/leaf.twig)M(" + l + ")"
	}
	// a page of another directory that includes a middle template: reference = the page alone
	s.Tpls["a/cross.twig"] = "{% include '../b/mid.twig' %}"
	s.Tpls["b/cross.twig"] = "{% include '../a/mid.twig' %}"
	s.Entries = append(s.Entries, "a/cross.twig", "b/cross.twig")
	out = append(out, s)
	return out
}

// ---- material: templates that write their variable scope × the size of the context -------------------------------

// entry templates "w/<name>"; auxiliary templates under "w/aux/…"
var c03ScopeForms = [][2]string{
	{"defined-then-set", "{{ x is defined ? 'D' : 'U' }}{% set x = 1 %}{{ x }}"},
	{"default-then-set", "{{ x|default('none') }}{% set x = 'v' %}{{ x }}"},
	{"if-not-defined-set-else-append", "{% if h is not defined %}{% set h = 'H' %}{% else %}{% set h = h ~ '+' %}{% endif %}{{ h }}"},
	{"accumulator", "{% set acc = (acc|default('')) ~ 'a' %}{{ acc }}"},
	{"counter", "{% set n = (n|default(0)) + 1 %}{{ n }}"},
	{"loop-key-value", "{{ k is defined ? 'D' : 'U' }}{{ v is defined ? 'D' : 'U' }}{% for k, v in m %}{{ k }}={{ v }};{% endfor %}"},
	{"loop-range", "{{ i is defined ? 'D' : 'U' }}{% for i in [1, 2, 3] %}{{ i }}{% endfor %}{{ loop is defined ? 'D' : 'U' }}"},
	{"set-in-loop", "{% for k, v in m %}{% set seen = (seen|default('')) ~ k %}{% endfor %}{{ seen|default('-') }}"},
	{"set-from-callers-variable", "{{ cap|default('U') }}{% set cap = '[' ~ (f003|default('n')) ~ ']' %}{{ cap }}"},
	{"extends-parent-sets", "{% extends 'w/aux/base' %}{% block b %}{{ z|default('U') }}{% endblock %}"},
	{"include-sets", "{% include 'w/aux/inc' %}{{ w|default('U') }}"},
	{"include-with-sets", "{% include 'w/aux/inc' with {'w2': 1} %}{{ w|default('U') }}{{ w2|default('U') }}"},
	{"macro-sets", "{% import 'w/aux/lib' as L2 %}{{ L2.f(1) }}{{ q|default('U') }}{{ a|default('U') }}"},
	{"import-alias", "{{ L is defined ? 'D' : 'U' }}{% import 'w/aux/lib' as L %}{{ L.f(3) }}"},
	{"from-alias", "{{ who is defined ? 'D' : 'U' }}{% from 'w/aux/lib' import f as who %}{{ who(2) }}"},
	{"overwrite-callers-variable", "{{ f000|default('n') }}{% set f000 = 'changed' %}{{ f000 }}"},
	{"loop-variable-shadows-callers-variable", "{{ f001|default('n') }}{% for f001 in [7, 8] %}{{ f001 }}{% endfor %}{{ f001|default('n') }}"},
	{"apply", "{% apply upper %}{{ ap|default('u') }}{% set ap = 'v' %}{{ ap }}{% endapply %}{{ ap|default('u') }}"},
	{"set-merged-map", "{% set m = (m|default({}))|merge({('k' ~ (m|default({})|length)): 1}) %}{{ m|length }}{{ m|keys|join(',') }}"},
	{"set-grown-list", "{% set xs = (xs|default([]))|merge([xs|default([])|length]) %}{{ xs|join(',') }}"},
	{"do-nothing", "{% do 1 + 1 %}{{ x|default('U') }}{{ acc|default('U') }}{{ h|default('U') }}{{ z|default('U') }}{{ w|default('U') }}{{ q|default('U') }}{{ k|default('U') }}{{ seen|default('U') }}{{ cap|default('U') }}{{ n|default('U') }}{{ xs|default([])|length }}"},
}

var c03ScopeAux = map[string]string{
	"w/aux/base": "{{ z|default('U') }}{% set z = 'P' %}<{% block b %}{% endblock %}>{{ z }}",
	"w/aux/inc":  "{{ w|default('U') }}{% set w = 'I' %}{{ w }}",
	"w/aux/lib":  "{% macro f(a) %}{{ q|default('U') }}{% set q = a %}{{ q }}{% endmacro %}",
}

// c03SizeLadder: every small size, and the sizes around the next powers of two
func c03SizeLadder(e *Env) []int {
	var ns []int
	for n := 0; n <= e.N(40, 72); n++ {
		ns = append(ns, n)
	}
	return append(ns, 63, 64, 65, 127, 128, 129, 255, 256, 257, 1000)
}

// c03FillVal: the i-th variable of a big context (printed form computed by c03FillWant)
func c03FillVal(i int) c03Val {
	switch i % 3 {
	case 0:
		return c03I(int64(i))
	case 1:
		return c03S(fmt.Sprintf("s%d", i))
	}
	return c03Val{T: "list", L: []c03Val{c03I(int64(i)), c03S("x")}}
}

func c03FillWant(i int) string {
	switch i % 3 {
	case 0:
		return fmt.Sprint(i)
	case 1:
		return fmt.Sprintf("s%d", i)
	}
	return fmt.Sprintf("%d-x", i)
}

func c03FillRead(i int) string {
	if i%3 == 2 {
		return fmt.Sprintf("{{ f%03d|join('-') }}", i)
	}
	return fmt.Sprintf("{{ f%03d }}", i)
}

// c03SizedSession: a context of exactly n top-level variables (m, big, then f000 …); every scope-writing template is an
// entry, plus one that reads every variable and one that loops over a map of n entries (required bytes computed here)
func c03SizedSession(n int) c03Session {
	s := c03Session{Name: fmt.Sprintf("scope-writing templates, context of %d variables", n), Tpls: map[string]string{}, Ctx: map[string]c03Val{}, Expect: map[string]string{}}
	for k, v := range c03ScopeAux {
		s.Tpls[k] = v
	}
	for _, f := range c03ScopeForms {
		s.Tpls["w/"+f[0]] = f[1]
		s.Entries = append(s.Entries, "w/"+f[0])
	}
	fill := n
	if n >= 1 {
		s.Ctx["m"] = c03Val{T: "map", K: []c03Val{c03S("c"), c03S("a"), c03S("b")}, L: []c03Val{c03I(3), c03I(1), c03I(2)}}
		fill--
	}
	var wantBig strings.Builder
	if n >= 2 {
		big := c03Val{T: "msi"}
		for i := n - 1; i >= 0; i-- {
			big.K = append(big.K, c03S(fmt.Sprintf("k%04d", i)))
			big.L = append(big.L, c03I(int64(i*7)))
		}
		for i := 0; i < n; i++ {
			fmt.Fprintf(&wantBig, "k%04d=%d,", i, i*7)
		}
		fmt.Fprintf(&wantBig, "|%d|k0000", n)
		s.Ctx["big"] = big
		fill--
	} else {
		wantBig.WriteString("|0|")
	}
	var read, want strings.Builder
	for i := 0; i < fill; i++ {
		s.Ctx[fmt.Sprintf("f%03d", i)] = c03FillVal(i)
		read.WriteString(c03FillRead(i) + ",")
		want.WriteString(c03FillWant(i) + ",")
	}
	s.Tpls["w/read-every-variable"] = read.String() + "|{{ m|default({})|keys|join(',') }}"
	s.Expect["w/read-every-variable"] = want.String() + "|" + map[bool]string{true: "a,b,c"}[n >= 1]
	s.Tpls["w/loop-over-a-map-of-this-size"] = "{% for k, v in big %}{{ k }}={{ v }},{% endfor %}|{{ big|default({})|length }}|{{ big|default({})|keys|first }}"
	s.Expect["w/loop-over-a-map-of-this-size"] = wantBig.String()
	s.Entries = append(s.Entries, "w/read-every-variable", "w/loop-over-a-map-of-this-size")
	s.NilCtx = n == 0
	return s
}

// ---- random sessions --------------------------------------------------------------------------------------

// c03RandSession: random pages over random directories and relative names, random scope-writing templates and random map
// programs, all on one engine with one context of a random size
func c03RandSession(r *rand.Rand, i int) c03Session {
	n := r.Intn(48)
	if r.Intn(4) == 0 {
		n = 0
	}
	s := c03SizedSession(n)
	s.Name = fmt.Sprintf("random session %d (%d context variables)", i, n)
	// a random selection of the scope-writing entries …
	r.Shuffle(len(s.Entries), func(a, b int) { s.Entries[a], s.Entries[b] = s.Entries[b], s.Entries[a] })
	s.Entries = s.Entries[:2+r.Intn(5)]
	// … pages that use relative names …
	for k := 2 + r.Intn(6); k > 0; k-- {
		c03AddPage(&s, pick(r, c03Dirs), r.Intn(len(c03RefKinds)), r.Intn(len(c03RelNames)))
	}
	// … and map programs (they read m, m2 and x)
	for k := r.Intn(3); k > 0; k-- {
		c := c03GenCase(r, k)
		name := fmt.Sprintf("prog/%d.twig", k)
		s.Tpls[name] = c.Tpls["main"]
		for an, src := range c03Aux {
			s.Tpls[an] = src
		}
		if _, ok := s.Ctx["m2"]; !ok {
			for vn, v := range c.Ctx {
				if _, ok := s.Ctx[vn]; !ok || vn == "m" {
					s.Ctx[vn] = v
				}
			}
			delete(s.Expect, "w/read-every-variable") // m is another map now
		}
		s.Entries = append(s.Entries, name)
	}
	s.NilCtx = false
	r.Shuffle(len(s.Entries), func(a, b int) { s.Entries[a], s.Entries[b] = s.Entries[b], s.Entries[a] })
	return s
}

// ---- runner part --------------------------------------------------------------------------------------------

func c03Sessions(e *Env) {
	r := e.Rep
	// a stream of its own: the other parts of this runner see the random stream they saw before this part existed
	rng := rand.New(rand.NewSource(e.Seed*1000003 + 0xc03))
	run := func(s c03Session, stores, routes []string, random int) bool {
		sj, _ := json.Marshal(s)
		r.Seen("session:"+string(sj), len(s.Entries) >= 2)
		r.Hit("session")
		return c03CheckSession(e, rng, &s, stores, routes, random)
	}
	bad := 0
	for _, s := range c03RelativeSessions() {
		if r.Full() {
			return
		}
		if !run(s, c03Stores, c03Routes, e.N(1, 6)) {
			if bad++; bad >= 3 {
				break // one defect shows in many sessions: three examples are enough
			}
		}
		r.Hit("session-relative-names")
	}
	bad = 0
	for _, n := range c03SizeLadder(e) {
		if r.Full() {
			return
		}
		stores, routes := c03Stores[:1], c03Routes
		if n > 300 && !e.Thorough() {
			routes = c03Routes[:2]
		}
		if !run(c03SizedSession(n), stores, routes, e.N(0, 4)) {
			if bad++; bad >= 3 {
				break
			}
		}
		r.Hit("session-context-size")
	}
	for i, n := 0, e.N(40, 1500); i < n && !r.Full(); i++ {
		s := c03RandSession(rng, i)
		run(s, []string{c03Stores[i%2]}, []string{c03Routes[i%len(c03Routes)]}, 2)
		r.Hit("session-random")
	}
}

// c03ReplaySession re-runs a recorded session: every entry alone, then the recorded entries one after the other
func c03ReplaySession(e *Env, raw json.RawMessage) error {
	var rc struct {
		Session c03Session `json:"session"`
		Store   string     `json:"store"`
		Route   string     `json:"route"`
	}
	if err := json.Unmarshal(raw, &rc); err != nil {
		return err
	}
	s := &rc.Session
	fmt.Printf("replay session: %s (%s, templates %s)\n", s.Name, rc.Route, rc.Store)
	for _, en := range s.Entries {
		o := c03Alone(s, rc.Store, rc.Route, en)
		fmt.Printf("  alone   %-40s %q (class %q)\n", en, truncate(o.Out, 200), o.Class)
	}
	if eng, err := c03SessionEngine(s, rc.Store); err == nil {
		ctx := c03SessionCtx(s)
		for _, en := range append(append([]string(nil), s.Entries...), s.Entries...) {
			o := c03RenderVia(eng, rc.Route, en, ctx)
			fmt.Printf("  session %-40s %q (class %q)\n", en, truncate(o.Out, 200), o.Class)
		}
	}
	ok := c03CheckSession(e, nil, s, []string{rc.Store}, []string{rc.Route}, 0)
	fmt.Printf("  reproduced: %v\n", !ok)
	return nil
}
