package main

import (
	"fmt"
	"math/rand"
	"sort"
	"strconv"
	"strings"
)

// ---- expression trees and their spellings -------------------------------------------------------

type GExpr interface{}

type ELit struct{ V any } // nil, bool, int, string
type EVar struct{ N string }
type EUn struct {
	Op string // "not", "-", "+"
	E  GExpr
}
type EBin struct {
	Op   string
	L, R GExpr
}
type ECond struct{ C, T, F GExpr }
type EAttr struct {
	E GExpr
	N string
}
type EItem struct{ E, I GExpr }
type EFilter struct {
	E    GExpr
	N    string
	Args []GExpr
}
type ECall struct {
	N    string
	Args []GExpr
}
type EMCall struct {
	Obj  GExpr
	N    string
	Args []GExpr
}
type ETest struct {
	E    GExpr
	N    string
	Neg  bool
	Args []GExpr
}
type EArr struct{ Items []GExpr }
type EHash struct {
	Keys []string
	Vals []GExpr
}

// operator table as the property states it (the model's copy is proved equal to the code's table)
var binPrec = map[string]int{
	"or": 1, "and": 2,
	"==": 3, "!=": 3, "<": 3, ">": 3, "<=": 3, ">=": 3, "in": 3, "not in": 3, "matches": 3, "starts with": 3, "ends with": 3,
	"+": 4, "-": 4, "~": 4,
	"*": 5, "/": 5, "%": 5,
	"^": 6,
}

// Style controls one spelling of a tree.
type Style struct {
	Full  bool       // parenthesise every binary / unary / conditional / test sub-expression
	Extra float64    // probability of a redundant pair of parentheses
	Rng   *rand.Rand // spacing and quote choices (nil = canonical single spaces)
	Tight bool       // no optional spaces
}

func (s Style) sp() string {
	if s.Tight {
		return ""
	}
	if s.Rng == nil {
		return " "
	}
	return pick(s.Rng, []string{" ", " ", "  ", "", "\t", "\n "})
}

// osp: a space that is required between words
func (s Style) wsp() string {
	if s.Rng == nil {
		return " "
	}
	return pick(s.Rng, []string{" ", " ", "  ", "\t", "\n"})
}

func isWordOp(op string) bool { c := op[0]; return c >= 'a' && c <= 'z' }

// level of an expression when it stands as an operand: 100 = simple, 90 = postfix chain,
// 80 = unary, 1..6 binary/test, 0 = conditional
func exprLevel(e GExpr) int {
	switch x := e.(type) {
	case ELit:
		if i, ok := x.V.(int); ok && i < 0 {
			return 80
		}
		return 100
	case EVar, ECall, EArr, EHash, EAttr, EMCall:
		return 100
	case EItem, EFilter:
		return 90
	case EUn:
		return 80
	case EBin:
		return binPrec[x.Op]
	case ETest:
		return 3
	case ECond:
		return 0
	}
	return 100
}

func quoteStr(s string, st Style) string {
	q := byte('\'')
	if st.Rng != nil && st.Rng.Intn(2) == 0 {
		q = '"'
	}
	if strings.IndexByte(s, q) >= 0 {
		other := byte('"')
		if q == '"' {
			other = '\''
		}
		if strings.IndexByte(s, other) < 0 {
			q = other
		}
	}
	var sb strings.Builder
	sb.WriteByte(q)
	for i := 0; i < len(s); i++ {
		c := s[i]
		switch {
		case c == q:
			sb.WriteByte('\\')
			sb.WriteByte(c)
		case c == '\n':
			sb.WriteString("\\n")
		case c == '\t':
			sb.WriteString("\\t")
		default:
			sb.WriteByte(c)
		}
	}
	sb.WriteByte(q)
	return sb.String()
}

func (st Style) wrap(s string) string { return "(" + st.sp() + s + st.sp() + ")" }

func (st Style) maybeExtra(s string) string {
	if st.Rng != nil && st.Extra > 0 && st.Rng.Float64() < st.Extra {
		return st.wrap(s)
	}
	return s
}

// operand prints e for a position that accepts expressions of level ≥ min without parentheses.
func (st Style) operand(e GExpr, min int) string {
	s := st.expr(e)
	lv := exprLevel(e)
	if lv < min || (st.Full && lv < 90) {
		return st.wrap(s)
	}
	return st.maybeExtra(s)
}

func (st Style) args(as []GExpr) string {
	parts := make([]string, len(as))
	for i, a := range as {
		parts[i] = st.sp() + st.expr(a) + st.sp()
	}
	return strings.Join(parts, ",")
}

// expr prints e as a full expression (the parseExpression level: anything goes).
func (st Style) expr(e GExpr) string {
	switch x := e.(type) {
	case ELit:
		switch v := x.V.(type) {
		case nil:
			return "null"
		case bool:
			return strconv.FormatBool(v)
		case int:
			return strconv.Itoa(v) // a negative literal is spelled as unary minus applied to the digits
		case string:
			return quoteStr(v, st)
		}
		return "null"
	case EVar:
		return x.N
	case EUn:
		// the operand of a unary operator is a *simple* expression: no suffix, no binary operator
		op := x.Op
		inner := st.operand(x.E, 100)
		if _, neg := x.E.(EUn); neg {
			inner = st.expr(x.E) // unary directly under unary needs no parentheses …
			if st.Full {
				inner = st.wrap(inner)
			}
		}
		if op == "not" {
			return "not" + st.wsp() + inner
		}
		if strings.HasPrefix(inner, op) || strings.HasPrefix(inner, "-") && op == "-" {
			return op + " " + inner // … but "--a" must not fuse (it does not in the lexer; keep it readable)
		}
		return op + st.sp() + inner
	case EBin:
		p := binPrec[x.Op]
		l := st.operand(x.L, p)   // equal precedence on the left groups naturally
		r := st.operand(x.R, p+1) // equal precedence on the right needs parentheses
		op := x.Op
		if st.Rng != nil && op == "and" && st.Rng.Intn(3) == 0 {
			// the symbolic spelling of and (there is none for or: `|` always starts a filter)
			return l + st.sp() + "&&" + st.sp() + r
		}
		if isWordOp(op) {
			return l + st.wsp() + strings.ReplaceAll(op, " ", st.wsp()) + st.wsp() + r
		}
		a, b := st.sp(), st.sp()
		// keep `-` from fusing with a following number into… nothing fuses in this lexer, but `- -1` reads better
		if (op == "-" || op == "+") && strings.HasPrefix(r, op) {
			b = " "
		}
		if (op == "<" || op == ">" || op == "=" || op == "!") && strings.HasPrefix(r, "=") {
			b = " "
		}
		return l + a + op + b + r
	case ETest:
		l := st.operand(x.E, 3)
		s := l + st.wsp() + "is" + st.wsp()
		if x.Neg {
			s += "not" + st.wsp()
		}
		s += x.N
		if len(x.Args) > 0 {
			s += "(" + st.args(x.Args) + ")"
		}
		return s
	case ECond:
		return st.operand(x.C, 1) + st.sp() + "?" + st.sp() + st.expr(x.T) + st.sp() + ":" + st.sp() + st.expr(x.F)
	case EAttr:
		return st.expr(x.E) + "." + x.N // base is a variable / attribute / method chain by construction
	case EMCall:
		return st.expr(x.Obj) + "." + x.N + "(" + st.args(x.Args) + ")"
	case EItem:
		return st.operand(x.E, 80) + "[" + st.sp() + st.expr(x.I) + st.sp() + "]"
	case EFilter:
		s := st.operand(x.E, 80) + st.sp() + "|" + st.sp() + x.N
		if len(x.Args) > 0 || (st.Rng != nil && st.Rng.Intn(6) == 0) {
			s += "(" + st.args(x.Args) + ")"
		}
		return s
	case ECall:
		return x.N + "(" + st.args(x.Args) + ")"
	case EArr:
		return "[" + st.args(x.Items) + "]"
	case EHash:
		parts := make([]string, len(x.Keys))
		for i := range x.Keys {
			parts[i] = st.sp() + quoteStr(x.Keys[i], st) + st.sp() + ":" + st.sp() + st.expr(x.Vals[i]) + st.sp()
		}
		return "{" + strings.Join(parts, ",") + "}"
	}
	panic(fmt.Sprintf("unknown expr %T", e))
}

var canon = Style{}
var fullParens = Style{Full: true}

// ---- statements -----------------------------------------------------------------------------------

type GNode interface{}

type NText struct{ S string }
type NComment struct{ S string }
type NPrint struct{ E GExpr }
type NIf struct {
	Conds   []GExpr
	Bodies  [][]GNode
	Else    []GNode
	HasElse bool
}
type NFor struct {
	Key, Val string
	Seq      GExpr
	Body     []GNode
	Else     []GNode
	HasElse  bool
}
type NSet struct {
	Name string
	E    GExpr
}
type NDo struct{ E GExpr }
type NBlock struct {
	Name string
	Body []GNode
}
type NExtends struct{ E GExpr }
type NInclude struct {
	E             GExpr
	WithKeys      []string
	WithVals      []GExpr
	IgnoreMissing bool
	Only          bool
	Sandboxed     bool
}
type NMacro struct {
	Name     string
	Params   []string
	Defaults map[string]GExpr
	Body     []GNode
}
type NImport struct {
	E     GExpr
	Alias string
}
type NFrom struct {
	Tpl   string
	Names [][2]string // name, alias ("" = none)
}
type NApply struct {
	Filter string
	Body   []GNode
}
type NVerbatim struct{ S string }

// Dashes chooses, per delimiter in printing order, whether it carries a whitespace-control dash.
// nil = none. The printer consumes one bool per delimiter ({{ }} {% %}); comments have none.
type TplStyle struct {
	Expr   Style
	Dashes func() bool
	Pad    func() string // whitespace inside tags next to delimiters
}

func (ts *TplStyle) dash() bool {
	if ts.Dashes == nil {
		return false
	}
	return ts.Dashes()
}
func (ts *TplStyle) pad() string {
	if ts.Pad == nil {
		return " "
	}
	return ts.Pad()
}

func (ts *TplStyle) tag(content string) string {
	o, c := "{%", "%}"
	if ts.dash() {
		o = "{%-"
	}
	if ts.dash() {
		c = "-%}"
	}
	return o + ts.pad() + content + ts.pad() + c
}

func (ts *TplStyle) printTag(content string) string {
	o, c := "{{", "}}"
	if ts.dash() {
		o = "{{-"
	}
	if ts.dash() {
		c = "-}}"
	}
	p1, p2 := ts.pad(), ts.pad()
	// `{{-` followed directly by a minus sign or `-}}` preceded by one would change the delimiter
	if strings.HasPrefix(content, "-") && p1 == "" {
		p1 = " "
	}
	if strings.HasSuffix(content, "-") && p2 == "" {
		p2 = " "
	}
	return o + p1 + content + p2 + c
}

func (ts *TplStyle) nodes(ns []GNode) string {
	var sb strings.Builder
	for _, n := range ns {
		sb.WriteString(ts.node(n))
	}
	return sb.String()
}

func (ts *TplStyle) node(n GNode) string {
	ex := ts.Expr
	switch x := n.(type) {
	case NText:
		return x.S
	case NComment:
		return "{#" + x.S + "#}"
	case NVerbatim:
		return ts.tag("verbatim") + x.S + ts.tag("endverbatim")
	case NPrint:
		return ts.printTag(ex.expr(x.E))
	case NIf:
		var sb strings.Builder
		for i, c := range x.Conds {
			kw := "if"
			if i > 0 {
				kw = "elseif"
			}
			sb.WriteString(ts.tag(kw + " " + ex.expr(c)))
			sb.WriteString(ts.nodes(x.Bodies[i]))
		}
		if x.HasElse {
			sb.WriteString(ts.tag("else"))
			sb.WriteString(ts.nodes(x.Else))
		}
		sb.WriteString(ts.tag("endif"))
		return sb.String()
	case NFor:
		vars := x.Val
		if x.Key != "" {
			vars = x.Key + ", " + x.Val
		}
		s := ts.tag("for "+vars+" in "+ex.expr(x.Seq)) + ts.nodes(x.Body)
		if x.HasElse {
			// the else tag of a for loop accepts no dash on its closing delimiter in parse_for.go? it does after normalisation
			s += ts.tag("else") + ts.nodes(x.Else)
		}
		return s + ts.tag("endfor")
	case NSet:
		return ts.tag("set " + x.Name + " = " + ex.expr(x.E))
	case NDo:
		return ts.tag("do " + ex.expr(x.E))
	case NBlock:
		return ts.tag("block "+x.Name) + ts.nodes(x.Body) + ts.tag("endblock")
	case NExtends:
		return ts.tag("extends " + ex.expr(x.E))
	case NInclude:
		s := "include " + ex.expr(x.E)
		if x.IgnoreMissing {
			s += " ignore missing"
		}
		if len(x.WithKeys) > 0 {
			parts := make([]string, len(x.WithKeys))
			for i := range x.WithKeys {
				parts[i] = quoteStr(x.WithKeys[i], canon) + ": " + ex.expr(x.WithVals[i])
			}
			s += " with {" + strings.Join(parts, ", ") + "}"
		}
		if x.Only {
			s += " only"
		}
		if x.Sandboxed {
			s += " sandboxed"
		}
		return ts.tag(s)
	case NMacro:
		ps := make([]string, len(x.Params))
		for i, p := range x.Params {
			ps[i] = p
			if d, ok := x.Defaults[p]; ok {
				ps[i] = p + " = " + ex.expr(d)
			}
		}
		return ts.tag("macro "+x.Name+"("+strings.Join(ps, ", ")+")") + ts.nodes(x.Body) + ts.tag("endmacro")
	case NImport:
		return ts.tag("import " + ex.expr(x.E) + " as " + x.Alias)
	case NFrom:
		parts := make([]string, len(x.Names))
		for i, na := range x.Names {
			parts[i] = na[0]
			if na[1] != "" {
				parts[i] += " as " + na[1]
			}
		}
		return ts.tag("from " + quoteStr(x.Tpl, canon) + " import " + strings.Join(parts, ", "))
	case NApply:
		return ts.tag("apply "+x.Filter) + ts.nodes(x.Body) + ts.tag("endapply")
	}
	panic(fmt.Sprintf("unknown node %T", n))
}

var plainTpl = &TplStyle{}

// ---- context values --------------------------------------------------------------------------------

// valJSON converts a Go context value (nil, bool, int, string, []interface{}, map[string]interface{})
// into the driver's value encoding.
func valJSON(v any) any {
	switch x := v.(type) {
	case nil:
		return nil
	case bool:
		return x
	case int:
		return x
	case string:
		return map[string]any{"s": hx(x)}
	case []interface{}:
		items := make([]any, len(x))
		for i, y := range x {
			items[i] = valJSON(y)
		}
		return map[string]any{"l": items}
	case map[string]interface{}:
		ks := make([]string, 0, len(x))
		for k := range x {
			ks = append(ks, k)
		}
		sort.Strings(ks)
		kvs := make([]any, len(ks))
		for i, k := range ks {
			kvs[i] = []any{hx(k), valJSON(x[k])}
		}
		return map[string]any{"m": kvs}
	}
	panic(fmt.Sprintf("valJSON: unsupported %T", v))
}

// deepCopy of the value shapes above (the real engine gets its own copy of every context).
func deepCopy(v any) any {
	switch x := v.(type) {
	case []interface{}:
		out := make([]interface{}, len(x))
		for i, y := range x {
			out[i] = deepCopy(y)
		}
		return out
	case map[string]interface{}:
		out := make(map[string]interface{}, len(x))
		for k, y := range x {
			out[k] = deepCopy(y)
		}
		return out
	}
	return v
}
