package main

import (
	"encoding/json"
	"fmt"
	"math/rand"
	"os"
	"path/filepath"
	"regexp"
	"strings"

	"github.com/semihalev/twig"
)

// C04 (g) — the literal text a template emits does not depend on the ROUTE by which its source reached the engine.
//
// The property speaks about "template source", not about RegisterString. A source reaches an engine directly, through
// a loader (memory, files), as a pre-parsed *Template, or in compiled form: Template.Compile / SaveCompiled /
// Engine.CompileTemplate / CompiledLoader.SaveCompiled on a build engine, RegisterCompiledTemplate /
// LoadFromCompiledData / CompiledLoader on the serving engine, compiled once or compiled again from the compiled form.
// Whatever a route stores, re-encodes or re-parses in between, the engine at its end emits the same bytes as an engine
// that parsed the source itself: every literal chunk exactly once, unmodified and in order, comments contributing
// nothing, dashes removing only the whitespace they are adjacent to in the ORIGINAL source.
//
// Expected value: the direct render of the same case, which compareCase has just compared with the Lean pipeline model
// (and the runners of C04 with the concatenation of their chunks). The route engines are implementation-only.
//
// Inputs: the cases the C04 runner generates go through the routes (c04Compare), plus a corpus and a random stream
// of "comment-shaped" sources (commentShapedCorpus, commentShapedRandom): text that only looks like a comment (escaped openers, comment
// syntax inside string literals of tags, lone closers), comments next to trimming delimiters with whitespace behind
// them, comments with dashes, empty and multi-line comments, comments around and inside other tags' neighbourhood —
// the inputs on which "a comment contributes nothing" and "remove the comment" are different statements.

type srcRoute struct {
	name  string
	files bool // goes through the file system: sampled
	build func(c *Case, dev func() (*twig.Engine, error), dir string) (*twig.Engine, error)
}

// c04Engine: an engine with the case's user functions (not recorded here; the direct run has counted the calls)
func c04Engine(c *Case) *twig.Engine {
	e := twig.New()
	for _, f := range c.SpyFilters {
		e.AddFilter(f, func(v interface{}, args ...interface{}) (interface{}, error) { return v, nil })
	}
	for _, f := range c.SpyFunctions {
		name := f
		e.AddFunction(name, func(args ...interface{}) (interface{}, error) { return name, nil })
	}
	for _, f := range c.SpyTests {
		e.AddTest(f, func(v interface{}, args ...interface{}) (bool, error) { return true, nil })
	}
	return e
}

// c04Dev: the build engine, every template registered from its source
func c04Dev(c *Case) (*twig.Engine, error) {
	dev := c04Engine(c)
	for _, n := range sortedKeys(c.Templates) {
		if err := dev.RegisterString(n, c.Templates[n]); err != nil {
			return nil, fmt.Errorf("parsing error: %w", err)
		}
	}
	return dev, nil
}

// c04ViaCompiled: every template of dev handed to a new engine through `ship`
func c04ViaCompiled(c *Case, dev *twig.Engine, ship func(name string, t *twig.Template, prod *twig.Engine) error) (*twig.Engine, error) {
	prod := c04Engine(c)
	for _, n := range sortedKeys(c.Templates) {
		t, err := dev.Load(n)
		if err != nil {
			return nil, err
		}
		if err := ship(n, t, prod); err != nil {
			return nil, fmt.Errorf("route failed for template %q: %w", n, err)
		}
	}
	return prod, nil
}

func shipCompile(n string, t *twig.Template, prod *twig.Engine) error {
	ct, err := t.Compile()
	if err != nil {
		return err
	}
	return prod.RegisterCompiledTemplate(ct)
}

func shipBytes(n string, t *twig.Template, prod *twig.Engine) error {
	data, err := t.SaveCompiled()
	if err != nil {
		return err
	}
	return prod.LoadFromCompiledData(data)
}

var srcRoutes = []srcRoute{
	{name: "Template.Compile -> RegisterCompiledTemplate", build: func(c *Case, getDev func() (*twig.Engine, error), dir string) (*twig.Engine, error) {
		dev, err := getDev()
		if err != nil {
			return nil, err
		}
		return c04ViaCompiled(c, dev, shipCompile)
	}},
	{name: "Template.SaveCompiled -> LoadFromCompiledData", build: func(c *Case, getDev func() (*twig.Engine, error), dir string) (*twig.Engine, error) {
		dev, err := getDev()
		if err != nil {
			return nil, err
		}
		return c04ViaCompiled(c, dev, shipBytes)
	}},
	{name: "Engine.CompileTemplate -> SerializeCompiledTemplate -> DeserializeCompiledTemplate -> RegisterCompiledTemplate", build: func(c *Case, getDev func() (*twig.Engine, error), dir string) (*twig.Engine, error) {
		dev, err := getDev()
		if err != nil {
			return nil, err
		}
		return c04ViaCompiled(c, dev, func(n string, _ *twig.Template, prod *twig.Engine) error {
			ct, err := dev.CompileTemplate(n)
			if err != nil {
				return err
			}
			data, err := twig.SerializeCompiledTemplate(ct)
			if err != nil {
				return err
			}
			back, err := twig.DeserializeCompiledTemplate(data)
			if err != nil {
				return err
			}
			return prod.RegisterCompiledTemplate(back)
		})
	}},
	{name: "compiled, loaded, compiled again, loaded", build: func(c *Case, getDev func() (*twig.Engine, error), dir string) (*twig.Engine, error) {
		dev, err := getDev()
		if err != nil {
			return nil, err
		}
		mid, err := c04ViaCompiled(c, dev, shipBytes)
		if err != nil {
			return nil, err
		}
		return c04ViaCompiled(c, mid, shipCompile)
	}},
	{name: "compiled form registered over the same name on the engine that compiled it", build: func(c *Case, _ func() (*twig.Engine, error), dir string) (*twig.Engine, error) {
		dev, err := c04Dev(c) // an engine of its own: this route changes it
		if err != nil {
			return nil, err
		}
		for _, n := range sortedKeys(c.Templates) {
			ct, err := dev.CompileTemplate(n)
			if err != nil {
				return nil, err
			}
			if err := dev.RegisterCompiledTemplate(ct); err != nil {
				return nil, err
			}
		}
		return dev, nil
	}},
	{name: "hand-built CompiledTemplate{Name, Source} -> RegisterCompiledTemplate", build: func(c *Case, getDev func() (*twig.Engine, error), dir string) (*twig.Engine, error) {
		prod := c04Engine(c)
		for _, n := range sortedKeys(c.Templates) {
			if err := prod.RegisterCompiledTemplate(&twig.CompiledTemplate{Name: n, Source: c.Templates[n]}); err != nil {
				return nil, fmt.Errorf("parsing error: %w", err)
			}
		}
		return prod, nil
	}},
	{name: "ParseTemplate -> RegisterTemplate", build: func(c *Case, getDev func() (*twig.Engine, error), dir string) (*twig.Engine, error) {
		prod := c04Engine(c)
		for _, n := range sortedKeys(c.Templates) {
			t, err := prod.ParseTemplate(c.Templates[n])
			if err != nil {
				return nil, fmt.Errorf("parsing error: %w", err)
			}
			prod.RegisterTemplate(n, t)
		}
		return prod, nil
	}},
	{name: "ArrayLoader", build: func(c *Case, getDev func() (*twig.Engine, error), dir string) (*twig.Engine, error) {
		prod := c04Engine(c)
		m := map[string]string{}
		for n, s := range c.Templates {
			m[n] = s
		}
		prod.RegisterLoader(twig.NewArrayLoader(m))
		return prod, nil
	}},
	{name: "CompiledLoader.SaveCompiled -> engine over CompiledLoader", files: true, build: func(c *Case, getDev func() (*twig.Engine, error), dir string) (*twig.Engine, error) {
		dev, err := getDev()
		if err != nil {
			return nil, err
		}
		out := twig.NewCompiledLoader(dir)
		for _, n := range sortedKeys(c.Templates) {
			if err := out.SaveCompiled(dev, n); err != nil {
				return nil, err
			}
		}
		prod := c04Engine(c)
		prod.RegisterLoader(twig.NewCompiledLoader(dir))
		return prod, nil
	}},
	{name: "CompiledLoader.CompileAll -> CompiledLoader.LoadAll", files: true, build: func(c *Case, getDev func() (*twig.Engine, error), dir string) (*twig.Engine, error) {
		dev, err := getDev()
		if err != nil {
			return nil, err
		}
		if err := twig.NewCompiledLoader(dir).CompileAll(dev); err != nil {
			return nil, err
		}
		prod := c04Engine(c)
		if err := twig.NewCompiledLoader(dir).LoadAll(prod); err != nil {
			return nil, err
		}
		return prod, nil
	}},
	{name: "source files -> FileSystemLoader", files: true, build: func(c *Case, getDev func() (*twig.Engine, error), dir string) (*twig.Engine, error) {
		for n, s := range c.Templates {
			if err := os.WriteFile(filepath.Join(dir, n+".twig"), []byte(s), 0o644); err != nil {
				return nil, err
			}
		}
		prod := c04Engine(c)
		prod.RegisterLoader(twig.NewFileSystemLoader([]string{dir}))
		return prod, nil
	}},
}

var plainName = regexp.MustCompile(`^[A-Za-z0-9_]+$`)

var c04RouteTick int

// sourceRouteOracle renders the case on an engine at the end of every route and compares with the direct render im.
// allRoutes: also the routes through files (otherwise every eighth case).
func sourceRouteOracle(e *Env, c *Case, im Outcome, allRoutes bool) {
	r := e.Rep
	if im.Class == "panic" || im.Class == "timeout" || im.Class == "parse" || c.Policy != nil || c.Config != "" || c.Globals != nil || c.FailAt >= 0 {
		return // a source that does not parse has no compiled form; the other settings are not the subject here
	}
	if _, ok := c.Templates[c.Main]; !ok {
		return
	}
	c04RouteTick++
	files := allRoutes || c04RouteTick%8 == 0
	// the build engine of the case, shared by the routes that only read it
	var dev *twig.Engine
	var devErr error
	getDev := func() (*twig.Engine, error) {
		if dev == nil && devErr == nil {
			dev, devErr = c04Dev(c)
		}
		return dev, devErr
	}
	for n := range c.Templates {
		if !plainName.MatchString(n) {
			files = false
		}
	}
	for _, rt := range srcRoutes {
		if rt.files && !files {
			continue
		}
		dir := ""
		if rt.files {
			d, err := os.MkdirTemp("", "c04route")
			if err != nil {
				r.Skip("route: no temp dir")
				continue
			}
			dir = d
		}
		res := guarded(func() (string, error) {
			eng, err := rt.build(c, getDev, dir)
			if err != nil {
				return "", err
			}
			ctx, _ := deepCopy(map[string]interface{}(c.Ctx)).(map[string]interface{})
			first, err := eng.Render(c.Main, ctx)
			if err != nil {
				return first, err
			}
			// and once more: what the route left in the engine is the template, not a one-time result
			ctx, _ = deepCopy(map[string]interface{}(c.Ctx)).(map[string]interface{})
			second, err := eng.Render(c.Main, ctx)
			if err == nil && second != first {
				return second, nil
			}
			return first, err
		})
		if dir != "" {
			os.RemoveAll(dir)
		}
		r.Hit("source-route:" + rt.name)
		got := Outcome{Out: res.Out, Class: mapClass(res.Class), Panic: res.Panic}
		if res.Err != nil {
			got.Msg = res.Err.Error()
		}
		if got.Class == im.Class && (got.Out == im.Out || im.Class != "") {
			continue
		}
		rp := c.replay(im, got)
		rp["kind"] = "source-route"  // replayed by c04Replay
		rp["by_route"] = rp["model"] // the second outcome is the route engine's, not the model's
		delete(rp, "model")
		rp["route"] = rt.name
		rp["spy_functions"] = c.SpyFunctions
		rp["direct_hex"] = hx(im.Out)
		rp["route_hex"] = hx(got.Out)
		what := fmt.Sprintf("the source %q renders %q (%s) on an engine that parsed it, but %q (%s %s) when it reaches an engine by the route %s",
			truncate(c.Templates[c.Main], 120), truncate(im.Out, 120), im.Class, truncate(got.Out, 120), got.Class, truncate(got.Msg, 120), rt.name)
		if r.Violate(Violation{Key: "route-changes-literal-text", What: what,
			Broken: "theorem C04_chunks / C04_comment_inert: the output is a function of the template SOURCE — every literal chunk exactly once and in order, comments contributing nothing — by whatever route the source reached the engine (implementation-only oracle; expected value = direct render, itself compared with the Lean model)",
			Replay: rp}) {
			return
		}
	}
}

var compareTick int

// c04Compare = compareCase + the route oracle on the same case (quick tier: on every second case).
func c04Compare(e *Env, c *Case, key, broken string) (im Outcome, mo Outcome, ok bool, err error) {
	im, mo, ok, err = compareCase(e, c, key, broken)
	compareTick++
	if err == nil && (compareTick%2 == 0 || e.Thorough()) {
		sourceRouteOracle(e, c, im, false)
	}
	if err == nil {
		// (i) the same case as part of a template on either side of the size at which the parser changes scanners (c04_sizes.go)
		c04SizeOracle(e, c, im, e.N(2, 1))
		// (j) the same case rendered right after unrelated templates that reuse its block, macro and variable names (c04_positions.go)
		if compareTick%e.N(8, 2) == 0 {
			c04HistoryOracle(e, c, im, "the direct render of the same templates, compared with the Lean model", false)
		}
	}
	return
}

// --- comment-shaped sources -------------------------------------------------------------------------------------

// pieces a comment-shaped source is made of. Every piece is self-contained; v = "V", s is set by the pieces that use it.
var commentPieces = []string{
	// real comments
	"{# note #}", "{#note#}", "{##}", "{#\n two\n lines\n#}", "{# {{ v }} {% if %} #}", "{# # } { # #}", "{#- dashed -#}", "{# a #}{# b #}", "{# 'quote #}", "{# \\ #}",
	// text that only looks like one
	"\\{# not a comment #}", "\\{#", "#}", "# }", "{ # x # }", "\\{#- x -#}",
	// comment syntax inside the string literals of tags
	"{{ '{# in a string #}' }}", "{{ \"{#\" }}", "{{ '#}' }}", "{% set s = '{# s #}' %}", "{{ v ~ '{#' }}", "{% if v == '{# c #}' %}y{% else %}n{% endif %}",
	// tags with and without trimming delimiters
	"{{ v }}", "{{ v -}}", "{{- v }}", "{{- v -}}", "{% set s = v -%}", "{%- set s = v %}", "{% if v -%} y {%- endif %}", "{% if v %} y {% endif -%}",
	// escaped tags, plain text
	"\\{{ v }}", "\\{% if v %}", "t", "é\x80", "{", "}",
}

// the pieces of the quick tier's corpus (the thorough tier takes all of them)
var commentPiecesCore = []string{
	"{# note #}", "{##}", "{#\n two\n lines\n#}", "{# {{ v }} {% if %} #}", "{#- dashed -#}",
	"\\{# not a comment #}", "\\{#", "#}", "\\{#- x -#}",
	"{{ '{# in a string #}' }}", "{% set s = '{# s #}' %}", "{{ '#}' }}",
	"{{ v }}", "{{ v -}}", "{{- v }}", "{% set s = v -%}", "{%- set s = v %}", "{% if v -%} y {%- endif %}", "\\{{ v }}", "t",
}

var commentGaps = []string{"", " ", "\n  ", "\t\r\n", " ", "x"}

func commentShapedCase(src string) *Case {
	return &Case{Templates: map[string]string{"main": src}, Main: "main", Ctx: map[string]any{"v": "V"}, FailAt: -1}
}

// isCommentish: pieces that are, contain or imitate a comment
func isCommentish(p string) bool { return strings.Contains(p, "#") }

func runCommentShaped(e *Env, src string, all bool) error {
	c := commentShapedCase(src)
	im, _, _, err := compareCase(e, c, "render-model-c04", "correspondence render (Lean pipeline vs real engine) on comment-shaped sources")
	if err != nil {
		return err
	}
	sourceRouteOracle(e, c, im, all)
	c04SizeOracle(e, c, im, 1)
	e.Rep.Seen("cs:"+src, true)
	e.Rep.Hit("comment-shaped-source")
	return nil
}

// commentShapedCorpus, the same on every seed: every ordered pair of pieces in which at least one is comment-ish,
// directly adjacent and with trimmable whitespace behind them; and the same pair with the whitespace between them.
func commentShapedCorpus(e *Env) error {
	k := 0
	pieces := commentPiecesCore
	if e.Thorough() {
		pieces = commentPieces
	}
	for _, p := range pieces {
		for _, q := range pieces {
			if !isCommentish(p) && !isCommentish(q) {
				continue
			}
			for _, src := range []string{"a  " + p + q + "\n  z", "a  " + p + "\n  " + q + "  z"} {
				if e.Rep.Full() {
					return nil
				}
				k++
				if err := runCommentShaped(e, src, k%20 == 0); err != nil {
					return err
				}
			}
		}
	}
	return nil
}

// commentShapedRandom: 2–6 pieces with random gaps; sometimes behind more than 4096 bytes (the large-template scanner)
func commentShapedRandom(e *Env) error {
	for i := 0; i < e.N(250, 30000) && !e.Rep.Full(); i++ {
		if err := runCommentShaped(e, genCommentShaped(e.Rng), false); err != nil {
			return err
		}
	}
	return nil
}

func genCommentShaped(rg *rand.Rand) string {
	var sb strings.Builder
	if rg.Intn(8) == 0 {
		sb.WriteString(strings.Repeat("<li>filler {# c #}</li>\n", 200))
	}
	sb.WriteString(pick(rg, commentGaps))
	for k := 2 + rg.Intn(5); k > 0; k-- {
		if rg.Intn(2) == 0 {
			// a comment with a random body (no closer inside)
			body := strings.ReplaceAll(genRaw(rg, 8), "#}", "# }")
			sb.WriteString(pick(rg, []string{"{#", "{#-", "\\{#"}) + body + pick(rg, []string{"#}", "-#}", "#}"}))
		} else {
			sb.WriteString(pick(rg, commentPieces))
		}
		sb.WriteString(pick(rg, commentGaps))
	}
	return sb.String()
}

// c04Replay re-runs a recorded violation of kind "source-route" (the case by every route) or "concurrent-parse" (the
// concurrent schedule again; which goroutine is hit differs from run to run). false = another kind: the whole runner.
func c04Replay(e *Env) bool {
	raw, err := os.ReadFile(e.Replay)
	if err != nil {
		return false
	}
	var obj struct {
		Case map[string]any `json:"case"`
	}
	if json.Unmarshal(raw, &obj) != nil || obj.Case == nil {
		return false
	}
	switch obj.Case["kind"] {
	case "concurrent-parse":
		concurrentParseCases(e)
		return true
	case "source-route":
		c := &Case{Templates: map[string]string{}, Main: "main", Ctx: map[string]any{}, FailAt: -1}
		tp, _ := obj.Case["templates"].(map[string]any)
		for k, v := range tp {
			c.Templates[k], _ = v.(string)
		}
		if m, _ := obj.Case["main"].(string); m != "" {
			c.Main = m
		}
		if cx, ok := obj.Case["ctx"].(map[string]any); ok {
			c.Ctx, _ = jsonInts(cx).(map[string]any)
		}
		if fs, ok := obj.Case["spy_functions"].([]any); ok {
			for _, f := range fs {
				if s, ok := f.(string); ok {
					c.SpyFunctions = append(c.SpyFunctions, s)
				}
			}
		}
		if len(c.Templates) == 0 {
			return false
		}
		im := runImpl(c)
		fmt.Printf("input: %s\nparsed directly: class=%q output=%q\n", truncate(fmt.Sprint(c.Templates), 600), im.Class, truncate(im.Out, 400))
		sourceRouteOracle(e, c, im, true)
		for _, v := range e.Rep.Violations {
			fmt.Println(v.What)
		}
		return true
	}
	return false
}
