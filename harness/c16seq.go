package main

import (
	"fmt"

	"github.com/semihalev/twig"
)

// c16Sequences: histories over the compile/serialise API (added after seeded change C16-A was missed):
// the bytes returned for one template must stay what they are while other templates are serialised,
// deserialised and loaded afterwards (no aliasing of a pooled buffer), in any interleaving.
func c16Sequences(e *Env) {
	r := e.Rep
	rg := e.Rng
	n := e.N(60, 3000)
	for i := 0; i < n && !r.Full(); i++ {
		k := 2 + rg.Intn(5)
		type item struct {
			name, src string
			data      []byte
			keep      string
		}
		items := make([]item, k)
		res := guarded(func() (string, error) {
			eng := twig.New()
			for j := range items {
				items[j].name = fmt.Sprintf("t%d_%d", i, j)
				items[j].src = fmt.Sprintf("%s{{ v }}#%d%s", genLit(rg, 20+rg.Intn(200)), j, genLit(rg, rg.Intn(2000)))
				if err := eng.RegisterString(items[j].name, items[j].src); err != nil {
					return "", err
				}
			}
			// serialise all, only afterwards look at the bytes
			for j := range items {
				ct, err := eng.CompileTemplate(items[j].name)
				if err != nil {
					return "", err
				}
				b, err := twig.SerializeCompiledTemplate(ct)
				if err != nil {
					return "", err
				}
				items[j].data = b // deliberately NOT copied: the API returns bytes the caller owns
				if rg.Intn(3) == 0 {
					if t, err := eng.Load(items[j].name); err == nil {
						t.SaveCompiled()
					}
				}
			}
			for j := range items {
				ct, err := twig.DeserializeCompiledTemplate(items[j].data)
				if err != nil {
					return "", fmt.Errorf("item %d: %w", j, err)
				}
				if ct.Name != items[j].name || ct.Source != items[j].src {
					return "", fmt.Errorf("SERIALISED-BYTES-CHANGED: the bytes returned for %s now decode to name %q, source %q…", items[j].name, ct.Name, truncate(ct.Source, 40))
				}
				fresh := twig.New()
				if err := fresh.LoadFromCompiledData(items[j].data); err != nil {
					return "", err
				}
				out, err := fresh.Render(items[j].name, map[string]interface{}{"v": "V"})
				want, _ := eng.Render(items[j].name, map[string]interface{}{"v": "V"})
				if err != nil || out != want {
					return "", fmt.Errorf("SERIALISED-BYTES-CHANGED: %s loaded from its bytes renders %q, source renders %q (%v)", items[j].name, truncate(out, 60), truncate(want, 60), err)
				}
			}
			return "ok", nil
		})
		r.Seen(fmt.Sprintf("seq:%d:%d", i, k), true)
		if res.Class != "" {
			r.Violate(Violation{Key: "serialised-bytes-not-stable", What: fmt.Sprintf("serialising %d templates one after another and then using the results: %v %s", k, res.Err, truncate(res.Panic, 200)),
				Broken: "theorem C16_roundtrip / C16_load_equiv no longer describes the code (implementation-only oracle: serialise-all-then-use history)",
				Replay: map[string]any{"kind": "serialise-sequence", "templates": k, "err": fmt.Sprint(res.Err), "panic": res.Panic}})
		}
	}
}
