package main

import (
	"fmt"
	"strings"
)

// C08 (k) — an expression has the value it has WHERE IT IS WRITTEN, also when the result is used later.
//
// "The value of an expression is the same in every place it can be written … function and macro arguments, array and
// hash elements": the positions sweep (c) prints every result on the spot, where "the value now" and "the value when
// finally printed" cannot differ. Here the result is KEPT — in a set variable, a list or hash element, the arm of a
// conditional, the result of a macro call (which this engine hands around as a deferred writer), a list built up by
// merge in a loop — then every variable the expression can read is reassigned (set to another value, incremented,
// shadowed by a loop variable, the loop variable advancing), and only then is the kept result printed (directly,
// twice, from inside a loop, through an include, as the argument of another macro). What is printed must be the value
// the expression had at the spot it was written: the same text the print tag gives there.
//
//	(k1) deterministic: 22 expressions × every carrier (how the result is kept: 16 ways, macros defined in the
//	     template, imported by name, by alias, through a module alias, through _self, nested, as 2nd argument) ×
//	     every way of reassigning × every way of finally using it; expected text computed here;
//	(k2) deterministic: results collected in loops (merge into a list / a hash, previous-iteration variable) over
//	     several sequences and argument expressions of the loop variable, expected text computed here;
//	(k3) evaluation count: an argument is evaluated once, where the call is written — whether the kept call is printed
//	     never, once or twice (spy functions, as in (d));
//	(k4) random expression trees of the shared generator, kept in a random carrier, every context variable reassigned,
//	     against the value the print tag gave for the same tree and context.
//
// Every case also goes through the Lean model (compareCase). k1–k3 are the same for every seed.

const c08KeptMacros = "{% macro kp_id(q) %}{{ q }}{% endmacro %}{% macro kp_br(q) %}[{{ q }}]{% endmacro %}{% macro kp_pair(p, q) %}{{ p }}-{{ q }}{% endmacro %}"

// c08Carrier: how the value of S is kept in the variable r, and what printing USE then shows for a value printed as v.
type c08Carrier struct {
	name string
	pre  string // tags before the keeping statement (imports)
	keep string // S = the expression
	use  string // the expression that reads the kept value back
	wrap func(v string) string
}

func c08Carriers() []c08Carrier {
	id := func(v string) string { return v }
	br := func(v string) string { return "[" + v + "]" }
	return []c08Carrier{
		{"set", "", "{% set r = S %}", "r", id},
		{"macro-call", "", "{% set r = kp_br(S) %}", "r", br},
		{"macro-call-in-list", "", "{% set r = [0, kp_br(S)] %}", "r[1]", br},
		{"macro-call-in-hash", "", "{% set r = {'k': kp_br(S)} %}", "r.k", br},
		{"macro-call-in-nested-hash", "", "{% set r = {'k': [kp_br(S)]} %}", "r.k[0]", br},
		{"macro-call-in-conditional-arm", "", "{% set r = t ? kp_br(S) : 0 %}", "r", br},
		{"macro-call-in-else-arm", "", "{% set r = f ? 0 : kp_br(S) %}", "r", br},
		{"macro-call-parenthesised", "", "{% set r = (kp_br(S)) %}", "r", br},
		{"macro-call-merged", "", "{% set r = []|merge([kp_br(S)]) %}", "r[0]", br},
		{"macro-call-nested", "", "{% set r = kp_br(kp_id(S)) %}", "r", br},
		{"macro-call-second-argument", "", "{% set r = kp_pair(0, S) %}", "r", func(v string) string { return "0-" + v }},
		{"macro-call-both-arguments", "", "{% set r = kp_pair(S, S) %}", "r", func(v string) string { return v + "-" + v }},
		{"macro-imported-by-name", "{% from 'lib' import kp_br %}", "{% set r = kp_br(S) %}", "r", br},
		{"macro-imported-renamed", "{% from 'lib' import kp_br as kp_b2 %}", "{% set r = kp_b2(S) %}", "r", br},
		{"macro-of-module-alias", "{% import 'lib' as kp_lib %}", "{% set r = kp_lib.kp_br(S) %}", "r", br},
		{"macro-of-self", "", "{% set r = _self.kp_br(S) %}", "r", br},
		{"list-element", "", "{% set r = [S] %}", "r[0]", id},
		{"hash-value", "", "{% set r = {'k': S} %}", "r.k", id},
	}
}

// c08Rebind: tags between keeping and using that change what the variables of the expression hold.
type c08Rebind struct {
	name string
	tags func(vars []string) string
}

func c08Rebinds() []c08Rebind {
	each := func(f func(v string) string) func(vars []string) string {
		return func(vars []string) string {
			var sb strings.Builder
			for _, v := range vars {
				sb.WriteString(f(v))
			}
			return sb.String()
		}
	}
	return []c08Rebind{
		{"set-other-value", each(func(v string) string { return "{% set " + v + " = 'REBOUND' %}" })},
		{"set-number", each(func(v string) string { return "{% set " + v + " = 100 %}" })},
		{"set-twice", each(func(v string) string { return "{% set " + v + " = 0 %}{% set " + v + " = [] %}" })},
		{"set-in-if", each(func(v string) string { return "{% if true %}{% set " + v + " = 'REBOUND' %}{% endif %}" })},
	}
}

// c08Use: how the kept value is finally printed; U = the expression reading it back, W = the expected text of one print.
type c08Use struct {
	name string
	tpl  string
	want string
}

func c08Uses() []c08Use {
	return []c08Use{
		{"print", "{{ U }}", "W"},
		{"print-twice", "{{ U }}|{{ U }}", "W|W"},
		{"print-in-if", "{% if true %}{{ U }}{% endif %}", "W"},
		{"print-in-loop", "{% for kp_i in [1, 2] %}{{ U }};{% endfor %}", "W;W;"},
		{"include-variable", "{% include 'show' with {'v': U} %}", "W"},
		{"include-variable-only", "{% include 'show' with {'v': U} only %}", "W"},
		{"argument-of-another-macro", "{{ kp_id(U) }}", "W"},
		{"set-again", "{% set kp_again = U %}{{ kp_again }}", "W"},
		{"loop-sequence", "{% for kp_c in [U] %}{{ kp_c }}{% endfor %}", "W"},
		{"conditional-arm", "{{ true ? U : 0 }}", "W"},
	}
}

type c08KeptExpr struct {
	src  string
	want string // what {{ src }} prints under c08KeptCtx
}

func c08KeptCtx() map[string]any {
	return map[string]any{"a": 7, "b": 2, "c": 3, "s": "ab", "t": true, "f": false, "xs": []interface{}{5, 3, 1}, "m": map[string]interface{}{"k": 9}, "nul": nil}
}

var c08KeptVars = []string{"a", "b", "c", "s", "xs", "m", "nul"}

func c08KeptExprs() []c08KeptExpr {
	return []c08KeptExpr{
		{"a + 1", "8"}, {"a * b - c", "11"}, {"(a + b) * c", "27"}, {"a", "7"}, {"-a", "-7"}, {"a > 3 ? 'big' : 'small'", "big"}, {"a < 3 ? 'small' : b", "2"},
		{"s ~ a", "ab7"}, {"s ~ '-' ~ s", "ab-ab"}, {"xs[b]", "1"}, {"xs[0] + xs[1]", "8"}, {"m.k", "9"}, {"m['k'] + a", "16"}, {"not (a == 7)", "false"}, {"a and b", "true"},
		{"xs|length + a", "10"}, {"[a, b]|join('-')", "7-2"}, {"a == 7", "true"}, {"b in [a, b]", "true"}, {"s|upper", "AB"}, {"range(1, a)|length", "7"}, {"nul|default(c)", "3"},
	}
}

func c08KeptCase(tpl string, ctx map[string]any) *Case {
	return &Case{Templates: map[string]string{"main": tpl, "show": "{{ v }}", "lib": c08KeptMacros}, Main: "main", Ctx: ctx, FailAt: -1}
}

// c08KeptCheck runs one kept-value template through the model and against the expected text.
func c08KeptCheck(e *Env, c *Case, want, what string, extra map[string]any) (full bool, err error) {
	r := e.Rep
	im, _, _, err := compareCase(e, c, "render-model-c08", "correspondence (Lean lexer+parser+evaluator vs real engine) on results kept and used after their operands were reassigned")
	if err != nil {
		return false, err
	}
	if im.Class != "" || im.Out != want {
		return r.Violate(Violation{Key: "kept-value-changes", What: fmt.Sprintf("%s: %s renders %q (%s %s), expected %q", what, truncate(c.Templates["main"], 300), truncate(im.Out, 120), im.Class, truncate(im.Msg, 80), truncate(want, 120)),
			Broken: "theorem C08_position / evalX: an expression is evaluated where it is written, with the variables as they are there (implementation-only oracle: the value the same expression prints at that spot)",
			Replay: c08Replay(c, im, want, extra)}), nil
	}
	return false, nil
}

func c08KeptValues(e *Env) error {
	r := e.Rep
	rg := e.Rng
	carriers, rebinds, uses, exprs := c08Carriers(), c08Rebinds(), c08Uses(), c08KeptExprs()
	// (k1)
	tick := 0
	for xi, x := range exprs {
		for ci, car := range carriers {
			for bi, rb := range rebinds {
				for ui, u := range uses {
					if r.Full() {
						return nil
					}
					tick++
					// every carrier with every expression; the rebinding and the final use rotate (thorough: all of them)
					if !e.Thorough() && (bi != (xi+ci)%len(rebinds) || ui != (xi+2*ci)%len(uses)) {
						continue
					}
					w := car.wrap(x.want)
					tpl := c08KeptMacros + car.pre + strings.ReplaceAll(car.keep, "S", x.src) + "{{ " + x.src + " }}|" + rb.tags(c08KeptVars) +
						strings.ReplaceAll(u.tpl, "U", car.use)
					want := x.want + "|" + strings.ReplaceAll(u.want, "W", w)
					c := c08KeptCase(tpl, c08KeptCtx())
					r.Seen("kept:"+x.src+":"+car.name+":"+rb.name+":"+u.name, true)
					r.Hit("kept-carrier:" + car.name)
					full, err := c08KeptCheck(e, c, want, fmt.Sprintf("%s kept as %s, operands reassigned (%s), then used as %s", x.src, car.name, rb.name, u.name),
						map[string]any{"expr": x.src, "carrier": car.name, "rebind": rb.name, "use": u.name})
					if err != nil {
						return err
					}
					if full {
						return nil
					}
				}
			}
		}
	}
	// the operand is shadowed by a loop variable / by a macro parameter of the same name at the place of the final print
	for _, x := range exprs[:8] {
		for _, car := range carriers[:6] {
			w := car.wrap(x.want)
			for _, sh := range []struct{ name, open, close string }{
				{"loop-variable-of-the-same-name", "{% for a in [100] %}{% for s in ['zz'] %}{% for b in [50] %}", "{% endfor %}{% endfor %}{% endfor %}"},
				{"incremented", "{% set a = a + 100 %}{% set b = b + a %}{% set s = s ~ s %}{% set c = c * 2 %}", ""},
			} {
				if r.Full() {
					return nil
				}
				tpl := c08KeptMacros + car.pre + strings.ReplaceAll(car.keep, "S", x.src) + sh.open + "{{ " + car.use + " }}" + sh.close
				c := c08KeptCase(tpl, c08KeptCtx())
				r.Seen("kept-shadow:"+x.src+":"+car.name+":"+sh.name, true)
				r.Hit("kept-shadowed")
				full, err := c08KeptCheck(e, c, w, fmt.Sprintf("%s kept as %s, operands then %s", x.src, car.name, sh.name), map[string]any{"expr": x.src, "carrier": car.name, "rebind": sh.name})
				if err != nil {
					return err
				}
				if full {
					return nil
				}
			}
		}
	}
	// (k2) collected in a loop: the loop variable advances between keeping and printing
	type seq struct {
		src  string
		vals []int
	}
	seqs := []seq{{"[1, 2, 3]", []int{1, 2, 3}}, {"range(1, 4)", []int{1, 2, 3, 4}}, {"xs", []int{5, 3, 1}}, {"[4]", []int{4}}, {"[2, 2, 9, 0]", []int{2, 2, 9, 0}}}
	type larg struct {
		src string
		f   func(i, idx int) string // idx = loop.index (1-based)
	}
	largs := []larg{
		{"i", func(i, idx int) string { return fmt.Sprint(i) }},
		{"i * 2", func(i, idx int) string { return fmt.Sprint(i * 2) }},
		{"i + a", func(i, idx int) string { return fmt.Sprint(i + 7) }},
		{"i ~ s", func(i, idx int) string { return fmt.Sprint(i) + "ab" }},
		{"i > 2 ? i : 0", func(i, idx int) string {
			if i > 2 {
				return fmt.Sprint(i)
			}
			return "0"
		}},
		{"loop.index", func(i, idx int) string { return fmt.Sprint(idx) }},
		{"loop.index ~ ':' ~ i", func(i, idx int) string { return fmt.Sprintf("%d:%d", idx, i) }},
		{"[i, i + 1]|join('/')", func(i, idx int) string { return fmt.Sprintf("%d/%d", i, i+1) }},
	}
	type coll struct {
		name string
		tpl  string // SEQ, ARG
		want func(cells []string) string
	}
	brAll := func(cells []string, sep string) string {
		var sb strings.Builder
		for _, c := range cells {
			sb.WriteString("[" + c + "]" + sep)
		}
		return sb.String()
	}
	colls := []coll{
		{"merge-into-list", "{% set rs = [] %}{% for i in SEQ %}{% set rs = rs|merge([kp_br(ARG)]) %}{% endfor %}{% for c in rs %}{{ c }}{% endfor %}", func(cells []string) string { return brAll(cells, "") }},
		{"merge-into-list-print-reversed", "{% set rs = [] %}{% for i in SEQ %}{% set rs = rs|merge([kp_br(ARG)]) %}{% endfor %}{% for c in rs|reverse %}{{ c }},{% endfor %}", func(cells []string) string {
			rev := make([]string, len(cells))
			for k, c := range cells {
				rev[len(cells)-1-k] = c
			}
			return brAll(rev, ",")
		}},
		{"merge-plain-values", "{% set rs = [] %}{% for i in SEQ %}{% set rs = rs|merge([ARG]) %}{% endfor %}{% for c in rs %}[{{ c }}]{% endfor %}", func(cells []string) string { return brAll(cells, "") }},
		{"merge-into-hash", "{% set rs = {} %}{% for i in SEQ %}{% set rs = rs|merge({('k' ~ loop.index): kp_br(ARG)}) %}{% endfor %}{% for j in range(1, LEN) %}{{ rs['k' ~ j] }}{% endfor %}", func(cells []string) string { return brAll(cells, "") }},
		{"previous-iteration", "{% set prev = '' %}{% for i in SEQ %}{{ prev }}{% set prev = kp_br(ARG) %}{% endfor %}|{{ prev }}", func(cells []string) string {
			return brAll(cells[:len(cells)-1], "") + "|[" + cells[len(cells)-1] + "]"
		}},
		{"first-kept-printed-after-the-loop", "{% for i in SEQ %}{% if loop.first %}{% set kept = kp_br(ARG) %}{% endif %}{% endfor %}{{ kept }}", func(cells []string) string { return "[" + cells[0] + "]" }},
		{"imported-macro-merge", "{% from 'lib' import kp_br as cell %}{% set rs = [] %}{% for i in SEQ %}{% set rs = rs|merge([cell(ARG)]) %}{% endfor %}{% for c in rs %}{{ c }}{% endfor %}", func(cells []string) string { return brAll(cells, "") }},
		{"two-argument-macro-merge", "{% set rs = [] %}{% for i in SEQ %}{% set rs = rs|merge([kp_pair(ARG, i)]) %}{% endfor %}{% for c in rs %}{{ c }};{% endfor %}", nil},
	}
	for si, sq := range seqs {
		for ai, la := range largs {
			for ci, cl := range colls {
				if r.Full() {
					return nil
				}
				if !e.Thorough() && si > 0 && (si+ai+ci)%3 != 0 {
					continue // quick tier: everything on the first sequence, a third on the others
				}
				cells := make([]string, len(sq.vals))
				for k, v := range sq.vals {
					cells[k] = la.f(v, k+1)
				}
				var want string
				if cl.want != nil {
					want = cl.want(cells)
				} else {
					for k, v := range sq.vals {
						want += cells[k] + "-" + fmt.Sprint(v) + ";"
					}
				}
				tpl := c08KeptMacros + strings.NewReplacer("SEQ", sq.src, "ARG", la.src, "LEN", fmt.Sprint(len(sq.vals))).Replace(cl.tpl)
				c := c08KeptCase(tpl, c08KeptCtx())
				r.Seen("kept-loop:"+sq.src+":"+la.src+":"+cl.name, true)
				r.Hit("kept-collected:" + cl.name)
				full, err := c08KeptCheck(e, c, want, fmt.Sprintf("macro calls with the argument %s collected over %s (%s)", la.src, sq.src, cl.name), map[string]any{"expr": la.src, "sequence": sq.src, "carrier": cl.name})
				if err != nil {
					return err
				}
				if full {
					return nil
				}
			}
		}
	}
	// (k3) an argument is evaluated once, at the call
	for _, sc := range []struct {
		tpl   string
		out   string
		calls []string
	}{
		{"{% set r = kp_br(spy()) %}done", "done", []string{"spy"}},
		{"{% set r = kp_br(spy()) %}{{ r }}", "[spy]", []string{"spy"}},
		{"{% set r = kp_br(spy()) %}{{ r }}{{ r }}", "[spy][spy]", []string{"spy"}},
		{"{% set r = [kp_br(spy()), kp_br(spy2())] %}{{ r[1] }}", "[spy2]", []string{"spy", "spy2"}},
		{"{% set r = [kp_br(spy()), kp_br(spy2())] %}{{ r[1] }}{{ r[0] }}{{ r[1] }}", "[spy2][spy][spy2]", []string{"spy", "spy2"}},
		{"{% set r = kp_pair(spy(), spy2()) %}{{ spy() }}|{{ r }}", "spy|spy-spy2", []string{"spy", "spy2", "spy"}},
		{"{% set r = t ? kp_br(spy()) : kp_br(spy2()) %}{{ r }}", "[spy]", []string{"spy"}},
		{"{% set r = f and kp_br(spy()) %}{{ r }}", "false", nil},
		{"{% from 'lib' import kp_br %}{% set r = kp_br(spy()) %}{{ r }}{{ r }}", "[spy][spy]", []string{"spy"}},
		{"{% set rs = [] %}{% for i in [1, 2] %}{% set rs = rs|merge([kp_br(spy())]) %}{% endfor %}{{ rs|length }}", "2", []string{"spy", "spy"}},
	} {
		if r.Full() {
			return nil
		}
		c := c08KeptCase(c08KeptMacros+sc.tpl, c08KeptCtx())
		c.SpyFunctions = []string{"spy", "spy2"}
		im, _, _, err := compareCase(e, c, "render-model-c08", "correspondence on the evaluation of the arguments of kept macro calls")
		if err != nil {
			return err
		}
		var got []string
		for _, ev := range im.Spies {
			got = append(got, ev.Name)
		}
		r.Seen("kept-spy:"+sc.tpl, true)
		r.Hit("kept-evaluation-count")
		if im.Class != "" || im.Out != sc.out || strings.Join(got, ",") != strings.Join(sc.calls, ",") {
			if r.Violate(Violation{Key: "kept-value-changes", What: fmt.Sprintf("%s: callbacks invoked %v (want %v), output %q (want %q) %s", sc.tpl, got, sc.calls, im.Out, sc.out, im.Class),
				Broken: "theorem C08_short_circuit / C08_position: the arguments of a call are evaluated once, where the call is written (implementation-only oracle)",
				Replay: c08Replay(c, im, sc.out, map[string]any{"want_calls": sc.calls})}) {
				return nil
			}
		}
	}
	// (k4) random trees
	n := e.N(120, 8000)
	depth := e.N(3, 5)
	for i := 0; i < n && !r.Full(); i++ {
		g := NewGen(rg)
		gctx := g.BaseCtx()
		var tree GExpr
		switch rg.Intn(4) {
		case 0:
			tree = g.IntE(depth)
		case 1:
			tree = g.BoolE(depth)
		case 2:
			tree = g.StrE(depth)
		default:
			tree = g.AnyScalarE(depth)
		}
		src := canon.expr(tree)
		now := runImpl(c08KeptCase("{{ "+src+" }}", gctx))
		if now.Class != "" {
			continue
		}
		vars := sortedKeys(gctx)
		for k := 0; k < 2; k++ {
			car, rb, u := carriers[rg.Intn(len(carriers))], rebinds[rg.Intn(len(rebinds))], uses[rg.Intn(len(uses))]
			if u.name == "conditional-arm" && strings.Contains(src, "?") {
				u = uses[0]
			}
			tpl := c08KeptMacros + car.pre + strings.ReplaceAll(car.keep, "S", src) + rb.tags(vars) + strings.ReplaceAll(u.tpl, "U", car.use)
			want := strings.ReplaceAll(u.want, "W", car.wrap(now.Out))
			c := c08KeptCase(tpl, gctx)
			r.Seen("kept-rnd:"+car.name+":"+rb.name+":"+u.name+":"+src, true)
			r.Hit("kept-random-tree")
			full, err := c08KeptCheck(e, c, want, fmt.Sprintf("%s (prints %q on the spot) kept as %s, every variable reassigned (%s), then used as %s", src, now.Out, car.name, rb.name, u.name),
				map[string]any{"expr": src, "carrier": car.name, "rebind": rb.name, "use": u.name})
			if err != nil {
				return err
			}
			if full {
				return nil
			}
		}
	}
	return nil
}
