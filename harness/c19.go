package main

import (
	"fmt"
	"math"
	"math/big"
	"reflect"
	"sort"
	"strconv"
	"strings"
	"unicode"
	"unicode/utf8"

	"github.com/semihalev/twig"
)

// C19 — built-in filters satisfy their defining equations for every input.
//
// Correspondence M: the real filter functions (CoreExtension.GetFilters(), called directly, and
// through rendered templates `{{ v|f(args) }}` / `{% for x in v|f(args) %}`) against
// Twig.applyFilter of TwigModel/Filters.lean (ops filters_apply, filters_items), many cases per request.
// Implementation-only oracles: the equations of the property checked on the real output alone
// (idempotence, involution, sorted permutation, length = number of loop iterations = what
// first/last/slice see, split∘join, default ⇔ empty, merge, keys, slice against an independent Go
// reference of Twig's index rules, abs/round/number_format against big.Rat decimal arithmetic).
// The facts the theorems assume about Go's Unicode tables (CaseMap.Lawful, isSpaceRune) are checked
// for every code point.

func init() { register("C19", runC19) }

// ---- values ------------------------------------------------------------------------------------

// f19v is a filter input in the shape of the model's Val.
type f19v struct {
	K     string // null bool int float str list map
	B     bool
	I     int64
	Neg   bool   // float: value = ±M / 10^E
	M     string // decimal digits
	E     int
	S     string
	Ty    string // any int str (element type)
	Arr   bool
	Items []f19v
	Keys  []string
}

func f19null() f19v        { return f19v{K: "null"} }
func f19bool(b bool) f19v  { return f19v{K: "bool", B: b} }
func f19int(i int64) f19v  { return f19v{K: "int", I: i} }
func f19str(s string) f19v { return f19v{K: "str", S: s} }
func f19dec(neg bool, m string, e int) f19v {
	return f19v{K: "float", Neg: neg, M: m, E: e}
}
func f19list(ty string, arr bool, items ...f19v) f19v {
	return f19v{K: "list", Ty: ty, Arr: arr, Items: items}
}
func f19map(ty string, keys []string, vals []f19v) f19v {
	return f19v{K: "map", Ty: ty, Keys: keys, Items: vals}
}

func (v f19v) decString() string {
	m := v.M
	for len(m) <= v.E {
		m = "0" + m
	}
	s := m
	if v.E > 0 {
		s = m[:len(m)-v.E] + "." + m[len(m)-v.E:]
	}
	if v.Neg {
		s = "-" + s
	}
	return s
}

func (v f19v) float() float64 {
	f, _ := strconv.ParseFloat(v.decString(), 64)
	if v.Neg && f == 0 {
		f = math.Copysign(0, -1)
	}
	return f
}

func (v f19v) rat() *big.Rat {
	r, _ := new(big.Rat).SetString(v.decString())
	return r
}

// goVal builds the Go value the filter receives.
func (v f19v) goVal() any {
	switch v.K {
	case "null":
		return nil
	case "bool":
		return v.B
	case "int":
		return int(v.I)
	case "float":
		return v.float()
	case "str":
		return v.S
	case "list":
		n := len(v.Items)
		switch v.Ty {
		case "any":
			if v.Arr {
				a := reflect.New(reflect.ArrayOf(n, reflect.TypeOf((*any)(nil)).Elem())).Elem()
				for i, it := range v.Items {
					if x := it.goVal(); x != nil {
						a.Index(i).Set(reflect.ValueOf(x))
					}
				}
				return a.Interface()
			}
			out := make([]interface{}, n)
			for i, it := range v.Items {
				out[i] = it.goVal()
			}
			return out
		case "int":
			if v.Arr {
				a := reflect.New(reflect.ArrayOf(n, reflect.TypeOf(0))).Elem()
				for i, it := range v.Items {
					a.Index(i).SetInt(it.I)
				}
				return a.Interface()
			}
			out := make([]int, n)
			for i, it := range v.Items {
				out[i] = int(it.I)
			}
			return out
		case "str":
			if v.Arr {
				a := reflect.New(reflect.ArrayOf(n, reflect.TypeOf(""))).Elem()
				for i, it := range v.Items {
					a.Index(i).SetString(it.S)
				}
				return a.Interface()
			}
			out := make([]string, n)
			for i, it := range v.Items {
				out[i] = it.S
			}
			return out
		}
	case "map":
		switch v.Ty {
		case "any":
			out := map[string]interface{}{}
			for i, k := range v.Keys {
				out[k] = v.Items[i].goVal()
			}
			return out
		case "int":
			out := map[string]int{}
			for i, k := range v.Keys {
				out[k] = int(v.Items[i].I)
			}
			return out
		case "str":
			out := map[string]string{}
			for i, k := range v.Keys {
				out[k] = v.Items[i].S
			}
			return out
		}
	}
	panic("f19v.goVal: bad value " + v.K)
}

// model is the JSON the driver reads.
func (v f19v) model() map[string]any {
	switch v.K {
	case "null":
		return map[string]any{"k": "null"}
	case "bool":
		return map[string]any{"k": "bool", "b": v.B}
	case "int":
		return map[string]any{"k": "int", "i": strconv.FormatInt(v.I, 10)}
	case "float":
		return map[string]any{"k": "float", "neg": v.Neg, "m": v.M, "e": v.E}
	case "str":
		return map[string]any{"k": "str", "s": hx(v.S)}
	case "list":
		items := make([]any, len(v.Items))
		for i, it := range v.Items {
			items[i] = it.model()
		}
		return map[string]any{"k": "list", "ty": v.Ty, "arr": v.Arr, "items": items}
	case "map":
		items := make([]any, len(v.Keys))
		for i, k := range v.Keys {
			items[i] = []any{hx(k), v.Items[i].model()}
		}
		return map[string]any{"k": "map", "ty": v.Ty, "items": items}
	}
	panic("f19v.model")
}

func (v f19v) short() string {
	switch v.K {
	case "null":
		return "null"
	case "bool":
		return strconv.FormatBool(v.B)
	case "int":
		return strconv.FormatInt(v.I, 10)
	case "float":
		return v.decString() + "f"
	case "str":
		return strconv.Quote(v.S)
	case "list":
		var parts []string
		for _, it := range v.Items {
			parts = append(parts, it.short())
		}
		t := "[]"
		if v.Arr {
			t = fmt.Sprintf("[%d]", len(v.Items))
		}
		return t + v.Ty + "{" + strings.Join(parts, ",") + "}"
	case "map":
		var parts []string
		for i, k := range v.Keys {
			parts = append(parts, strconv.Quote(k)+":"+v.Items[i].short())
		}
		return "map[string]" + v.Ty + "{" + strings.Join(parts, ",") + "}"
	}
	return "?"
}

// ---- canonical results -------------------------------------------------------------------------

// f19canonScalar: kind and toString, exactly what the model's encodeScalar sends.
func f19canonScalar(x any) (string, bool) {
	switch t := x.(type) {
	case nil:
		return "null", true
	case string:
		return "str:" + hx(t), true
	case int:
		return "int:" + hx(strconv.Itoa(t)), true
	case float64:
		return "float:" + hx(strconv.FormatFloat(t+0, 'f', -1, 64)), true // t+0 as in toString: -0 prints as 0
	case bool:
		return "bool:" + hx(strconv.FormatBool(t)), true
	}
	return "", false
}

func f19tyOf(t reflect.Type) string {
	switch t.Kind() {
	case reflect.Interface:
		return "any"
	case reflect.Int:
		return "int"
	case reflect.String:
		return "str"
	}
	return "other(" + t.String() + ")"
}

// f19canon canonicalises what a filter returned (typed results keep their type tag).
func f19canon(x any) string {
	if s, ok := f19canonScalar(x); ok {
		return s
	}
	rv := reflect.ValueOf(x)
	switch rv.Kind() {
	case reflect.Slice, reflect.Array:
		parts := make([]string, rv.Len())
		for i := 0; i < rv.Len(); i++ {
			parts[i] = f19canon(rv.Index(i).Interface())
		}
		return fmt.Sprintf("list:%s:%v[%s]", f19tyOf(rv.Type().Elem()), rv.Kind() == reflect.Array, strings.Join(parts, ","))
	case reflect.Map:
		if rv.Type().Key().Kind() != reflect.String {
			return fmt.Sprintf("other(%T)", x)
		}
		keys := make([]string, 0, rv.Len())
		for _, k := range rv.MapKeys() {
			keys = append(keys, k.String())
		}
		sort.Strings(keys)
		parts := make([]string, len(keys))
		for i, k := range keys {
			parts[i] = hx(k) + "=" + f19canon(rv.MapIndex(reflect.ValueOf(k).Convert(rv.Type().Key())).Interface())
		}
		return fmt.Sprintf("map:%s{%s}", f19tyOf(rv.Type().Elem()), strings.Join(parts, ","))
	}
	return fmt.Sprintf("other(%T)", x)
}

// f19canonModel turns the driver's "out" JSON into the same canonical string.
func f19canonModel(o map[string]any) string {
	k, _ := o["k"].(string)
	switch k {
	case "null":
		return "null"
	case "str", "int", "float", "bool":
		s, _ := o["s"].(string)
		return k + ":" + s
	case "list":
		items, _ := o["items"].([]any)
		parts := make([]string, len(items))
		for i, it := range items {
			parts[i] = f19canonModel(it.(map[string]any))
		}
		return fmt.Sprintf("list:%v:%v[%s]", o["ty"], o["arr"], strings.Join(parts, ","))
	case "map":
		items, _ := o["items"].([]any)
		parts := make([]string, len(items))
		for i, it := range items {
			p := it.([]any)
			parts[i] = p[0].(string) + "=" + f19canonModel(p[1].(map[string]any))
		}
		return fmt.Sprintf("map:%v{%s}", o["ty"], strings.Join(parts, ","))
	}
	return "?" + k
}

func f19canonRes(r map[string]any) string {
	switch r["r"] {
	case "ok":
		return f19canonModel(r["v"].(map[string]any))
	case "err":
		return "ERR"
	case "panic":
		return "PANIC"
	}
	return "UNSUPPORTED"
}

// f19seenKeys: one reported violation per failure class (the first instance, with its replay); the
// number of further instances is counted in the distribution as "violation:<key>".
var f19seenKeys = map[string]bool{}
var f19env *Env

func f19violate(r *Report, v Violation) bool {
	r.Hit("violation:" + v.Key)
	if f19seenKeys[v.Key] {
		return r.Full()
	}
	f19seenKeys[v.Key] = true
	// which recorded-finding class (Twig.knownClass, a decidable predicate of the model) the input lies in
	if c, ok := v.Replay["case"]; ok && f19env != nil && f19env.Model != nil {
		if resp, err := f19env.Model.Call(map[string]any{"op": "filters_known", "cases": []any{c}}); err == nil {
			if arr, ok := resp["res"].([]any); ok && len(arr) == 1 {
				v.Replay["known_class"] = arr[0]
			}
		}
	}
	return r.Violate(v)
}

// ---- calling the real filters ------------------------------------------------------------------

var f19filters = (&twig.CoreExtension{}).GetFilters()

// f19call runs one real filter with panic recovery.
func f19call(name string, v any, args ...any) (res any, class string, detail string) {
	defer func() {
		if p := recover(); p != nil {
			class, detail = "PANIC", fmt.Sprint(p)
		}
	}()
	f, ok := f19filters[name]
	if !ok {
		return nil, "ERR", "no such filter"
	}
	out, err := f(v, args...)
	if err != nil {
		return nil, "ERR", err.Error()
	}
	return out, "", ""
}

func f19callCanon(name string, v f19v, args []f19v) (string, string) {
	ga := make([]any, len(args))
	for i, a := range args {
		ga[i] = a.goVal()
	}
	res, class, detail := f19call(name, v.goVal(), ga...)
	if class != "" {
		return class, detail
	}
	return f19canon(res), ""
}

// ---- batching against the model ----------------------------------------------------------------

type f19case struct {
	F    string
	V    f19v
	Args []f19v
	Tag  string // generator class, for the distribution
}

func (c f19case) String() string {
	var as []string
	for _, a := range c.Args {
		as = append(as, a.short())
	}
	return c.V.short() + "|" + c.F + "(" + strings.Join(as, ", ") + ")"
}

func (c f19case) replay() map[string]any {
	as := make([]any, len(c.Args))
	for i, a := range c.Args {
		as[i] = a.model()
	}
	return map[string]any{"f": c.F, "v": c.V.model(), "args": as, "cm": f19caseMap(c)}
}

// f19caseMap: Go's ToUpper/ToLower for every non-ASCII rune of the strings in the case.
func f19caseMap(c f19case) []any {
	seen := map[rune]bool{}
	rows := []any{}
	add := func(s string) {
		for _, r := range s {
			if r >= 128 && !seen[r] {
				seen[r] = true
				rows = append(rows, []any{int(r), int(unicode.ToUpper(r)), int(unicode.ToLower(r))})
			}
		}
	}
	var walk func(v f19v)
	walk = func(v f19v) {
		if v.K == "str" {
			add(v.S)
		}
		for _, it := range v.Items {
			walk(it)
		}
	}
	if c.F == "upper" || c.F == "lower" || c.F == "capitalize" || c.F == "title" {
		walk(c.V)
	}
	return rows
}

type f19batch struct {
	e     *Env
	cases []f19case
}

func (b *f19batch) add(c f19case) error {
	b.cases = append(b.cases, c)
	if len(b.cases) >= 400 {
		return b.flush()
	}
	return nil
}

// flush compares every queued case: real filter vs model.
func (b *f19batch) flush() error {
	if len(b.cases) == 0 {
		return nil
	}
	e, r := b.e, b.e.Rep
	cases := b.cases
	b.cases = nil
	var model []any
	if e.Model != nil {
		req := make([]any, len(cases))
		for i, c := range cases {
			req[i] = c.replay()
		}
		resp, err := e.Model.Call(map[string]any{"op": "filters_apply", "cases": req})
		if err != nil {
			return err
		}
		model, _ = resp["res"].([]any)
		if len(model) != len(cases) {
			return fmt.Errorf("filters_apply answered %d results for %d cases", len(model), len(cases))
		}
	}
	for i, c := range cases {
		got, detail := f19callCanon(c.F, c.V, c.Args)
		r.Seen(c.String(), c.V.K != "null")
		r.Hit("filter:" + c.F)
		if c.Tag != "" {
			r.Hit("gen:" + c.Tag)
		}
		if got == "PANIC" {
			r.Hit("impl-panic")
			if f19violate(r, Violation{Key: "panic-" + c.F, What: fmt.Sprintf("%s panics: %s", c, truncate(detail, 120)),
				Broken: "every filter call returns: the model never answers Res.panic; a panic anywhere is a violation",
				Replay: map[string]any{"kind": "filter", "case": c.replay(), "text": c.String(), "panic": detail}}) {
				return nil
			}
		}
		if model == nil {
			continue
		}
		want := f19canonRes(model[i].(map[string]any))
		if want == "UNSUPPORTED" {
			r.Skip("model-unsupported:" + c.F)
			continue
		}
		r.Compared++
		if got == "ERR" {
			r.Hit("impl-error:" + c.F)
		}
		if got != want {
			if f19violate(r, Violation{Key: "model-" + c.F, What: fmt.Sprintf("%s: real filter and model differ", c),
				Broken: "correspondence filters_apply (TwigModel.Filters." + c.F + " vs extension.go)",
				Replay: map[string]any{"kind": "filter", "case": c.replay(), "text": c.String(), "impl": got, "impl_detail": detail, "model": want}}) {
				return nil
			}
		}
	}
	return nil
}

// f19loopView collects (value, rendered for-loop) pairs and compares them with the model's `items`.
type f19loopView struct {
	e    *Env
	vals []f19v
	got  []string
}

func (l *f19loopView) add(v f19v) error {
	res := renderSrc("{% for x in v %}[{{ x }}]{% endfor %}", map[string]any{"v": v.goVal()})
	got := res.Out
	if res.Class != "" {
		got = "CLASS:" + res.Class
	}
	l.vals = append(l.vals, v)
	l.got = append(l.got, got)
	if len(l.vals) >= 300 {
		return l.flush()
	}
	return nil
}

func (l *f19loopView) flush() error {
	if len(l.vals) == 0 || l.e.Model == nil {
		l.vals, l.got = nil, nil
		return nil
	}
	r := l.e.Rep
	req := make([]any, len(l.vals))
	for i, v := range l.vals {
		req[i] = v.model()
	}
	resp, err := l.e.Model.Call(map[string]any{"op": "filters_items", "vals": req})
	if err != nil {
		return err
	}
	for i, x := range resp["res"].([]any) {
		var sb strings.Builder
		for _, it := range x.([]any) {
			m := it.(map[string]any)
			sb.WriteString("[")
			if m["k"] != "null" {
				sb.WriteString(unhx(m["s"].(string)))
			}
			sb.WriteString("]")
		}
		r.Compared++
		r.Hit("for-loop-view-checked")
		if sb.String() != l.got[i] {
			f19violate(r, Violation{Key: "model-items", What: fmt.Sprintf("{%% for x in %s %%}: loop renders %q, model items give %q", l.vals[i].short(), l.got[i], sb.String()),
				Broken: "correspondence filters_items (Twig.items vs ForNode.renderForLoop): the element view of C19_length_items / C19_first_items / C19_slice_items",
				Replay: map[string]any{"kind": "items", "v": l.vals[i].model(), "impl_hex": hx(l.got[i]), "model_hex": hx(sb.String())}})
		}
	}
	l.vals, l.got = nil, nil
	return nil
}

// ---- template path -----------------------------------------------------------------------------

// f19tplLit writes a value as a template literal when the expression language can express it.
func f19tplLit(v f19v) (string, bool) {
	switch v.K {
	case "null":
		return "null", true
	case "bool":
		return strconv.FormatBool(v.B), true
	case "int":
		if v.I < 0 {
			return "", false // a minus sign is an operator, not part of the literal
		}
		return strconv.FormatInt(v.I, 10), true
	case "str":
		for i := 0; i < len(v.S); i++ {
			c := v.S[i]
			if c == '\'' || c == '\\' || c == '{' || c == '}' || c == '%' || c == '#' || c < 32 {
				return "", false
			}
		}
		return "'" + v.S + "'", true
	}
	return "", false
}

// f19render observes `v|f(args)` through a template: the printed value and the for-loop view.
// Returns (printed, looped, class).
func f19render(c f19case, literalArgs bool) (string, string, string) {
	ctx := map[string]any{"v": c.V.goVal()}
	var as []string
	for i, a := range c.Args {
		if literalArgs {
			if lit, ok := f19tplLit(a); ok {
				as = append(as, lit)
				continue
			}
		}
		name := fmt.Sprintf("a%d", i)
		ctx[name] = a.goVal()
		as = append(as, name)
	}
	call := "v|" + c.F
	if len(as) > 0 {
		call += "(" + strings.Join(as, ", ") + ")"
	}
	res := renderSrc("{{ "+call+" }}\x1e{% for k, x in "+call+" %}[{{ k }}={{ x }}]{% endfor %}", ctx)
	if res.Class != "" {
		return "", "", res.Class
	}
	p := strings.SplitN(res.Out, "\x1e", 2)
	if len(p) != 2 {
		return res.Out, "", "no-separator"
	}
	return p[0], p[1], ""
}

// f19expectRender computes from the model's result what the template above must print.
func f19expectRender(o map[string]any) (printed string, looped string, printable bool) {
	k, _ := o["k"].(string)
	switch k {
	case "null":
		return "", "", true
	case "int", "float", "bool":
		return unhx(o["s"].(string)), "", true
	case "str":
		s := unhx(o["s"].(string))
		var sb strings.Builder
		i := 0
		for _, r := range s {
			fmt.Fprintf(&sb, "[%d=%s]", i, string(r))
			i++
		}
		return s, sb.String(), true
	case "list":
		var sb strings.Builder
		for i, it := range o["items"].([]any) {
			m := it.(map[string]any)
			s := ""
			if m["k"] != "null" {
				s = unhx(m["s"].(string))
			}
			fmt.Fprintf(&sb, "[%d=%s]", i, s)
		}
		return "", sb.String(), false // %v of a slice is not compared
	case "map":
		var sb strings.Builder
		for _, it := range o["items"].([]any) {
			p := it.([]any)
			m := p[1].(map[string]any)
			s := ""
			if m["k"] != "null" {
				s = unhx(m["s"].(string))
			}
			fmt.Fprintf(&sb, "[%s=%s]", unhx(p[0].(string)), s)
		}
		return "", sb.String(), false
	}
	return "", "", false
}

// f19viaTemplate checks one case through the template path against the model.
func f19viaTemplate(e *Env, c f19case, literalArgs bool) error {
	r := e.Rep
	if e.Model == nil {
		return nil
	}
	for _, ch := range c.V.S {
		_ = ch
	}
	resp, err := e.Model.Call(map[string]any{"op": "filters_apply", "cases": []any{c.replay()}})
	if err != nil {
		return err
	}
	m := resp["res"].([]any)[0].(map[string]any)
	printed, looped, class := f19render(c, literalArgs)
	r.Seen("tpl:"+c.String(), true)
	r.Hit("template:" + c.F)
	bad := func(what string, extra map[string]any) {
		rp := map[string]any{"kind": "filter-template", "case": c.replay(), "text": c.String(), "literal_args": literalArgs,
			"printed_hex": hx(printed), "looped_hex": hx(looped), "class": class, "model": m}
		for k, v := range extra {
			rp[k] = v
		}
		f19violate(r, Violation{Key: "template-" + c.F, What: fmt.Sprintf("{{ %s }}: %s", c, what),
			Broken: "correspondence filters_apply through templates (argument evaluation + filter + printer)", Replay: rp})
	}
	switch m["r"] {
	case "unsupported":
		r.Skip("model-unsupported:" + c.F)
		return nil
	case "err":
		r.Compared++
		if class != "render-error" {
			bad("model says the filter fails, the render gives class "+strconv.Quote(class), nil)
		}
		return nil
	case "panic":
		r.Compared++
		if class != "panic" {
			bad("model says the filter panics, the render gives class "+strconv.Quote(class), nil)
		} else {
			f19violate(r, Violation{Key: "panic-" + c.F, What: fmt.Sprintf("{{ %s }} panics", c),
				Broken: "every filter call returns: the model never answers Res.panic; a panic anywhere is a violation",
				Replay: map[string]any{"kind": "filter-template", "case": c.replay(), "text": c.String()}})
		}
		return nil
	}
	r.Compared++
	if class != "" {
		bad("render fails with class "+strconv.Quote(class)+" where the model returns a value", nil)
		return nil
	}
	wantP, wantL, printable := f19expectRender(m["v"].(map[string]any))
	if printable && printed != wantP {
		bad("printed value differs", map[string]any{"want_printed_hex": hx(wantP)})
	}
	if looped != wantL {
		bad("for-loop view differs", map[string]any{"want_looped_hex": hx(wantL)})
	}
	return nil
}

// ---- generators --------------------------------------------------------------------------------

// letters for exhaustive strings: ASCII lower/upper/space, 2-, 3-, 4-byte runes, a rune whose upper
// case is a different length class is not possible in Go's simple mapping; invalid bytes: a lone
// continuation byte, a lead byte, 0xFF
var f19letters = []string{"a", "B", " ", "é", "€", "😀", "\x80", "\xc3", "\xff", "ǆ", " "}

// extra runes for random strings: title-case digraph, sharp s, dotted I, Kelvin sign (lower → ASCII k),
// long s (upper → ASCII S), spaces of every encoded length, NEL, a truncated 3-byte sequence, a surrogate
// encoded in UTF-8 (invalid), an overlong encoding (invalid)
var f19wide = []string{"a", "b", "Z", "q", " ", "\t", "\n", "-", "1", "é", "É", "ß", "İ", "ı", "K", "ſ", "ǅ", "ǆ", "Ǆ", "σ", "ς", "Σ",
	"€", "世", "😀", "𐐀", "𐐨", "\u0085", " ", " ", " ", " ", "　", "�",
	"\x80", "\xbf", "\xc3", "\xe2\x82", "\xed\xa0\x80", "\xc0\x80", "\xf4\x90\x80\x80", "\xff"}

func f19randString(e *Env, alpha []string, maxLen int) string {
	n := e.Rng.Intn(maxLen + 1)
	var sb strings.Builder
	for i := 0; i < n; i++ {
		sb.WriteString(alpha[e.Rng.Intn(len(alpha))])
	}
	return sb.String()
}

var f19scalarPool = []f19v{f19int(3), f19str("1"), f19int(2), f19str("10"), f19str("b"), f19str("a"), f19str(""), f19null(),
	f19bool(true), f19dec(false, "25", 1), f19str("B"), f19str("é"), f19int(-1), f19int(10), f19str("a b"), f19bool(false), f19str("\xff"), f19dec(true, "5", 1)}

func f19randScalar(e *Env) f19v { return f19scalarPool[e.Rng.Intn(len(f19scalarPool))] }

// f19randList: a list of n elements of the given element type.
func f19randList(e *Env, ty string, arr bool, n int) f19v {
	items := make([]f19v, n)
	for i := range items {
		switch ty {
		case "int":
			items[i] = f19int(int64(e.Rng.Intn(41) - 20))
		case "str":
			items[i] = f19str(pick(e.Rng, []string{"a", "b", "B", "10", "9", "", "é", "ab", "a b", "€", "\xff", ","}))
		default:
			items[i] = f19randScalar(e)
		}
	}
	return f19list(ty, arr, items...)
}

func f19randMap(e *Env, ty string, n int) f19v {
	keys := []string{}
	vals := []f19v{}
	seen := map[string]bool{}
	for len(keys) < n {
		k := pick(e.Rng, []string{"a", "b", "c", "x", "", "10", "9", "é", "B", "k1", "k2", "\xff", "a b"})
		if seen[k] {
			if len(seen) >= 13 {
				break
			}
			continue
		}
		seen[k] = true
		keys = append(keys, k)
		switch ty {
		case "int":
			vals = append(vals, f19int(int64(e.Rng.Intn(21)-10)))
		case "str":
			vals = append(vals, f19str(pick(e.Rng, []string{"p", "q", "", "é"})))
		default:
			vals = append(vals, f19randScalar(e))
		}
	}
	return f19map(ty, keys, vals)
}

func f19anyContainer(e *Env, maxLen int) f19v {
	n := e.Rng.Intn(maxLen + 1)
	switch e.Rng.Intn(9) {
	case 0:
		return f19randList(e, "int", false, n)
	case 1:
		return f19randList(e, "str", false, n)
	case 2:
		return f19randList(e, "int", true, n)
	case 3:
		return f19randList(e, "str", true, n)
	case 4:
		return f19randList(e, "any", true, n)
	case 5:
		return f19randMap(e, "any", n)
	case 6:
		return f19randMap(e, pick(e.Rng, []string{"int", "str"}), n)
	default:
		return f19randList(e, "any", false, n)
	}
}

// ---- independent references for the implementation-only oracles -------------------------------

// f19refSlice: Twig's rules (PHP array_slice / mb_substr), written on indices.
func f19refSlice(n int, start int64, length *int64) (from, to int) {
	var off int64
	if start >= 0 {
		off = start
		if off > int64(n) {
			off = int64(n)
		}
	} else {
		off = int64(n) + start
		if off < 0 {
			off = 0
		}
	}
	rest := int64(n) - off
	cnt := rest
	if length != nil {
		if *length >= 0 {
			if *length < rest {
				cnt = *length
			}
		} else {
			cnt = rest + *length
			if cnt < 0 {
				cnt = 0
			}
		}
	}
	return int(off), int(off + cnt)
}

// f19refRound: round(x·10^p) half away from zero, exact.
func f19refRound(x *big.Rat, p int) *big.Int {
	scale := new(big.Rat).SetInt(new(big.Int).Exp(big.NewInt(10), big.NewInt(int64(p)), nil))
	y := new(big.Rat).Mul(x, scale)
	neg := y.Sign() < 0
	if neg {
		y.Neg(y)
	}
	y.Add(y, big.NewRat(1, 2))
	q := new(big.Int).Quo(y.Num(), y.Denom())
	if neg {
		q.Neg(q)
	}
	return q
}

// f19fixed prints N/10^d with d decimals.
func f19fixed(n *big.Int, d int) (sign, ip, fp string) {
	s := new(big.Int).Abs(n).String()
	for len(s) <= d {
		s = "0" + s
	}
	if n.Sign() < 0 {
		sign = "-"
	}
	return sign, s[:len(s)-d], s[len(s)-d:]
}

func f19refGroup(ip, sep string) string {
	var groups []string
	for len(ip) > 3 {
		groups = append([]string{ip[len(ip)-3:]}, groups...)
		ip = ip[:len(ip)-3]
	}
	groups = append([]string{ip}, groups...)
	return strings.Join(groups, sep)
}

func f19trimDec(sign, ip, fp string) string {
	fp = strings.TrimRight(fp, "0")
	if fp != "" {
		return sign + ip + "." + fp
	}
	return sign + ip
}

// ---- the run -----------------------------------------------------------------------------------

func runC19(e *Env) error {
	r := e.Rep
	f19env = e
	r.Rule = "per filter of the C19 list a grid of (value, arguments) through the real filter functions and through templates: " +
		"strings = every sequence of ≤ N letters over {a B space é € 😀 0x80 0xC3 0xFF ǆ NBSP} plus random long strings over 42 letters " +
		"(all encoded lengths, case-mapping oddities, every kind of invalid sequence); lists, []int, []string, [n]T arrays, map[string]T of length 0–6; " +
		"slice start/length ∈ [−8,8] ∪ {omitted, null} ∪ int64 extremes and non-int argument types; separators of length 0–2; numbers = decimals m/10^k " +
		"incl. every tie, negatives, ±2^53. A case is non-trivial when its input is not null; distinct by (filter, value, args)."
	steps := []func(*Env) error{f19regressions, f19unicodeFacts, f19strings, f19slices, f19lists, c19typedContainers, f19joinSplit, f19defaults, f19mergeKeys, f19numbers, f19templates, f19siblings}
	for _, s := range steps {
		if err := s(e); err != nil {
			return err
		}
	}
	return nil
}

// f19regressions: the pinned-tree defects of DESIGN §1.2 (must pass on the fixed tree).
func f19regressions(e *Env) error {
	r := e.Rep
	ctx := map[string]any{"arr": [3]int{3, 1, 2}, "sarr": [2]string{"b", "a"}, "tm": map[string]int{"x": 1, "a": 5},
		"m": map[string]interface{}{"b": 1}, "ints": []int{3, 1, 2}}
	corpus := []struct{ src, want string }{
		{"{{ 'hello'|slice(1) }}", "ello"},
		{"{{ 'hello'|slice(1, -1) }}", "ell"},
		{"{{ 'hello'|slice(-2) }}", "lo"},
		{"{{ [1,2,3,4]|slice(1)|join(',') }}", "2,3,4"},
		{"{{ 'héllo'|length }}", "5"},
		{"{{ 'éa'|first }}", "é"},
		{"{{ 'aé'|last }}", "é"},
		{"{{ 'éa'|slice(0, 1) }}", "é"},
		{"{{ 'élan vital'|capitalize }}", "Élan Vital"},
		{"{{ 'élan'|title }}", "Élan"},
		{"{{ arr|reverse|join(',') }}", "2,1,3"},
		{"{{ arr|slice(1)|join(',') }}", "1,2"},
		{"{{ arr|sort|join(',') }}", "1,2,3"},
		{"{{ arr|merge([9])|join(',') }}", "3,1,2,9"},
		{"{{ sarr|sort|join(',') }}", "a,b"},
		{"{% for k, v in tm|merge({'x': 'q'}) %}{{ k }}={{ v }};{% endfor %}", "a=5;x=q;"},
		{"{% for k, v in tm|merge(m) %}{{ k }}={{ v }};{% endfor %}", "a=5;b=1;x=1;"},
		{"{{ ints|merge(['z'])|join(',') }}", "3,1,2,z"},
		{"{{ tm|keys|join(',') }}", "a,x"},
	}
	for _, c := range corpus {
		res := renderSrc(c.src, ctx)
		r.Seen("reg:"+c.src, true)
		r.Hit("regression")
		if res.Class != "" || res.Out != c.want {
			f19violate(r, Violation{Key: "regression", What: fmt.Sprintf("%s renders %q (class %q), want %q", c.src, res.Out, res.Class, c.want),
				Broken: "regression corpus of C19 (pinned-tree defects repaired by 0012/0013/0014/0021)",
				Replay: map[string]any{"kind": "template", "src": c.src, "want": c.want, "got": res.Out, "class": res.Class, "panic": res.Panic}})
		}
	}
	return nil
}

// f19unicodeFacts: the hypotheses of the case-mapping theorems and the model's White_Space set,
// for every code point.
func f19unicodeFacts(e *Env) error {
	r := e.Rep
	valid := func(x rune) bool { return x >= 0 && (x < 0xD800 || (x >= 0xE000 && x <= 0x10FFFF)) }
	for x := rune(0); x <= 0x10FFFF; x++ {
		if !valid(x) {
			continue
		}
		u, l := unicode.ToUpper(x), unicode.ToLower(x)
		var what string
		switch {
		case unicode.ToUpper(u) != u:
			what = "up_idem"
		case unicode.ToLower(l) != l:
			what = "low_idem"
		case !valid(u):
			what = "up_valid"
		case !valid(l):
			what = "low_valid"
		case !unicode.IsSpace(x) && unicode.IsSpace(u):
			what = "up_nonspace"
		case !unicode.IsSpace(x) && unicode.IsSpace(l):
			what = "low_nonspace"
		case x < 128 && (u != f19asciiUp(x) || l != f19asciiLow(x)):
			what = "ascii"
		}
		if what != "" {
			if f19violate(r, Violation{Key: "casemap-" + what, What: fmt.Sprintf("unicode tables break hypothesis %s at U+%04X (upper U+%04X, lower U+%04X)", what, x, u, l),
				Broken: "hypothesis CaseMap.Lawful." + what + " of C19_upper_idempotent / C19_lower_idempotent / C19_capitalize_idempotent",
				Replay: map[string]any{"kind": "casemap", "rune": int(x), "upper": int(u), "lower": int(l)}}) {
				return nil
			}
		}
	}
	r.Seen("casemap-all-code-points", true)
	r.Hit("casemap-exhaustive")
	r.Note("CaseMap.Lawful (6 fields) and the ASCII mapping checked against unicode.ToUpper/ToLower for all 1 112 064 scalar values")
	if e.Model == nil {
		return nil
	}
	resp, err := e.Model.Call(map[string]any{"op": "filters_spaces"})
	if err != nil {
		return err
	}
	modelSpaces := map[rune]bool{}
	for _, x := range resp["spaces"].([]any) {
		modelSpaces[rune(x.(float64))] = true
	}
	encs := map[string]bool{}
	for _, x := range resp["encs"].([]any) {
		encs[unhx(x.(string))] = true
	}
	nsp := 0
	for x := rune(0); x <= 0x10FFFF; x++ {
		is := unicode.IsSpace(x)
		if is {
			nsp++
		}
		if is != modelSpaces[x] || (is && valid(x) && !encs[string(x)]) {
			f19violate(r, Violation{Key: "isspace-fact", What: fmt.Sprintf("unicode.IsSpace(U+%04X)=%v but the model's isSpaceRune/spaceEncs disagree", x, is),
				Broken: "FACT isSpaceRune / spaceEncs (TwigModel.Filters) vs Go's unicode tables", Replay: map[string]any{"kind": "isspace", "rune": int(x)}})
			return nil
		}
	}
	if nsp != len(encs) {
		f19violate(r, Violation{Key: "isspace-fact", What: fmt.Sprintf("spaceEncs has %d entries, unicode.IsSpace has %d runes", len(encs), nsp),
			Broken: "FACT spaceEncs", Replay: map[string]any{"kind": "isspace"}})
	}
	r.Compared++
	r.Note("isSpaceRune and spaceEncs equal unicode.IsSpace on all 1 114 112 code points")
	return nil
}

func f19asciiUp(x rune) rune {
	if 'a' <= x && x <= 'z' {
		return x - 32
	}
	return x
}
func f19asciiLow(x rune) rune {
	if 'A' <= x && x <= 'Z' {
		return x + 32
	}
	return x
}

var f19strFilters = []string{"upper", "lower", "trim", "capitalize", "title", "reverse", "length", "first", "last"}

// f19stringCase: model comparison for every string filter plus the implementation-only equations.
func f19stringCase(e *Env, b *f19batch, s string, tag string) error {
	r := e.Rep
	v := f19str(s)
	for _, f := range f19strFilters {
		if err := b.add(f19case{F: f, V: v, Tag: tag}); err != nil {
			return err
		}
	}
	str := func(f string, x string, args ...any) (string, bool) {
		res, class, _ := f19call(f, x, args...)
		out, ok := res.(string)
		return out, class == "" && ok
	}
	viol := func(key, what, broken string, extra map[string]any) {
		rp := map[string]any{"kind": "string-equation", "s_hex": hx(s)}
		for k, x := range extra {
			rp[k] = x
		}
		f19violate(r, Violation{Key: key, What: what, Broken: broken, Replay: rp})
	}
	// idempotence
	for _, f := range []string{"upper", "lower", "trim", "capitalize", "title"} {
		once, ok1 := str(f, s)
		twice, ok2 := str(f, once)
		if !ok1 || !ok2 || once != twice {
			viol("idempotent-"+f, fmt.Sprintf("%s(%s(%q)) = %q but %s(%q) = %q", f, f, s, twice, f, s, once),
				"theorem C19_"+f+"_idempotent no longer describes the code (implementation-only oracle)", map[string]any{"once_hex": hx(once), "twice_hex": hx(twice)})
		}
	}
	// reverse: involution up to re-encoding, exactly on valid UTF-8; length preserved
	rev, ok1 := str("reverse", s)
	rev2, ok2 := str("reverse", rev)
	san := string([]rune(s))
	if !ok1 || !ok2 || rev2 != san || (utf8.ValidString(s) && rev2 != s) {
		viol("reverse-involution", fmt.Sprintf("reverse(reverse(%q)) = %q", s, rev2), "theorem C19_reverse_str_involution (implementation-only oracle)", map[string]any{"rev_hex": hx(rev), "rev2_hex": hx(rev2)})
	}
	l1, _, _ := f19call("length", s)
	l2, _, _ := f19call("length", rev)
	if l1 != l2 || l1 != utf8.RuneCountInString(s) {
		viol("reverse-length", fmt.Sprintf("length(%q) = %v, length(reverse) = %v", s, l1, l2), "theorem C19_reverse_str_length (implementation-only oracle)", nil)
	}
	// length = number of loop iterations; first/last are the first/last loop element (valid UTF-8)
	if e.Rng.Intn(e.N(40, 8)) == 0 || len(s) <= 2 {
		res := renderSrc("{{ v|length }}\x1e{% for c in v %}\x1f{{ c }}{% endfor %}\x1e{{ v|first }}\x1e{{ v|last }}", map[string]any{"v": s})
		p := strings.Split(res.Out, "\x1e")
		if res.Class != "" || len(p) != 4 {
			viol("length-loop", fmt.Sprintf("length/for/first/last of %q do not render: %s", s, res.Class), "theorem C19_length_items (implementation-only oracle)", map[string]any{"out_hex": hx(res.Out)})
		} else {
			elems := strings.Split(p[1], "\x1f")[1:]
			if strings.Contains(s, "\x1f") {
				elems = nil
			}
			if strconv.Itoa(len(elems)) != p[0] {
				viol("length-loop", fmt.Sprintf("%q|length = %s but the for loop runs %d times", s, p[0], len(elems)), "theorem C19_length_items (implementation-only oracle)", nil)
			}
			if len(elems) > 0 && utf8.ValidString(s) && (p[2] != elems[0] || p[3] != elems[len(elems)-1]) {
				viol("first-last-loop", fmt.Sprintf("%q: first=%q last=%q, loop sees %q … %q", s, p[2], p[3], elems[0], elems[len(elems)-1]), "theorem C19_first_items / C19_last_items_str (implementation-only oracle)", nil)
			}
			if len(elems) > 0 && p[2] != elems[0] {
				viol("first-last-loop", fmt.Sprintf("%q: first=%q, loop starts with %q", s, p[2], elems[0]), "theorem C19_first_items (implementation-only oracle)", nil)
			}
			r.Hit("length-loop-checked")
		}
	}
	return nil
}

func f19strings(e *Env) error {
	r := e.Rep
	b := &f19batch{e: e}
	lv := &f19loopView{e: e}
	defer lv.flush()
	depth := e.N(3, 4)
	var ferr error
	allStrings(f19letters, depth, func(s string) bool {
		if err := f19stringCase(e, b, s, "string-exhaustive"); err != nil {
			ferr = err
			return false
		}
		return true
	})
	if ferr != nil {
		return ferr
	}
	// every string of length ≤ 4 over white space and control characters (what trim must and must not remove)
	allStrings([]string{" ", "\t", "\n", "\v", "\f", "\r", "\x00", "\u0085", "\u00a0", "\u2028", "\x01", "x"}, e.N(3, 4), func(s string) bool {
		if err := f19stringCase(e, b, s, "string-whitespace-exhaustive"); err != nil {
			ferr = err
			return false
		}
		return true
	})
	if ferr != nil {
		return ferr
	}
	r.Note(fmt.Sprintf("string filters: exhaustive over %d letters to length %d", len(f19letters), depth))
	n := e.N(6000, 150000)
	for i := 0; i < n; i++ {
		var s string
		switch e.Rng.Intn(4) {
		case 0:
			s = f19randString(e, f19wide, 8)
		case 1:
			s = f19randString(e, f19wide, 60)
		case 2:
			s = strings.Join([]string{f19randString(e, []string{" ", "\t", " ", " ", "\n", "　", "\u0085"}, 3), f19randString(e, f19wide, 10),
				f19randString(e, []string{" ", "\t", " ", " ", "\n", "　", "\u0085", "\xa0", "\x85", "\xe2\x80"}, 3)}, "")
		default:
			// random bytes
			n := e.Rng.Intn(12)
			bs := make([]byte, n)
			for j := range bs {
				bs[j] = byte(pick(e.Rng, []int{0x20, 0x41, 0x61, 0x7a, 0x80, 0x85, 0xa0, 0xbf, 0xc2, 0xc3, 0xe0, 0xe1, 0xe2, 0xed, 0xef, 0xf0, 0xf4, 0xf5, 0xff, 0x9a, 0x9f, 0x90, 0x8f}))
			}
			s = string(bs)
		}
		if i < 2 {
			r.Sample(map[string]any{"kind": "string", "s": s})
		}
		if err := f19stringCase(e, b, s, "string-random"); err != nil {
			return err
		}
		if !strings.ContainsAny(s, "<>&\"'") {
			if err := lv.add(f19str(s)); err != nil {
				return err
			}
		}
	}
	// non-string inputs go through toString
	for _, v := range []f19v{f19null(), f19int(-12), f19bool(true), f19dec(false, "25", 1), f19int(0)} {
		for _, f := range []string{"upper", "lower", "trim", "capitalize", "title"} {
			if err := b.add(f19case{F: f, V: v, Tag: "string-filter-on-scalar"}); err != nil {
				return err
			}
		}
	}
	return b.flush()
}

func f19intArg(i int64) f19v { return f19int(i) }

func f19slices(e *Env) error {
	r := e.Rep
	b := &f19batch{e: e}
	maxLen := e.N(5, 6)
	rng := e.N(7, 8)
	mk := func(kind int, n int) f19v {
		switch kind {
		case 0:
			return f19str("abcdefgh"[:n])
		case 1:
			return f19str(strings.Join([]string{"é", "a", "€", "\xff", "😀", "b", "\x80"}[:n], ""))
		case 2:
			items := make([]f19v, n)
			for i := range items {
				items[i] = []f19v{f19int(1), f19str("x"), f19null(), f19bool(true), f19str("é"), f19int(-7)}[i]
			}
			return f19list("any", false, items...)
		case 3, 4:
			items := make([]f19v, n)
			for i := range items {
				items[i] = f19int(int64(10 + i))
			}
			return f19list("int", kind == 4, items...)
		default:
			items := make([]f19v, n)
			for i := range items {
				items[i] = f19str(string(rune('p' + i)))
			}
			return f19list("str", kind == 6, items...)
		}
	}
	check := func(v f19v, start int64, length *int64, lenKind string) error {
		args := []f19v{f19int(start)}
		switch {
		case length != nil:
			args = append(args, f19int(*length))
		case lenKind == "null":
			args = append(args, f19null())
		}
		c := f19case{F: "slice", V: v, Args: args, Tag: "slice-grid"}
		if err := b.add(c); err != nil {
			return err
		}
		// implementation-only: independent reference of Twig's index rules
		ga := make([]any, len(args))
		for i, a := range args {
			ga[i] = a.goVal()
		}
		res, class, detail := f19call("slice", v.goVal(), ga...)
		var n int
		var want string
		if v.K == "str" {
			rs := []rune(v.S)
			n = len(rs)
			from, to := f19refSlice(n, start, length)
			want = "str:" + hx(string(rs[from:to]))
		} else {
			n = len(v.Items)
			from, to := f19refSlice(n, start, length)
			parts := []string{}
			for _, it := range v.Items[from:to] {
				parts = append(parts, f19canon(it.goVal()))
			}
			want = fmt.Sprintf("list:%s:false[%s]", v.Ty, strings.Join(parts, ","))
		}
		got := class
		if class == "" {
			got = f19canon(res)
		}
		if got != want {
			f19violate(r, Violation{Key: "slice-reference", What: fmt.Sprintf("%s = %s, Twig's index rules give %s %s", c, got, want, truncate(detail, 80)),
				Broken: "theorem C19_slice_total (filterSlice = Twig's index rules for every 64-bit start and length) no longer describes the code (implementation-only oracle)",
				Replay: map[string]any{"kind": "filter", "case": c.replay(), "text": c.String(), "impl": got, "reference": want}})
		}
		return nil
	}
	for kind := 0; kind <= 6; kind++ {
		for n := 0; n <= maxLen; n++ {
			v := mk(kind, n)
			for start := int64(-rng); start <= int64(rng); start++ {
				if err := check(v, start, nil, "omitted"); err != nil {
					return err
				}
				if err := check(v, start, nil, "null"); err != nil {
					return err
				}
				for l := int64(-rng); l <= int64(rng); l++ {
					ll := l
					if err := check(v, start, &ll, ""); err != nil {
						return err
					}
				}
			}
		}
	}
	// extremes of the integer range
	ext := []int64{math.MinInt64, math.MinInt64 + 1, -1 << 31, -9, 0, 1, 2, 1 << 31, math.MaxInt64 - 5, math.MaxInt64 - 1, math.MaxInt64}
	for _, v := range []f19v{f19str("hello"), f19str("é€"), mk(2, 4), mk(3, 3), mk(4, 3), f19str(""), mk(2, 0)} {
		for _, s := range ext {
			if err := check(v, s, nil, "omitted"); err != nil {
				return err
			}
			for _, l := range ext {
				ll := l
				if err := check(v, s, &ll, ""); err != nil {
					return err
				}
			}
		}
	}
	// argument types other than int; missing arguments; values that cannot be sliced
	argZoo := []f19v{f19str("1"), f19str("-2"), f19str("+1"), f19str("x"), f19str(""), f19str("1.5"), f19str(" 1"), f19dec(false, "19", 1), f19dec(true, "19", 1), f19dec(false, "29", 1),
		f19bool(true), f19bool(false), f19null(), f19list("any", false), f19int(2), f19str("9223372036854775808"), f19str("007")}
	for _, v := range []f19v{f19str("hello"), mk(2, 5), mk(3, 4), f19null(), f19int(12), f19bool(true), f19randMap(e, "any", 2), f19dec(false, "25", 1)} {
		if err := b.add(f19case{F: "slice", V: v, Tag: "slice-args"}); err != nil {
			return err
		}
		for _, a := range argZoo {
			if err := b.add(f19case{F: "slice", V: v, Args: []f19v{a}, Tag: "slice-args"}); err != nil {
				return err
			}
			for _, a2 := range argZoo {
				if err := b.add(f19case{F: "slice", V: v, Args: []f19v{a, a2}, Tag: "slice-args"}); err != nil {
					return err
				}
			}
		}
	}
	return b.flush()
}

// f19lists: reverse, sort, length, first, last on lists, typed slices, arrays and maps.
func f19lists(e *Env) error {
	r := e.Rep
	b := &f19batch{e: e}
	lv := &f19loopView{e: e}
	one := func(v f19v, tag string) error {
		if err := lv.add(v); err != nil {
			return err
		}
		for _, f := range []string{"reverse", "sort", "length", "first", "last", "keys"} {
			if err := b.add(f19case{F: f, V: v, Tag: tag}); err != nil {
				return err
			}
		}
		gv := v.goVal()
		viol := func(key, what, broken string) {
			f19violate(r, Violation{Key: key, What: what, Broken: broken, Replay: map[string]any{"kind": "list-equation", "v": v.model(), "text": v.short()}})
		}
		if v.K == "list" {
			// reverse: involution, length preserved
			rev, c1, _ := f19call("reverse", gv)
			if c1 == "" {
				rev2, c2, _ := f19call("reverse", rev)
				want := f19canon(gv)
				if v.Arr { // an array comes back as a slice
					want = strings.Replace(want, ":true[", ":false[", 1)
				}
				if c2 != "" || f19canon(rev2) != want {
					viol("reverse-involution", fmt.Sprintf("reverse(reverse(%s)) = %s", v.short(), f19canon(rev2)), "theorem C19_reverse_list_involution (implementation-only oracle)")
				}
				if l, _, _ := f19call("length", rev); l != len(v.Items) {
					viol("reverse-length", fmt.Sprintf("length(reverse(%s)) = %v", v.short(), l), "theorem C19_reverse_list_involution (implementation-only oracle)")
				}
			} else {
				viol("reverse-fails", fmt.Sprintf("reverse(%s): %s", v.short(), c1), "theorem C19_reverse_list_involution (implementation-only oracle)")
			}
			// sort: ordered by the code's key and a permutation
			srt, c3, _ := f19call("sort", gv)
			if c3 != "" {
				viol("sort-fails", fmt.Sprintf("sort(%s): %s", v.short(), c3), "theorem C19_sort_perm (implementation-only oracle)")
			} else {
				rv := reflect.ValueOf(srt)
				keys := make([]string, rv.Len())
				canon := make([]string, rv.Len())
				nums := make([]int, rv.Len())
				numeric := v.Ty == "int" && !v.Arr
				for i := 0; i < rv.Len(); i++ {
					x := rv.Index(i).Interface()
					canon[i] = f19canon(x)
					keys[i] = f19goToString(x)
					if numeric {
						nums[i], _ = x.(int)
					}
				}
				sortedOK := true
				for i := 1; i < len(keys); i++ {
					if numeric && nums[i-1] > nums[i] || !numeric && keys[i-1] > keys[i] {
						sortedOK = false
					}
				}
				in := make([]string, len(v.Items))
				for i, it := range v.Items {
					in[i] = f19canon(it.goVal())
				}
				sort.Strings(in)
				sort.Strings(canon)
				if !sortedOK || strings.Join(in, ",") != strings.Join(canon, ",") {
					viol("sort-not-ordered-permutation", fmt.Sprintf("sort(%s) = %s", v.short(), f19canon(srt)), "theorem C19_sort_perm / C19_sort_sorted (implementation-only oracle)")
				}
			}
		}
		// length = loop iterations; first / last = first / last loop element
		if v.K == "list" || v.K == "map" {
			res := renderSrc("{{ v|length }}\x1e{% for x in v %}\x1f{{ x }}{% endfor %}\x1e{{ v|first }}", map[string]any{"v": gv})
			p := strings.Split(res.Out, "\x1e")
			if res.Class != "" || len(p) != 3 {
				viol("length-loop", fmt.Sprintf("length/for/first of %s do not render: %s", v.short(), res.Class), "theorem C19_length_items (implementation-only oracle)")
			} else {
				elems := strings.Split(p[1], "\x1f")[1:]
				if strconv.Itoa(len(elems)) != p[0] {
					viol("length-loop", fmt.Sprintf("%s|length = %s but the for loop runs %d times", v.short(), p[0], len(elems)), "theorem C19_length_items (implementation-only oracle)")
				}
				if len(elems) > 0 && p[2] != elems[0] {
					viol("first-last-loop", fmt.Sprintf("%s|first = %q, the loop starts with %q", v.short(), p[2], elems[0]), "theorem C19_first_items (implementation-only oracle)")
				}
				if v.K == "list" {
					last := renderSrc("{{ v|last }}", map[string]any{"v": gv})
					if len(elems) > 0 && (last.Class != "" || last.Out != elems[len(elems)-1]) {
						viol("first-last-loop", fmt.Sprintf("%s|last = %q, the loop ends with %q", v.short(), last.Out, elems[len(elems)-1]), "theorem C19_last_items_list (implementation-only oracle)")
					}
				}
			}
			r.Hit("length-loop-checked")
		}
		return nil
	}
	// exhaustive small generic lists over six scalars
	pool := []f19v{f19int(3), f19str("1"), f19str("10"), f19int(2), f19str(""), f19null()}
	var rec func(prefix []f19v, depth int) error
	rec = func(prefix []f19v, depth int) error {
		if err := one(f19list("any", false, append([]f19v{}, prefix...)...), "list-exhaustive"); err != nil {
			return err
		}
		if depth == e.N(3, 4) {
			return nil
		}
		for _, x := range pool {
			if err := rec(append(prefix, x), depth+1); err != nil {
				return err
			}
		}
		return nil
	}
	if err := rec(nil, 0); err != nil {
		return err
	}
	n := e.N(2500, 60000)
	for i := 0; i < n; i++ {
		v := f19anyContainer(e, 6)
		if i < 2 {
			r.Sample(map[string]any{"kind": "container", "v": v.short()})
		}
		if err := one(v, "container-random:"+v.K+":"+v.Ty); err != nil {
			return err
		}
	}
	for _, v := range []f19v{f19null(), f19int(5), f19bool(false), f19dec(false, "5", 1)} {
		if err := one(v, "container-filter-on-scalar"); err != nil {
			return err
		}
	}
	// maps with non-string keys: keys lists every key once, in numeric order (implementation only)
	im := map[int]string{10: "x", 9: "y", -1: "z", 100: "w"}
	res, class, _ := f19call("keys", im)
	if err := lv.flush(); err != nil {
		return err
	}
	if class != "" || f19canon(res) != "list:any:false[int:"+hx("-1")+",int:"+hx("9")+",int:"+hx("10")+",int:"+hx("100")+"]" {
		f19violate(r, Violation{Key: "keys-int-map", What: "keys of map[int]string = " + f19canon(res), Broken: "theorem C19_keys_once (implementation-only oracle)", Replay: map[string]any{"kind": "keys-int-map"}})
	}
	return b.flush()
}

// f19goToString mirrors extension.go toString on the scalar types the harness generates.
func f19goToString(x any) string {
	switch t := x.(type) {
	case nil:
		return ""
	case string:
		return t
	case int:
		return strconv.Itoa(t)
	case float64:
		return strconv.FormatFloat(t+0, 'f', -1, 64)
	case bool:
		return strconv.FormatBool(t)
	}
	return fmt.Sprint(x)
}

func f19joinSplit(e *Env) error {
	r := e.Rep
	b := &f19batch{e: e}
	seps := []f19v{f19str(""), f19str(","), f19str(" "), f19str("|"), f19str(", "), f19str("ab"), f19str("é"), f19str("\xff"), f19str(",,"), f19str("\x80"), f19int(1), f19null(),
		// characters that mean something inside a regular-expression character class
		f19str("a-c"), f19str("z-a"), f19str("-,"), f19str(",-"), f19str("^a"), f19str("]["), f19str("\\d"), f19str("a]"), f19str("[:alpha:]"), f19str(".*"), f19str("\xff\xfe")}
	words := []string{"a", "b,", "", "é", ",", "x y", "ab", "c|d", "\xff", "a,b", " "}
	n := e.N(3000, 60000)
	for i := 0; i < n; i++ {
		var v f19v
		switch e.Rng.Intn(5) {
		case 0:
			v = f19anyContainer(e, 5)
		case 1:
			v = f19randScalar(e)
		default:
			k := e.Rng.Intn(6)
			items := make([]f19v, k)
			for j := range items {
				items[j] = f19str(pick(e.Rng, words))
			}
			v = f19list(pick(e.Rng, []string{"any", "str"}), false, items...)
		}
		sep := pick(e.Rng, seps)
		args := []f19v{sep}
		if e.Rng.Intn(8) == 0 {
			args = nil
		}
		if v.K != "map" {
			if err := b.add(f19case{F: "join", V: v, Args: args, Tag: "join"}); err != nil {
				return err
			}
		}
		// split the joined string again
		joined, class, _ := f19call("join", v.goVal(), f19goArgs(args)...)
		js, ok := joined.(string)
		if class != "" || !ok {
			continue
		}
		sargs := args
		if e.Rng.Intn(6) == 0 {
			sargs = append(append([]f19v{}, args...), f19int(int64(e.Rng.Intn(4)-1)))
		}
		if len(sargs) > 0 {
			if err := b.add(f19case{F: "split", V: f19str(js), Args: sargs, Tag: "split"}); err != nil {
				return err
			}
		}
		// implementation-only: the round trip on the theorem's domain
		if v.K == "list" && len(v.Items) > 0 && sep.K == "str" && len(sep.S) == 1 && len(args) == 1 {
			free := true
			for _, it := range v.Items {
				if strings.Contains(f19goToString(it.goVal()), sep.S) {
					free = false
				}
			}
			if free {
				back, class, _ := f19call("split", js, sep.S)
				want := make([]string, len(v.Items))
				for j, it := range v.Items {
					want[j] = "str:" + hx(f19goToString(it.goVal()))
				}
				r.Hit("split-join-roundtrip-checked")
				if class != "" || f19canon(back) != "list:str:false["+strings.Join(want, ",")+"]" {
					f19violate(r, Violation{Key: "split-join-roundtrip", What: fmt.Sprintf("split(join(%s, %q), %q) = %s", v.short(), sep.S, sep.S, f19canon(back)),
						Broken: "theorem C19_split_join (implementation-only oracle)", Replay: map[string]any{"kind": "split-join", "v": v.model(), "sep_hex": hx(sep.S)}})
				}
			}
		}
	}
	// the two recorded exceptions of the round trip (known findings): one violation each, every run,
	// as long as the code behaves this way
	jm, _, _ := f19call("join", []interface{}{"a b", "c"}, ", ")
	back, _, _ := f19call("split", jm, ", ")
	if f19canon(back) != "list:str:false[str:"+hx("a b")+",str:"+hx("c")+"]" {
		c := f19case{F: "split", V: f19str("a b, c"), Args: []f19v{f19str(", ")}}
		f19violate(r, Violation{Key: "split-multichar-separator", What: fmt.Sprintf("['a b','c']|join(', ')|split(', ') = %s: a separator of several characters splits at each of them", f19canon(back)),
			Broken: "full-strength statement Twig.C19.SplitJoinTotal; proved: C19_split_join (one-byte separator), refuted on the model by C19_split_join_counterexample_multichar (implementation-only oracle)",
			Replay: map[string]any{"kind": "filter", "case": c.replay(), "text": c.String(), "impl": f19canon(back)}})
	} else {
		r.Note("split with a multi-character separator now round-trips: C19_split_join_counterexample_multichar and the known finding split-multichar-separator are stale")
	}
	j, _, _ := f19call("join", []interface{}{}, ",")
	back, _, _ = f19call("split", j, ",")
	if f19canon(back) != "list:any:false[]" && f19canon(back) != "list:str:false[]" {
		c := f19case{F: "join", V: f19list("any", false), Args: []f19v{f19str(",")}}
		f19violate(r, Violation{Key: "split-of-empty-join", What: fmt.Sprintf("[]|join(',')|split(',') = %s, not the empty list", f19canon(back)),
			Broken: "full-strength statement Twig.C19.SplitJoinTotal; proved: C19_split_join (non-empty list), refuted on the model by C19_split_join_counterexample_empty (implementation-only oracle)",
			Replay: map[string]any{"kind": "filter", "case": c.replay(), "text": c.String(), "impl": f19canon(back)}})
	} else {
		r.Note("[]|join|split now gives the empty list: C19_split_join_counterexample_empty and the known finding split-of-empty-join are stale")
	}
	return b.flush()
}

func f19goArgs(args []f19v) []any {
	out := make([]any, len(args))
	for i, a := range args {
		out[i] = a.goVal()
	}
	return out
}

func f19defaults(e *Env) error {
	r := e.Rep
	b := &f19batch{e: e}
	zoo := []f19v{f19null(), f19str(""), f19str("0"), f19str(" "), f19str("a"), f19bool(false), f19bool(true), f19int(0), f19int(1), f19int(-1),
		f19dec(false, "0", 0), f19dec(true, "0", 1), f19dec(false, "5", 1), f19list("any", false), f19list("any", false, f19int(0)), f19list("int", false),
		f19list("int", true), f19list("str", false), f19list("str", false, f19str("")), f19map("any", nil, nil), f19map("any", []string{"a"}, []f19v{f19null()}),
		f19map("int", nil, nil), f19map("str", []string{""}, []f19v{f19str("")}), f19list("any", false, f19null())}
	ds := []f19v{f19str("D"), f19null(), f19int(0), f19list("any", false, f19int(1), f19int(2)), f19map("any", []string{"k"}, []f19v{f19int(1)})}
	for _, v := range zoo {
		if err := b.add(f19case{F: "default", V: v, Tag: "default"}); err != nil {
			return err
		}
		for _, d := range ds {
			if err := b.add(f19case{F: "default", V: v, Args: []f19v{d}, Tag: "default"}); err != nil {
				return err
			}
			if err := b.add(f19case{F: "default", V: v, Args: []f19v{d, f19str("ignored")}, Tag: "default"}); err != nil {
				return err
			}
		}
		// implementation-only: default replaces exactly what the `empty` test accepts (and undefined)
		res := renderSrc("{% if v is empty %}E{% else %}N{% endif %}|{{ v|default('\x1d') }}|{{ undefined_variable|default('\x1d') }}|{{ v.nope|default('\x1d') }}", map[string]any{"v": v.goVal()})
		p := strings.Split(res.Out, "|")
		r.Hit("default-empty-checked")
		if res.Class != "" || len(p) != 4 {
			f19violate(r, Violation{Key: "default-empty", What: fmt.Sprintf("default/empty on %s does not render: %s %q", v.short(), res.Class, res.Out), Broken: "theorem C19_default_spec (implementation-only oracle)",
				Replay: map[string]any{"kind": "default", "v": v.model()}})
			continue
		}
		replaced := p[1] == "\x1d"
		if (p[0] == "E") != replaced || p[2] != "\x1d" {
			f19violate(r, Violation{Key: "default-empty", What: fmt.Sprintf("%s: `is empty` says %s, default replaced=%v, undefined→%q", v.short(), p[0], replaced, p[2]),
				Broken: "theorem C19_default_spec (implementation-only oracle)", Replay: map[string]any{"kind": "default", "v": v.model(), "out": res.Out}})
		}
	}
	// every Go number type a context can hold: a zero of any of them is empty (replaced by default), a non-zero is not
	for _, tv := range []struct {
		zero, one any
	}{{int(0), int(1)}, {int8(0), int8(1)}, {int16(0), int16(-1)}, {int32(0), int32(7)}, {int64(0), int64(1) << 40}, {uint(0), uint(1)}, {uint8(0), uint8(255)}, {uint16(0), uint16(1)},
		{uint32(0), uint32(1)}, {uint64(0), uint64(1) << 63}, {float32(0), float32(0.5)}, {float64(0), float64(-2)}, {uintptr(0), uintptr(1)}} {
		for zi, v := range []any{tv.zero, tv.one} {
			res := renderSrc("{% if v is empty %}E{% else %}N{% endif %}|{{ v|default('\x1d') }}|{% if v %}T{% else %}F{% endif %}|{{ [v]|first|default('\x1d') }}", map[string]any{"v": v})
			want := "N|" + fmt.Sprint(v) + "|T|" + fmt.Sprint(v)
			if zi == 0 {
				want = "E|\x1d|F|\x1d"
			}
			r.Seen(fmt.Sprintf("default-kind:%T:%d", v, zi), true)
			r.Hit("default-number-kinds")
			if res.Class != "" || res.Out != want {
				f19violate(r, Violation{Key: "default-empty", What: fmt.Sprintf("%T(%v): `is empty` | default | truth | default of an element render %q (%s), expected %q", v, v, res.Out, res.Class, want),
					Broken: "theorem C19_default_spec (implementation-only oracle over Go number kinds)", Replay: map[string]any{"kind": "default-kind", "type": fmt.Sprintf("%T", v), "value": fmt.Sprint(v), "got": res.Out, "want": want}})
			}
		}
	}
	return b.flush()
}

func f19mergeKeys(e *Env) error {
	r := e.Rep
	b := &f19batch{e: e}
	n := e.N(3000, 60000)
	for i := 0; i < n; i++ {
		v := f19anyContainer(e, 4)
		if e.Rng.Intn(12) == 0 {
			v = f19randScalar(e)
		}
		na := e.Rng.Intn(3)
		if e.Rng.Intn(4) > 0 && na == 0 {
			na = 1
		}
		args := make([]f19v, na)
		for j := range args {
			switch e.Rng.Intn(6) {
			case 0:
				args[j] = f19randScalar(e)
			case 1:
				args[j] = f19anyContainer(e, 3)
			default: // same shape as the base
				if v.Ty == "" {
					v.Ty = "any"
				}
				if v.K == "map" {
					args[j] = f19randMap(e, pick(e.Rng, []string{"any", "int", "str", v.Ty, v.Ty}), e.Rng.Intn(4))
				} else {
					args[j] = f19randList(e, pick(e.Rng, []string{"any", "int", "str", v.Ty, v.Ty}), e.Rng.Intn(3) == 0, e.Rng.Intn(4))
				}
			}
		}
		c := f19case{F: "merge", V: v, Args: args, Tag: "merge:" + v.K}
		if err := b.add(c); err != nil {
			return err
		}
		// implementation-only: lists concatenate, later maps win
		res, class, detail := f19call("merge", v.goVal(), f19goArgs(args)...)
		if class != "" {
			f19violate(r, Violation{Key: "merge-fails", What: fmt.Sprintf("%s: %s %s", c, class, truncate(detail, 100)), Broken: "theorem C19_merge_lists / C19_merge_maps (implementation-only oracle)",
				Replay: map[string]any{"kind": "filter", "case": c.replay(), "text": c.String()}})
			continue
		}
		allLists, allMaps := v.K == "list", v.K == "map"
		for _, a := range args {
			allLists = allLists && a.K == "list"
			allMaps = allMaps && a.K == "map"
		}
		if allLists {
			var want []string
			for _, x := range append([]f19v{v}, args...) {
				for _, it := range x.Items {
					want = append(want, f19canon(it.goVal()))
				}
			}
			rv := reflect.ValueOf(res)
			got := make([]string, rv.Len())
			for j := range got {
				got[j] = f19canon(rv.Index(j).Interface())
			}
			r.Hit("merge-lists-checked")
			if strings.Join(got, ",") != strings.Join(want, ",") {
				f19violate(r, Violation{Key: "merge-lists", What: fmt.Sprintf("%s = %s", c, f19canon(res)), Broken: "theorem C19_merge_lists (implementation-only oracle)",
					Replay: map[string]any{"kind": "filter", "case": c.replay(), "text": c.String(), "impl": f19canon(res)}})
			}
		}
		if allMaps {
			want := map[string]string{}
			for _, x := range append([]f19v{v}, args...) {
				for j, k := range x.Keys {
					want[k] = f19canon(x.Items[j].goVal())
				}
			}
			rv := reflect.ValueOf(res)
			ok := rv.Kind() == reflect.Map && rv.Len() == len(want)
			if ok {
				for _, k := range rv.MapKeys() {
					if want[k.String()] != f19canon(rv.MapIndex(k).Interface()) {
						ok = false
					}
				}
			}
			r.Hit("merge-maps-checked")
			if !ok {
				f19violate(r, Violation{Key: "merge-maps", What: fmt.Sprintf("%s = %s", c, f19canon(res)), Broken: "theorem C19_merge_maps (implementation-only oracle)",
					Replay: map[string]any{"kind": "filter", "case": c.replay(), "text": c.String(), "impl": f19canon(res)}})
			}
			// keys of the result: every key once, sorted
			ks, class, _ := f19call("keys", res)
			kv := reflect.ValueOf(ks)
			seen := map[string]bool{}
			good := class == "" && kv.Kind() == reflect.Slice && kv.Len() == len(want)
			prev := ""
			for j := 0; good && j < kv.Len(); j++ {
				k := f19goToString(kv.Index(j).Interface())
				if seen[k] || (j > 0 && k < prev) {
					good = false
				}
				if _, in := want[k]; !in {
					good = false
				}
				seen[k] = true
				prev = k
			}
			r.Hit("keys-once-checked")
			if !good {
				f19violate(r, Violation{Key: "keys-once", What: fmt.Sprintf("keys(%s) = %s", c, f19canon(ks)), Broken: "theorem C19_keys_once (implementation-only oracle)",
					Replay: map[string]any{"kind": "filter", "case": c.replay(), "text": c.String(), "impl": f19canon(ks)}})
			}
		}
	}
	return b.flush()
}

// f19numbers: abs, round, number_format on the decimal grid.
func f19numbers(e *Env) error {
	r := e.Rep
	b := &f19batch{e: e}
	var pipe []any
	var pipeText []string
	check := func(v f19v, tag string) error {
		if err := b.add(f19case{F: "abs", V: v, Tag: tag}); err != nil {
			return err
		}
		var x *big.Rat
		switch v.K {
		case "float":
			x = v.rat()
		case "int":
			x = new(big.Rat).SetInt64(v.I)
		}
		exact := x != nil
		if exact {
			res, class, _ := f19call("abs", v.goVal())
			f, ok := res.(float64)
			sign, ip, fp := "", "", ""
			if ok {
				ax := new(big.Rat).Abs(x)
				n := new(big.Rat).Mul(ax, new(big.Rat).SetInt(new(big.Int).Exp(big.NewInt(10), big.NewInt(int64(v.E)), nil)))
				sign, ip, fp = f19fixed(n.Num(), v.E)
			}
			r.Hit("abs-exact-checked")
			if class != "" || !ok || strconv.FormatFloat(f+0, 'f', -1, 64) != f19trimDec(sign, ip, fp) {
				f19violate(r, Violation{Key: "abs-exact", What: fmt.Sprintf("%s|abs = %v", v.short(), res), Broken: "theorem C19_abs_exact (implementation-only oracle)",
					Replay: map[string]any{"kind": "number", "v": v.model()}})
			}
		}
		for p := 0; p <= e.N(3, 5); p++ {
			args := []f19v{f19int(int64(p))}
			if p == 0 && e.Rng.Intn(2) == 0 {
				args = nil
			}
			cr := f19case{F: "round", V: v, Args: args, Tag: tag}
			if err := b.add(cr); err != nil {
				return err
			}
			nfArgs := args
			switch e.Rng.Intn(4) {
			case 0:
				nfArgs = []f19v{f19int(int64(p)), f19str(","), f19str(".")}
			case 1:
				nfArgs = []f19v{f19int(int64(p)), f19str("."), f19str("")}
			case 2:
				nfArgs = []f19v{f19int(int64(p)), f19str("·"), f19str("' ")}
			}
			cn := f19case{F: "number_format", V: v, Args: nfArgs, Tag: tag}
			if err := b.add(cn); err != nil {
				return err
			}
			if p == 0 {
				// a number of decimals outside what can be printed: negative means none, more than a million is an error
				for _, d := range []int64{-1, -3, -9223372036854775807, 1000001, 9223372036854775807} {
					if err := b.add(f19case{F: "number_format", V: v, Args: []f19v{f19int(d), f19str("."), f19str(",")}, Tag: tag}); err != nil {
						return err
					}
				}
			}
			if v.K == "float" && len(v.M)+p <= 15 {
				pipe = append(pipe, map[string]any{"m": v.M, "k": v.E, "p": p})
				pipeText = append(pipeText, fmt.Sprintf("%s p=%d", v.decString(), p))
			}
			// the decimal grid: x·10^p must still have at most 15 significant digits
			sig := len(strings.TrimLeft(v.M, "0"))
			if v.K == "int" {
				sig = len(strconv.FormatInt(v.I, 10))
			}
			if p > v.E {
				sig += p - v.E
			}
			if !exact || sig > 15 || (v.K == "float" && v.Neg && strings.Trim(v.M, "0") == "") {
				continue // -0.0 is not a number of the decimal grid
			}
			// implementation-only: exact decimal arithmetic, ties away from zero
			n := f19refRound(x, p)
			sign, ip, fp := f19fixed(n, p)
			wantRound := f19trimDec(sign, ip, fp)
			if n.Sign() == 0 {
				wantRound = "0"
			}
			res, class, _ := f19call("round", v.goVal(), f19goArgs(args)...)
			got := f19goToString(res)
			r.Hit("round-exact-checked")
			if class != "" || got != wantRound {
				if f19violate(r, Violation{Key: "round-decimal", What: fmt.Sprintf("%s = %s, exact decimal arithmetic gives %s", cr, got, wantRound),
					Broken: "theorem C19_round_exact (round = exact decimal arithmetic, ties away from zero) no longer describes the code (implementation-only oracle)",
					Replay: map[string]any{"kind": "filter", "case": cr.replay(), "text": cr.String(), "impl": got, "reference": wantRound}}) {
					return nil
				}
			}
			for _, meth := range []string{"ceil", "floor"} {
				y := new(big.Rat).Mul(x, new(big.Rat).SetInt(new(big.Int).Exp(big.NewInt(10), big.NewInt(int64(p)), nil)))
				q := new(big.Int).Div(y.Num(), y.Denom()) // floor
				if meth == "ceil" && !y.IsInt() {
					q.Add(q, big.NewInt(1))
				}
				s1, i1, f1 := f19fixed(q, p)
				want := f19trimDec(s1, i1, f1)
				if q.Sign() == 0 {
					want = "0"
				}
				cm := f19case{F: "round", V: v, Args: []f19v{f19int(int64(p)), f19str(meth)}, Tag: tag}
				if err := b.add(cm); err != nil {
					return err
				}
				res, class, _ := f19call("round", v.goVal(), p, meth)
				got := f19goToString(res)
				r.Hit("round-ceil-floor-checked")
				if class != "" || got != want {
					f19violate(r, Violation{Key: "round-" + meth + "-decimal", What: fmt.Sprintf("%s|round(%d, '%s') = %s, exact decimal arithmetic gives %s", v.short(), p, meth, got, want),
						Broken: "theorem C19_round_mode_exact (round with method ceil/floor = exact decimal arithmetic) no longer describes the code (implementation-only oracle)",
						Replay: map[string]any{"kind": "round-method", "v": v.model(), "precision": p, "method": meth, "impl": got, "reference": want}})
				}
			}
			decPoint, sep := ".", ","
			if len(nfArgs) == 3 {
				decPoint, sep = nfArgs[1].S, nfArgs[2].S
			}
			wantNF := sign
			if n.Sign() == 0 {
				wantNF = ""
			}
			wantNF += f19refGroup(ip, sep)
			if p > 0 {
				wantNF += decPoint + fp
			}
			res, class, _ = f19call("number_format", v.goVal(), f19goArgs(nfArgs)...)
			got = f19goToString(res)
			r.Hit("number-format-exact-checked")
			if class != "" || got != wantNF {
				key := "number-format-decimal"
				if f19isTie(x, p) {
					key = "number-format-decimal-tie" // known finding: %.nf rounds the binary value
				} else if strings.HasPrefix(got, "-") && n.Sign() == 0 {
					key = "number-format-negative-zero"
				}
				if f19violate(r, Violation{Key: key, What: fmt.Sprintf("%s = %s, exact decimal arithmetic gives %s", cn, got, wantNF),
					Broken: "full-strength statement Twig.C19.NumberFormatExact (number_format = exact decimal arithmetic); proved: C19_number_format_exact_partial, refuted on the model by C19_number_format_counterexample (implementation-only oracle)",
					Replay: map[string]any{"kind": "filter", "case": cn.replay(), "text": cn.String(), "impl": got, "reference": wantNF}}) {
					return nil
				}
			}
		}
		return nil
	}
	// the grid: every m/10^k for small m (all ties included), both signs
	maxM := e.N(400, 2500)
	for k := 0; k <= e.N(3, 4); k++ {
		for m := 0; m <= maxM; m++ {
			for _, neg := range []bool{false, true} {
				if err := check(f19dec(neg, strconv.Itoa(m), k), "number-grid"); err != nil {
					return err
				}
			}
		}
	}
	// larger magnitudes, thousands groups, ties with long integer parts, integers up to ±2^53
	special := []f19v{f19int(0), f19int(1), f19int(-1), f19int(999), f19int(1000), f19int(-1000), f19int(1234567), f19int(-123456789), f19int(1 << 53), f19int(-(1 << 53)), f19int(1<<53 - 1),
		f19dec(false, "9995", 1), f19dec(false, "99995", 2), f19dec(false, "1234567891", 3), f19dec(true, "1234567891", 3), f19dec(false, "1005", 3), f19dec(false, "2675", 3), f19dec(false, "8345", 3),
		f19dec(false, "1000000", 0), f19dec(false, "9007199254740992", 0), f19dec(false, "123456789012345", 0), f19dec(false, "1234567890123455", 1), f19dec(false, "5", 1), f19dec(false, "15", 1), f19dec(false, "25", 1),
		f19dec(false, "125", 3), f19dec(false, "375", 3), f19dec(true, "4", 1), f19dec(true, "4", 2), f19dec(true, "0", 0), f19dec(false, "4999999999999", 13), f19dec(false, "45", 2), f19dec(false, "999999999999995", 1)}
	for _, v := range special {
		if err := check(v, "number-special"); err != nil {
			return err
		}
	}
	n := e.N(1500, 40000)
	for i := 0; i < n; i++ {
		digits := 1 + e.Rng.Intn(15)
		var sb strings.Builder
		sb.WriteByte(byte('1' + e.Rng.Intn(9)))
		for j := 1; j < digits; j++ {
			sb.WriteByte(byte('0' + e.Rng.Intn(10)))
		}
		m := sb.String()
		if e.Rng.Intn(3) == 0 { // force a tie at some precision
			m = m[:len(m)-1] + "5"
		}
		k := e.Rng.Intn(7)
		if err := check(f19dec(e.Rng.Intn(2) == 0, m, k), "number-random"); err != nil {
			return err
		}
	}
	// non-numeric inputs are returned unchanged; numeric strings are parsed
	for _, v := range []f19v{f19null(), f19str("x"), f19str(""), f19str("12.5"), f19str("-0.5"), f19str("+3"), f19str(".5"), f19str("5."), f19str("1e3"), f19str("0x10"), f19str("1_000"), f19str(" 1"),
		f19str("inf"), f19str("NaN"), f19bool(true), f19bool(false), f19list("any", false, f19int(1)), f19map("any", nil, nil), f19str("12abc"), f19str("--1"), f19str("1.2.3")} {
		for _, f := range []string{"abs", "round", "number_format"} {
			if err := b.add(f19case{F: f, V: v, Tag: "number-nonnumeric"}); err != nil {
				return err
			}
			if err := b.add(f19case{F: f, V: v, Args: []f19v{f19int(1)}, Tag: "number-nonnumeric"}); err != nil {
				return err
			}
		}
	}
	// argument conversions
	for _, a := range []f19v{f19str("2"), f19dec(false, "29", 1), f19null(), f19str("x"), f19bool(true), f19int(-1), f19int(16), f19list("any", false)} {
		for _, f := range []string{"round", "number_format"} {
			if err := b.add(f19case{F: f, V: f19dec(false, "123456", 3), Args: []f19v{a}, Tag: "number-args"}); err != nil {
				return err
			}
		}
	}
	for _, meth := range []string{"common", "COMMON", "ceil", "floor", "Ceiling", "x"} {
		if err := b.add(f19case{F: "round", V: f19dec(false, "125", 2), Args: []f19v{f19int(1), f19str(meth)}, Tag: "number-args"}); err != nil {
			return err
		}
	}
	if err := b.flush(); err != nil {
		return err
	}
	// the model's hybrid evaluation against its own full binary64 pipeline
	if e.Model != nil && len(pipe) > 0 {
		for off := 0; off < len(pipe); off += 2000 {
			end := off + 2000
			if end > len(pipe) {
				end = len(pipe)
			}
			resp, err := e.Model.Call(map[string]any{"op": "filters_numpipe", "cases": pipe[off:end]})
			if err != nil {
				return err
			}
			for i, x := range resp["res"].([]any) {
				m := x.(map[string]any)
				r.Hit("numpipe-checked")
				if m["round"] != m["spec"] || m["fixed"] != m["fixed_pipe"] {
					f19violate(r, Violation{Key: "model-numpipe", What: fmt.Sprintf("model: digit-string round vs spec, or exact-off-ties %%.nf vs binary64 pipeline, differ on %s: %v", pipeText[off+i], m),
						Broken: "modelling assumption of TwigModel.Filters.Num (binary evaluation cannot cross a rounding boundary away from ties)", Replay: map[string]any{"kind": "numpipe", "case": pipe[off+i], "model": m}})
				}
			}
		}
	}
	return nil
}

func f19isTie(x *big.Rat, p int) bool {
	scale := new(big.Rat).SetInt(new(big.Int).Exp(big.NewInt(10), big.NewInt(int64(p)), nil))
	y := new(big.Rat).Mul(x, scale)
	y.Mul(y, big.NewRat(2, 1))
	return y.IsInt() && y.Num().Bit(0) == 1
}

// f19templates: a sample of every filter through rendered templates (argument evaluation, literal
// arguments, the printer, the for-loop view).
func f19templates(e *Env) error {
	r := e.Rep
	n := e.N(2500, 40000)
	for i := 0; i < n; i++ {
		var c f19case
		switch e.Rng.Intn(12) {
		case 0:
			c = f19case{F: pick(e.Rng, f19strFilters), V: f19str(f19randString(e, f19safeLetters, 6))}
		case 1:
			v := f19str(f19randString(e, f19safeLetters, 6))
			if e.Rng.Intn(2) == 0 {
				v = f19anyContainer(e, 5)
			}
			args := []f19v{f19int(int64(e.Rng.Intn(17) - 8))}
			switch e.Rng.Intn(3) {
			case 0:
				args = append(args, f19int(int64(e.Rng.Intn(17)-8)))
			case 1:
				args = append(args, f19null())
			}
			c = f19case{F: "slice", V: v, Args: args}
		case 2:
			c = f19case{F: pick(e.Rng, []string{"reverse", "sort", "length", "first", "last", "keys"}), V: f19anyContainer(e, 5)}
		case 3:
			c = f19case{F: "join", V: f19randList(e, pick(e.Rng, []string{"any", "int", "str"}), e.Rng.Intn(3) == 0, e.Rng.Intn(5)), Args: []f19v{f19str(pick(e.Rng, []string{",", "", " ", ", ", "é"}))}}
		case 4:
			c = f19case{F: "split", V: f19str(f19randString(e, []string{"a", "b", ",", " ", "é", "|"}, 8)), Args: []f19v{f19str(pick(e.Rng, []string{",", " ", ", ", "|"}))}}
		case 5:
			c = f19case{F: "default", V: pick(e.Rng, []f19v{f19null(), f19str(""), f19int(0), f19str("x"), f19list("any", false), f19bool(false), f19int(7), f19list("int", false, f19int(1))}),
				Args: []f19v{pick(e.Rng, []f19v{f19str("D"), f19int(5), f19list("any", false, f19int(1), f19int(2))})}}
		case 6:
			v := f19anyContainer(e, 4)
			var a f19v
			if v.K == "map" {
				a = f19randMap(e, pick(e.Rng, []string{"any", "int", "str"}), e.Rng.Intn(3))
			} else {
				a = f19randList(e, pick(e.Rng, []string{"any", "int", "str"}), false, e.Rng.Intn(3))
			}
			c = f19case{F: "merge", V: v, Args: []f19v{a}}
		case 7, 8:
			v := f19dec(e.Rng.Intn(2) == 0, strconv.Itoa(e.Rng.Intn(100000)), e.Rng.Intn(4))
			if e.Rng.Intn(4) == 0 {
				v = f19int(int64(e.Rng.Intn(2000001) - 1000000))
			}
			f := pick(e.Rng, []string{"abs", "round", "number_format"})
			var args []f19v
			if f != "abs" && e.Rng.Intn(3) > 0 {
				args = []f19v{f19int(int64(e.Rng.Intn(4)))}
				if f == "number_format" && e.Rng.Intn(2) == 0 {
					args = append(args, f19str(","), f19str("."))
				}
			}
			c = f19case{F: f, V: v, Args: args}
		default:
			c = f19case{F: pick(e.Rng, []string{"upper", "lower", "capitalize", "title", "trim", "reverse"}), V: f19str(f19randString(e, f19safeLetters, 12))}
		}
		if i < 2 {
			r.Sample(map[string]any{"kind": "template", "expr": c.String()})
		}
		if err := f19viaTemplate(e, c, e.Rng.Intn(2) == 0); err != nil {
			return err
		}
	}
	return nil
}

// letters that survive the default output escaping unchanged
var f19safeLetters = []string{"a", "b", "Z", "q", " ", "-", "1", "é", "É", "ß", "ǆ", "€", "世", "😀", " ", " ", "\x80", "\xc3", "\xff", ","}

// f19siblings: two values derived from one base by list filters do not influence each other or the base: deriving
// both in one template (the base bound once) gives what deriving each from a fresh base gives.
func f19siblings(e *Env) error {
	r := e.Rep
	spareI := make([]interface{}, 3, 16)
	copy(spareI, []interface{}{"p", "q", "r"})
	spareS := make([]string, 2, 9)
	copy(spareS, []string{"m", "n"})
	mkctx := func() map[string]any {
		a := make([]interface{}, 3, 16)
		copy(a, spareI)
		b := make([]string, 2, 9)
		copy(b, spareS)
		return map[string]any{"xs": a, "ss": b, "is": []int{5, 6, 7}, "m": map[string]interface{}{"x": 1, "y": 2}}
	}
	// two results of the SAME filter on different inputs, both kept: the second call must not reach into the first result
	for _, f := range []string{"keys", "sort", "reverse", "slice(0, 2)", "merge(['t'])", "split(',')", "first", "last", "join(',')|split(',')", "keys|sort", "keys|reverse", "column('k')", "batch(2)", "map(v => v)", "filter(v => v)"} {
		for _, in := range [][2]string{{"{'x': 1, 'y': 2, 'z': 3}", "{'p': 1, 'q': 2, 'z': 3}"}, {"['c', 'a', 'b']", "['f', 'e', 'd', 'g']"}, {"'x,y,z'", "'p,q,z,w'"}, {"m", "{'u': 1, 'v': 2}"}, {"xs", "ss"}} {
			both := "{% set a = " + in[0] + "|" + f + " %}{% set b = " + in[1] + "|" + f + " %}{% set c = " + in[0] + "|" + f + " %}{{ a|json_encode|raw }}\x1e{{ b|json_encode|raw }}\x1e{{ c|json_encode|raw }}\x1e{{ a|json_encode|raw }}"
			sep := "{{ (" + in[0] + "|" + f + ")|json_encode|raw }}\x1e{{ (" + in[1] + "|" + f + ")|json_encode|raw }}\x1e{{ (" + in[0] + "|" + f + ")|json_encode|raw }}\x1e{{ (" + in[0] + "|" + f + ")|json_encode|raw }}"
			x, y := renderSrc(both, mkctx()), renderSrc(sep, mkctx())
			r.Seen("kept:"+f+"|"+in[0], x.Class == "")
			r.Hit("kept-results")
			if x.Class != y.Class || x.Out != y.Out {
				if r.Violate(Violation{Key: "sibling-results-influence-each-other", What: fmt.Sprintf("a = %s|%s kept while b = %s|%s is computed: %q (%s), each computed alone %q (%s)", in[0], f, in[1], f, x.Out, x.Class, y.Out, y.Class),
					Broken: "C19 filter semantics are functions of their input (implementation-only metamorphic oracle)", Replay: map[string]any{"kind": "src", "src": both, "separately": sep, "got": x.Out, "want": y.Out}}) {
					return nil
				}
			}
		}
	}
	bases := []string{"[1, 2, 3]|merge([4])", "[1, 2, 3, 4, 5]|slice(0, 3)", "range(1, 4)", "'a,b,c'|split(',')", "[3, 1, 2]|sort", "{'x': 1, 'y': 2}|keys", "[1, 2, 3]|reverse",
		"xs", "xs|slice(0, 2)", "ss", "ss|merge(['t'])", "is", "is|slice(1, 2)", "m|keys", "xs|merge(ss)", "[1, 2]|merge([3])|merge([4])|slice(0, 3)"}
	ops := []string{"merge(['L'])", "merge(['R'])", "merge([9, 9, 9, 9, 9])", "reverse", "sort", "slice(0, 2)|merge(['S'])", "merge([1])|merge([2])", "slice(1)"}
	for _, b := range bases {
		for _, f := range ops {
			for _, g := range ops {
				if f == g || r.Full() {
					continue
				}
				both := "{% set base = " + b + " %}{% set l = base|" + f + " %}{% set r = base|" + g + " %}{{ l|json_encode|raw }}\x1e{{ r|json_encode|raw }}\x1e{{ base|json_encode|raw }}\x1e{{ l|json_encode|raw }}"
				sep := "{{ (" + b + ")|" + f + "|json_encode|raw }}\x1e{{ (" + b + ")|" + g + "|json_encode|raw }}\x1e{{ (" + b + ")|json_encode|raw }}\x1e{{ (" + b + ")|" + f + "|json_encode|raw }}"
				x, y := renderSrc(both, mkctx()), renderSrc(sep, mkctx())
				r.Seen("sib:"+b+"|"+f+"|"+g, true)
				r.Hit("sibling-derivations")
				if x.Class != y.Class || x.Out != y.Out {
					if r.Violate(Violation{Key: "sibling-results-influence-each-other", What: fmt.Sprintf("base = %s; base|%s and base|%s derived side by side give %q (%s), each from a fresh base %q (%s)", b, f, g, x.Out, x.Class, y.Out, y.Class),
						Broken: "C19 filter semantics are functions of their input (implementation-only metamorphic oracle; Flt.merge/slice are pure in the model)",
						Replay: map[string]any{"kind": "src", "src": both, "separately": sep, "got": x.Out, "want": y.Out}}) {
						return nil
					}
				}
			}
		}
	}
	return nil
}
