package main

import (
	"fmt"
	"strings"
)

// C10 — template inheritance is block substitution along the extends chain.

func init() { register("C10", runC10) }

// blockBody items of the restricted language used for the independent Go spec
type bItem struct {
	kind string // "text", "parent", "var", "block" / "forblock" / "ifblock" (nested), "wrap" (name = container, see c10_wrap.go), "set" / "each" (c10_calls.go)
	text string
	name string
	body []bItem
}

type level struct {
	name    string
	defs    map[string][]bItem // top-level block definitions
	order   []string           // order of definition
	outside []string           // text outside blocks (non-base levels: must not be rendered)
	extPos  int                // number of top-level block definitions that stand in front of the extends tag
}

type chainCase struct {
	levels []level // 0 = most derived … k = base
	layout []bItem // base layout: text / block / wrapped block
	wraps  map[string]string
	dyn    bool
	// levels (other than the base) whose block bodies hold a nested block
	nestedAt []int
	// a nested block of an extending level stands inside further containers
	wrapped bool
	// set by spec: the chain reads a variable where the property does not say what it holds (c10_calls.go)
	unspecified bool
}

func (cc *chainCase) bodySrc(items []bItem) string {
	var sb strings.Builder
	for _, it := range items {
		switch it.kind {
		case "text":
			sb.WriteString(it.text)
		case "parent":
			sb.WriteString("{{ parent() }}")
		case "var":
			sb.WriteString("{{ " + it.name + " }}")
		case "block":
			sb.WriteString("{% block " + it.name + " %}" + cc.bodySrc(it.body) + "{% endblock %}")
		case "forblock":
			sb.WriteString("{% for i in [1, 2] %}<{{ i }}{% block " + it.name + " %}" + cc.bodySrc(it.body) + "{% endblock %}>{% endfor %}")
		case "ifblock":
			sb.WriteString("{% if t %}{% block " + it.name + " %}" + cc.bodySrc(it.body) + "{% endblock %}{% else %}NO{% endif %}")
		case "wrap":
			sb.WriteString(wrapSrc(it.name, cc.bodySrc(it.body)))
		case "set":
			sb.WriteString("{% set " + it.name + " = '" + it.text + "' %}")
		case "each":
			sb.WriteString("{% for " + it.name + " in ['" + strings.Join(strings.Split(it.text, ","), "', '") + "'] %}" + cc.bodySrc(it.body) + "{% endfor %}")
		}
	}
	return sb.String()
}

func (cc *chainCase) templates() map[string]string {
	out := map[string]string{}
	k := len(cc.levels) - 1
	for i, lv := range cc.levels {
		var sb strings.Builder
		if i < k {
			parent := "'" + cc.levels[i+1].name + "'"
			if cc.dyn && i%2 == 0 {
				parent = "'" + cc.levels[i+1].name[:1] + "' ~ '" + cc.levels[i+1].name[1:] + "'"
			}
			if len(lv.outside) > 0 {
				sb.WriteString(lv.outside[0])
			}
			// the extends tag stands in front of, between or behind the block definitions of its template
			for j, b := range lv.order {
				if j == lv.extPos {
					sb.WriteString("{% extends " + parent + " %}")
				}
				if j+1 < len(lv.outside) {
					sb.WriteString(lv.outside[j+1])
				}
				sb.WriteString("{% block " + b + " %}" + cc.bodySrc(lv.defs[b]) + "{% endblock %}")
			}
			if lv.extPos >= len(lv.order) {
				sb.WriteString("{% extends " + parent + " %}")
			}
		} else {
			sb.WriteString(cc.bodySrc(cc.layout))
		}
		out[lv.name] = sb.String()
	}
	return out
}

// spec: the property written directly — the base layout with every block replaced by the
// most-derived definition; parent() = the next definition up the chain, same variables.
type specDef struct {
	tpl  int
	body []bItem
}

func (cc *chainCase) spec(ctx map[string]any) (string, bool) {
	k := len(cc.levels) - 1
	defs := map[string][]specDef{}
	for i := 0; i <= k; i++ {
		lv := cc.levels[i]
		if i < k {
			for _, b := range lv.order {
				defs[b] = append(defs[b], specDef{i, lv.defs[b]})
			}
		}
	}
	// the base's top-level blocks are registered too
	for _, it := range cc.layout {
		if it.kind == "block" {
			defs[it.name] = append(defs[it.name], specDef{k, it.body})
		}
	}
	ok := true
	// the variables: the context, changed by set tags and loops while the chain is rendered (c10_calls.go)
	sc := newC10Scope(ctx)
	var renderItems func(items []bItem, tpl int, chain []specDef, lvl int) string
	renderBlock := func(name string, body []bItem, tpl int) string {
		chain := append([]specDef{}, defs[name]...)
		if len(chain) == 0 || chain[len(chain)-1].tpl != tpl {
			chain = append(chain, specDef{tpl, body})
		}
		defer sc.leave(sc.enter())
		return renderItems(chain[0].body, chain[0].tpl, chain, 0)
	}
	loop := func(name string, values []any, pass func(n int, v any)) {
		restore := sc.loopStart(name)
		for n, v := range values {
			sc.vars[name], sc.vars["loop.index"] = v, n+1
			pass(n, v)
		}
		restore()
	}
	renderItems = func(items []bItem, tpl int, chain []specDef, lvl int) string {
		var sb strings.Builder
		for _, it := range items {
			switch it.kind {
			case "text":
				sb.WriteString(it.text)
			case "var":
				sb.WriteString(sc.read(it.name))
			case "set":
				sc.set(it.name, it.text)
			case "parent":
				if chain == nil || lvl+1 >= len(chain) {
					ok = false // parent() with nothing above: an error in every implementation
					return ""
				}
				mark := sc.enter()
				sb.WriteString(renderItems(chain[lvl+1].body, chain[lvl+1].tpl, chain, lvl+1))
				sc.leave(mark)
			case "block":
				sb.WriteString(renderBlock(it.name, it.body, tpl))
			case "forblock":
				loop("i", []any{1, 2}, func(n int, v any) {
					sb.WriteString(fmt.Sprintf("<%d", v) + renderBlock(it.name, it.body, tpl) + ">")
				})
			case "ifblock":
				sb.WriteString(renderBlock(it.name, it.body, tpl))
			case "each":
				var values []any
				for _, v := range strings.Split(it.text, ",") {
					values = append(values, v)
				}
				loop(it.name, values, func(n int, v any) { sb.WriteString(renderItems(it.body, tpl, chain, lvl)) })
			case "wrap":
				if wrapSkipsBody(it.name) {
					break // a branch that is not taken: its body is not rendered at all (a parent() there cannot fail)
				}
				inner := make([]string, wrapPasses(it.name))
				if it.name == "for" {
					loop("i", []any{1, 2}, func(n int, v any) { inner[n] = renderItems(it.body, tpl, chain, lvl) })
				} else {
					for p := range inner {
						inner[p] = renderItems(it.body, tpl, chain, lvl)
					}
				}
				sb.WriteString(wrapOut(it.name, inner))
			}
		}
		return sb.String()
	}
	defer func() { cc.unspecified = sc.silent }()
	out := renderItems(cc.layout, k, nil, 0)
	return out, ok
}

func genChain(e *Env, nLevels, nBlocks int, pickChoice func() int) *chainCase {
	rg := e.Rng
	cc := &chainCase{dyn: rg.Intn(3) == 0}
	blocks := []string{"head", "main", "foot"}[:nBlocks]
	for i := 0; i < nLevels; i++ {
		cc.levels = append(cc.levels, level{name: fmt.Sprintf("L%d", i), defs: map[string][]bItem{}})
	}
	k := nLevels - 1
	// base layout: each block placed at top level / nested in a wrapper block / in a for / in an if
	cc.layout = append(cc.layout, bItem{kind: "text", text: "^"})
	for bi, b := range blocks {
		body := []bItem{{kind: "text", text: "base-" + b}}
		if rg.Intn(3) == 0 {
			body = append(body, bItem{kind: "var", name: "who"})
		}
		place := "block"
		if nLevels > 1 {
			place = pick(rg, []string{"block", "block", "forblock", "ifblock", "nested"})
		}
		if place == "nested" {
			cc.layout = append(cc.layout, bItem{kind: "block", name: fmt.Sprintf("wrap%d", bi), body: []bItem{{kind: "text", text: "("}, {kind: "block", name: b, body: body}, {kind: "text", text: ")"}}})
		} else {
			cc.layout = append(cc.layout, bItem{kind: place, name: b, body: body})
		}
		cc.layout = append(cc.layout, bItem{kind: "text", text: "|"})
	}
	cc.layout = append(cc.layout, bItem{kind: "text", text: "$"})
	// the other levels
	for i := 0; i < k; i++ {
		lv := &cc.levels[i]
		lv.outside = []string{pick(rg, []string{"", "IGNORED-TEXT ", "\n"})}
		for _, b := range blocks {
			switch pickChoice() {
			case 0: // omit
			case 1: // define
				lv.defs[b] = []bItem{{kind: "text", text: fmt.Sprintf("%s@%d", b, i)}}
				lv.order = append(lv.order, b)
			case 2: // blank
				lv.defs[b] = []bItem{}
				lv.order = append(lv.order, b)
			default: // define with parent()
				call := []bItem{{kind: "parent"}}
				if rg.Intn(4) == 0 {
					// the call stands inside one or two body-carrying constructs of the block body
					call = randomWrap(rg, call, true)
				}
				lv.defs[b] = append(append([]bItem{{kind: "text", text: fmt.Sprintf("%s@%d[", b, i)}}, call...), bItem{kind: "text", text: "]"})
				if rg.Intn(4) == 0 {
					lv.defs[b] = append(lv.defs[b], bItem{kind: "var", name: "who"})
				}
				if rg.Intn(10) == 0 {
					// … or the whole body does
					lv.defs[b] = randomWrap(rg, lv.defs[b], false)
				}
				lv.order = append(lv.order, b)
			}
			lv.outside = append(lv.outside, pick(rg, []string{"", " stray ", "{{ who }}"}))
		}
		// a child may also override a wrapper block of the base, reaching the nested block through parent()
		for _, it := range cc.layout {
			if it.kind == "block" && strings.HasPrefix(it.name, "wrap") && rg.Intn(2) == 0 {
				call := []bItem{{kind: "parent"}}
				if rg.Intn(5) == 0 {
					call = randomWrap(rg, call, false)
				}
				lv.defs[it.name] = append(append([]bItem{{kind: "text", text: fmt.Sprintf("W%d<", i)}}, call...), bItem{kind: "text", text: ">"})
				lv.order = append(lv.order, it.name)
				lv.outside = append(lv.outside, "")
			}
		}
	}
	// blocks nested in the bodies of the other levels too (not only in the base layout), under names that the
	// base layout or another level also nests and that more derived levels override
	if k >= 1 && rg.Intn(3) == 0 {
		cc.nestInLevels(e, blocks)
	}
	// position of the extends tag among the top-level block definitions of each extending template
	for i := 0; i < k; i++ {
		lv := &cc.levels[i]
		if len(lv.order) > 0 && rg.Intn(3) == 0 {
			lv.extPos = 1 + rg.Intn(len(lv.order))
		}
	}
	return cc
}

// nestInLevels puts a block X inside the body of a block definition of one or two extending levels (plainly, in a
// loop or in a condition). X is a name the base layout nests as well, or a name that only the levels nest. A nested
// block is not a definition of its template: the definitions of X at more derived levels override every occurrence
// where it stands, and parent() there reaches the default body of the occurrence being rendered. No level at or
// below the most derived occurrence defines X at top level (one template never holds X twice).
func (cc *chainCase) nestInLevels(e *Env, blocks []string) {
	rg := e.Rng
	k := len(cc.levels) - 1
	cands := []string{"item"}
	enclosing := append([]string{}, blocks...)
	for _, it := range cc.layout {
		switch {
		case it.kind == "forblock" || it.kind == "ifblock":
			cands = append(cands, it.name)
		case it.kind == "block" && strings.HasPrefix(it.name, "wrap"):
			cands = append(cands, it.body[1].name)
			enclosing = append(enclosing, it.name)
		}
	}
	x := pick(rg, cands)
	m := rg.Intn(k)
	occ := []int{m}
	if m+1 < k && rg.Intn(2) == 0 {
		occ = append(occ, m+1+rg.Intn(k-m-1))
	}
	for i := m; i < k; i++ {
		lv := &cc.levels[i]
		if _, has := lv.defs[x]; has {
			delete(lv.defs, x)
			var order []string
			for _, b := range lv.order {
				if b != x {
					order = append(order, b)
				}
			}
			lv.order = order
		}
	}
	if x == "item" {
		for i := 0; i < m; i++ {
			lv := &cc.levels[i]
			switch rg.Intn(4) {
			case 0:
				continue
			case 1:
				lv.defs[x] = []bItem{{kind: "text", text: fmt.Sprintf("%s@%d", x, i)}}
			case 2:
				lv.defs[x] = []bItem{}
			default:
				lv.defs[x] = []bItem{{kind: "text", text: fmt.Sprintf("%s@%d[", x, i)}, {kind: "parent"}, {kind: "text", text: "]"}}
			}
			lv.order = append(lv.order, x)
		}
	}
	var ys []string
	for _, y := range enclosing {
		if y != x {
			ys = append(ys, y)
		}
	}
	if len(ys) == 0 {
		return
	}
	for _, j := range occ {
		lv := &cc.levels[j]
		y := pick(rg, ys)
		body, has := lv.defs[y]
		if !has {
			body = []bItem{{kind: "text", text: fmt.Sprintf("%s@%d:", y, j)}, {kind: "parent"}, {kind: "text", text: ";"}}
			lv.order = append(lv.order, y)
		}
		inner := []bItem{{kind: "text", text: fmt.Sprintf("%s~%d", x, j)}}
		if rg.Intn(3) == 0 {
			inner = append(inner, bItem{kind: "var", name: "who"})
		}
		nested := bItem{kind: pick(rg, []string{"block", "block", "forblock", "ifblock"}), name: x, body: inner}
		at := rg.Intn(len(body) + 1)
		nb := append([]bItem{}, body[:at]...)
		if rg.Intn(4) == 0 {
			// the nested block stands inside other body-carrying constructs (spaceless, apply, else branches, …)
			nested = randomWrap(rg, []bItem{nested}, false)[0]
			cc.wrapped = true
		}
		nb = append(nb, nested)
		nb = append(nb, body[at:]...)
		lv.defs[y] = nb
		cc.nestedAt = append(cc.nestedAt, j)
	}
}

func runC10(e *Env) error {
	r := e.Rep
	r.Rule = "extends chains of 1–5 levels; each non-base level independently omits / defines / blanks / defines-with-parent() each of 1–3 blocks (all 4^(levels×blocks) assignments for ≤ 3 levels × ≤ 2 blocks, sampled beyond), base layout places blocks at top level, nested in a block, inside for and if; " +
		"block bodies of one or two extending levels nest a block (plain, in for, in if) under a name the base layout nests too or that only the levels nest, overridden with and without parent() further down; " +
		"parent() calls, whole override bodies and nested blocks also inside one or two body-carrying constructs (if / else / elseif branch, for body, for-else, spaceless, apply upper, branch not taken, conditional expression, set + print): every single container and every pair over 8 fixed chain shapes on every seed (pairs: 3 shapes in the quick tier), and sampled in the generated chains; " +
		"parent() called several times while one block is rendered — in a loop over strings, in a loop over numbers, in nested loops, behind one and two assignments, assigned to a variable twice, at the top of the chain, in a middle template (reached through parent() or directly) and at two levels at once — over inherited bodies that read the loop variable, loop.index and the assigned variable (deterministic sweep on every seed, and sampled in the generated chains; a variable read behind the loop or block that bound it is left to the Lean model alone); " +
		"histories on one processor: a render that fails half-way through a chain (16 kinds of failure: unknown function / filter, missing include, failing user function, parent() with nothing above, failure in the layout, in a middle definition reached through parent(), in an included chain, missing parent, …), once or twice, then 16 renders of healthy chains of 2–4 levels with fresh variables on the failed engine and on a new one, each compared with the substitution spec; " +
		"the extends tag of each extending template in front of, between or behind its block definitions; " +
		"static and computed parent names; text and prints outside blocks in children; oracle = an independent substitution spec written in the harness (implementation-only) and the Lean pipeline model; non-trivial = at least 2 levels and one override; distinct by template set"
	ctx := map[string]any{"who": "W", "t": true}
	runOne := func(cc *chainCase, tag string) error {
		tpls := cc.templates()
		want, specOk := cc.spec(ctx)
		c := &Case{Templates: tpls, Main: cc.levels[0].name, Ctx: ctx, FailAt: -1}
		im, _, _, err := compareCase(e, c, "render-model-c10", "correspondence (Lean pipeline vs real engine) on extends chains")
		if err != nil {
			return err
		}
		key := fmt.Sprint(tpls)
		overrides := 0
		for _, lv := range cc.levels {
			overrides += len(lv.order)
		}
		r.Seen(tag+key, len(cc.levels) >= 2 && overrides > 0)
		r.Hit(fmt.Sprintf("levels:%d", len(cc.levels)))
		for _, lv := range cc.levels {
			if lv.extPos > 0 {
				r.Hit("block-in-front-of-extends")
				if lv.extPos >= len(lv.order) {
					r.Hit("extends-tag-last")
				}
			}
		}
		if cc.wrapped {
			r.Hit("nested-block-in-container")
		}
		if !strings.HasPrefix(tag, "w:") {
			for _, lv := range cc.levels {
				for _, b := range lv.order {
					for _, it := range lv.defs[b] {
						if it.kind == "wrap" {
							r.Hit("random-container:" + it.name)
						}
					}
				}
			}
		}
		if len(cc.nestedAt) > 0 {
			r.Hit(fmt.Sprintf("nested-block-in-%d-extending-levels", len(cc.nestedAt)))
		}
		if specOk && cc.unspecified {
			// a variable is read behind the loop or the block that assigned it: the property does not say what it
			// holds there, so only the Lean model speaks about this chain
			r.Hit("go-spec-silent:variable-read-behind-its-loop-or-block")
		} else if specOk {
			if im.Class != "" || im.Out != want {
				r.Violate(Violation{Key: "substitution-wrong", What: fmt.Sprintf("chain of %d levels renders %q (%s), block substitution gives %q", len(cc.levels), truncate(im.Out, 120), im.Class, truncate(want, 120)),
					Broken: "theorem C10_substitution / C10_parent / C10_empty_override no longer describes the code (implementation-only oracle: independent substitution spec)",
					Replay: map[string]any{"kind": "chain", "templates": tpls, "main": cc.levels[0].name, "want": want, "got": im.Out, "class": im.Class, "msg": im.Msg}})
			}
		} else {
			r.Hit("parent-without-parent")
			if im.Class == "" {
				r.Violate(Violation{Key: "parent-without-definition-renders", What: "parent() with no definition further up the chain rendered instead of failing",
					Broken: "theorem C10_parent (error case)", Replay: map[string]any{"kind": "chain", "templates": tpls, "got": im.Out}})
			}
		}
		return nil
	}
	// regression corpus (pinned-tree defects)
	corpus := []struct {
		tpls map[string]string
		want string
	}{
		{map[string]string{"L0": "{% extends 'L1' %}{% block a %}{% endblock %}", "L1": "[{% block a %}default{% endblock %}]"}, "[]"},
		{map[string]string{"L0": "{% extends 'L1' %}", "L1": "{% extends 'L2' %}{% block a %}mid({{ parent() }}){% endblock %}", "L2": "[{% block a %}base{% endblock %}]"}, "[mid(base)]"},
		{map[string]string{"L0": "{% extends 'L1' %}{% block a %}top({{ parent() }}){% endblock %}", "L1": "{% extends 'L2' %}{% block a %}mid({{ parent() }}){% endblock %}", "L2": "[{% block a %}base{% endblock %}]"}, "[top(mid(base))]"},
		{map[string]string{"L0": "{% extends 'L1' %}{% block a %}o<{{ parent() }}>{% endblock %}", "L1": "{% for i in [1,2] %}{% block a %}b{{ i }}{% endblock %}{% endfor %}"}, "o<b1>o<b2>"},
		{map[string]string{"L0": "x{% extends 'L1' %}y{% block a %}A{% endblock %}z", "L1": "[{% block a %}{% endblock %}|{% block b %}B{% endblock %}]"}, "[A|B]"},
		// several parent() calls in one block body, at three levels, also inside a loop: each call renders the next level up
		{map[string]string{"L0": "{% extends 'L1' %}{% block a %}top({{ parent() }}|{{ parent() }}){% endblock %}", "L1": "{% extends 'L2' %}{% block a %}mid({{ parent() }}){% endblock %}", "L2": "[{% block a %}base{% endblock %}]"}, "[top(mid(base)|mid(base))]"},
		{map[string]string{"L0": "{% extends 'L1' %}{% block a %}{% for i in [1, 2, 3] %}{{ i }}{{ parent() }};{% endfor %}{% endblock %}", "L1": "{% extends 'L2' %}{% block a %}m{{ parent() }}{{ parent() }}{% endblock %}", "L2": "<{% block a %}b{% endblock %}>"}, "<1mbb;2mbb;3mbb;>"},
		// tags of a child template that stand outside its blocks produce no output (only the parent's layout is rendered)
		{map[string]string{"L0": "{% extends 'L1' %}{% if true %}IF{% endif %}{% for i in [1, 2] %}F{{ i }}{% endfor %}{% include 'inc0' %}{{ 'print' }}{% block a %}A{% endblock %}{% set z = 1 %}tail",
			"L1": "[{% block a %}{% endblock %}]", "inc0": "INCLUDED"}, "[A]"},
		{map[string]string{"L0": "{% extends 'L1' %}{% block a %}A{{ parent() }}{% endblock %}", "L1": "{% extends 'L2' %}{% if true %}MIDIF{% endif %}{% include 'inc0' %}{% block a %}M{{ parent() }}{% endblock %}{% for i in [1] %}x{% endfor %}",
			"L2": "[{% block a %}B{% endblock %}]", "inc0": "INCLUDED"}, "[AMB]"},
		// two inheritance chains in one render: a page chain INCLUDES a template that has a chain of its own using the same
		// block names — each chain resolves its blocks within itself, before, inside and after the include
		{map[string]string{"L0": "{% extends 'L1' %}{% block title %}Home/{{ parent() }}{% endblock %}{% block body %}<{% include 'card' %}>{% block title2 %}t2{% endblock %}{% endblock %}",
			"L1":       "[{% block title %}Site{% endblock %}|{% block body %}{% endblock %}|{% block foot %}F{% endblock %}]",
			"card":     "{% extends 'cardbase' %}{% block title %}News/{{ parent() }}{% endblock %}",
			"cardbase": "({% block title %}Card{% endblock %}:{% block body %}cardbody{% endblock %})"}, "[Home/Site|<(News/Card:cardbody)>t2|F]"},
		{map[string]string{"L0": "{% extends 'L1' %}{% block a %}A{% include 'inc' %}{{ parent() }}{% endblock %}", "L1": "[{% block a %}base{% endblock %}]",
			"inc": "{% block a %}inc-a{% endblock %}{% include 'inc2' %}", "inc2": "{% extends 'L1' %}{% block a %}I2({{ parent() }}){% endblock %}"}, "[Ainc-a[I2(base)]base]"},
	}
	for i, c := range corpus {
		im, _, _, cerr := compareCase(e, &Case{Templates: c.tpls, Main: "L0", Ctx: ctx, FailAt: -1}, "render-model-c10", "correspondence on the regression corpus")
		if cerr != nil {
			return cerr
		}
		r.Seen(fmt.Sprintf("corpus:%d", i), true)
		if im.Class != "" || im.Out != c.want {
			r.Violate(Violation{Key: "c10-corpus", What: fmt.Sprintf("corpus chain %d renders %q (%s), expected %q", i, im.Out, im.Class, c.want),
				Broken: "C10 regression corpus", Replay: map[string]any{"kind": "chain", "templates": c.tpls, "want": c.want, "got": im.Out, "class": im.Class, "msg": im.Msg}})
		}
	}
	// chains rendered after a render has failed half-way through a chain (c10_faults.go)
	if err := c10FaultHistories(e, runOne); err != nil {
		return err
	}
	// parent() and nested blocks inside every body-carrying construct of a block body (one container, and every pair
	// of containers inside one another), over a fixed set of chain shapes: the same on every seed
	for _, stack := range wrapStacks(true, true) {
		shapes := wrapShapes(stack)
		for _, shape := range []string{"override", "two-overrides", "through-parent", "nested-in-override", "nested-in-base-wrapper", "block-in-container", "layout-block-in-container", "override-with-text"} {
			cc := shapes[shape]
			if cc == nil || r.Full() {
				continue
			}
			if len(stack) > 1 && shape != "override" && shape != "nested-in-override" && shape != "block-in-container" && !e.Thorough() {
				continue
			}
			if err := runOne(cc, "w:"+shape+":"); err != nil {
				return err
			}
			r.Hit("container-sweep:" + shape)
			for _, k := range stack {
				r.Hit("container:" + k)
			}
		}
	}
	// parent() asked for several times while one block is rendered, the variables changing between the calls
	// (c10_calls.go): the same chains on every seed
	{
		chains := c10CallChains(e.Thorough())
		for _, name := range sortedKeys(chains) {
			if r.Full() {
				break
			}
			if err := runOne(chains[name], "calls:"+name+":"); err != nil {
				return err
			}
			r.Hit("parent-called-repeatedly:levels-" + name[:1])
		}
	}
	// a parent chosen by the context: one engine, several renders with different contexts, each compared with a fresh engine
	{
		tpls := map[string]string{
			"main": "{% extends flag ? 'LA' : 'LB' %}{% block c %}child[{{ parent() }}]{% endblock %}",
			"dyn2": "{% extends names[idx] %}{% block c %}d2{% endblock %}",
			"LA":   "A({% block c %}a{% endblock %})", "LB": "B({% block c %}b{% endblock %})",
		}
		eng, err := newEngine(tpls)
		if err == nil {
			for round, cx := range []map[string]any{{"flag": true}, {"flag": false}, {"flag": true}, {"flag": 0}, {"flag": "x"}} {
				got := guarded(func() (string, error) { return eng.Render("main", cx) })
				want := renderFresh(tpls, "main", cx)
				r.Seen(fmt.Sprintf("dyn:%d", round), true)
				if got.Class != want.Class || got.Out != want.Out {
					r.Violate(Violation{Key: "dynamic-parent-sticks", What: fmt.Sprintf("render %d with %v on a reused engine gives %q, a fresh engine gives %q: the parent of a computed extends must be chosen per render", round, cx, got.Out, want.Out),
						Broken: "theorem C10_registerBlocks_spec (parent names read from the context; implementation-only oracle)", Replay: map[string]any{"kind": "chain-rerender", "templates": tpls, "ctx": fmt.Sprint(cx), "got": got.Out, "want": want.Out}})
				}
			}
			for round, idx := range []int{0, 1, 0} {
				cx := map[string]any{"names": []interface{}{"LA", "LB"}, "idx": idx}
				got := guarded(func() (string, error) { return eng.Render("dyn2", cx) })
				want := renderFresh(tpls, "dyn2", cx)
				r.Seen(fmt.Sprintf("dyn2:%d", round), true)
				if got.Class != want.Class || got.Out != want.Out {
					r.Violate(Violation{Key: "dynamic-parent-sticks", What: fmt.Sprintf("extends names[idx] with idx=%d on a reused engine gives %q, fresh engine %q", idx, got.Out, want.Out),
						Broken: "theorem C10_registerBlocks_spec (implementation-only oracle)", Replay: map[string]any{"kind": "chain-rerender", "templates": tpls, "ctx": fmt.Sprint(cx), "got": got.Out, "want": want.Out}})
				}
			}
		}
	}
	// exhaustive small scope: ≤ 3 levels × ≤ 2 blocks, every assignment
	for nl := 1; nl <= 3 && !r.Full(); nl++ {
		for nb := 1; nb <= 2 && !r.Full(); nb++ {
			slots := (nl - 1) * nb
			total := 1
			for i := 0; i < slots; i++ {
				total *= 4
			}
			for code := 0; code < total && !r.Full(); code++ {
				cd := code
				cc := genChain(e, nl, nb, func() int { v := cd % 4; cd /= 4; return v })
				if err := runOne(cc, "x:"); err != nil {
					return err
				}
			}
		}
	}
	// sampled larger chains
	n := e.N(600, 60000)
	for i := 0; i < n && !r.Full(); i++ {
		cc := genChain(e, 2+e.Rng.Intn(4), 1+e.Rng.Intn(3), func() int { return e.Rng.Intn(4) })
		if e.Rng.Intn(3) == 0 {
			c10DecorateCalls(e, cc)
			r.Hit("random-repeated-parent-calls")
		}
		if err := runOne(cc, "r:"); err != nil {
			return err
		}
		if i < 2 {
			r.Sample(map[string]any{"templates": cc.templates()})
		}
	}
	return nil
}
