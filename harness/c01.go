package main

import (
	"bufio"
	"encoding/json"
	"fmt"
	"io"
	"math/rand"
	"os"
	"os/exec"
	"runtime"
	"strings"
	"sync"
	"time"

	"github.com/semihalev/twig"
)

// C01 — rendering is repeatable and independent of everything rendered before.
//
// Model (lean/TwigModel/Pool.lean): pooled heap with a nondeterministic Get, engines with template
// caches, histories of operations; theorem C01_history_independence says every step of every history
// returns what the pool-free machine returns.
//
// Correspondence M: every history is executed on real engines (in a long-lived worker process, so that a
// crash of the engine becomes a reported violation instead of the end of the run) and sent to the driver
// (pool_run with the fixed-tree facts under several pool oracles, pool_run_pure); every step's
// (kind, success, output bytes, error class) must agree, and the model must never report a stale read.
//
// Implementation-only oracles (no model):
//  (1) every Render of the history equals the same Render on a freshly created engine holding the
//      templates registered so far (same cache setting) — in the process that ran the history;
//  (2) for a sample of renders, also in a pristine child process (fresh pools).
//
// Regression corpus first: the pinned tree's defects (second render of a cached template is empty; an
// older template renders a later-registered template's body), failing render then good render, parse
// error then render, include/extends chains rendered repeatedly, GC between renders, two engines
// interleaved.

func init() {
	register("C01", runC01)
	children["c01render"] = c01Child
	children["c01worker"] = c01WorkerMain
}

// ---- the template subset --------------------------------------------------------------------------

type c01Node struct {
	T  string // text print if for include extends block fail
	S  string // text
	V  string // variable of print / if
	X  string // loop variable
	XS string // sequence variable
	N  string // template or block name
	A  []c01Node
	B  []c01Node
}

func c01Srcs(ns []c01Node) string {
	var sb strings.Builder
	for _, n := range ns {
		sb.WriteString(n.src())
	}
	return sb.String()
}

func (n c01Node) src() string {
	switch n.T {
	case "text":
		return n.S
	case "print":
		// equivalent spellings (the model's meaning of the node is unchanged) that put two-character operators into the
		// token stream; which one is a function of the node, so that a history replays exactly
		switch (len(n.V)*7 + len(n.S)) % 4 {
		case 1:
			return "{{ " + n.V + " != " + n.V + " ? " + n.V + " : " + n.V + " }}"
		case 2:
			return "{{ " + n.V + " == 0 && " + n.V + " >= 1 ? 0 : " + n.V + " }}"
		}
		return "{{ " + n.V + " }}"
	case "if":
		cond := n.V
		switch (len(n.V) + len(n.A)*3 + len(n.B)) % 4 {
		case 1:
			cond = n.V + " && " + n.V
		case 2:
			cond = n.V + " && (" + n.V + " != " + n.V + " or " + n.V + ")"
		case 3:
			cond = n.V + " and " + n.V + " == " + n.V + " or " + n.V
		}
		return "{% if " + cond + " %}" + c01Srcs(n.A) + "{% else %}" + c01Srcs(n.B) + "{% endif %}"
	case "for":
		return "{% for " + n.X + " in " + n.XS + " %}" + c01Srcs(n.A) + "{% endfor %}"
	case "include":
		return "{% include '" + n.N + "' %}"
	case "extends":
		return "{% extends '" + n.N + "' %}"
	case "block":
		return "{% block " + n.N + " %}" + c01Srcs(n.A) + "{% endblock %}"
	case "fail":
		return "{{ nosuchfunction() }}"
	}
	panic("c01: bad node " + n.T)
}

func c01NodesJSON(ns []c01Node) []any {
	out := make([]any, 0, len(ns))
	for _, n := range ns {
		out = append(out, n.js())
	}
	return out
}

func (n c01Node) js() map[string]any {
	switch n.T {
	case "text":
		return map[string]any{"t": "text", "s": hx(n.S)}
	case "print":
		return map[string]any{"t": "print", "v": n.V}
	case "if":
		return map[string]any{"t": "if", "v": n.V, "then": c01NodesJSON(n.A), "else": c01NodesJSON(n.B)}
	case "for":
		return map[string]any{"t": "for", "x": n.X, "xs": n.XS, "body": c01NodesJSON(n.A)}
	case "include":
		return map[string]any{"t": "include", "n": n.N}
	case "extends":
		return map[string]any{"t": "extends", "n": n.N}
	case "block":
		return map[string]any{"t": "block", "n": n.N, "body": c01NodesJSON(n.A)}
	}
	return map[string]any{"t": "fail"}
}

type c01Src struct {
	Nodes []c01Node
	Bad   int // 0 parses; 1 unclosed if; 2 unclosed print tag; 3 block defined twice
}

func (s c01Src) text() string {
	t := c01Srcs(s.Nodes)
	switch s.Bad {
	case 1:
		return t + "{% if a %}x"
	case 2:
		return t + "{{ a"
	case 3:
		return t + "{% block q %}1{% endblock %}{% block q %}2{% endblock %}"
	}
	return t
}

func (s c01Src) js() map[string]any {
	return map[string]any{"bad": s.Bad != 0, "nodes": c01NodesJSON(s.Nodes)}
}

type c01Var struct {
	Name string
	Str  string
	List []string
	IsL  bool
}

type c01Op struct {
	K    string // register parse render setcache gc
	E    int
	N    string
	Src  c01Src
	Vars []c01Var
	On   bool
	Mode string // gc: all none mod (what the model's pools lose; the real GC does what it does)
	M, R int
}

func (o c01Op) js() map[string]any {
	switch o.K {
	case "register":
		return map[string]any{"k": "register", "e": o.E, "n": o.N, "src": o.Src.js()}
	case "parse":
		return map[string]any{"k": "parse", "e": o.E, "src": o.Src.js()}
	case "render":
		vs := make([]any, 0, len(o.Vars))
		for _, v := range o.Vars {
			if v.IsL {
				items := make([]any, 0, len(v.List))
				for _, it := range v.List {
					items = append(items, hx(it))
				}
				vs = append(vs, []any{v.Name, items})
			} else {
				vs = append(vs, []any{v.Name, hx(v.Str)})
			}
		}
		return map[string]any{"k": "render", "e": o.E, "n": o.N, "vars": vs}
	case "setcache":
		return map[string]any{"k": "setcache", "e": o.E, "on": o.On}
	}
	return map[string]any{"k": "gc", "mode": o.Mode, "m": o.M, "r": o.R}
}

// replay form: concrete sources, so that a violation can be reproduced without the generator
func (o c01Op) replay() map[string]any {
	m := o.js()
	if o.K == "register" || o.K == "parse" {
		m["source_hex"] = hx(o.Src.text())
		m["source"] = o.Src.text()
	}
	return m
}

func c01Ctx(vs []c01Var) map[string]interface{} {
	ctx := map[string]interface{}{}
	for _, v := range vs {
		if v.IsL {
			l := make([]interface{}, len(v.List))
			for i, it := range v.List {
				l[i] = it
			}
			ctx[v.Name] = l
		} else {
			ctx[v.Name] = v.Str
		}
	}
	return ctx
}

// ---- generators -----------------------------------------------------------------------------------

var c01Names = []string{"t0", "t1", "t2", "t3", "t4", "t5"}
var c01StrVars = []string{"a", "b", "c", "zz"} // zz is never defined
var c01ListVars = []string{"xs", "ys", "zs"}   // zs is never defined
var c01Vals = []string{"", "x", "v1", "hello", "Zed9", "0"}
var c01TextAlpha = []string{"a", "b", "Z", "7", " ", ".", ",", ":", "<", ">", "=", "_", "(", ")", "[", "]", "é", "\n", "}", "%", "-"}

func c01Text(r *rand.Rand) string {
	n := 1 + r.Intn(5)
	var sb strings.Builder
	for i := 0; i < n; i++ {
		sb.WriteString(c01TextAlpha[r.Intn(len(c01TextAlpha))])
	}
	return sb.String()
}

// idx = index of the template being generated: it may refer to templates with a smaller index only,
// so that every template set is acyclic (a cyclic include overflows the Go stack).
func c01GenNodes(r *rand.Rand, idx, depth, loopDepth int, allowBlock bool, used map[string]bool) []c01Node {
	n := r.Intn(4)
	if depth == 0 {
		n = 1 + r.Intn(4)
	}
	var out []c01Node
	for i := 0; i < n; i++ {
		k := r.Intn(12)
		switch {
		case k < 3:
			out = append(out, c01Node{T: "text", S: c01Text(r)})
		case k < 5:
			vars := append([]string{}, c01StrVars...)
			for d := 0; d < 3; d++ { // loop variables, also where no loop surrounds (leaks and includes)
				if d < loopDepth || r.Intn(4) == 0 {
					vars = append(vars, fmt.Sprintf("i%d", d))
				}
			}
			out = append(out, c01Node{T: "print", V: vars[r.Intn(len(vars))]})
		case k < 6 && depth < 3:
			all := append(append([]string{}, c01StrVars...), c01ListVars...)
			all = append(all, "i0")
			out = append(out, c01Node{T: "if", V: all[r.Intn(len(all))],
				A: c01GenNodes(r, idx, depth+1, loopDepth, false, used), B: c01GenNodes(r, idx, depth+1, loopDepth, false, used)})
		case k < 7 && depth < 3 && loopDepth < 3:
			out = append(out, c01Node{T: "for", X: fmt.Sprintf("i%d", loopDepth), XS: c01ListVars[r.Intn(len(c01ListVars))],
				A: c01GenNodes(r, idx, depth+1, loopDepth+1, false, used)})
		case k < 9 && idx > 0:
			out = append(out, c01Node{T: "include", N: c01Names[r.Intn(idx)]})
		case k < 10 && allowBlock:
			name := []string{"c", "d"}[r.Intn(2)]
			if !used[name] {
				used[name] = true
				out = append(out, c01Node{T: "block", N: name, A: c01GenNodes(r, idx, depth+1, loopDepth, false, used)})
			}
		case k == 10 && r.Intn(3) == 0:
			out = append(out, c01Node{T: "fail"})
		default:
			out = append(out, c01Node{T: "text", S: c01Text(r)})
		}
	}
	return out
}

func c01GenSrc(r *rand.Rand, idx int) c01Src {
	used := map[string]bool{}
	var s c01Src
	switch {
	case idx > 0 && r.Intn(4) == 0:
		// a child template: extends + block overrides (+ ignored text)
		s.Nodes = append(s.Nodes, c01Node{T: "extends", N: c01Names[r.Intn(idx)]})
		if r.Intn(3) == 0 {
			s.Nodes = append([]c01Node{{T: "text", S: c01Text(r)}}, s.Nodes...)
		}
		for _, b := range []string{"c", "d"} {
			if r.Intn(3) != 0 {
				s.Nodes = append(s.Nodes, c01Node{T: "block", N: b, A: c01GenNodes(r, idx, 1, 0, false, used)})
			}
		}
	default:
		s.Nodes = c01GenNodes(r, idx, 0, 0, true, used)
	}
	s = c01MaybePad(r, s) // the size dimension (c01_sizes.go)
	if r.Intn(9) == 0 {
		s.Bad = 1 + r.Intn(3)
	}
	return s
}

func c01GenVars(r *rand.Rand) []c01Var {
	var vs []c01Var
	for _, n := range []string{"a", "b", "c"} {
		if r.Intn(4) != 0 {
			vs = append(vs, c01Var{Name: n, Str: c01Vals[r.Intn(len(c01Vals))]})
		}
	}
	for _, n := range []string{"xs", "ys"} {
		if r.Intn(4) != 0 {
			k := r.Intn(4)
			l := make([]string, k)
			for i := range l {
				l[i] = c01Vals[r.Intn(len(c01Vals))]
			}
			vs = append(vs, c01Var{Name: n, List: l, IsL: true})
		}
	}
	return vs
}

func c01GenHistory(r *rand.Rand, maxOps int) ([]c01Op, int) {
	nEng := 1 + r.Intn(3)
	nNames := 1 + r.Intn(6)
	n := 1 + r.Intn(maxOps)
	h := make([]c01Op, 0, n)
	reg := map[int][]string{} // names with a registration attempt, per engine
	for i := 0; i < n; i++ {
		e := r.Intn(nEng)
		k := r.Intn(100)
		switch {
		case k < 27 || i == 0:
			idx := r.Intn(nNames)
			h = append(h, c01Op{K: "register", E: e, N: c01Names[idx], Src: c01GenSrc(r, idx)})
			reg[e] = append(reg[e], c01Names[idx])
		case k < 35:
			h = append(h, c01Op{K: "parse", E: e, Src: c01GenSrc(r, r.Intn(nNames))})
		case k < 85:
			name := c01Names[r.Intn(nNames)]
			if len(reg[e]) > 0 && r.Intn(5) != 0 {
				name = reg[e][r.Intn(len(reg[e]))]
			}
			h = append(h, c01Op{K: "render", E: e, N: name, Vars: c01GenVars(r)})
		case k < 91:
			h = append(h, c01Op{K: "setcache", E: e, On: r.Intn(2) == 0})
		default:
			h = append(h, c01Op{K: "gc", Mode: []string{"all", "none", "mod"}[r.Intn(3)], M: 1 + r.Intn(3), R: r.Intn(2)})
		}
	}
	return h, nEng
}

// ---- running a history on the real code ---------------------------------------------------------------

type c01Step struct {
	K     string `json:"k"`
	Ok    bool   `json:"ok"`
	Out   string `json:"out_hex"`
	Class string `json:"class"`
	Panic string `json:"panic,omitempty"`
}

type c01Case struct { // a render as a fresh engine sees it
	Tpls    map[string]string `json:"tpls"` // name -> source (hex)
	CacheOn bool              `json:"cache_on"`
	Name    string            `json:"name"`
	Vars    []any             `json:"vars"`
	Step    int               `json:"step"`
}

func c01RenderStep(r RenderResult) c01Step {
	s := c01Step{K: "rendered", Class: r.Class, Panic: r.Panic}
	if r.Class == "" {
		s.Ok = true
		s.Out = hx(r.Out)
	}
	return s
}

func c01Fresh(tpls map[string]string, cacheOn bool, name string, ctx map[string]interface{}) RenderResult {
	return guarded(func() (string, error) {
		e := twig.New()
		e.SetCache(cacheOn)
		for _, n := range sortedKeys(tpls) {
			if err := e.RegisterString(n, unhx(tpls[n])); err != nil {
				return "", fmt.Errorf("fresh engine cannot register %s: %w", n, err)
			}
		}
		return e.Render(name, ctx)
	})
}

// c01Exec runs the history on new engines. Returns the steps, for every render the fresh-engine view of
// it, and the fresh-engine results (oracle 1).
func c01Exec(h []c01Op) (steps []c01Step, cases []c01Case, fresh []c01Step) {
	engines := map[int]*twig.Engine{}
	tbl := map[int]map[string]string{}
	cacheOn := map[int]bool{}
	eng := func(i int) *twig.Engine {
		if engines[i] == nil {
			engines[i] = twig.New()
			tbl[i] = map[string]string{}
			cacheOn[i] = true
		}
		return engines[i]
	}
	for i, op := range h {
		switch op.K {
		case "register":
			e := eng(op.E)
			src := op.Src.text()
			res := guarded(func() (string, error) { return "", e.RegisterString(op.N, src) })
			steps = append(steps, c01Step{K: "parsed", Ok: res.Class == "", Class: res.Class, Panic: res.Panic})
			if res.Class == "" {
				tbl[op.E][op.N] = hx(src)
			}
		case "parse":
			e := eng(op.E)
			src := op.Src.text()
			res := guarded(func() (string, error) { _, err := e.ParseTemplate(src); return "", err })
			steps = append(steps, c01Step{K: "parsed", Ok: res.Class == "", Class: res.Class, Panic: res.Panic})
		case "render":
			e := eng(op.E)
			ctx := c01Ctx(op.Vars)
			res := guarded(func() (string, error) { return e.Render(op.N, ctx) })
			steps = append(steps, c01RenderStep(res))
			cp := make(map[string]string, len(tbl[op.E]))
			for k, v := range tbl[op.E] {
				cp[k] = v
			}
			cases = append(cases, c01Case{Tpls: cp, CacheOn: cacheOn[op.E], Name: op.N, Vars: op.js()["vars"].([]any), Step: i})
			fresh = append(fresh, c01RenderStep(c01Fresh(cp, cacheOn[op.E], op.N, c01Ctx(op.Vars))))
		case "setcache":
			eng(op.E).SetCache(op.On)
			cacheOn[op.E] = op.On
			steps = append(steps, c01Step{K: "unit", Ok: true})
		case "gc":
			runtime.GC()
			runtime.GC()
			steps = append(steps, c01Step{K: "unit", Ok: true})
		}
	}
	return
}

type c01ExecResult struct {
	Steps []c01Step `json:"steps"`
	Cases []c01Case `json:"cases"`
	Fresh []c01Step `json:"fresh"`
}

// The histories run in a worker process: on a tree with the pinned defects a recycled root node can make
// a template include itself, and the resulting stack overflow cannot be recovered in-process. The worker
// lives across histories, so its pools carry everything earlier histories left behind.
type c01Worker struct {
	cmd *exec.Cmd
	in  *bufio.Writer
	out *bufio.Reader
	err *c01Tail
}

type c01Tail struct {
	mu  sync.Mutex
	buf []byte
}

func (t *c01Tail) Write(p []byte) (int, error) {
	t.mu.Lock()
	defer t.mu.Unlock()
	if len(t.buf) < 4096 { // the head of a Go crash report names the fatal error
		t.buf = append(t.buf, p...)
	}
	return len(p), nil
}

func (t *c01Tail) String() string {
	t.mu.Lock()
	defer t.mu.Unlock()
	return truncate(string(t.buf), 1200)
}

var c01W *c01Worker

// GOMAXPROCS of the worker. With one P a Put followed by a Get returns the same object, which makes
// recycling defects show (and replay) deterministically; the thorough tier also runs with more.
var c01Procs = 1

func c01StartWorker(self string) (*c01Worker, error) {
	cmd := exec.Command(self, "-child", "c01worker", fmt.Sprint(c01Procs))
	stdin, err := cmd.StdinPipe()
	if err != nil {
		return nil, err
	}
	stdout, err := cmd.StdoutPipe()
	if err != nil {
		return nil, err
	}
	tail := &c01Tail{}
	cmd.Stderr = tail
	if err := cmd.Start(); err != nil {
		return nil, err
	}
	return &c01Worker{cmd: cmd, in: bufio.NewWriterSize(stdin, 1<<20), out: bufio.NewReaderSize(stdout, 1<<20), err: tail}, nil
}

func (w *c01Worker) stop() {
	if c, ok := w.cmd.Stdin.(io.Closer); ok {
		c.Close()
	}
	w.cmd.Process.Kill()
	w.cmd.Wait()
}

// c01Run executes a history in the worker. crash != "" means the worker died on it (it is restarted).
// histories run in the current worker since it started (the state its pools may still carry)
var c01Log [][]c01Op

func c01StopWorker() {
	if c01W != nil {
		c01W.stop()
		c01W = nil
	}
	c01Log = nil
}

func c01Run(e *Env, h []c01Op, fresh bool) (res *c01ExecResult, crash string, err error) {
	if fresh {
		c01StopWorker()
	}
	if len(c01Log) >= 32 {
		c01Log = c01Log[1:]
	}
	c01Log = append(c01Log, h)
	if c01W == nil {
		if c01W, err = c01StartWorker(e.Self); err != nil {
			return nil, "", err
		}
	}
	b, _ := json.Marshal(h)
	c01W.in.Write(b)
	c01W.in.WriteByte('\n')
	werr := c01W.in.Flush()
	var line []byte
	if werr == nil {
		line, werr = c01W.out.ReadBytes('\n')
	}
	if werr != nil {
		c01W.cmd.Wait()
		crash = c01W.err.String()
		if crash == "" {
			crash = "worker process ended: " + werr.Error()
		}
		c01W = nil
		c01Log = nil
		return nil, crash, nil
	}
	res = &c01ExecResult{}
	if err := json.Unmarshal(line, res); err != nil {
		return nil, "", fmt.Errorf("worker answer: %q", truncate(string(line), 200))
	}
	return res, "", nil
}

func c01WorkerMain(args []string) int {
	if len(args) == 1 {
		var procs int
		if _, err := fmt.Sscan(args[0], &procs); err == nil && procs > 0 {
			runtime.GOMAXPROCS(procs)
		}
	}
	in := bufio.NewReaderSize(os.Stdin, 1<<20)
	out := bufio.NewWriter(os.Stdout)
	for {
		line, err := in.ReadBytes('\n')
		if len(line) > 0 {
			var h []c01Op
			if jerr := json.Unmarshal(line, &h); jerr != nil {
				fmt.Fprintln(os.Stderr, "c01worker:", jerr)
				return 2
			}
			var res c01ExecResult
			res.Steps, res.Cases, res.Fresh = c01Exec(h)
			b, _ := json.Marshal(res)
			out.Write(b)
			out.WriteByte('\n')
			out.Flush()
		}
		if err != nil {
			return 0
		}
	}
}

func c01SameStep(a, b c01Step) bool {
	return a.K == b.K && a.Ok == b.Ok && a.Out == b.Out && a.Class == b.Class
}

// ---- pristine child process ----------------------------------------------------------------------------

func c01Child(args []string) int {
	if len(args) != 1 {
		fmt.Fprintln(os.Stderr, "c01render: want one file")
		return 2
	}
	b, err := os.ReadFile(args[0])
	if err != nil {
		fmt.Fprintln(os.Stderr, err)
		return 2
	}
	var c struct {
		Tpls    map[string]string `json:"tpls"`
		CacheOn bool              `json:"cache_on"`
		Name    string            `json:"name"`
		Vars    []json.RawMessage `json:"vars"`
	}
	if err := json.Unmarshal(b, &c); err != nil {
		fmt.Fprintln(os.Stderr, err)
		return 2
	}
	ctx := map[string]interface{}{}
	for _, raw := range c.Vars {
		var pair []json.RawMessage
		if json.Unmarshal(raw, &pair) != nil || len(pair) != 2 {
			fmt.Fprintln(os.Stderr, "bad binding")
			return 2
		}
		var name, s string
		json.Unmarshal(pair[0], &name)
		if json.Unmarshal(pair[1], &s) == nil {
			ctx[name] = unhx(s)
			continue
		}
		var l []string
		if json.Unmarshal(pair[1], &l) != nil {
			fmt.Fprintln(os.Stderr, "bad value")
			return 2
		}
		items := make([]interface{}, len(l))
		for i, it := range l {
			items[i] = unhx(it)
		}
		ctx[name] = items
	}
	st := c01RenderStep(c01Fresh(c.Tpls, c.CacheOn, c.Name, ctx))
	out, _ := json.Marshal(st)
	fmt.Println(string(out))
	return 0
}

func c01Pristine(e *Env, c c01Case) (c01Step, error) {
	f, err := os.CreateTemp("", "c01case-*.json")
	if err != nil {
		return c01Step{}, err
	}
	defer os.Remove(f.Name())
	b, _ := json.Marshal(c)
	f.Write(b)
	f.Close()
	out, err := exec.Command(e.Self, "-child", "c01render", f.Name()).Output()
	if err != nil {
		return c01Step{}, fmt.Errorf("pristine child: %w", err)
	}
	var st c01Step
	if err := json.Unmarshal(out, &st); err != nil {
		return c01Step{}, fmt.Errorf("pristine child answer: %q", truncate(string(out), 200))
	}
	return st, nil
}

// ---- model ---------------------------------------------------------------------------------------------

func c01OpsJSON(h []c01Op) []any {
	ops := make([]any, 0, len(h))
	for _, o := range h {
		ops = append(ops, o.js())
	}
	return ops
}

func c01ModelSteps(resp map[string]any) ([]c01Step, []bool) {
	arr, _ := resp["outs"].([]any)
	steps := make([]c01Step, 0, len(arr))
	stale := make([]bool, 0, len(arr))
	for _, a := range arr {
		m, _ := a.(map[string]any)
		k, _ := m["k"].(string)
		st := c01Step{K: k}
		switch k {
		case "unit":
			st.Ok = true
		case "parsed":
			st.Ok, _ = m["ok"].(bool)
			if !st.Ok {
				st.Class = "parse-error"
			}
		case "rendered":
			if out, ok := m["out"].(string); ok {
				st.Ok = true
				st.Out = out
			} else {
				st.Class, _ = m["err"].(string)
			}
		}
		s, _ := m["stale"].(bool)
		steps = append(steps, st)
		stale = append(stale, s)
	}
	return steps, stale
}

func c01Model(e *Env, h []c01Op, facts string, oracle map[string]any) ([]c01Step, []bool, error) {
	req := map[string]any{"op": "pool_run", "facts": facts, "ops": c01OpsJSON(h)}
	if oracle == nil {
		req["op"] = "pool_run_pure"
	} else {
		req["oracle"] = oracle
	}
	resp, err := e.Model.Call(req)
	if err != nil {
		return nil, nil, err
	}
	s, st := c01ModelSteps(resp)
	return s, st, nil
}

// ---- checking one history --------------------------------------------------------------------------------

type c01Finding struct {
	key, what, broken string
	step              int
	extra             map[string]any
}

// c01Find runs every in-process check on a history and returns the first finding (nil = all fine).
func c01Find(e *Env, h []c01Op, oracles []map[string]any, count, newWorker bool) (*c01Finding, []c01Step, []c01Case, error) {
	r := e.Rep
	res, crash, err := c01Run(e, h, newWorker)
	if err != nil {
		return nil, nil, nil, err
	}
	if crash != "" {
		what := "executing the history kills the process"
		for _, l := range strings.Split(crash, "\n") {
			if strings.HasPrefix(l, "fatal error") || strings.HasPrefix(l, "panic") {
				what += ": " + l
				break
			}
		}
		return &c01Finding{key: "c01-process-crash", what: what, broken: "C01: an operation of the history does not return (implementation-only oracle; on the pinned tree a recycled root makes a template include itself)",
			extra: map[string]any{"stderr_head": crash}}, nil, nil, nil
	}
	steps, cases, fresh := res.Steps, res.Cases, res.Fresh
	for _, s := range steps {
		if s.Class == "panic" || s.Class == "timeout" {
			return &c01Finding{key: "c01-" + s.Class, what: "an engine operation of the history ended in a " + s.Class, broken: "C01 (the operation does not return)",
				extra: map[string]any{"panic": s.Panic}}, steps, cases, nil
		}
	}
	// oracle 1: fresh engine, same process
	for i, c := range cases {
		if !c01SameStep(steps[c.Step], fresh[i]) {
			return &c01Finding{key: "render-differs-from-fresh-engine", step: c.Step,
				what:   fmt.Sprintf("Render(%q) after %d earlier operations differs from the same Render on a fresh engine holding the same templates", c.Name, c.Step),
				broken: "theorem C01_history_independence no longer describes the code (implementation-only oracle 1)",
				extra:  map[string]any{"got": steps[c.Step], "fresh_engine": fresh[i], "fresh_case": c}}, steps, cases, nil
		}
	}
	if e.Model == nil {
		return nil, steps, cases, nil
	}
	// the model: pool-free run, then the pooled runs under each oracle
	all := append([]map[string]any{nil}, oracles...)
	for _, o := range all {
		ms, stale, err := c01Model(e, h, "fixed", o)
		if err != nil {
			return nil, steps, cases, err
		}
		if count {
			r.Compared++
		}
		oname := "pure"
		if o != nil {
			oname = fmt.Sprint(o["kind"])
		}
		if len(ms) != len(steps) {
			return &c01Finding{key: "model-step-count", what: "model returned a different number of steps", broken: "correspondence pool_run",
				extra: map[string]any{"oracle": oname}}, steps, cases, nil
		}
		for i := range ms {
			if ms[i].Class == "unsupported" || ms[i].Class == "depth" {
				return &c01Finding{key: "model-" + ms[i].Class, step: i, what: "the generator left the model's subset", broken: "harness generator (not a property violation)",
					extra: map[string]any{"oracle": oname}}, steps, cases, nil
			}
			if stale[i] {
				return &c01Finding{key: "model-stale-read", step: i, what: "the model reads a left-over field under the fixed-tree facts",
					broken: "theorem C01_never_stale / Facts.ok fixedFacts", extra: map[string]any{"oracle": oname}}, steps, cases, nil
			}
			if !c01SameStep(ms[i], steps[i]) {
				return &c01Finding{key: "model-step-differs:" + steps[i].K, step: i,
					what:   fmt.Sprintf("step %d (%s): the model (%s) and the implementation disagree", i, h[i].K, oname),
					broken: "correspondence pool_run (TwigModel.Pool step/eval vs twig.go, node.go)",
					extra:  map[string]any{"oracle": oname, "impl": steps[i], "model": ms[i]}}, steps, cases, nil
			}
		}
	}
	return nil, steps, cases, nil
}

// c01Shrink drops operations while the same class of finding remains; every candidate runs in a fresh
// worker process, so the result reproduces on its own.
func c01Shrink(e *Env, h []c01Op, oracles []map[string]any, key string) []c01Op {
	cur := h
	deadline := time.Now().Add(12 * time.Second)
	fails := func(cand []c01Op) bool {
		if len(cand) == 0 || time.Now().After(deadline) {
			return false
		}
		f, _, _, err := c01Find(e, cand, oracles, false, true)
		return err == nil && f != nil && f.key == key
	}
	// chunks of halving size, then single operations
	for size := len(cur) / 2; size >= 1; size /= 2 {
		for start := len(cur) - size; start >= 0; start -= size {
			if start+size > len(cur) {
				continue
			}
			cand := append(append([]c01Op{}, cur[:start]...), cur[start+size:]...)
			if fails(cand) {
				cur = cand
			}
		}
	}
	for i := len(cur) - 1; i >= 0 && len(cur) > 1; i-- {
		if i >= len(cur) {
			continue
		}
		cand := append(append([]c01Op{}, cur[:i]...), cur[i+1:]...)
		if fails(cand) {
			cur = cand
		}
	}
	return cur
}

// c01Concat puts the last k histories of prior in front of h, every history on engines of its own.
func c01Concat(prior [][]c01Op, k int, h []c01Op) []c01Op {
	if k > len(prior) {
		k = len(prior)
	}
	var out []c01Op
	for j, ph := range prior[len(prior)-k:] {
		for _, op := range ph {
			op.E += 3 * (j + 1)
			out = append(out, op)
		}
	}
	return append(out, h...)
}

func c01Replay(h []c01Op, f *c01Finding) map[string]any {
	ops := make([]any, 0, len(h))
	for _, o := range h {
		ops = append(ops, o.replay())
	}
	m := map[string]any{"kind": "c01-history", "ops": ops, "step": f.step}
	for k, v := range f.extra {
		m[k] = v
	}
	return m
}

func c01Stats(r *Report, h []c01Op, steps []c01Step) (nontrivial bool) {
	poolOps := 0
	if len(steps) != len(h) { // the worker died on this history
		r.Hit("history-without-result")
		return false
	}
	for i, op := range h {
		r.Hit("op:" + op.K)
		if op.K == "render" {
			switch {
			case steps[i].Ok && steps[i].Out != "":
				r.Hit("render:ok")
				if poolOps > 0 {
					nontrivial = true
				}
			case steps[i].Ok:
				r.Hit("render:ok-empty")
			default:
				r.Hit("render:" + steps[i].Class)
			}
		}
		if op.K == "register" || op.K == "parse" {
			if steps[i].Ok {
				r.Hit("parse:ok")
			} else {
				r.Hit("parse:" + steps[i].Class)
			}
		}
		if op.K == "register" || op.K == "parse" || op.K == "render" {
			poolOps++
		}
	}
	switch {
	case len(h) <= 5:
		r.Hit("len:1-5")
	case len(h) <= 20:
		r.Hit("len:6-20")
	case len(h) <= 40:
		r.Hit("len:21-40")
	default:
		r.Hit("len:41+")
	}
	return
}

// what the implementation returned for the history c01Check saw last (for oracles that compute the expected bytes themselves)
var c01LastSteps []c01Step

// c01Check checks one history; pristineP = probability of re-rendering each render in a pristine process.
func c01Check(e *Env, h []c01Op, tag string, pristineP float64, budget *int) (bool, error) {
	r := e.Rep
	oracles := []map[string]any{{"kind": "lifo"}, {"kind": "fifo"}, {"kind": "seed", "seed": e.Rng.Intn(1 << 20)}}
	if tag == "corpus" {
		oracles = append(oracles, map[string]any{"kind": "fresh"})
	}
	prior := append([][]c01Op{}, c01Log...)
	f, steps, cases, err := c01Find(e, h, oracles, true, false)
	if err != nil {
		return false, err
	}
	c01LastSteps = steps
	canon, _ := json.Marshal(c01OpsJSON(h))
	nontrivial := c01Stats(r, h, steps)
	r.Seen(tag+string(canon), nontrivial)
	if f != nil {
		if f.key == "model-unsupported" || f.key == "model-depth" {
			r.Skip(f.key)
			return true, nil
		}
		// make the finding reproduce in a fresh process: alone, or behind the histories that ran before it in
		// the same worker (their engines renumbered — "activity on other engines" of one longer history)
		standalone := false
		for k := 0; ; {
			cand := c01Concat(prior, k, h)
			if f2, _, _, err2 := c01Find(e, cand, oracles, false, true); err2 == nil && f2 != nil && f2.key == f.key {
				h, f, standalone = cand, f2, true
				break
			}
			if k >= len(prior) {
				break
			}
			if k == 0 {
				k = 1
			} else {
				k *= 2
			}
			if k > len(prior) {
				k = len(prior)
			}
		}
		if standalone {
			small := c01Shrink(e, h, oracles, f.key)
			if len(small) < len(h) {
				if f2, _, _, err2 := c01Find(e, small, oracles, false, true); err2 == nil && f2 != nil && f2.key == f.key {
					h, f = small, f2
				}
			}
		}
		rep := c01Replay(h, f)
		rep["reproduced_in_fresh_process"] = standalone
		rep["seed"] = e.Seed
		if r.Violate(Violation{Key: f.key, What: f.what, Broken: f.broken, Replay: rep}) {
			return false, nil
		}
		return true, nil
	}
	// oracle 2: pristine process
	for _, c := range cases {
		if *budget <= 0 || e.Rng.Float64() >= pristineP {
			continue
		}
		*budget--
		st, err := c01Pristine(e, c)
		if err != nil {
			return false, err
		}
		r.Hit("pristine-process-compared")
		if !c01SameStep(st, steps[c.Step]) {
			ff := &c01Finding{step: c.Step, extra: map[string]any{"got": steps[c.Step], "pristine_process": st, "fresh_case": c}}
			if r.Violate(Violation{Key: "render-differs-from-pristine-process",
				What:   fmt.Sprintf("Render(%q) after %d earlier operations differs from the same Render in a pristine process", c.Name, c.Step),
				Broken: "theorem C01_history_independence no longer describes the code (implementation-only oracle 2)",
				Replay: c01Replay(h, ff)}) {
				return false, nil
			}
		}
	}
	return true, nil
}

// ---- regression corpus -------------------------------------------------------------------------------------

func c01T(s string) c01Node                  { return c01Node{T: "text", S: s} }
func c01P(v string) c01Node                  { return c01Node{T: "print", V: v} }
func c01Inc(n string) c01Node                { return c01Node{T: "include", N: n} }
func c01Ok(ns ...c01Node) c01Src             { return c01Src{Nodes: ns} }
func c01Reg(e int, n string, s c01Src) c01Op { return c01Op{K: "register", E: e, N: n, Src: s} }
func c01Ren(e int, n string, vs ...c01Var) c01Op {
	return c01Op{K: "render", E: e, N: n, Vars: vs}
}
func c01S(n, v string) c01Var           { return c01Var{Name: n, Str: v} }
func c01L(n string, v ...string) c01Var { return c01Var{Name: n, List: v, IsL: true} }

func c01Corpus() [][]c01Op {
	hello := c01Ok(c01T("hello "), c01P("a"))
	bee := c01Ok(c01T("B-body"))
	failing := c01Ok(c01T("x"), c01Node{T: "fail"})
	base := c01Ok(c01T("["), c01Node{T: "block", N: "c", A: []c01Node{c01T("base-c "), c01P("a")}}, c01T("|"),
		c01Node{T: "block", N: "d", A: []c01Node{c01T("base-d")}}, c01T("]"))
	mid := c01Ok(c01Node{T: "extends", N: "t0"}, c01Node{T: "block", N: "d", A: []c01Node{c01T("mid-d")}})
	leaf := c01Ok(c01Node{T: "extends", N: "t1"}, c01Node{T: "block", N: "c", A: []c01Node{c01T("leaf-c "), c01P("a")}})
	loop := c01Ok(c01Node{T: "for", X: "i0", XS: "xs", A: []c01Node{c01T("<"), c01Inc("t0"), c01P("i0"), c01T(">")}}, c01P("i0"))
	gc := c01Op{K: "gc", Mode: "all"}
	a := c01S("a", "v1")
	return [][]c01Op{
		// the pinned tree's first defect: register t; render t; render t
		{c01Reg(0, "t0", hello), c01Ren(0, "t0", a), c01Ren(0, "t0", a), c01Ren(0, "t0", c01S("a", "x"))},
		// …and the second: register a; render a; register b; render a
		{c01Reg(0, "t0", hello), c01Ren(0, "t0", a), c01Reg(0, "t1", bee), c01Ren(0, "t0", a), c01Ren(0, "t1"), c01Ren(0, "t0", a)},
		// parse-only in between
		{c01Reg(0, "t0", hello), c01Ren(0, "t0", a), {K: "parse", E: 0, Src: bee}, c01Ren(0, "t0", a)},
		// failing render, then good render, on the same and on another template
		{c01Reg(0, "t0", failing), c01Reg(0, "t1", hello), c01Ren(0, "t0", a), c01Ren(0, "t1", a), c01Ren(0, "t0"), c01Ren(0, "t1", a)},
		// parse error, then render; re-registration with a broken source keeps the old template
		{c01Reg(0, "t0", hello), c01Reg(0, "t0", c01Src{Nodes: []c01Node{c01T("q")}, Bad: 1}), c01Ren(0, "t0", a),
			c01Reg(0, "t1", c01Src{Bad: 2}), c01Ren(0, "t1"), c01Reg(0, "t2", c01Src{Bad: 3}), c01Ren(0, "t0", a)},
		// missing templates: top level, include, extends
		{c01Ren(0, "t0"), c01Reg(0, "t1", c01Ok(c01T("a"), c01Inc("t0"))), c01Ren(0, "t1"), c01Reg(0, "t2", c01Ok(c01Node{T: "extends", N: "t0"})), c01Ren(0, "t2"),
			c01Reg(0, "t0", hello), c01Ren(0, "t1", a), c01Ren(0, "t2", a)},
		// include chains rendered repeatedly
		{c01Reg(0, "t0", hello), c01Reg(0, "t1", c01Ok(c01T("("), c01Inc("t0"), c01T(")"))), c01Reg(0, "t2", c01Ok(c01Inc("t1"), c01Inc("t1"), c01Inc("t0"))),
			c01Ren(0, "t2", a), c01Ren(0, "t2", a), c01Ren(0, "t1", a), c01Ren(0, "t2", c01S("a", "Zed9")), c01Ren(0, "t0", a)},
		// extends chains rendered repeatedly, then the parent on its own, then re-registration of the parent
		{c01Reg(0, "t0", base), c01Reg(0, "t1", mid), c01Reg(0, "t2", leaf), c01Ren(0, "t2", a), c01Ren(0, "t2", a), c01Ren(0, "t1", a), c01Ren(0, "t0", a),
			c01Ren(0, "t2", a), c01Reg(0, "t0", c01Ok(c01T("new["), c01Node{T: "block", N: "c", A: []c01Node{c01T("n")}}, c01T("]"))), c01Ren(0, "t2", a), c01Ren(0, "t2", a)},
		// an include inside a loop, loop variable visible in the included template and left behind
		{c01Reg(0, "t0", c01Ok(c01T("."), c01P("i0"), c01P("a"))), c01Reg(0, "t1", loop), c01Ren(0, "t1", c01L("xs", "x", "hello"), a), c01Ren(0, "t1", c01L("xs"), a),
			c01Ren(0, "t1", a), c01Ren(0, "t1", c01L("xs", "v1"))},
		// a failing include in the middle of a chain, then the chain again after repair
		{c01Reg(0, "t0", failing), c01Reg(0, "t1", c01Ok(c01T("<"), c01Inc("t0"), c01T(">"))), c01Ren(0, "t1"), c01Ren(0, "t1"), c01Reg(0, "t0", hello), c01Ren(0, "t1", a), c01Ren(0, "t1", a)},
		// GC between renders
		{c01Reg(0, "t0", hello), c01Ren(0, "t0", a), gc, c01Ren(0, "t0", a), gc, c01Reg(0, "t1", bee), gc, c01Ren(0, "t0", a), c01Ren(0, "t1")},
		// cache toggles: a registered template is served whatever the setting
		{c01Reg(0, "t0", hello), {K: "setcache", E: 0, On: false}, c01Ren(0, "t0", a), c01Ren(0, "t0", a), c01Reg(0, "t1", bee), c01Ren(0, "t1"), c01Ren(0, "t1"),
			{K: "setcache", E: 0, On: true}, c01Ren(0, "t0", a), c01Ren(0, "t1"), c01Ren(0, "t2")},
		// two engines interleaved, same names, different bodies
		{c01Reg(0, "t0", hello), c01Reg(1, "t0", bee), c01Ren(0, "t0", a), c01Ren(1, "t0"), c01Ren(0, "t0", a), c01Reg(1, "t1", c01Ok(c01Inc("t0"), c01T("!"))), c01Ren(1, "t1"),
			c01Ren(0, "t1"), c01Reg(0, "t1", c01Ok(c01Inc("t0"), c01T("?"))), c01Ren(0, "t1", a), c01Ren(1, "t1"), c01Ren(2, "t0")},
	}
}

func c01Setup() []c01Op {
	base := c01Ok(c01T("["), c01Node{T: "block", N: "c", A: []c01Node{c01T("base-c "), c01P("a")}}, c01T("]"))
	return []c01Op{c01Reg(0, "t0", base), c01Reg(0, "t1", c01Ok(c01T("<"), c01Inc("t0"), c01T(">"))),
		c01Reg(0, "t2", c01Ok(c01Node{T: "extends", N: "t0"}, c01Node{T: "block", N: "c", A: []c01Node{c01T("child-c "), c01P("a")}}))}
}

func c01Probe() []c01Op {
	a := c01S("a", "v1")
	return []c01Op{c01Ren(0, "t0", a), c01Ren(0, "t1", a), c01Ren(0, "t2", a), c01Ren(0, "t2", c01S("a", "x"))}
}

func c01Alphabet() []c01Op {
	a := c01S("a", "hello")
	return []c01Op{
		c01Reg(0, "t0", c01Ok(c01T("plain "), c01P("a"))), // replaces the base: no block any more
		c01Reg(0, "t0", c01Ok(c01T("x"), c01Node{T: "fail"})),
		c01Reg(0, "t0", c01Src{Bad: 1}),
		c01Reg(0, "t3", c01Ok(c01Inc("t1"), c01Inc("t2"))),
		{K: "parse", E: 0, Src: c01Ok(c01T("parsed only"))},
		{K: "parse", E: 1, Src: c01Src{Bad: 2}},
		c01Ren(0, "t0", a), c01Ren(0, "t1", a), c01Ren(0, "t2", a), c01Ren(0, "t3", a), c01Ren(0, "t5"),
		c01Reg(1, "t0", c01Ok(c01T("other engine"))), c01Ren(1, "t0"), c01Ren(1, "t1"),
		{K: "setcache", E: 0, On: false}, {K: "setcache", E: 0, On: true},
		{K: "gc", Mode: "all"},
	}
}

// ---- entry point ---------------------------------------------------------------------------------------------

func runC01(e *Env) error {
	r := e.Rep
	r.Rule = "histories of 1–40 (thorough: up to 200) operations RegisterString / ParseTemplate / Render / SetCache / runtime.GC over 1–3 engines and 1–6 template names; " +
		"templates from the grammar text | {{ var }} | if | for | include | extends+block | a call of an unknown function (fails at render) | three kinds of syntax error; " +
		"a template refers only to lower-numbered names (acyclic); about one source in forty is padded to 2.6–21 KB (text, many small tags, or if/for bodies), the regression corpus runs again with every source padded along a falling and a rising ladder of lengths, and every ordered pair of (length, shape) kinds is parsed one after the other on three routes (also compared with a direct computation of the output). Every Render is compared with (1) a fresh engine holding the same templates in this process, " +
		"(2) for a sample, a pristine child process, (3) the Lean model run pool-free and with pools under LIFO / FIFO / seeded-random Get oracles. " +
		"plus the endurance dimension (c01_soak.go): every expression site of every tag × four ways of failing there, every other failing exit of include / extends / import / from / macro, the engine API's own failures, a writer that fails after k bytes and every successful probe, each repeated 1100 (thorough: 10000) times on an engine of its own, on one engine in turn and in seeded interleavings, with one probe template per tag rendered at the check points 1 2 3 5 9 17 … and compared with literals and with a twin engine that never saw the repetitions (implementation-only). " +
		"plus attribute reads of 12 Go types met for the first time in every order of value/pointer and field/method (process-wide attribute cache; implementation-only). non-trivial = a render with non-empty output that follows at least one earlier parse or render; distinct by the operation list"
	if e.Replay != "" {
		return c01ReplayFile(e)
	}
	// the driver's pinned-facts variant must reproduce the pinned defects (sanity check of the model as built)
	if e.Model != nil {
		corpus := c01Corpus()
		for i, want := range []string{"", hx("B-body")} {
			h := corpus[i][:4]
			ms, _, err := c01Model(e, h, "pinned", map[string]any{"kind": "lifo"})
			if err != nil {
				return err
			}
			if len(ms) != 4 || !ms[3].Ok || ms[3].Out != want {
				r.Violate(Violation{Key: "model-pinned-regression", What: "the driver with the pinned facts no longer reproduces the pinned defect", Broken: "C01_counterexample_pinned_* as executed by the driver",
					Replay: map[string]any{"corpus_index": i, "model": ms}})
			} else {
				r.Hit("pinned-facts-model-reproduces-defect")
			}
		}
	}
	budget := e.N(100, 2000)
	for _, h := range c01Corpus() {
		big := 1 << 30
		if ok, err := c01Check(e, h, "corpus", 1.0, &big); err != nil {
			return err
		} else if !ok {
			return nil
		}
	}
	r.Sample(map[string]any{"kind": "corpus", "ops": c01OpsJSON(c01Corpus()[1])})
	// the endurance dimension: one operation repeated a few hundred times on one engine, see c01_soak.go
	if err := c01Soak(e, ""); err != nil {
		return err
	}
	if r.Full() {
		return nil
	}
	// the size dimension: long sources (another tokenizer, other buffer classes), see c01_sizes.go
	if ok, err := c01SizeCorpus(e); err != nil || !ok {
		return err
	}
	if ok, err := c01SizePairs(e); err != nil || !ok {
		return err
	}
	// every pair (thorough: triple) of operations from a small alphabet between a fixed set-up and a fixed
	// sequence of renders: three template shapes (blocks / include / extends)
	alpha := c01Alphabet()
	depth := e.N(2, 3)
	var seqs func(prefix []c01Op, d int) error
	stop := false
	seqs = func(prefix []c01Op, d int) error {
		if stop {
			return nil
		}
		if d == 0 {
			h := append(append(c01Setup(), prefix...), c01Probe()...)
			r.Hit("op-tuples")
			zero := 0
			ok, err := c01Check(e, h, "tuple", 0, &zero)
			if err != nil {
				return err
			}
			if !ok {
				stop = true
			}
			return nil
		}
		for _, op := range alpha {
			if err := seqs(append(append([]c01Op{}, prefix...), op), d-1); err != nil {
				return err
			}
		}
		return nil
	}
	if err := seqs(nil, depth); err != nil {
		return err
	}
	r.Note(fmt.Sprintf("all %d-tuples over an alphabet of %d operations", depth, len(alpha)))
	n := e.N(1000, 22000)
	maxOps := e.N(40, 200)
	avgOps := e.N(20, 60)
	p := 1.3 * float64(budget) / (float64(n) * float64(avgOps) * 0.5)
	for i := 0; i < n && !r.Full(); i++ {
		mo := maxOps
		if e.Thorough() && i%4 != 0 {
			mo = 40
		}
		if e.Thorough() && i%2000 == 0 {
			c01StopWorker()
			c01Procs = []int{1, 2, 4, 8}[(i/2000)%4]
			r.Hit(fmt.Sprintf("worker-gomaxprocs:%d", c01Procs))
		}
		h, nEng := c01GenHistory(e.Rng, mo)
		r.Hit(fmt.Sprintf("engines:%d", nEng))
		if i < 3 {
			r.Sample(map[string]any{"kind": "random", "ops": c01OpsJSON(h)})
		}
		if ok, err := c01Check(e, h, "rand", p, &budget); err != nil {
			return err
		} else if !ok {
			break
		}
		// templates registered at the very start of the run on an engine of their own keep rendering the same while
		// all these histories (and a failing or operator-rich parse in between) go by
		guarded(func() (string, error) { return "", twig.New().RegisterString("primer", primers[i%len(primers)]) })
		if i%5 == 0 {
			otherEngineOverrides()
		}
		sentinelCheck(e)
	}
	r.Note(fmt.Sprintf("pristine-process comparisons left unused: %d", budget))
	c01StopWorker()
	// process-wide state that is not a pool: the attribute cache
	c01AttrOrders(e)
	c01SharedHandles(e)
	c01LoaderAfterMiss(e)
	if err := c01SharedLibCorpus(e); err != nil {
		return err
	}
	matchesOracle(e, "theorem C01_history_independence (a pattern matched earlier, on any engine, does not change a later match; implementation-only oracle against package regexp)")
	return nil
}

// c01ReplayFile re-runs a recorded violation's history (the "ops" array of its replay object).
func c01ReplayFile(e *Env) error {
	if name, ok := c01IsSoakReplay(e.Replay); ok {
		return c01SoakReplay(e, name)
	}
	b, err := os.ReadFile(e.Replay)
	if err != nil {
		return err
	}
	var rec struct {
		Ops []json.RawMessage `json:"ops"`
	}
	if err := json.Unmarshal(b, &rec); err != nil {
		return err
	}
	h, err := c01OpsFromJSON(rec.Ops)
	if err != nil {
		return err
	}
	// which object a sync.Pool hands out depends on scheduling and GC timing: give the history a few chances
	for try := 0; try < 5 && len(e.Rep.Violations) == 0; try++ {
		big := 1 << 30
		c01StopWorker()
		if _, err = c01Check(e, h, "replay", 1.0, &big); err != nil {
			return err
		}
	}
	c01StopWorker()
	return nil
}

func c01NodesFromJSON(raw []json.RawMessage) ([]c01Node, error) {
	var out []c01Node
	for _, x := range raw {
		var m struct {
			T, S, V, X, XS, N string
			Then, Else, Body  []json.RawMessage
		}
		if err := json.Unmarshal(x, &m); err != nil {
			return nil, err
		}
		n := c01Node{T: m.T, S: unhx(m.S), V: m.V, X: m.X, XS: m.XS, N: m.N}
		var err error
		switch m.T {
		case "if":
			if n.A, err = c01NodesFromJSON(m.Then); err != nil {
				return nil, err
			}
			if n.B, err = c01NodesFromJSON(m.Else); err != nil {
				return nil, err
			}
		case "for", "block":
			if n.A, err = c01NodesFromJSON(m.Body); err != nil {
				return nil, err
			}
		}
		out = append(out, n)
	}
	return out, nil
}

func c01OpsFromJSON(raw []json.RawMessage) ([]c01Op, error) {
	var h []c01Op
	for _, x := range raw {
		var m struct {
			K, N, Mode string
			E, M, R    int
			On         bool
			Src        struct {
				Bad   bool
				Nodes []json.RawMessage
			}
			SourceHex string `json:"source_hex"`
			Vars      [][]json.RawMessage
		}
		if err := json.Unmarshal(x, &m); err != nil {
			return nil, err
		}
		op := c01Op{K: m.K, E: m.E, N: m.N, On: m.On, Mode: m.Mode, M: m.M, R: m.R}
		ns, err := c01NodesFromJSON(m.Src.Nodes)
		if err != nil {
			return nil, err
		}
		op.Src.Nodes = ns
		if m.Src.Bad {
			// recover which flavour of syntax error from the recorded source
			src := unhx(m.SourceHex)
			op.Src.Bad = 1
			for b := 1; b <= 3; b++ {
				if (c01Src{Nodes: ns, Bad: b}).text() == src {
					op.Src.Bad = b
				}
			}
		}
		for _, pair := range m.Vars {
			if len(pair) != 2 {
				continue
			}
			var name, s string
			json.Unmarshal(pair[0], &name)
			if json.Unmarshal(pair[1], &s) == nil {
				op.Vars = append(op.Vars, c01Var{Name: name, Str: unhx(s)})
				continue
			}
			var l []string
			json.Unmarshal(pair[1], &l)
			for i := range l {
				l[i] = unhx(l[i])
			}
			op.Vars = append(op.Vars, c01Var{Name: name, List: l, IsL: true})
		}
		h = append(h, op)
	}
	return h, nil
}
