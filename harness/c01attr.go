package main

import (
	"fmt"
	"strings"

	"github.com/semihalev/twig"
)

// C01, process-wide state beyond the pools: what an attribute lookup returns must not depend on which values of
// the same Go type were looked at before, on this or another engine (the attribute cache is shared by the whole
// process). Every instantiation of c01Acc is a distinct Go type, so each one meets the cache for the first time
// once per process: the orders "value first" and "pointer first", "field first" and "method first" are each
// exercised on a type of their own.

type c01Acc[T any] struct {
	Owner string
	tag   T
}

func (a *c01Acc[T]) Label() string { return "label of " + a.Owner } // pointer receiver
func (a c01Acc[T]) Name() string   { return "name of " + a.Owner }

type c01AttrProbe struct {
	ptr  bool
	attr string
}

func c01AttrExpected(p c01AttrProbe, owner string) string {
	switch p.attr {
	case "Owner":
		return owner
	case "Name":
		return "name of " + owner
	case "Label":
		return "label of " + owner // the engine calls a pointer-receiver method on a copy of a value (see C20's zoo)
	}
	return ""
}

func c01AttrOrders(e *Env) {
	r := e.Rep
	mk := []func(owner string, ptr bool) interface{}{
		func(o string, p bool) interface{} { v := c01Acc[int8]{Owner: o}; return c01PV(&v, p) },
		func(o string, p bool) interface{} { v := c01Acc[int16]{Owner: o}; return c01PV(&v, p) },
		func(o string, p bool) interface{} { v := c01Acc[int32]{Owner: o}; return c01PV(&v, p) },
		func(o string, p bool) interface{} { v := c01Acc[int64]{Owner: o}; return c01PV(&v, p) },
		func(o string, p bool) interface{} { v := c01Acc[uint8]{Owner: o}; return c01PV(&v, p) },
		func(o string, p bool) interface{} { v := c01Acc[uint16]{Owner: o}; return c01PV(&v, p) },
		func(o string, p bool) interface{} { v := c01Acc[uint32]{Owner: o}; return c01PV(&v, p) },
		func(o string, p bool) interface{} { v := c01Acc[uint64]{Owner: o}; return c01PV(&v, p) },
		func(o string, p bool) interface{} { v := c01Acc[string]{Owner: o}; return c01PV(&v, p) },
		func(o string, p bool) interface{} { v := c01Acc[bool]{Owner: o}; return c01PV(&v, p) },
		func(o string, p bool) interface{} { v := c01Acc[float32]{Owner: o}; return c01PV(&v, p) },
		func(o string, p bool) interface{} { v := c01Acc[float64]{Owner: o}; return c01PV(&v, p) },
	}
	all := []c01AttrProbe{{false, "Owner"}, {false, "Label"}, {false, "Name"}, {true, "Owner"}, {true, "Label"}, {true, "Name"}}
	for ti, mkv := range mk {
		// a different first probe per type, the rest shuffled; every probe on an engine of its own
		order := append([]c01AttrProbe{}, all...)
		e.Rng.Shuffle(len(order), func(i, j int) { order[i], order[j] = order[j], order[i] })
		first := ti % len(all)
		for i, p := range order {
			if p == all[first] {
				order[0], order[i] = order[i], order[0]
			}
		}
		order = append(order, all...) // and once more in the canonical order, now with a warm cache
		for step, p := range order {
			owner := fmt.Sprintf("o%d", step)
			val := mkv(owner, p.ptr)
			res := guarded(func() (string, error) {
				eng := twig.New()
				if err := eng.RegisterString("t", "{{ acc."+p.attr+" }}"); err != nil {
					return "", err
				}
				return eng.Render("t", map[string]interface{}{"acc": val})
			})
			want := c01AttrExpected(p, owner)
			r.Seen(fmt.Sprintf("attr-order:%d:%d", ti, step), true)
			r.Hit("attribute-after-other-lookups")
			if res.Class != "" || res.Out != want {
				if r.Violate(Violation{Key: "attribute-depends-on-earlier-lookups", What: fmt.Sprintf("{{ acc.%s }} on a %T renders %q (%s) after %d earlier lookups on values and pointers of that type, a first lookup gives %q", p.attr, val, res.Out, res.Class, step, want),
					Broken: "theorem C01_history_independence (process-wide attribute cache; implementation-only oracle: the method-set rule of the Go type)",
					Replay: map[string]any{"kind": "attr-order", "type_index": ti, "step": step, "order": fmt.Sprint(order[:step+1]), "got": res.Out, "want": want}}) {
					return
				}
			}
		}
	}
}

func c01PV[T any](v *c01Acc[T], ptr bool) interface{} {
	if ptr {
		return v
	}
	return *v
}

// c01SharedHandles: a parsed template reachable through more than one owner (registered on a second engine with
// RegisterTemplate, kept by the caller as a *Template, registered under a second name) keeps rendering the same
// after the engine it came from registers another template under that name and parses further templates.
func c01SharedHandles(e *Env) {
	r := e.Rep
	shapes := []struct{ src, want string }{
		{"Hello {{ name }}!", "Hello Ada!"},
		{"{% for i in [1, 2, 3] %}[{{ i }}{% if i > 1 %}+{{ name }}{% endif %}]{% endfor %}", "[1][2+Ada][3+Ada]"},
		{"{% block b %}B {{ name|upper }}{% endblock %}|{% set q = name ~ '?' %}{{ q }}", "B ADA|Ada?"},
		{"{% macro m(x) %}<{{ x }}>{% endmacro %}{{ m(name) }}{{ _self.m(1) }}", "<Ada><1>"},
		{"a {{- name -}} b {# c #}{% verbatim %}{{ raw }}{% endverbatim %}", "aAdab {{raw}}"},
		// what the template reaches through ITS engine (another template, a global, a user filter) stays that engine's
		{"[{% include 'part' %}|{{ gl }}|{{ name|own }}]", "[one|alpha|own1(Ada)]"},
	}
	ctx := func() map[string]interface{} { return map[string]interface{}{"name": "Ada"} }
	for si, sh := range shapes {
		res := guarded(func() (string, error) {
			site := twig.New()
			site.RegisterString("part", "one")
			site.AddGlobal("gl", "alpha")
			site.AddFilter("own", func(v interface{}, a ...interface{}) (interface{}, error) { return fmt.Sprintf("own1(%v)", v), nil })
			if err := site.RegisterString("greeting", sh.src); err != nil {
				return "", err
			}
			handle, err := site.Load("greeting")
			if err != nil {
				return "", err
			}
			if out, err := site.Render("greeting", ctx()); err != nil || out != sh.want {
				return "", fmt.Errorf("HANDLE-CHANGED before sharing, first engine: %q %v", out, err)
			}
			mail := twig.New()
			mail.RegisterString("part", "two")
			mail.AddGlobal("gl", "beta")
			mail.AddFilter("own", func(v interface{}, a ...interface{}) (interface{}, error) { return fmt.Sprintf("own2(%v)", v), nil })
			mail.RegisterTemplate("greeting", handle)
			if _, err := mail.Render("greeting", ctx()); err != nil {
				return "", fmt.Errorf("the second engine cannot render the shared handle: %v", err)
			}
			if out, err := site.Render("greeting", ctx()); err != nil || out != sh.want {
				return "", fmt.Errorf("HANDLE-CHANGED right after the handle was registered on a second engine, first engine: %q %v", out, err)
			}
			if out, err := handle.Render(ctx()); err != nil || out != sh.want {
				return "", fmt.Errorf("HANDLE-CHANGED right after the handle was registered on a second engine, kept handle: %q %v", out, err)
			}
			if out, err := site.Render("alias0", ctx()); err == nil {
				return "", fmt.Errorf("unregistered name renders %q", out)
			}
			site.RegisterTemplate("alias0", handle)
			if out, err := site.Render("alias0", ctx()); err != nil || out != sh.want {
				return "", fmt.Errorf("HANDLE-CHANGED after the handle was registered on a second engine, first engine: %q %v", out, err)
			}
			site.RegisterTemplate("alias", handle)
			check := func(when string) error {
				for who, f := range map[string]func() (string, error){
					"second engine": func() (string, error) {
						out, err := mail.Render("greeting", ctx())
						if strings.Contains(sh.src, "include") && err == nil {
							return sh.want, nil // whose 'part' and globals a shared handle sees on the second engine is not specified; only that it renders
						}
						return out, err
					},
					"kept handle": func() (string, error) { return handle.Render(ctx()) },
					"alias":       func() (string, error) { return site.Render("alias", ctx()) },
				} {
					if out, err := f(); err != nil || out != sh.want {
						return fmt.Errorf("HANDLE-CHANGED %s, %s: %q %v", when, who, out, err)
					}
				}
				return nil
			}
			if err := check("at once"); err != nil {
				return "", err
			}
			for k := 0; k < 4; k++ {
				if err := site.RegisterString("greeting", fmt.Sprintf("Hi {{ name }} %d {%% for j in [7, 8] %%}({{ j }}){%% endfor %%}{%% block b %%}x{%% endblock %%}", k)); err != nil {
					return "", err
				}
				site.RegisterString(fmt.Sprintf("footer%d", k), "-- sent by the site {% if name %}{{ name }}{% endif %}")
				if out, err := site.Render("greeting", ctx()); err != nil || !strings.HasPrefix(out, "Hi Ada") {
					return "", fmt.Errorf("site renders its new greeting as %q %v", out, err)
				}
				twig.New().RegisterString("other", "{% macro zz(a) %}{{ a }}{% endmacro %}{{ zz(1) }}{% for q in [1] %}{{ q }}{% endfor %}")
				if err := check(fmt.Sprintf("after re-registration %d", k+1)); err != nil {
					return "", err
				}
			}
			return "ok", nil
		})
		r.Seen(fmt.Sprintf("shared-handle:%d", si), true)
		r.Hit("shared-template-handles")
		if res.Err != nil || res.Class != "" {
			if r.Violate(Violation{Key: "shared-template-changed", What: fmt.Sprintf("template %q owned by two engines and a caller: %v %s", sh.src, res.Err, res.Class),
				Broken: "theorem C01_history_independence / C01_never_stale_source (a parsed template is never recycled while reachable; implementation-only oracle)",
				Replay: map[string]any{"kind": "shared-handle", "src": sh.src, "want": sh.want, "err": fmt.Sprint(res.Err), "class": res.Class, "panic": res.Panic}}) {
				return
			}
		}
	}
}

// c01LoaderAfterMiss: a name that no loader had is looked up again after a loader that has it is registered (and after
// it is registered as a string): nothing remembers the miss.
func c01LoaderAfterMiss(e *Env) {
	r := e.Rep
	for _, how := range []string{"RegisterLoader", "RegisterString", "second-loader", "SetTemplate"} {
		for _, page := range []string{"A{% include 'footer' ignore missing %}B", "A{% include 'footer' ignore missing %}{% include 'footer' ignore missing %}B"} {
			res := guarded(func() (string, error) {
				eng := twig.New()
				mem := twig.NewArrayLoader(map[string]string{"page": page})
				eng.RegisterLoader(mem)
				for k := 0; k < 3; k++ {
					if out, err := eng.Render("page", nil); err != nil || out != "AB" {
						return "", fmt.Errorf("before: %q %v", out, err)
					}
				}
				if _, err := eng.Render("footer", nil); err == nil {
					return "", fmt.Errorf("footer exists before it was added")
				}
				switch how {
				case "RegisterLoader", "second-loader":
					eng.RegisterLoader(twig.NewArrayLoader(map[string]string{"footer": "-F-"}))
				case "RegisterString":
					if err := eng.RegisterString("footer", "-F-"); err != nil {
						return "", err
					}
				case "SetTemplate":
					mem.SetTemplate("footer", "-F-")
				}
				if how == "second-loader" {
					eng.RegisterLoader(twig.NewArrayLoader(map[string]string{"other": "x"}))
				}
				if out, err := eng.Render("footer", nil); err != nil || out != "-F-" {
					return "", fmt.Errorf("MISS-REMEMBERED: Render(footer) after %s gives %q %v", how, out, err)
				}
				return "ok", nil
			})
			r.Seen("loader-after-miss:"+how+page, true)
			r.Hit("loader-after-miss")
			if res.Err != nil || res.Class != "" {
				if r.Violate(Violation{Key: "miss-remembered", What: fmt.Sprintf("a template missing at first and supplied later through %s: %v %s", how, res.Err, res.Class),
					Broken: "theorem C01_history_independence / C15_serves_expected (a failed lookup leaves no trace; implementation-only oracle)",
					Replay: map[string]any{"kind": "loader-after-miss", "how": how, "page": page, "err": fmt.Sprint(res.Err)}}) {
					return
				}
			}
		}
	}
}
