package main

import (
	"fmt"
	"math/rand"
	"strconv"
	"strings"
)

// C11 (s5) — the loop state of the including template is part of what an included template reads.
//
// A chain of templates L0 → L1 → … → Lk, every one standing in 0–2 nested for loops of the template that includes it
// (lists, maps, strings, ranges; with and without a key variable; 1–3 elements), the loop bodies being anything from
// "nothing but the include tag" to bodies with text, prints, comments, conditionals, assignments and blocks around it.
// Every template prints, at every point where it may, its view of `loop` (all seven counters) and of every loop
// variable of the chain: inside its loops before and after the include, after its loops, and the last template of the
// chain at its top level, inside loops of its own and after them.
// The expected text is computed here from the scope rule alone (an included template reads what the including template
// reads at that point; `with` adds, `only` hides, writes stay local) and — independently — by the Lean pipeline.

type c11Item struct{ k, v string } // how the key and the value print

type c11LoopSpec struct {
	seq      string // the sequence expression
	keyVar   string // "" = none
	valVar   string
	valPrint string // expression that prints the value (rows print an attribute)
	fromData bool   // the sequence is a variable of the render data
	items    []c11Item
	pre      int // what stands in the body before the inner part
	post     int // … and after it
	wrap     int // what the inner part is wrapped in
}

type c11WithSpec struct{ name, kind, expr, val string }

type c11IncSpec struct {
	target                   string
	with                     []c11WithSpec
	only, ignore, sandboxed  bool
	probeBefore, probeBehind bool // the including template's own view right around the tag
}

type c11Level struct {
	loops      []c11LoopSpec
	inc        *c11IncSpec // nil: the last template of the chain (it reads instead)
	head, tail bool        // view at the top of the template / after its loops
	tailSet    string      // an assignment at the very end (a write of an included template stays there)
}

type c11Frame struct{ i, n int }

type c11Scope struct {
	loop   *c11Frame
	vars   map[string]string
	noData bool // behind an `only`: the render data is hidden too
}

func (s c11Scope) clone() c11Scope {
	out := c11Scope{loop: s.loop, vars: map[string]string{}, noData: s.noData}
	for k, v := range s.vars {
		out.vars[k] = v
	}
	return out
}

var c11LoopFields = "{{ loop.index }},{{ loop.index0 }},{{ loop.revindex }},{{ loop.revindex0 }},{{ loop.first ? 'F' : 'f' }},{{ loop.last ? 'L' : 'l' }},{{ loop.length }}"

// the names a loop variable, a key variable and a `with` variable may have (rows: `r`, printed through an attribute)
var c11ValNames = []string{"x", "y", "z"}
var c11KeyNames = []string{"k", "j"}

const c11LoopView = "{% if loop is defined %}[" + "@" + "]{% else %}[U]{% endif %}"

func c11ViewSrc(tag string) string {
	var sb strings.Builder
	sb.WriteString(tag + strings.Replace(c11LoopView, "@", c11LoopFields, 1))
	for _, n := range c11ValNames {
		sb.WriteString("{% if " + n + " is defined %}" + n + "={{ " + n + " }};{% endif %}")
	}
	for _, n := range c11KeyNames {
		sb.WriteString("{% if " + n + " is defined %}" + n + "={{ " + n + " }};{% endif %}")
	}
	sb.WriteString("{% if r is defined %}r={{ r.n }};{% endif %}{% if w is defined %}w={{ w }};{% endif %}")
	return sb.String()
}

func c11ViewOut(tag string, s c11Scope) string {
	var sb strings.Builder
	sb.WriteString(tag)
	if s.loop == nil {
		sb.WriteString("[U]")
	} else {
		i, n := s.loop.i, s.loop.n
		f, l := "f", "l"
		if i == 0 {
			f = "F"
		}
		if i == n-1 {
			l = "L"
		}
		sb.WriteString(fmt.Sprintf("[%d,%d,%d,%d,%s,%s,%d]", i+1, i, n-i, n-i-1, f, l, n))
	}
	for _, n := range append(append(append([]string{}, c11ValNames...), c11KeyNames...), "r", "w") {
		if v, ok := s.vars[n]; ok {
			sb.WriteString(n + "=" + v + ";")
		}
	}
	return sb.String()
}

// a random loop head over one of the iterable kinds
func c11GenLoop(rg *rand.Rand, used map[string]bool) (c11LoopSpec, map[string]any) {
	n := 1 + rg.Intn(3)
	ctx := map[string]any{}
	var lp c11LoopSpec
	free := func(pool []string) string {
		for tries := 0; tries < 20; tries++ {
			c := pick(rg, pool)
			if !used[c] {
				used[c] = true
				return c
			}
		}
		return ""
	}
	kind := rg.Intn(6)
	if kind == 2 && used["r"] {
		kind = 0
	}
	if kind == 2 {
		lp.valVar, lp.valPrint = "r", "r.n"
		used["r"] = true
	} else {
		lp.valVar = free(c11ValNames)
		lp.valPrint = lp.valVar
	}
	if rg.Intn(3) == 0 || kind == 4 {
		lp.keyVar = free(c11KeyNames)
	}
	switch kind {
	case 0: // list literal
		var xs []string
		for i := 0; i < n; i++ {
			v := strconv.Itoa(10 + rg.Intn(80))
			xs = append(xs, v)
			lp.items = append(lp.items, c11Item{strconv.Itoa(i), v})
		}
		lp.seq = "[" + strings.Join(xs, ", ") + "]"
	case 1: // a list of the render data
		var xs []interface{}
		for i := 0; i < n; i++ {
			v := "it" + strconv.Itoa(i)
			xs = append(xs, v)
			lp.items = append(lp.items, c11Item{strconv.Itoa(i), v})
		}
		lp.seq, lp.fromData = "items"+strconv.Itoa(n), true
		ctx[lp.seq] = xs
	case 2: // a list of maps
		var xs []interface{}
		for i := 0; i < n; i++ {
			v := "row" + strconv.Itoa(i)
			xs = append(xs, map[string]interface{}{"n": v})
			lp.items = append(lp.items, c11Item{strconv.Itoa(i), v})
		}
		lp.seq, lp.fromData = "rows"+strconv.Itoa(n), true
		ctx[lp.seq] = xs
	case 3: // a string
		s := "pqr"[:n]
		for i := 0; i < n; i++ {
			lp.items = append(lp.items, c11Item{strconv.Itoa(i), s[i : i+1]})
		}
		lp.seq = "'" + s + "'"
	case 4: // a map (visited in key order)
		m := map[string]interface{}{}
		for i := 0; i < n; i++ {
			k := "abc"[i : i+1]
			m[k] = "m" + k
			lp.items = append(lp.items, c11Item{k, "m" + k})
		}
		lp.seq, lp.fromData = "map"+strconv.Itoa(n), true
		ctx[lp.seq] = m
	default: // range
		for i := 0; i < n; i++ {
			lp.items = append(lp.items, c11Item{strconv.Itoa(i), strconv.Itoa(i + 1)})
		}
		lp.seq = "range(1, " + strconv.Itoa(n) + ")"
	}
	// the body around the inner part: mostly the kinds of node a list-rendering body is made of
	lp.pre = pick(rg, []int{0, 0, 0, 1, 1, 2, 3, 4, 5, 6})
	lp.post = pick(rg, []int{0, 0, 0, 1, 2, 3})
	lp.wrap = pick(rg, []int{0, 0, 0, 0, 0, 1, 2})
	return lp, ctx
}

func c11GenChain(rg *rand.Rand) ([]c11Level, map[string]any) {
	depth := 1 + rg.Intn(3) // number of includes in the chain
	ctx := map[string]any{}
	var levels []c11Level
	for i := 0; i <= depth; i++ {
		var lv c11Level
		used := map[string]bool{}
		nl := pick(rg, []int{0, 1, 1, 1, 2})
		if i == depth {
			nl = pick(rg, []int{0, 0, 0, 1, 2})
		}
		for d := 0; d < nl; d++ {
			lp, c := c11GenLoop(rg, used)
			for k, v := range c {
				ctx[k] = v
			}
			lv.loops = append(lv.loops, lp)
		}
		lv.head = rg.Intn(4) == 0
		lv.tail = rg.Intn(3) == 0
		if i > 0 && rg.Intn(3) == 0 {
			lv.tailSet = pick(rg, append(append([]string{"w"}, c11ValNames...), c11KeyNames...))
		}
		if i < depth {
			inc := &c11IncSpec{target: "'L" + strconv.Itoa(i+1) + "'"}
			if rg.Intn(6) == 0 {
				inc.target = "'L' ~ '" + strconv.Itoa(i+1) + "'"
			}
			inc.only = rg.Intn(6) == 0
			inc.ignore = rg.Intn(6) == 0
			inc.sandboxed = rg.Intn(10) == 0
			inc.probeBefore = rg.Intn(5) == 0
			inc.probeBehind = rg.Intn(4) == 0
			if rg.Intn(3) == 0 {
				inc.with = []c11WithSpec{{name: pick(rg, append([]string{"w", "w", "w"}, c11ValNames...)), kind: pick(rg, []string{"lit", "val", "val", "loop"})}}
			}
			lv.inc = inc
		}
		levels = append(levels, lv)
	}
	return levels, ctx
}

// the source text of one template of the chain
func c11LevelSrc(i int, lv c11Level) string {
	tag := "<" + strconv.Itoa(i)
	var core string
	if lv.inc == nil {
		core = c11ViewSrc(tag+"r") + ">"
	} else {
		inc := "{% include " + lv.inc.target
		if lv.inc.ignore {
			inc += " ignore missing"
		}
		if len(lv.inc.with) > 0 {
			var ws []string
			for _, w := range lv.inc.with {
				ws = append(ws, "'"+w.name+"': "+w.expr)
			}
			inc += " with {" + strings.Join(ws, ", ") + "}"
		}
		if lv.inc.only {
			inc += " only"
		}
		if lv.inc.sandboxed {
			inc += " sandboxed"
		}
		inc += " %}"
		core = inc
		if lv.inc.probeBefore {
			core = c11ViewSrc(tag+"b") + ">" + core
		}
		if lv.inc.probeBehind {
			core += c11ViewSrc(tag+"a") + ">"
		}
	}
	for d := len(lv.loops) - 1; d >= 0; d-- {
		lp := lv.loops[d]
		switch lp.wrap {
		case 1:
			core = "{% if true %}" + core + "{% endif %}"
		case 2:
			core = "{% block b" + strconv.Itoa(i) + strconv.Itoa(d) + " %}" + core + "{% endblock %}"
		}
		var pre, post string
		switch lp.pre {
		case 1:
			pre = "- {{ " + lp.valPrint + " }} "
		case 2:
			pre = "{# row #}"
		case 3:
			pre = c11ViewSrc(tag+"p") + ">"
		case 4:
			pre = "{% if true %}i{% endif %}"
		case 5:
			pre = "{% set s" + strconv.Itoa(d) + " = 1 %}"
		case 6:
			pre = "{{ loop.index }}:"
		}
		switch lp.post {
		case 1:
			post = ";"
		case 2:
			post = c11ViewSrc(tag+"q") + ">"
		case 3:
			post = "\n"
		}
		head := "{% for "
		if lp.keyVar != "" {
			head += lp.keyVar + ", "
		}
		head += lp.valVar + " in " + lp.seq + " %}"
		core = head + pre + core + post + "{% endfor %}"
	}
	src := core
	if lv.head {
		src = c11ViewSrc(tag+"h") + ">" + src
	}
	if lv.tail {
		src += c11ViewSrc(tag+"t") + ">"
	}
	if lv.tailSet != "" {
		src += "{% set " + lv.tailSet + " = 'T" + strconv.Itoa(i) + "' %}"
	}
	return src
}

// what the chain renders, by the scope rule alone. The scope of a template is its own: what it assigns (loop variables
// included) stays in it and is gone when it ends.
func c11Expect(levels []c11Level, i int, s c11Scope) string {
	lv := levels[i]
	tag := "<" + strconv.Itoa(i)
	var sb strings.Builder
	if lv.head {
		sb.WriteString(c11ViewOut(tag+"h", s) + ">")
	}
	var loops func(d int)
	loops = func(d int) {
		if d == len(lv.loops) {
			if lv.inc == nil {
				sb.WriteString(c11ViewOut(tag+"r", s) + ">")
				return
			}
			if lv.inc.probeBefore {
				sb.WriteString(c11ViewOut(tag+"b", s) + ">")
			}
			child := s.clone()
			if lv.inc.only {
				child = c11Scope{vars: map[string]string{}, noData: true}
			}
			for _, w := range lv.inc.with { // evaluated in the including template's scope
				switch w.kind {
				case "val":
					child.vars[w.name] = s.vars[lv.loops[len(lv.loops)-1].valVar]
				case "loop":
					child.vars[w.name] = strconv.Itoa(s.loop.i + 1)
				default:
					child.vars[w.name] = w.val
				}
			}
			sb.WriteString(c11Expect(levels, i+1, child))
			if lv.inc.probeBehind {
				sb.WriteString(c11ViewOut(tag+"a", s) + ">")
			}
			return
		}
		lp := lv.loops[d]
		if lp.fromData && s.noData {
			return // the sequence is a name nobody defines here: nothing to iterate
		}
		outer := s.loop
		for idx, it := range lp.items {
			s.vars[lp.valVar] = it.v
			if lp.keyVar != "" {
				s.vars[lp.keyVar] = it.k
			}
			s.loop = &c11Frame{idx, len(lp.items)}
			switch lp.pre {
			case 1:
				sb.WriteString("- " + it.v + " ")
			case 3:
				sb.WriteString(c11ViewOut(tag+"p", s) + ">")
			case 4:
				sb.WriteString("i")
			case 6:
				sb.WriteString(strconv.Itoa(idx+1) + ":")
			}
			loops(d + 1)
			s.loop = &c11Frame{idx, len(lp.items)}
			switch lp.post {
			case 1:
				sb.WriteString(";")
			case 2:
				sb.WriteString(c11ViewOut(tag+"q", s) + ">")
			case 3:
				sb.WriteString("\n")
			}
		}
		s.loop = outer
	}
	loops(0)
	if lv.tail {
		sb.WriteString(c11ViewOut(tag+"t", s) + ">")
	}
	return sb.String()
}

// the `with` values are expressions of the including template: fix their text and their value where the tag stands
func c11ResolveWith(levels []c11Level) {
	for i := range levels {
		lv := &levels[i]
		if lv.inc == nil {
			continue
		}
		for j := range lv.inc.with {
			w := &lv.inc.with[j]
			if len(lv.loops) == 0 {
				w.kind = "lit"
			}
			switch w.kind {
			case "lit":
				w.expr, w.val = "'W"+strconv.Itoa(i)+"'", "W"+strconv.Itoa(i)
			case "val":
				w.expr = lv.loops[len(lv.loops)-1].valPrint
			case "loop":
				w.expr = "loop.index"
			}
		}
	}
}

func c11LoopScope(e *Env) error {
	r := e.Rep
	rg := e.Rng
	n := e.N(300, 30000)
	for t := 0; t < n && !r.Full(); t++ {
		levels, ctx := c11GenChain(rg)
		c11ResolveWith(levels)
		tpls := map[string]string{}
		for i, lv := range levels {
			name := "L" + strconv.Itoa(i)
			tpls[name] = c11LevelSrc(i, lv)
		}
		c := &Case{Templates: tpls, Main: "L0", Ctx: ctx, FailAt: -1}
		sandboxed, enclosed, hidden := false, false, false
		for _, lv := range levels {
			if lv.inc != nil {
				sandboxed = sandboxed || lv.inc.sandboxed
				enclosed = enclosed || len(lv.loops) > 0
				hidden = hidden || lv.inc.only
			}
		}
		if sandboxed {
			c.Policy = &PolicySpec{Functions: []string{"range"}}
		}
		im, _, _, err := compareCase(e, c, "render-model-c11", "correspondence (Lean pipeline vs real engine) on includes inside loops")
		if err != nil {
			return err
		}
		r.Seen("loopscope:"+fmt.Sprint(tpls), enclosed && !hidden)
		r.Hit(fmt.Sprintf("loopscope-depth:%d", len(levels)-1))
		if enclosed {
			r.Hit("include-inside-loop")
		}
		want := c11Expect(levels, 0, c11Scope{vars: map[string]string{}})
		if im.Class != "" || im.Out != want {
			r.Violate(Violation{Key: "include-loop-scope", What: fmt.Sprintf("a chain of %d includes standing in for loops: got %q (%s), expected %q — an included template reads `loop` and the loop variables of the including template as that template reads them at the include tag", len(levels)-1, truncate(im.Out, 300), im.Class, truncate(want, 300)),
				Broken: "theorem C11_visibility / C11_non_interference (the loop state is part of the including template's variables; implementation-only oracle)",
				Replay: map[string]any{"kind": "render", "templates": tpls, "main": "L0", "ctx": ctx, "want": want, "got": im.Out, "class": im.Class, "msg": im.Msg}})
		}
	}
	return nil
}
