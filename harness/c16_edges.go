package main

import (
	"fmt"
	"math/rand"
	"strings"
)

// Source edges (added after seeded change C16-O was missed).
//
// The end-to-end sites used to consist of template text that starts and ends with ordinary characters, so a route that
// "tidies" the stored source on its way into the engine — strips a byte order mark, trims white space or a final
// newline, converts line ends, cuts at a NUL or a DOS end-of-file byte, normalises Unicode, repairs invalid UTF-8 —
// rendered every site like its source.  The statement quantifies over every source ("binary and non-UTF-8 sources
// alike"), so every byte sequence such tools care about is put at the head, at the tail, at both ends, in the middle
// and alone as the whole source of templates that then go through every route of c16EndToEnd (in-memory routes, the
// compiled files, CompiledLoader as a loader with the cache on and off, LoadCompiled, LoadAll).  Expected values: the
// engine the source was registered on with RegisterString (no loader involved), the source text itself for the
// field-wise checks, and for tag-free sources the text itself as the output.

// c16Marks: byte sequences that editors, transports and "helpful" loaders strip, convert or stop at.
var c16Marks = []struct{ id, s string }{
	{"bom8", "\xef\xbb\xbf"},               // UTF-8 byte order mark
	{"bom8x2", "\xef\xbb\xbf\xef\xbb\xbf"}, // only one of them would be taken by a stripper
	{"bom8cut", "\xef\xbb"},                // incomplete mark
	{"bom16le", "\xff\xfe"},
	{"bom16be", "\xfe\xff"},
	{"bom32le", "\xff\xfe\x00\x00"},
	{"zwsp", "\u200b"},
	{"wj", "\u2060"},
	{"nbsp", "\u00a0"},
	{"ls", "\u2028"},
	{"ps", "\u2029"},
	{"nel", "\u0085"},
	{"lf", "\n"},
	{"lf2", "\n\n"},
	{"crlf", "\r\n"},
	{"cr", "\r"},
	{"sp", " "},
	{"sp-lf", "  \n"},
	{"tab", "\t"},
	{"vt-ff", "\x0b\x0c"},
	{"nul", "\x00"},
	{"dos-eof", "\x1a"},
	{"del", "\x7f"},
	{"esc", "\x1b[0m"},
	{"shebang", "#!/usr/bin/env twig\n"},
	{"xml", "<?xml version=\"1.0\" encoding=\"utf-8\"?>\n"},
	{"backslash", "\\"},
	{"quote", "\"'`"},
	{"utf8-cut", "\xc3"},                 // first half of a two-byte sequence
	{"utf8-cut3", "\xe4\xb8"},            // two thirds of a three-byte sequence
	{"surrogate", "\xed\xa0\x80"},        // UTF-8-encoded surrogate half
	{"overlong", "\xc0\xaf"},             // overlong encoding of '/'
	{"ff", "\xff"},                       // never valid in UTF-8
	{"repl", "\ufffd"},                   // what a "repair" would leave behind
	{"nfd", "e\u0301"},                   // decomposed é: a normaliser would merge it
	{"nfc", "\u00e9"},                    // composed é: a normaliser would (or would not) split it
	{"astral", "\U0001F600"},             // four-byte sequence
	{"lone-brace", "{"},                  // text, not a tag
	{"lone-close", "}}"},                 // text, not a tag
	{"percent", "%}"},                    // text, not a tag
	{"entity", "&amp;<&>"},               // must not be (un)escaped
	{"long-ws", strings.Repeat(" ", 70)}, // more than one line of white space
}

// c16EdgeBodies: what the marks are wrapped around ("" gives the sources that consist of marks only).
var c16EdgeBodies = []struct{ id, s string }{
	{"text", "plain text"},
	{"print", "Hello {{ name }}!"},
	{"tags", "{% if t %}yes{% else %}no{% endif %}{% for i in xs %}[{{ i }}]{% endfor %}"},
}

// c16EdgeSource puts mark m around body b: position 0 head, 1 tail, 2 both ends, 3 middle (between two copies of the
// body), 4 the mark alone, 5 head of the second line.
func c16EdgeSource(m, b string, pos int) string {
	switch pos {
	case 0:
		return m + b
	case 1:
		return b + m
	case 2:
		return m + b + m
	case 3:
		return b + m + b
	case 4:
		return m
	default:
		return b + "\n" + m + b
	}
}

var c16EdgePosNames = []string{"head", "tail", "both", "mid", "alone", "line2"}

// c16ValidEdge: a mark made of tag characters may combine with the body into an opening tag ("{" + "{% if"); such
// sources are other templates (or none) and are left to c16ParseEquiv.
func c16ValidEdge(m, src string) bool {
	if !strings.ContainsAny(m, "{}%") {
		return true
	}
	_, err := newEngine(map[string]string{"probe": src})
	return err == nil
}

// c16EdgeSites: the exhaustive sweep marks × bodies × positions, one site per mark (every template is an entry).
func c16EdgeSites() []c16Site {
	var sites []c16Site
	for _, m := range c16Marks {
		s := c16Site{tpls: map[string]string{}}
		for _, b := range c16EdgeBodies {
			for pos, pn := range c16EdgePosNames {
				if pos == 4 && b.id != "text" {
					continue // the mark alone does not depend on the body
				}
				src := c16EdgeSource(m.s, b.s, pos)
				if !c16ValidEdge(m.s, src) {
					continue
				}
				name := m.id + "_" + b.id + "_" + pn
				s.tpls[name] = src
			}
		}
		s.entries = sortedKeys(s.tpls)
		sites = append(sites, s)
	}
	return sites
}

// c16MarkSite is the random dimension: some templates of a generated site get one or two marks (corpus or random
// bytes) at their ends.
func c16MarkSite(r *rand.Rand, s c16Site) c16Site {
	mark := func() string {
		if r.Intn(4) == 0 {
			return strings.NewReplacer("{", "(", "\\", "/").Replace(string(c16Bytes(r, 1+r.Intn(4))))
		}
		m := c16Marks[r.Intn(len(c16Marks))].s
		if strings.Contains(m, "{") || strings.HasSuffix(m, "\\") {
			return "\xef\xbb\xbf"
		}
		return m
	}
	out := c16Site{tpls: map[string]string{}, entries: s.entries}
	for n, src := range s.tpls {
		switch r.Intn(4) {
		case 0:
			src = mark() + src
		case 1:
			src = src + mark()
		case 2:
			src = mark() + src + mark()
		}
		out.tpls[n] = src
	}
	return out
}

func c16SourceEdges(e *Env, astConst []byte) {
	r := e.Rep
	for i, s := range c16EdgeSites() {
		if r.Full() {
			return
		}
		r.Hit("source-edges:" + c16Marks[i].id)
		c16EndToEnd(e, s, astConst, e.N(1, 4), fmt.Sprintf("edge%d:", i))
	}
}
