package main

import (
	"fmt"
	"os"
	"path/filepath"
	"strings"
	"sync"
	"time"

	"github.com/semihalev/twig"
)

// Two more concurrency oracles (added after seeded changes C02-G and C02-H were missed), run inside the stress
// child so that the race detector sees them too.
//
// c02PausedRender: a render is stopped inside a user function; meanwhile the SAME name is registered again with
// another template and other templates are parsed and rendered (pooled nodes are handed out again); the stopped
// render then finishes. It must return exactly what the version it started with renders — a serial order exists
// for that (render first, register afterwards), none for a mixture.
//
// c02SharedData: overlapping renders whose contexts share one list (with spare capacity) and one map, each
// deriving its own values from them with merge / slice / sort / reverse: every render shows its own derivation.

func c02PausedRender(col *c02Collector, rounds int) {
	for round := 0; round < rounds && !col.failed(); round++ {
		entered, release := make(chan struct{}), make(chan struct{})
		eng := twig.New()
		eng.AddFunction("pause", func(args ...interface{}) (interface{}, error) {
			if len(args) > 0 && fmt.Sprint(args[0]) == "1" {
				close(entered)
				<-release
			}
			return "", nil
		})
		v1 := "V1-head {{ pause(stop) }}V1-mid {% for i in [1, 2, 3] %}[{{ i }}{% if i > 1 %}+{% endif %}]{% endfor %} {% include 'part' %} {% block b %}V1-block {{ who }}{% endblock %} {{ who|upper }} V1-tail"
		v2 := "second version {% if who %}{{ who }}{% endif %}{% set q = 1 %}{{ q }}"
		want := "V1-head V1-mid [1][2+][3+] <part ann> V1-block ann ANN V1-tail"
		eng.RegisterString("part", "<part {{ who }}>")
		if err := eng.RegisterString("page", v1); err != nil {
			col.violate(c02Violation{Key: "paused-render-setup", What: err.Error()})
			return
		}
		var got string
		var gerr error
		var wg sync.WaitGroup
		wg.Add(1)
		go func() {
			defer wg.Done()
			defer func() {
				if p := recover(); p != nil {
					gerr = fmt.Errorf("panic: %v", p)
				}
			}()
			got, gerr = eng.Render("page", map[string]interface{}{"who": "ann", "stop": 1})
		}()
		select {
		case <-entered:
		case <-time.After(5 * time.Second):
			col.violate(c02Violation{Key: "paused-render-setup", What: "the render never reached the user function"})
			close(release)
			wg.Wait()
			return
		}
		// the name is registered again; other templates are parsed and rendered on this and on other engines
		eng.RegisterString("page", v2)
		for k := 0; k < 6; k++ {
			o := twig.New()
			o.RegisterString("other", "TOP SECRET {% for j in [7, 8, 9] %}({{ j }}){% endfor %} {% if x %}not for {{ x }}{% endif %} {% block b %}other-block{% endblock %} {{ x|lower }} tail")
			o.Render("other", map[string]interface{}{"x": "Bob"})
			eng.RegisterString(fmt.Sprintf("extra%d", k), "extra {{ who }} {% for j in [1] %}{{ j }}{% endfor %}")
			eng.Render("page", map[string]interface{}{"who": "eve", "stop": 0})
		}
		close(release)
		wg.Wait()
		col.seen(fmt.Sprintf("paused-render|%d", round))
		col.hit("paused-render")
		if gerr != nil || got != want {
			col.violate(c02Violation{Key: "render-sees-later-registration", What: fmt.Sprintf("a render of \"page\" was stopped inside a user function while \"page\" was registered again and other templates were parsed; it returned %q (%v), the version it started with renders %q", truncate(got, 160), gerr, want),
				Replay: map[string]any{"kind": "paused-render", "round": round, "got": got, "want": want, "error": fmt.Sprint(gerr)}})
			return
		}
	}
}

func c02SharedData(col *c02Collector, rounds, gor int) {
	for round := 0; round < rounds && !col.failed(); round++ {
		shared := make([]interface{}, 2, 32)
		shared[0], shared[1] = "home", "docs"
		typed := make([]string, 2, 32)
		typed[0], typed[1] = "x", "y"
		m := map[string]interface{}{"k": "v", "list": shared}
		eng := twig.New()
		eng.AddGlobal("gitems", shared)
		src := "{% for i in 1..25 %}{{ items|merge([who])|join(',') }};{{ gitems|merge([who, who])|last }};{{ typed|merge([who])|join(',') }};{{ m.list|merge([who])|slice(1)|join(',') }};{{ items|merge([who])|reverse|first }}|{% endfor %}"
		if err := eng.RegisterString("t", src); err != nil {
			src = strings.ReplaceAll(src, "1..25", "range(1, 25)")
			if err := eng.RegisterString("t", src); err != nil {
				col.violate(c02Violation{Key: "shared-data-setup", What: err.Error()})
				return
			}
		}
		c02Barrier(gor, func(g int) {
			who := fmt.Sprintf("w%d", g)
			defer func() {
				if p := recover(); p != nil {
					col.violate(c02Violation{Key: "shared-data-panic", What: fmt.Sprint(p)})
				}
			}()
			out, err := eng.Render("t", map[string]interface{}{"items": shared, "typed": typed, "m": m, "who": who})
			one := "home,docs," + who + ";" + who + ";x,y," + who + ";docs," + who + ";" + who + "|"
			want := strings.Repeat(one, 25)
			col.seen(fmt.Sprintf("shared-data|%d|%d", round, g))
			if err != nil || out != want {
				k := firstDiff(out, want)
				col.violate(c02Violation{Key: "cross-talk", What: fmt.Sprintf("%d renders share one list (spare capacity) and one map and each derives its own lists with merge/slice/reverse: goroutine %d got …%q… where serial use gives …%q… (%v)", gor, g, truncate(out[min(k, len(out)):], 60), truncate(want[min(k, len(want)):], 60), err),
					Replay: map[string]any{"kind": "shared-data", "round": round, "goroutine": g, "got": truncate(out, 400), "want": truncate(want, 400)}})
			}
		})
		if len(shared) != 2 || shared[0] != "home" || shared[1] != "docs" || len(typed) != 2 {
			col.violate(c02Violation{Key: "cross-talk", What: fmt.Sprintf("the shared list changed: %v %v", shared, typed)})
		}
	}
	col.hit("shared-data-rounds")
}

// c02FsChurn: renders through a FileSystemLoader with two search paths and auto-reload while template files vanish
// from the first path and come back (a deployment replacing files in place): every render returns the template's
// text — both copies hold the same source — and nothing crashes (seeded change C02-J: a loader map written under a
// read lock).
func c02FsChurn(col *c02Collector, rounds int) {
	for round := 0; round < rounds && !col.failed(); round++ {
		root, err := os.MkdirTemp("", "c02fs-")
		if err != nil {
			return
		}
		p0, p1 := filepath.Join(root, "p0"), filepath.Join(root, "p1")
		os.Mkdir(p0, 0o755)
		os.Mkdir(p1, 0o755)
		const n = 24
		for i := 0; i < n; i++ {
			src := fmt.Sprintf("tpl%d {{ g }}{%% if g %%}!{%% endif %%}", i)
			os.WriteFile(filepath.Join(p0, fmt.Sprintf("t%d.twig", i)), []byte(src), 0o644)
			os.WriteFile(filepath.Join(p1, fmt.Sprintf("t%d.twig", i)), []byte(src), 0o644)
		}
		eng := twig.New()
		eng.RegisterLoader(twig.NewFileSystemLoader([]string{p0, p1}))
		eng.SetAutoReload(true)
		stop := make(chan struct{})
		var churn sync.WaitGroup
		churn.Add(1)
		go func() {
			defer churn.Done()
			for k := 0; ; k++ {
				select {
				case <-stop:
					return
				default:
				}
				f := filepath.Join(p0, fmt.Sprintf("t%d.twig", k%n))
				src, err := os.ReadFile(f)
				if err == nil && len(src) > 0 {
					os.Remove(f)
					time.Sleep(50 * time.Microsecond)
					// the file comes back atomically (a reader never sees a half-written template)
					tmp := f + ".tmp"
					os.WriteFile(tmp, src, 0o644)
					os.Rename(tmp, f)
				}
			}
		}()
		c02Barrier(10, func(g int) {
			defer func() {
				if p := recover(); p != nil {
					col.violate(c02Violation{Key: "fs-churn-panic", What: fmt.Sprint(p)})
				}
			}()
			for k := 0; k < 400; k++ {
				i := (g*7 + k) % n
				out, err := eng.Render(fmt.Sprintf("t%d", i), map[string]interface{}{"g": g + 1})
				want := fmt.Sprintf("tpl%d %d!", i, g+1)
				if err != nil && strings.Contains(err.Error(), "no such file or directory") {
					// the churning goroutine removed the file between the loader's Stat and its ReadFile: a race between one call
					// and the file system, which a lone call meets as well — not an interaction between calls, so not C02's business
					col.hit("fs-churn-file-vanished-under-one-call")
					continue
				}
				if err != nil || out != want {
					col.violate(c02Violation{Key: "fs-churn-wrong", What: fmt.Sprintf("render of t%d while files of the first search path are replaced: %q (%v), want %q", i, out, err, want),
						Replay: map[string]any{"kind": "fs-churn", "round": round, "goroutine": g, "got": out, "want": want, "error": fmt.Sprint(err)}})
					return
				}
			}
			col.seen(fmt.Sprintf("fs-churn|%d|%d", round, g))
		})
		close(stop)
		churn.Wait()
		os.RemoveAll(root)
	}
	col.hit("fs-churn-rounds")
}
