package main

import (
	"fmt"
	"strings"
	"time"
)

// c03DateStrings (implementation-only; added after seeded change C03-N was missed): a date given as a STRING is
// parsed by the date filter and the date function. What a fixed string renders as is fixed: it does not depend on
// which other date strings were rendered before it, in this process, on this or another engine. Every string of
// the list is rendered after every other string of the list (and after none); all its outputs must coincide.
// Strings the code cannot parse fall back to the current time (exempt by the property): an output that shows today's
// date is left out.
func c03DateStrings(e *Env) {
	r := e.Rep
	strs := []string{
		"2024-03-05", "2024-03-05 14:07:09", "2024-03-05T14:07:09Z", "2024-03-05T14:07:09.123456789+02:00", "03/04/2024", "12/11/2023", "01/02/2006 15:04:05",
		"25/12/2023", "13/01/2024 10:00:00", "04/03/2024", "Tue, 05 Mar 2024 14:07:09 UTC", "Tue, 05 Mar 2024 14:07:09 +0100", "05 Mar 24 14:07 UTC", "05 Mar 24 14:07 +0100",
		"Tue Mar  5 14:07:09 2024", "1709647629", "2024-12-01", "12/01/2024", "02/03/2004 01:02:03", "2006-01-02", "11/12/2013",
	}
	forms := []string{"{{ s|date('Y-m-d H:i:s') }}", "{{ date(s)|date('Y-m-d H:i:s') }}"}
	today := func(out string) bool {
		now := time.Now()
		for _, d := range []time.Duration{0, -24 * time.Hour, 24 * time.Hour} {
			if strings.HasPrefix(out, now.Add(d).Format("2006-01-02")) || strings.HasPrefix(out, now.UTC().Add(d).Format("2006-01-02")) {
				return true
			}
		}
		return false
	}
	for _, form := range forms {
		for _, s := range strs {
			ref, refAfter := "", ""
			have := false
			for _, before := range append([]string{""}, strs...) {
				if before != "" {
					renderSrc(form, map[string]any{"s": before})
				}
				res := renderSrc(form, map[string]any{"s": s})
				got := res.Class + ":" + res.Out
				if res.Class == "" && today(res.Out) {
					continue
				}
				if !have {
					ref, refAfter, have = got, before, true
					continue
				}
				if got != ref {
					r.Violate(Violation{Key: "date-string-depends-on-history", What: fmt.Sprintf("%s with s = %q renders %q after the date string %q was rendered and %q after %q", form, s, got, before, ref, refAfter),
						Broken: "C03 determinism — the rendered bytes are a function of templates and context (implementation-only oracle over the orders in which date strings are parsed; the model has no date parser)",
						Replay: map[string]any{"kind": "date-string", "src": form, "s": s, "before": before, "got": got, "before_ref": refAfter, "ref": ref}})
					break
				}
			}
			r.Seen("date-string:"+form+s, have)
		}
	}
	r.Hit("date-strings-in-every-order")
}
