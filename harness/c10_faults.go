package main

import (
	"errors"
	"fmt"
	"runtime"
	"runtime/debug"

	"github.com/semihalev/twig"
)

// C10 — chains rendered AFTER a render has failed.
//
// The property quantifies over every chain and every context; what the process rendered before is not a parameter
// of it. A render that fails half-way through a chain (an override that calls an unknown function, a parent() with
// nothing above, an include that cannot be loaded, an error in the layout itself, a failing user function — at any
// level, reached directly or through parent(), also in a chain that a block of another chain includes) unwinds
// through the per-render state of every template of the chain: block tables, the contexts handed to the parents,
// pooled objects. Whatever the error paths leave behind must not reach the chains rendered afterwards.
//
// History: [the failing render, once or twice] followed by a battery of healthy chains of 2, 3 and 4 levels in an
// order that changes the number of contexts alive at once from render to render, each with its own variables, on the
// engine that failed and on an engine created afterwards. Expected outputs: the independent substitution spec
// (each probe chain is also run through the Lean model before the first fault).
//
// Schedule: one P, no garbage collection during a history (sync.Pool hands objects back per P and drops them at a
// collection: with one P and no collection the renders of a history meet exactly what the previous ones released);
// every history is run once on pools emptied by two collections and once on the pools the previous history left.

type c10Fault struct {
	name string
	tpls map[string]string
	main string
	// the failure happens while a parent template is being rendered on behalf of a descendant
	insideParent bool
	// control: nothing fails, the battery follows a healthy render
	healthy bool
}

func c10Faults() []c10Fault {
	base := "[{% block head %}H:{{ who }}{% endblock %}|{% block body %}B{% endblock %}|{% block foot %}F{% endblock %}]"
	with := func(extra map[string]string) map[string]string {
		m := map[string]string{"fbase": base}
		for k, v := range extra {
			m[k] = v
		}
		return m
	}
	return []c10Fault{
		{"nothing: the control history, a healthy chain", with(map[string]string{
			"f0": "{% extends 'fbase' %}{% block body %}x{{ who }}{% endblock %}"}), "f0", false, true},
		{name: "override calls an unknown function", tpls: with(map[string]string{
			"f0": "{% extends 'fbase' %}{% block body %}x{{ c10_no_such_function() }}{% endblock %}"}), main: "f0", insideParent: true},
		{"override of the last block calls an unknown function", with(map[string]string{
			"f0": "{% extends 'fbase' %}{% block head %}h{% endblock %}{% block foot %}{{ who }}{{ c10_no_such_function() }}{% endblock %}"}), "f0", true, false},
		{"override applies an unknown filter", with(map[string]string{
			"f0": "{% extends 'fbase' %}{% block body %}{{ who|c10_no_such_filter }}{% endblock %}"}), "f0", true, false},
		{"override includes a template that does not exist", with(map[string]string{
			"f0": "{% extends 'fbase' %}{% block body %}i{% include 'c10-missing' %}{% endblock %}"}), "f0", true, false},
		{"override calls a user function that fails", with(map[string]string{
			"f0": "{% extends 'fbase' %}{% block body %}{{ c10boom() }}{% endblock %}"}), "f0", true, false},
		{"override fails in the second pass of a loop", with(map[string]string{
			"f0": "{% extends 'fbase' %}{% block body %}{% for i in [1, 2] %}{{ i }}{% if i == 2 %}{{ c10_no_such_function() }}{% endif %}{% endfor %}{% endblock %}"}), "f0", true, false},
		{"middle definition, reached through parent(), fails", with(map[string]string{
			"f0": "{% extends 'f1' %}{% block body %}t({{ parent() }}){% endblock %}{% block head %}th{% endblock %}",
			"f1": "{% extends 'fbase' %}{% block body %}m{{ c10_no_such_function() }}{% endblock %}"}), "f0", true, false},
		{"middle definition fails, the top template defines nothing", with(map[string]string{
			"f0": "{% extends 'f1' %}",
			"f1": "{% extends 'fbase' %}{% block foot %}{{ c10_no_such_function() }}{% endblock %}"}), "f0", true, false},
		{"top override of a chain of four fails", with(map[string]string{
			"f0": "{% extends 'f1' %}{% block body %}{{ c10_no_such_function() }}{% endblock %}",
			"f1": "{% extends 'f2' %}{% block head %}h1{% endblock %}",
			"f2": "{% extends 'fbase' %}{% block foot %}f2{{ parent() }}{% endblock %}"}), "f0", true, false},
		{"the layout calls parent() with nothing above", map[string]string{
			"f0":    "{% extends 'fbase' %}{% block head %}h{% endblock %}",
			"fbase": "<{% block head %}H{% endblock %}|{% block body %}{{ parent() }}{% endblock %}>"}, "f0", true, false},
		{"the layout fails outside its blocks", map[string]string{
			"f0":    "{% extends 'fbase' %}{% block head %}h{{ who }}{% endblock %}",
			"fbase": "<{% block head %}H{% endblock %}|{{ c10_no_such_function() }}|{% block body %}B{% endblock %}>"}, "f0", true, false},
		{"a default body of the layout fails", map[string]string{
			"f0":    "{% extends 'f1' %}{% block head %}h{% endblock %}",
			"f1":    "{% extends 'fbase' %}{% block head %}m{{ parent() }}{% endblock %}",
			"fbase": "<{% block head %}H{% endblock %}|{% block body %}{{ c10_no_such_function() }}{% endblock %}>"}, "f0", true, false},
		{"a chain included from a block of another chain fails", with(map[string]string{
			"f0":    "{% extends 'fbase' %}{% block body %}<{% include 'card' %}>{% endblock %}",
			"card":  "{% extends 'cbase' %}{% block body %}{{ c10_no_such_function() }}{% endblock %}",
			"cbase": "({% block head %}C{% endblock %}:{% block body %}c{% endblock %})"}), "f0", true, false},
		{"the parent does not exist", map[string]string{
			"f0": "{% extends 'c10-no-such-parent' %}{% block body %}x{% endblock %}"}, "f0", false, false},
		{"the middle template's parent does not exist", map[string]string{
			"f0": "{% extends 'f1' %}{% block body %}x{% endblock %}",
			"f1": "{% extends 'c10-no-such-parent' %}{% block body %}y{{ parent() }}{% endblock %}"}, "f0", false, false},
		{"a template without a parent fails inside a block", map[string]string{
			"f0": "a{% block body %}b{{ c10_no_such_function() }}{% endblock %}c"}, "f0", false, false},
	}
}

// c10Probes: healthy chains whose output shows every override, every default body and the variables
func c10Probes() []*chainCase {
	P := bItem{kind: "parent"}
	who := c10Var("who")
	mk := func(tag string, layout []bItem, lv ...map[string][]bItem) *chainCase {
		cc := &chainCase{layout: layout}
		for i, defs := range lv {
			l := level{name: fmt.Sprintf("%s%d", tag, i), defs: defs}
			for _, b := range []string{"head", "body", "foot"} {
				if _, ok := defs[b]; ok {
					l.order = append(l.order, b)
				}
			}
			cc.levels = append(cc.levels, l)
		}
		cc.levels = append(cc.levels, level{name: fmt.Sprintf("%s%d", tag, len(lv)), defs: map[string][]bItem{}})
		return cc
	}
	layout := func(tag string) []bItem {
		return []bItem{txt("[" + tag + ":"), {kind: "block", name: "head", body: []bItem{txt("H:"), who}}, txt("|"),
			{kind: "block", name: "body", body: []bItem{txt("B")}}, txt("|"), {kind: "block", name: "foot", body: []bItem{txt("F"), who}}, txt("]")}
	}
	loopLayout := []bItem{txt("<"), {kind: "forblock", name: "body", body: []bItem{txt("B"), who, c10Var("i")}}, txt("|"),
		{kind: "block", name: "foot", body: []bItem{txt("F")}}, txt(">")}
	return []*chainCase{
		mk("pa", layout("pa"), map[string][]bItem{"foot": {txt("two-"), who}}),
		mk("pb", layout("pb"),
			map[string][]bItem{"head": {txt("leaf-"), who}, "foot": {}},
			map[string][]bItem{"body": {txt("mid-"), who, txt("("), P, txt(")")}}),
		mk("pc", layout("pc"), map[string][]bItem{"head": {txt("c("), P, txt(")")}, "body": {who, txt("!")}}),
		mk("pd", layout("pd"),
			map[string][]bItem{"body": {txt("t("), P, txt(")")}},
			map[string][]bItem{"head": {txt("h2"), who}},
			map[string][]bItem{"body": {txt("m("), P, who, txt(")")}, "foot": {txt("f3"), P}}),
		mk("pe", loopLayout, map[string][]bItem{"body": {txt("o"), who, txt("("), P, txt(")")}}),
		mk("pf", layout("pf"), map[string][]bItem{}, map[string][]bItem{"foot": {who, txt("~"), P}}),
	}
}

// c10Battery: indexes into c10Probes — 2, 3, 2, 4, 2, 3, … levels, so that consecutive renders hold different
// numbers of contexts at once
var c10Battery = []int{0, 1, 0, 3, 2, 4, 1, 5, 0, 3, 3, 1, 2, 0, 5, 4}

func c10FaultHistories(e *Env, runOne func(cc *chainCase, tag string) error) error {
	r := e.Rep
	probes := c10Probes()
	all := map[string]string{}
	for i, p := range probes {
		// each probe is an ordinary case of the property first: fresh engine, Lean model, Go spec
		if err := runOne(p, fmt.Sprintf("probe:%d:", i)); err != nil {
			return err
		}
		for n, src := range p.templates() {
			all[n] = src
		}
	}
	boom := func(en *twig.Engine) {
		en.AddFunction("c10boom", func(args ...interface{}) (interface{}, error) { return nil, errors.New("c10boom failed") })
	}
	defer runtime.GOMAXPROCS(runtime.GOMAXPROCS(1))
	defer debug.SetGCPercent(debug.SetGCPercent(-1))
	faults := c10Faults()
	for fi, f := range faults {
		for _, start := range []string{"emptied pools", "pools as the previous history left them"} {
			for reps := 1; reps <= 2; reps++ {
				if r.Full() {
					return nil
				}
				tpls := map[string]string{}
				for n, src := range all {
					tpls[n] = src
				}
				for n, src := range f.tpls {
					tpls[n] = src
				}
				eng, err := newEngine(tpls, boom)
				if err != nil {
					r.Note(fmt.Sprintf("c10 fault history %q: templates do not register: %v", f.name, err))
					break
				}
				runtime.GC() // collections happen here, between two histories, not inside one
				if start == "emptied pools" {
					runtime.GC()
					runtime.GC()
				}
				var history []string
				failed := true
				for k := 0; k < reps; k++ {
					res := guarded(func() (string, error) { return eng.Render(f.main, map[string]interface{}{"who": "e", "t": true}) })
					history = append(history, fmt.Sprintf("render %s -> %s", f.main, res.Class))
					if res.Class == "panic" || res.Class == "timeout" {
						r.Violate(Violation{Key: "panic-or-hang", What: fmt.Sprintf("rendering a chain in which %s: %s %s", f.name, res.Class, truncate(res.Panic, 200)),
							Broken: "C05: no template source or context value makes the engine panic or hang", Replay: map[string]any{"kind": "fault-history", "templates": f.tpls, "main": f.main}})
					}
					failed = failed && res.Class != ""
				}
				if f.healthy {
					r.Hit("healthy-render-then-chains")
				} else if !failed {
					r.Note(fmt.Sprintf("c10 fault history %q: the render does not fail", f.name))
					break
				}
				r.Seen(fmt.Sprintf("fault:%d:%s:%d", fi, start, reps), true)
				if !f.healthy {
					r.Hit("failed-render-then-chains")
				}
				if f.insideParent {
					r.Hit("failed-render-inside-a-parent-then-chains")
				}
				fresh, err := newEngine(all)
				if err != nil {
					return err
				}
				lead := "after a render failed"
				if f.healthy {
					lead = "after a render that succeeded"
				}
				for step, pi := range c10Battery {
					p := probes[pi]
					ctx := map[string]any{"who": fmt.Sprintf("w%d", step), "t": true}
					want, _ := p.spec(ctx)
					en, where := eng, "the engine of that render"
					if step%4 == 3 {
						en, where = fresh, "an engine created after it"
					}
					main := p.levels[0].name
					got := guarded(func() (string, error) { return en.Render(main, map[string]interface{}{"who": ctx["who"], "t": true}) })
					history = append(history, fmt.Sprintf("render %s (%d levels, who=%v) -> %q %s", main, len(p.levels), ctx["who"], got.Out, got.Class))
					if got.Class != "" || got.Out != want {
						ptpls := p.templates()
						r.Violate(Violation{Key: "chain-wrong-after-failed-render",
							What: fmt.Sprintf(lead+" (%s; rendered %d time(s), %s), render %d of the following chains — %d levels, who=%v, on %s — gives %q (%s), block substitution gives %q",
								f.name, reps, start, step+1, len(p.levels), ctx["who"], where, truncate(got.Out, 100), got.Class, truncate(want, 100)),
							Broken: "theorem C10_substitution / C10_parent: a chain renders as the substitution of its blocks whatever was rendered (and failed) before (implementation-only oracle: independent substitution spec, one P, no collection inside a history)",
							Replay: map[string]any{"kind": "fault-history", "failing_templates": f.tpls, "failing_main": f.main, "chain": ptpls, "main": main, "ctx": fmt.Sprint(ctx),
								"want": want, "got": got.Out, "class": got.Class, "history": history, "start": start}})
						break
					}
				}
			}
		}
	}
	return nil
}
