package main

import (
	"fmt"
	"strings"
)

// C08 (i) — a subscript binds tighter than a prefix operator.
//
// -xs[1] is -(xs[1]), not xs[1] is not (xs[1]), +xs[1] is +(xs[1]): the [index] goes onto the operand, as the .name of
// -m.k and the (args) of -f(x) always did; the prefix operator applies to the subscripted operand. A filter still
// takes the whole prefixed operand: -x|abs is (-x)|abs and -xs[1]|abs is (-(xs[1]))|abs. (Theorems
// C08_subscript_binds_tighter_than_prefix, C08_subscript_chain_binds_tighter_than_prefix,
// C08_prefix_without_subscript.)
//
// The corpus is deterministic — the same cases for every seed: prefix operators (-, +, not, doubled, mixed) ×
// operands (context list, list literal, map, nested list, range(), function-call results, attribute paths,
// parenthesised operands) × subscripts (literal, computed, string key, nested, chained) × what follows (nothing, a
// filter, a binary operator on either side, a comparison, a test, a conditional) × syntactic positions (print, if,
// set, for sequence, macro argument, array element, hash value, include variable). Every case goes through the Lean
// model (compareCase; the model must support every one of them), and for the cases whose value is arithmetic the
// harness computes the expected text itself from the element it put under that subscript
// (key prefix-before-subscript).

// pfxChain is a chain of prefix operators as written, outermost first.
type pfxChain struct {
	name  string
	spell string   // written in front of the operand
	ops   []string // outermost first: "-", "+", "not"
}

var pfxChains = []pfxChain{
	{"minus", "-", []string{"-"}},
	{"plus", "+", []string{"+"}},
	{"not", "not ", []string{"not"}},
	{"minus-minus", "- -", []string{"-", "-"}},
	{"plus-minus", "+ -", []string{"+", "-"}},
	{"minus-plus", "- +", []string{"-", "+"}},
	{"minus-spaced", "- ", []string{"-"}},
	{"not-not", "not not ", []string{"not", "not"}},
	{"not-minus", "not -", []string{"not", "-"}},
	{"minus-minus-minus", "- - -", []string{"-", "-", "-"}},
}

// pfxVal is the value of a prefixed integer: a number or (after `not`) a boolean.
type pfxVal struct {
	isBool bool
	n      int
	b      bool
}

func (v pfxVal) text() string {
	if v.isBool {
		return fmt.Sprint(v.b)
	}
	return fmt.Sprint(v.n)
}
func (v pfxVal) truthy() bool {
	if v.isBool {
		return v.b
	}
	return v.n != 0
}

// apply the chain to the integer n (innermost operator first)
func (p pfxChain) apply(n int) pfxVal {
	v := pfxVal{n: n}
	for i := len(p.ops) - 1; i >= 0; i-- {
		switch p.ops[i] {
		case "-":
			v.n = -v.n
		case "not":
			v = pfxVal{isBool: true, b: !v.truthy()}
		}
	}
	return v
}
func (p pfxChain) boolean() bool { return p.ops[0] == "not" }

// pfxOperand is a subscripted operand as written, and the integer the harness put there.
type pfxOperand struct {
	kind string // operand kind
	sub  string // subscript kind
	src  string
	val  int
}

func pfxCtx() map[string]any {
	return map[string]any{
		"xs":  []interface{}{3, 8, 0, 12},
		"ys":  []interface{}{[]interface{}{5, 7}, []interface{}{0, 2}},
		"m":   map[string]interface{}{"k": 6, "z": 0, "other": 11},
		"o":   map[string]interface{}{"items": []interface{}{2, 10, 0}, "inner": map[string]interface{}{"vals": []interface{}{13, 1}}},
		"k":   0,
		"key": "k",
		"t":   true,
		"f":   false,
		"nul": nil,
	}
}

func pfxOperands() []pfxOperand {
	return []pfxOperand{
		{"context-list", "literal", "xs[1]", 8},
		{"context-list", "literal-zero-element", "xs[2]", 0},
		{"context-list", "computed", "xs[k + 1]", 8},
		{"context-list", "computed-prefix-inside", "xs[- -1]", 8},
		{"context-list", "nested", "xs[xs[2] + 3]", 12},
		{"context-list", "spaced", "xs [ 1 ]", 8},
		{"list-literal", "literal", "[4, 9, 0][1]", 9},
		{"list-literal", "computed", "[4, 9, 0][k + 1]", 9},
		{"list-literal", "nested", "[4, 9, 0][[1][0]]", 9},
		{"map", "string-key", "m['k']", 6},
		{"map", "string-key-double-quotes", "m[\"z\"]", 0},
		{"map", "computed-string-key", "m[key]", 6},
		{"map", "concatenated-string-key", "m['oth' ~ 'er']", 11},
		{"map-literal", "string-key", "{'a': 4, 'b': 14}['b']", 14},
		{"nested-list", "chained-literal", "ys[0][1]", 7},
		{"nested-list", "chained-zero-element", "ys[1][0]", 0},
		{"nested-list", "chained-computed", "ys[k][k + 1]", 7},
		{"nested-list", "chained-nested", "ys[ys[1][0]][1]", 7},
		{"range", "literal", "range(5, 9)[1]", 6},
		{"range", "computed", "range(5, 9)[k + 2]", 7},
		{"function-call-result", "computed-arguments", "range(k + 20, 30 - k)[1]", 21},
		{"function-call-result", "call-inside-call", "range(range(5, 9)[0], 9)[k + 2]", 7},
		{"function-call-result", "call-in-list-chained", "[range(1, 2), range(30, 31)][1][0]", 30},
		{"attribute-path", "literal", "o.items[1]", 10},
		{"attribute-path", "literal-zero-element", "o.items[2]", 0},
		{"attribute-path", "two-steps", "o.inner.vals[0]", 13},
		{"attribute-path", "attribute-then-string-key-then-subscript", "o.inner['vals'][k + 1]", 1},
		{"parenthesised", "literal", "(xs)[1]", 8},
		{"parenthesised", "filter-inside", "(xs|reverse)[0]", 12},
		{"parenthesised", "attribute-inside", "(o.items)[k + 1]", 10},
		{"parenthesised", "conditional-inside", "(t ? xs : ys)[3]", 12},
	}
}

// the macro of the macro-argument position (function-call operands are calls of range(): the one function returning
// a sequence that both the engine and the model have)
const pfxMacros = "{% macro pfx_id(q) %}{{ q }}{% endmacro %}"

// pfxFollower: what is written around the prefixed operand E; want computes the expected text (ok = false: the
// expectation is left to the model)
type pfxFollower struct {
	name    string
	tpl     string
	numeric bool // for number-valued chains
	boolean bool // for chains that start with `not`
	want    func(v pfxVal) (string, bool)
}

func pfxAbs(n int) int {
	if n < 0 {
		return -n
	}
	return n
}

var pfxFollowers = []pfxFollower{
	{"nothing", "E", true, true, func(v pfxVal) (string, bool) { return v.text(), true }},
	{"filter-abs", "E|abs", true, false, func(v pfxVal) (string, bool) { return fmt.Sprint(pfxAbs(v.n)), true }},
	{"filter-abs-then-minus", "-(E|abs)", true, false, func(v pfxVal) (string, bool) { return fmt.Sprint(-pfxAbs(v.n)), true }},
	{"filter-default", "E|default('dflt')", true, true, func(v pfxVal) (string, bool) { return "", false }},
	{"binary-right", "E + 2", true, false, func(v pfxVal) (string, bool) { return fmt.Sprint(v.n + 2), true }},
	{"binary-left", "5 + E", true, false, func(v pfxVal) (string, bool) { return fmt.Sprint(5 + v.n), true }},
	{"binary-left-minus", "5 - E", true, false, func(v pfxVal) (string, bool) { return fmt.Sprint(5 - v.n), true }},
	{"binary-times", "2 * E * 3", true, false, func(v pfxVal) (string, bool) { return fmt.Sprint(6 * v.n), true }},
	{"binary-both-prefixed", "E - E", true, false, func(v pfxVal) (string, bool) { return "0", true }},
	{"concat", "E ~ '!'", true, true, func(v pfxVal) (string, bool) { return v.text() + "!", true }},
	{"comparison-less", "E < 1", true, false, func(v pfxVal) (string, bool) { return fmt.Sprint(v.n < 1), true }},
	{"comparison-equal-left", "0 == E", true, false, func(v pfxVal) (string, bool) { return fmt.Sprint(v.n == 0), true }},
	{"test-odd", "E is odd", true, false, func(v pfxVal) (string, bool) { return fmt.Sprint(v.n%2 != 0), true }},
	{"test-not-even", "E is not even", true, false, func(v pfxVal) (string, bool) { return fmt.Sprint(v.n%2 != 0), true }},
	{"test-defined", "E is defined", true, true, func(v pfxVal) (string, bool) { return "true", true }},
	{"conditional-condition", "E ? 'yes' : 'no'", true, true, func(v pfxVal) (string, bool) {
		if v.truthy() {
			return "yes", true
		}
		return "no", true
	}},
	{"conditional-arm", "t ? E : 'no'", true, true, func(v pfxVal) (string, bool) { return v.text(), true }},
	{"conditional-else-arm", "f ? 'no' : E", true, true, func(v pfxVal) (string, bool) { return v.text(), true }},
	{"and", "E and t", false, true, func(v pfxVal) (string, bool) { return fmt.Sprint(v.b), true }},
	{"or-left", "f or E", false, true, func(v pfxVal) (string, bool) { return fmt.Sprint(v.b), true }},
	{"equals-false", "E == false", false, true, func(v pfxVal) (string, bool) { return fmt.Sprint(!v.b), true }},
	{"in-parens", "(E)", true, true, func(v pfxVal) (string, bool) { return v.text(), true }},
}

// pfxPosition: where the whole expression X is written; want maps the text X prints to the text of the position
type pfxPosition struct {
	name string
	tpl  string
	want func(w string, truthy bool) string
}

var pfxPositions = []pfxPosition{
	{"print", "{{ X }}", func(w string, _ bool) string { return w }},
	{"if-condition", "{% if X %}T{% else %}F{% endif %}", func(_ string, tr bool) string {
		if tr {
			return "T"
		}
		return "F"
	}},
	{"elseif-condition", "{% if f %}A{% elseif X %}T{% else %}F{% endif %}", func(_ string, tr bool) string {
		if tr {
			return "T"
		}
		return "F"
	}},
	{"set", "{% set pfx_v = X %}{{ pfx_v }}", func(w string, _ bool) string { return w }},
	{"for-sequence", "{% for c in [X] %}{{ c }};{% endfor %}", func(w string, _ bool) string { return w + ";" }},
	{"macro-argument", "{{ pfx_id(X) }}", func(w string, _ bool) string { return w }},
	{"array-element", "{{ [X, 'z']|join(',') }}", func(w string, _ bool) string { return w + ",z" }},
	{"hash-value", "{{ {'v': X}['v'] }}", func(w string, _ bool) string { return w }},
	{"include-variable", "{% include 'show' with {'v': X} only %}", func(w string, _ bool) string { return w }},
	{"subscript", "{{ [X, 'z'][0] }}", func(w string, _ bool) string { return w }},
}

// pfxTruthyText: the truthiness of the value an expression printed as w (numbers and booleans only)
func pfxTruthyText(w string) bool { return w != "0" && w != "false" && w != "" }

func c08PrefixSubscripts(e *Env) error {
	r := e.Rep
	ctx := pfxCtx()
	operands := pfxOperands()
	cases, skips, checked := 0, 0, 0
	run := func(ch pfxChain, op pfxOperand, fo pfxFollower, po pfxPosition) (stop bool, err error) {
		osrc := op.src
		E := ch.spell + osrc
		X := strings.ReplaceAll(fo.tpl, "E", E)
		main := pfxMacros + strings.ReplaceAll(po.tpl, "X", X)
		c := &Case{Templates: map[string]string{"main": main, "show": "{{ v }}"}, Main: "main", Ctx: ctx, FailAt: -1}
		im, mo, _, err := compareCase(e, c, "render-model-c08", "correspondence (Lean lexer+parser+evaluator vs real engine) on prefix operators in front of subscripted operands: theorem C08_subscript_binds_tighter_than_prefix no longer describes the code")
		if err != nil {
			return false, err
		}
		cases++
		r.Seen("prefix:"+main, true)
		r.Hit("prefix-subscript")
		r.Hit("prefix-chain:" + ch.name)
		r.Hit("prefix-operand:" + op.kind)
		r.Hit("prefix-subscript-kind:" + op.sub)
		r.Hit("prefix-follower:" + fo.name)
		r.Hit("prefix-position:" + po.name)
		if e.Model != nil && (mo.Unsupported != "" || mo.Fuel) {
			skips++
			if r.Violate(Violation{Key: "prefix-corpus-not-modelled", What: fmt.Sprintf("the model does not decide %s (%s%s)", main, mo.Unsupported, map[bool]string{true: " out of fuel", false: ""}[mo.Fuel]),
				Broken: "the prefix-operator corpus of C08 must be decided by the Lean model in full (no skipped case)",
				Replay: numReplay(c, im)}) {
				return true, nil
			}
		}
		// implementation-only expectation for the arithmetic / boolean cases
		v := ch.apply(op.val)
		w, ok := fo.want(v)
		if !ok {
			return r.Full(), nil
		}
		checked++
		want := po.want(w, pfxTruthyText(w))
		if im.Class != "" || im.Out != want {
			rp := numReplay(c, im)
			rp["want"], rp["prefix"], rp["operand"], rp["operand_kind"], rp["subscript_kind"], rp["follower"], rp["position"], rp["element"] = want, ch.spell, osrc, op.kind, op.sub, fo.name, po.name, op.val
			return r.Violate(Violation{Key: "prefix-before-subscript", What: fmt.Sprintf("%s is %d, so %s is %s and %s gives %q; the engine gives %q (%s %s)",
				osrc, op.val, E, v.text(), strings.ReplaceAll(po.tpl, "X", X), want, im.Out, im.Class, truncate(im.Msg, 80)),
				Broken: "theorem C08_subscript_binds_tighter_than_prefix no longer describes the code: a subscript binds tighter than a prefix operator (implementation-only oracle: the element the harness put under that subscript, negated / tested in Go)",
				Replay: rp}), nil
		}
		return r.Full(), nil
	}
	applies := func(ch pfxChain, fo pfxFollower) bool {
		if ch.boolean() {
			return fo.boolean
		}
		return fo.numeric
	}
	// (1) every prefix chain × every operand, printed
	for _, ch := range pfxChains {
		for _, op := range operands {
			if stop, err := run(ch, op, pfxFollowers[0], pfxPositions[0]); err != nil || stop {
				return err
			}
		}
	}
	// (2) every follower × every prefix chain, on three operands each (rotating through all of them), printed
	for fi, fo := range pfxFollowers[1:] {
		for ci, ch := range pfxChains {
			if !applies(ch, fo) {
				continue
			}
			for k := 0; k < 3; k++ {
				op := operands[(fi*7+ci*3+k*11)%len(operands)]
				if stop, err := run(ch, op, fo, pfxPositions[0]); err != nil || stop {
					return err
				}
			}
		}
	}
	// (3) every position × every prefix chain × two followers and two operands (rotating)
	for pi, po := range pfxPositions[1:] {
		for ci, ch := range pfxChains {
			n := 0
			for k := 0; n < 2 && k < len(pfxFollowers); k++ {
				fo := pfxFollowers[(pi*5+ci*2+k*3)%len(pfxFollowers)]
				if !applies(ch, fo) {
					continue
				}
				n++
				for j := 0; j < 2; j++ {
					op := operands[(pi*13+ci*5+k*7+j*17)%len(operands)]
					if stop, err := run(ch, op, fo, po); err != nil || stop {
						return err
					}
				}
			}
		}
	}
	// (4) unchanged readings: no subscript behind the operand (a filter takes the whole prefixed operand; attribute
	// access and calls bound tighter before), and subscripts in front of which no prefix operator stands
	for _, u := range []struct{ src, want string }{
		{"-k|abs", "0"}, {"-xs[3]|abs", "12"}, {"-(xs[3]|abs)", "-12"}, {"-m.other|abs", "11"}, {"-m.other", "-11"}, {"-o.inner.vals[0]", "-13"},
		{"-range(5, 9)[1]", "-6"}, {"(-xs[1])", "-8"}, {"-(xs[1])", "-8"}, {"-(xs)[1]", "-8"}, {"xs[1] - xs[0]", "5"}, {"xs[1] -xs[0]", "5"},
		{"xs[1]|abs - -xs[0]", "11"}, {"not xs[2] ? 'empty' : 'set'", "empty"}, {"not xs[1] ? 'empty' : 'set'", "set"}, {"not m['z'] and not ys[1][0]", "true"},
		{"-xs[1] ~ -xs[0]", "-8-3"}, {"[-xs[1], +xs[0], - -ys[0][1]]|join(' ')", "-8 3 7"}, {"{'a': -xs[1]}['a'] + -[1, 2][1]", "-10"},
		{"xs[-xs[2]]", "3"}, {"xs[- -1]", "8"}, {"-xs[1] + -xs[1] * -xs[0]", "16"}, {"-xs[0] ^ 2", "9"}, {"2 ^ - -ys[1][1]", "4"},
		{"-xs[1] in [-8, 1]", "true"}, {"-xs[1] not in [8, 1]", "true"},
	} {
		c := exprCase(u.src, ctx)
		im, mo, _, err := compareCase(e, c, "render-model-c08", "correspondence (Lean lexer+parser+evaluator vs real engine) on prefix operators, subscripts and filters")
		if err != nil {
			return err
		}
		cases++
		r.Seen("prefix-fixed:"+u.src, true)
		r.Hit("prefix-subscript")
		r.Hit("prefix-fixed-reading")
		if e.Model != nil && (mo.Unsupported != "" || mo.Fuel) {
			skips++
			if r.Violate(Violation{Key: "prefix-corpus-not-modelled", What: fmt.Sprintf("the model does not decide {{ %s }} (%s)", u.src, mo.Unsupported),
				Broken: "the prefix-operator corpus of C08 must be decided by the Lean model in full (no skipped case)", Replay: numReplay(c, im)}) {
				return nil
			}
		}
		checked++
		if im.Class != "" || im.Out != u.want {
			rp := numReplay(c, im)
			rp["want"] = u.want
			if r.Violate(Violation{Key: "prefix-before-subscript", What: fmt.Sprintf("{{ %s }} with xs = [3, 8, 0, 12], ys = [[5, 7], [0, 2]], m = {k: 6, z: 0, other: 11} is %q; the engine gives %q (%s %s)", u.src, u.want, im.Out, im.Class, truncate(im.Msg, 80)),
				Broken: "theorem C08_subscript_binds_tighter_than_prefix / C08_prefix_without_subscript no longer describes the code (implementation-only oracle: the value computed by hand)",
				Replay: rp}) {
				return nil
			}
		}
	}
	r.Note(fmt.Sprintf("prefix operators in front of subscripted operands: %d cases (the same for every seed), %d with an expectation computed in Go, %d not decided by the model", cases, checked, skips))
	return nil
}
