package main

import (
	"encoding/json"
	"fmt"
	"html"
	"unicode/utf8"
)

// C07, the value anywhere inside the escaped expression — rendered again and again on one engine.
//
// The routes of c07.go hand the value to the filter as the base of the chain ({{ v|e }}). The property quantifies
// over every position a filter can be applied and every value; what the filter receives is just as often computed by
// a compound expression in which the value sits somewhere below: the value of a hash literal ({'name': v}|json_encode|e,
// the data-attribute idiom), its key, an item of an array literal, a hash inside an array and the other way round, a
// hash handed to a filter as base or as argument, a branch or the condition of a ternary, a filter argument, a
// function argument, an operand of ~; or the hash is the right side of set, the sequence of for, a macro argument,
// the `with` of include. Each such shape is crossed with the positions of the property (print tag, filter chain,
// apply block, macro body — own and imported —, included template) and the two names.
//
// Every route is one engine whose cached template is rendered for every input of the batch, one value after the
// other: whatever the engine keeps between renders (an analysis of the expression, a text, a pooled node) must not
// leak one render's value into the next. Expected: literal text of the route + Escape.escReg(text that reaches the
// filter), the text computed directly in Go (the value itself for the pass-through shapes — first, last, [k], merge,
// cycle, default, replace, join, format only move it —, encoding/json for json_encode, a two-way choice for the
// condition shape). On a mismatch a fresh engine renders the same value: the replay tells a stale answer (fresh
// engine right) from a wrong one.

type c07Shape struct {
	name        string
	expr        func(x string) string // the expression, x is the name of the variable that holds the value
	ipre, ipost string                // literal text the expression puts around the value before the filter sees it
	conv        string                // how the text that reaches the filter follows from the value ("" = the value itself)
	strOnly     bool                  // the shape converts non-string values its own way (keys, sprintf, separators): strings only
}

func c07Shapes() []c07Shape {
	s := func(name, pre, post string) c07Shape {
		return c07Shape{name: name, expr: func(x string) string { return pre + x + post }}
	}
	so := func(name, pre, post string) c07Shape {
		sh := s(name, pre, post)
		sh.strOnly = true
		return sh
	}
	cv := func(name, pre, post, conv string, strOnly bool) c07Shape {
		sh := s(name, pre, post)
		sh.conv, sh.strOnly = conv, strOnly
		return sh
	}
	around := s("concat-hash", "('<\"' ~ {'k': ", "}|first ~ \"&'>\")")
	around.ipre, around.ipost = "<\"", "&'>"
	return []c07Shape{
		// hash literals: the value is a value of the hash
		s("hash-value-first", "{'k': ", "}|first"),
		s("hash-value-item", "{'k': ", "}['k']"),
		s("hash-value-paren-item", "({'k': ", "})['k']"),
		s("hash-value-among-literals", "{'a': 'x', 'k': ", ", 'z': '<'}['k']"),
		s("hash-value-first-of-many", "{'a': ", ", 'k': 'x', 'z': '<'}|first"),
		s("hash-barekey-value", "{k: ", "}|first"),
		s("hash-value-filtered", "{'k': ", "|raw}|first"),
		so("hash-key", "{(", "): 1}|keys|first"),
		// a hash handed to a filter as base / as argument, a hash in an array, an array in a hash
		s("hash-merge-base", "{'k': ", "}|merge({'z': 'q'})|first"),
		s("hash-merge-arg", "{}|merge({'k': ", "})|first"),
		s("hash-default-arg", "null|default({'k': ", "})|first"),
		s("hash-in-array", "[{'k': ", "}]|first|first"),
		s("array-in-hash", "{'k': [", "]}|first|first"),
		s("hash-in-cycle", "cycle([{'k': ", "}], 0)|first"),
		s("hash-in-ternary", "(true ? {'k': ", "} : {'k': 'n'})|first"),
		s("hash-in-ternary-else", "(false ? {'k': 'n'} : {'k': ", "})['k']"),
		around,
		// array literals, conditionals, arguments of filters and functions
		s("array-last", "['a', ", "]|last"),
		s("array-index", "[", "][0]"),
		s("array-reverse", "['a', ", "]|reverse|first"),
		s("array-merge-arg", "[]|merge([", "])|first"),
		s("ternary-else", "(false ? 'x' : ", ")"),
		s("ternary-then", "(true ? ", " : 'x')"),
		s("default-arg", "null|default(", ")"),
		s("default-arg-filtered", "null|default({'k': ", "}|first)"),
		s("cycle-arg", "cycle([", "], 0)"),
		so("replace-arg", "'x'|replace('x', ", ")"),
		so("join-arg", "['', '']|join(", ")"),
		so("format-arg", "'%s'|format(", ")"),
		// the filter sees a text computed from the value
		cv("json-hash", "{'name': ", ", 'role': 'guest'}|json_encode", "json-hash", false),
		cv("json-array", "['<a>', ", "]|json_encode", "json-array", false),
		cv("json-base", "", "|json_encode", "json-base", false),
		cv("json-function", "json_encode({'name': ", ", 'role': 'guest'})", "json-hash", false),
		cv("json-hash-in-array", "[{'name': ", ", 'role': 'guest'}]|first|json_encode", "json-hash", false),
		cv("condition-hash", "({'k': ", "}|first == '<' ? '<lt>' : '&other')", "cond", true),
		cv("condition-array", "([", "]|first == '<' ? '<lt>' : '&other')", "cond", true),
	}
}

// c07Conv: the text that reaches the filter for value v under conversion conv; ok = false when this value has none
// (a value encoding/json refuses).
func c07Conv(conv string, v any) (string, bool) {
	switch conv {
	case "":
		return c07ToString(v), true
	case "cond":
		if s, isStr := v.(string); isStr && s == "<" {
			return "<lt>", true
		}
		return "&other", true
	}
	var x any
	switch conv {
	case "json-hash":
		x = map[string]any{"name": v, "role": "guest"}
	case "json-array":
		x = []any{"<a>", v}
	case "json-base":
		x = v
	default:
		panic("c07Conv: " + conv)
	}
	b, err := json.Marshal(x)
	if err != nil {
		return "", false
	}
	return string(b), true
}

// c07OperandRoutes: every shape in every position, both names; plus the forms where the hash is not part of a print
// expression at all (set, for, macro argument, include … with) and the ones where the filter sits inside the literal.
func c07OperandRoutes() []c07Route {
	var rs []c07Route
	add := func(name, f string, sh c07Shape, main string, extra map[string]string, pre, post string) {
		t := map[string]string{"main": main}
		for k, v := range extra {
			t[k] = v
		}
		rs = append(rs, c07Route{name: "operand-" + name + ":" + f, main: "main", tpls: t, pre: pre, post: post, ipre: sh.ipre, ipost: sh.ipost,
			conv: sh.conv, strOnly: sh.strOnly})
	}
	for _, f := range []string{"e", "escape"} {
		for _, sh := range c07Shapes() {
			ev, ex := sh.expr("v"), sh.expr("x")
			add(sh.name+"@print", f, sh, "{{ "+ev+"|"+f+" }}", nil, "", "")
			add(sh.name+"@chain", f, sh, "[{{ "+ev+"|raw|"+f+"|raw }}]", nil, "[", "]")
			add(sh.name+"@apply", f, sh, "{% apply "+f+" %}{{ "+ev+" }}{% endapply %}", nil, "", "")
			add(sh.name+"@macro", f, sh, "{% macro m(x) %}({{ "+ex+"|"+f+" }}){% endmacro %}{{ _self.m(v) }}", nil, "(", ")")
			add(sh.name+"@macro-import", f, sh, "{% import 'macros' as mm %}{{ mm.show(v) }}", map[string]string{"macros": "{% macro show(x) %}<i>{{ " + ex + "|" + f + " }}</i>{% endmacro %}"}, "<i>", "</i>")
			add(sh.name+"@include", f, sh, "{% include 'inc' %}", map[string]string{"inc": "{{ " + ev + "|" + f + " }}"}, "", "")
		}
		id := c07Shape{}
		js := c07Shape{conv: "json-hash"}
		// the hash is built by another tag and escaped later
		add("set-hash", f, id, "{% set y = {'k': v} %}{{ y|first|"+f+" }}", nil, "", "")
		add("set-hash-escaped", f, id, "{% set y = {'k': v}|first|"+f+" %}{{ y }}", nil, "", "")
		add("set-json", f, js, "{% set y = {'name': v, 'role': 'guest'}|json_encode %}{{ y|"+f+" }}", nil, "", "")
		add("for-hash", f, id, "{% for x in {'k': v} %}{{ x|"+f+" }}{% endfor %}", nil, "", "")
		add("for-hash-key-value", f, id, "{% for k, x in {'k': v} %}{{ k }}={{ x|"+f+" }}{% endfor %}", nil, "k=", "")
		add("for-array-of-hash", f, id, "{% for h in [{'k': v}] %}{{ h|first|"+f+" }}{% endfor %}", nil, "", "")
		add("if-hash", f, id, "{% if {'k': v}|length > 0 %}{{ {'k': v}|first|"+f+" }}{% endif %}", nil, "", "")
		add("macro-arg-hash", f, id, "{% macro m(h) %}{{ h|first|"+f+" }}{% endmacro %}{{ _self.m({'k': v}) }}", nil, "", "")
		add("macro-arg-json", f, js, "{% macro m(h) %}{{ h|json_encode|"+f+" }}{% endmacro %}{{ _self.m({'name': v, 'role': 'guest'}) }}", nil, "", "")
		add("include-with-hash", f, id, "{% include 'inc' with {'x': v} %}", map[string]string{"inc": "{{ x|" + f + " }}"}, "", "")
		add("include-with-hash-only", f, id, "{% include 'inc' with {'x': v} only %}", map[string]string{"inc": "{{ {'k': x}|first|" + f + " }}"}, "", "")
		add("apply-text-json", f, js, "<div data-user=\"{% apply "+f+" %}{{ {'name': v, 'role': 'guest'}|json_encode }}{% endapply %}\">", nil, "<div data-user=\"", "\">")
		// the filter sits inside the literal and its result is only moved afterwards
		add("inner-hash-value", f, id, "{{ {'k': v|"+f+"}|first }}", nil, "", "")
		add("inner-hash-value-raw", f, id, "{{ {'k': v|"+f+"|raw}['k']|raw }}", nil, "", "")
		add("inner-array-item", f, id, "{{ ['a', v|"+f+"]|last }}", nil, "", "")
		add("inner-ternary", f, id, "{{ true ? {'k': v|"+f+"}|first : 'x' }}", nil, "", "")
		add("inner-cycle", f, id, "{{ cycle([{'k': v|"+f+"}], 0)|first }}", nil, "", "")
	}
	return rs
}

// c07OperandState: one engine per route and the value it rendered last.
type c07OperandState struct {
	engines []c07Engine
	prev    []any // the value the engine rendered before (nil before the first render)
	seen    []bool
}

func c07BuildOperands() (*c07OperandState, error) {
	st := &c07OperandState{}
	for _, r := range c07OperandRoutes() {
		e, err := newEngine(r.tpls)
		if err != nil {
			return nil, fmt.Errorf("route %s: %w", r.name, err)
		}
		st.engines = append(st.engines, c07Engine{r, e})
	}
	st.prev = make([]any, len(st.engines))
	st.seen = make([]bool, len(st.engines))
	return st, nil
}

func c07PrevHex(seen bool, v any) any {
	if !seen {
		return nil
	}
	if s, ok := v.(string); ok {
		return c07Short(s)
	}
	return fmt.Sprintf("%T %#v", v, v)
}

// texts: for every conversion in use, the text that reaches the filter for every value and its expected escape
// (Escape.escReg when there is a model, html.EscapeString otherwise).
type c07OperandWant struct {
	text []string
	ok   []bool
	esc  []string
}

func (st *c07OperandState) wants(e *Env, vals []any, identity []string) (map[string]*c07OperandWant, error) {
	out := map[string]*c07OperandWant{}
	for _, en := range st.engines {
		c := en.route.conv
		if out[c] != nil {
			continue
		}
		w := &c07OperandWant{text: make([]string, len(vals)), ok: make([]bool, len(vals))}
		for i, v := range vals {
			w.text[i], w.ok[i] = c07Conv(c, v)
		}
		switch {
		case c == "" && identity != nil:
			w.esc = identity
		case e.Model != nil:
			var err error
			if w.esc, _, err = c07Model(e.Model, "escape_reg", w.text); err != nil {
				return nil, err
			}
			e.Rep.Compared += len(vals)
		default:
			w.esc = make([]string, len(vals))
			for i, t := range w.text {
				w.esc[i] = html.EscapeString(t)
			}
		}
		out[c] = w
	}
	return out, nil
}

// check renders every value of the batch through every operand route, on the engine that rendered the values before.
// identity: the model's escReg of the values themselves when the caller has it already (strings), else nil.
func (st *c07OperandState) check(e *Env, vals []any, identity []string, kind string) error {
	r := e.Rep
	wants, err := st.wants(e, vals, identity)
	if err != nil {
		return err
	}
	// the conversions are themselves held to the property: decoding the expected escape gives the text back, and the JSON
	// texts decode to the value (valid UTF-8 strings)
	for c, w := range wants {
		for i, v := range vals {
			if !w.ok[i] {
				continue
			}
			if html.UnescapeString(w.esc[i]) != w.text[i] || c07NoRaw(w.esc[i]) != "" {
				r.Violate(Violation{Key: "operand-expected", What: "the expected escape of the text that reaches the filter does not decode to it (conversion " + c + ")", Broken: "Escape.escReg (C07_roundtrip, C07_no_raw)",
					Replay: map[string]any{"kind": "operand", "conv": c, "text_hex": c07Short(w.text[i]), "escaped_hex": c07Short(w.esc[i])}})
			}
			if s, isStr := v.(string); isStr && c == "json-hash" && utf8.ValidString(s) {
				var back map[string]any
				if json.Unmarshal([]byte(w.text[i]), &back) != nil || back["name"] != s || back["role"] != "guest" {
					panic("c07: json conversion does not round-trip " + hx(s))
				}
			}
		}
	}
	for ei, en := range st.engines {
		w := wants[en.route.conv]
		la, lb := en.route.lit()
		for i, v := range vals {
			_, isStr := v.(string)
			if !w.ok[i] || (en.route.strOnly && !isStr) {
				continue
			}
			out, errs := c07Render(en, v)
			exp := en.route.want(w.esc[i])
			prev, seen := st.prev[ei], st.seen[ei]
			st.prev[ei], st.seen[ei] = v, true
			if errs == "" && out == exp {
				// implementation-only oracles on the escaped text itself
				inner := out[len(la) : len(out)-len(lb)]
				if msg := c07NoRaw(inner); msg != "" {
					r.Violate(Violation{Key: "operand-raw-special", What: "route " + en.route.name + ": escaped output contains a raw special character: " + msg, Broken: "theorem C07_no_raw no longer describes the code (implementation-only oracle)",
						Replay: map[string]any{"kind": "operand", "route": en.route.name, "templates": en.route.tpls, "out_hex": c07Short(out)}})
				}
				continue
			}
			// the same value on an engine that has rendered nothing yet
			freshOut, freshErr := "", "not built"
			if fe, err := newEngine(en.route.tpls); err == nil {
				freshOut, freshErr = c07Render(c07Engine{en.route, fe}, v)
			}
			what := fmt.Sprintf("route %s: output is not the literal text + Escape.escReg(text reaching the filter) on %s input", en.route.name, kind)
			key := "escape-operand"
			if freshErr == "" && freshOut == exp {
				key = "escape-operand-stale"
				what = fmt.Sprintf("route %s: an engine that rendered another value before gives a different output than a fresh engine (which is right) on %s input", en.route.name, kind)
				if seen {
					// is it the previous render's output? (diagnosis only)
					if pt, ok := c07Conv(en.route.conv, prev); ok && out == en.route.want(html.EscapeString(pt)) {
						what += "; the output is the escaped text of the value rendered before"
					}
				}
			}
			rep := map[string]any{"kind": "operand", "route": en.route.name, "templates": en.route.tpls, "conv": en.route.conv,
				"prev_input": c07PrevHex(seen, prev), "text_hex": c07Short(w.text[i]), "impl_hex": c07Short(out), "impl_err": errs,
				"want_hex": c07Short(exp), "fresh_engine_hex": c07Short(freshOut), "fresh_engine_err": freshErr}
			if s, ok := v.(string); ok {
				rep["input_hex"] = c07Short(s)
			} else {
				rep["value"] = fmt.Sprintf("%T %#v", v, v)
			}
			r.Violate(Violation{Key: key, What: what,
				Broken: "correspondence escape_reg (TwigModel.Escape.escReg vs filterEscape through " + en.route.name + "); C07: decoding the output gives back the text of THIS render",
				Replay: rep})
			if r.Full() {
				return nil
			}
		}
	}
	r.Hit("operand-routes:" + kind)
	return nil
}

func c07Anys(strs []string) []any {
	out := make([]any, len(strs))
	for i, s := range strs {
		out[i] = s
	}
	return out
}
