package main

import (
	"fmt"
	"regexp"
	"strings"
)

// C13 — whitespace-control dashes trim adjacent whitespace and change nothing else.

func init() { register("C13", runC13) }

const segOpen, segClose = "\x1e", "\x1f"

// glued: a dashed delimiter with no blank between it and the tag content
var glued = regexp.MustCompile(`[^ \t\r\n\-]-[%}]}|\{[{%]-[^ \t\r\n\-]`)

// markTags wraps every tag the printer emits in record separators so that the hand-trimmed
// spelling can be computed from the same printing.
type markedStyle struct{ *TplStyle }

func trimWsRight(s string) string { return strings.TrimRight(s, " \t\r\n") }
func trimWsLeft(s string) string  { return strings.TrimLeft(s, " \t\r\n") }

// splitMarked returns the dashed source and the hand-trimmed source of one marked printing.
func splitMarked(marked string) (dashed, hand string) {
	type seg struct {
		text  string
		isTag bool
	}
	var segs []seg
	for len(marked) > 0 {
		i := strings.Index(marked, segOpen)
		if i < 0 {
			segs = append(segs, seg{marked, false})
			break
		}
		if i > 0 {
			segs = append(segs, seg{marked[:i], false})
		}
		j := strings.Index(marked[i:], segClose)
		segs = append(segs, seg{marked[i+1 : i+j], true})
		marked = marked[i+j+1:]
	}
	var d, h strings.Builder
	for i, s := range segs {
		if s.isTag {
			d.WriteString(s.text)
			t := s.text
			if strings.HasPrefix(t, "{{-") || strings.HasPrefix(t, "{%-") {
				t = t[:2] + t[3:]
			}
			if strings.HasSuffix(t, "-}}") || strings.HasSuffix(t, "-%}") {
				t = t[:len(t)-3] + t[len(t)-2:]
			}
			h.WriteString(t)
			continue
		}
		d.WriteString(s.text)
		t := s.text
		if i > 0 && segs[i-1].isTag && (strings.HasSuffix(segs[i-1].text, "-}}") || strings.HasSuffix(segs[i-1].text, "-%}")) {
			t = trimWsLeft(t)
		}
		if i+1 < len(segs) && segs[i+1].isTag && (strings.HasPrefix(segs[i+1].text, "{{-") || strings.HasPrefix(segs[i+1].text, "{%-")) {
			t = trimWsRight(t)
		}
		h.WriteString(t)
	}
	return d.String(), h.String()
}

// wsLit: a literal chunk with whitespace runs at both ends whose trimmed form is still literal
func wsLit(e *Env) string {
	core := genLit(e.Rng, 6)
	core = strings.Trim(core, " \t\r\n")
	core = fixLit(core)
	return pick(e.Rng, []string{"", " ", "\n", "  \t", "\r\n ", " \n\n"}) + core + pick(e.Rng, []string{"", " ", "\n", "\t ", " \r\n"})
}

func markNodes(ns []GNode, ts *TplStyle) string {
	var sb strings.Builder
	for _, n := range ns {
		sb.WriteString(markNode(n, ts))
	}
	return sb.String()
}

func m(s string) string { return segOpen + s + segClose }

// markNode prints like TplStyle.node but wraps each tag in separators (comments count as tags
// without dashes: they separate text chunks in the token stream).
func markNode(n GNode, ts *TplStyle) string {
	ex := ts.Expr
	switch x := n.(type) {
	case NText:
		return x.S
	case NComment:
		return m("{#" + x.S + "#}")
	case NPrint:
		return m(ts.printTag(ex.expr(x.E)))
	case NVerbatim:
		return m(ts.tag("verbatim")) + x.S + m(ts.tag("endverbatim"))
	case NIf:
		var sb strings.Builder
		for i, c := range x.Conds {
			kw := "if"
			if i > 0 {
				kw = "elseif"
			}
			sb.WriteString(m(ts.tag(kw + " " + ex.expr(c))))
			sb.WriteString(markNodes(x.Bodies[i], ts))
		}
		if x.HasElse {
			sb.WriteString(m(ts.tag("else")) + markNodes(x.Else, ts))
		}
		sb.WriteString(m(ts.tag("endif")))
		return sb.String()
	case NFor:
		vars := x.Val
		if x.Key != "" {
			vars = x.Key + ", " + x.Val
		}
		s := m(ts.tag("for "+vars+" in "+ex.expr(x.Seq))) + markNodes(x.Body, ts)
		if x.HasElse {
			s += m(ts.tag("else")) + markNodes(x.Else, ts)
		}
		return s + m(ts.tag("endfor"))
	case NBlock:
		return m(ts.tag("block "+x.Name)) + markNodes(x.Body, ts) + m(ts.tag("endblock"))
	case NApply:
		return m(ts.tag("apply "+x.Filter)) + markNodes(x.Body, ts) + m(ts.tag("endapply"))
	case NMacro:
		return m(ts.tag("macro "+x.Name+"("+strings.Join(x.Params, ", ")+")")) + markNodes(x.Body, ts) + m(ts.tag("endmacro"))
	default:
		return m(ts.node(n)) // single-tag statements: set, do, include, extends, import, from
	}
}

// respace replaces every NText of a body by a chunk with whitespace at both ends
func respace(e *Env, ns []GNode) []GNode {
	out := make([]GNode, 0, len(ns)*2)
	for _, n := range ns {
		switch x := n.(type) {
		case NText:
			out = append(out, NText{wsLit(e)})
			continue
		case NComment:
			continue // comments between text and a dashed delimiter are a separate matter
		case NVerbatim:
			out = append(out, NVerbatim{wsLit(e)})
			continue
		case NIf:
			for i := range x.Bodies {
				x.Bodies[i] = respace(e, x.Bodies[i])
			}
			x.Else = respace(e, x.Else)
			n = x
		case NFor:
			x.Body = respace(e, x.Body)
			x.Else = respace(e, x.Else)
			n = x
		case NApply:
			x.Body = respace(e, x.Body)
			n = x
		case NBlock:
			x.Body = respace(e, x.Body)
			n = x
		case NMacro:
			x.Body = respace(e, x.Body)
			n = x
		}
		out = append(out, NText{wsLit(e)}, n)
	}
	return append(out, NText{wsLit(e)})
}

// c13Filler returns literal text that lifts a template above the size at which Parse switches to the other
// tokenizer (4096 bytes on the pinned tree; the filler alone is longer than twice that on purpose, so that a
// moved threshold is still crossed). It starts and ends with a non-blank byte: no dash ever trims into it.
func c13Filler(e *Env) string {
	line := pick(e.Rng, []string{"<li>filler</li>\n", "<p>static paragraph of the page</p>\r\n", "plain words { with } lone % braces #\t", "x-y - z -- \n  "})
	n := (8200+e.Rng.Intn(700))/len(line) + 1
	return "<!" + strings.Repeat(line, n) + "!>"
}

// withFiller returns the top-level node list with one more literal chunk (the filler) at a random position:
// in front of everything, between two statements, or behind everything.
func withFiller(e *Env, nodes []GNode, filler string) []GNode {
	at := e.Rng.Intn(len(nodes) + 1)
	out := make([]GNode, 0, len(nodes)+1)
	out = append(out, nodes[:at]...)
	out = append(out, NText{filler})
	return append(out, nodes[at:]...)
}

// c13Pads: what may stand between a delimiter (with or without dash) and the tag content. The empty pad glues
// the content to the delimiter ({{ n-}}, {%-endif%}); tab and line break are blanks inside a tag like the space.
var c13Pads = []string{" ", " ", "", "", "  ", "\t", "\n", " \r\n"}

func runC13(e *Env) error {
	r := e.Rep
	r.Rule = "programs from the control-flow generator plus block/macro/import/from/include/extends/do/set/apply/verbatim tags, every literal chunk given whitespace runs at both ends; a random subset of delimiters gets a dash (systematically: each delimiter singly for every tag kind); the blank between a delimiter and the tag content is drawn per side from none/space/tab/line break; " +
		"every systematic case and one random case in five also with a literal filler that lifts the source above the large-template threshold (other tokenizer), in front of, between or behind the statements; " +
		"oracle: render(dashed) = render(same template, dashes removed, that whitespace deleted by hand) and both parse alike (implementation-only), and the Lean pipeline on the dashed source; non-trivial = at least one dash next to non-empty whitespace; distinct by dashed source"
	libs := map[string]string{
		"partial": "<{{ n }}{{ p|default('-') }}>",
		"lib":     "{% macro hi(x) %}hi {{ x }}{% endmacro %}{% macro two(a, b = 2) %}{{ a }}+{{ b }}{% endmacro %}",
		"base":    "B[{% block content %}base{% endblock %}]",
	}
	check := func(nodes []GNode, ctx map[string]any, dashes func() bool, tag string, big bool) error {
		ts := &TplStyle{Expr: canon, Dashes: dashes, Pad: func() string { return pick(e.Rng, c13Pads) }}
		filler := ""
		if big {
			filler = c13Filler(e)
			nodes = withFiller(e, nodes, filler)
			tag += "big:"
		}
		marked := markNodes(nodes, ts)
		dashed, hand := splitMarked(marked)
		// what a person reads in the report: the filler folded away
		show := func(s string, n int) string {
			if filler != "" {
				s = strings.Replace(s, filler, fmt.Sprintf("<%d bytes of literal text>", len(filler)), 1)
			}
			return truncate(s, n)
		}
		tpls := map[string]string{"main": dashed}
		tplsH := map[string]string{"main": hand}
		for k, v := range libs {
			tpls[k], tplsH[k] = v, v
		}
		cD := &Case{Templates: tpls, Main: "main", Ctx: ctx, FailAt: -1}
		cH := &Case{Templates: tplsH, Main: "main", Ctx: ctx, FailAt: -1}
		if e.Rng.Intn(2) == 0 {
			// the template parsed just before ends in a trimming delimiter or fails half-way: nothing of it may carry over
			cD.Prime = pick(e.Rng, primers)
			r.Hit("primed-with-trailing-trim")
		}
		iD, _, _, err := compareCase(e, cD, "render-model-c13", "correspondence render (Lean pipeline incl. applyWs/normalise vs real engine) on dashed templates")
		if err != nil {
			return err
		}
		iH := runImpl(cH)
		nontrivial := dashed != hand
		r.Seen(tag+dashed, nontrivial)
		if nontrivial {
			r.Hit("dash-next-to-whitespace")
		}
		r.Hit("class:" + iD.Class)
		if big {
			r.Hit("above-large-template-threshold")
			if len(dashed) <= 4096 || len(hand) <= 4096 {
				return fmt.Errorf("C13: the filler did not lift the pair above 4096 bytes (%d, %d)", len(dashed), len(hand))
			}
			if glued.MatchString(dashed) {
				r.Hit("above-threshold:content-glued-to-dashed-delimiter")
			}
		}
		if glued.MatchString(dashed) {
			r.Hit("content-glued-to-dashed-delimiter")
		}
		if iD.Class != iH.Class || iD.Out != iH.Out {
			r.Violate(Violation{Key: "dash-changes-more-than-whitespace", What: fmt.Sprintf("dashed %q and hand-trimmed %q differ: %q (%s %s) vs %q (%s)", show(dashed, 120), show(hand, 120), show(iD.Out, 60), iD.Class, truncate(iD.Msg, 80), show(iH.Out, 60), iH.Class),
				Broken: "theorem C13_commutes / C13_parse_invariant no longer describes the code (implementation-only oracle)",
				Replay: map[string]any{"kind": "dash-pair", "dashed_hex": hx(dashed), "hand_hex": hx(hand), "dashed": dashed, "hand": hand, "out_dashed": iD.Out, "out_hand": iH.Out, "class_dashed": iD.Class, "class_hand": iH.Class, "msg": iD.Msg}})
		}
		return nil
	}
	ctx0 := func(g *Gen) map[string]any { return g.BaseCtx() }
	// systematic: every tag kind, each delimiter singly and all together
	kinds := func() [][]GNode {
		return [][]GNode{
			{NPrint{EVar{"n"}}},
			{NIf{Conds: []GExpr{EVar{"t"}, EVar{"f"}}, Bodies: [][]GNode{{NText{"A"}}, {NText{"B"}}}, HasElse: true, Else: []GNode{NText{"C"}}}},
			{NFor{Val: "v", Seq: EVar{"xs"}, Body: []GNode{NPrint{EVar{"v"}}}, HasElse: true, Else: []GNode{NText{"E"}}}},
			{NFor{Val: "v", Seq: EVar{"ys"}, Body: []GNode{NPrint{EVar{"v"}}}, HasElse: true, Else: []GNode{NText{"E"}}}},
			{NSet{"q", ELit{5}}, NPrint{EVar{"q"}}},
			{NDo{EBin{"+", ELit{1}, ELit{2}}}},
			{NBlock{"content", []GNode{NText{"in"}}}},
			{NExtends{ELit{"base"}}, NBlock{"content", []GNode{NText{"child"}}}},
			{NInclude{E: ELit{"partial"}}},
			{NInclude{E: ELit{"partial"}, WithKeys: []string{"p"}, WithVals: []GExpr{ELit{"P"}}, Only: true}},
			{NMacro{Name: "mm1", Params: []string{"a"}, Body: []GNode{NText{"M"}, NPrint{EVar{"a"}}}}, NPrint{ECall{"mm1", []GExpr{ELit{1}}}}},
			{NImport{ELit{"lib"}, "l"}, NPrint{EMCall{EVar{"l"}, "hi", []GExpr{ELit{"z"}}}}},
			{NFrom{"lib", [][2]string{{"hi", ""}, {"two", "deux"}}}, NPrint{ECall{"deux", []GExpr{ELit{1}}}}},
			{NApply{"upper", []GNode{NText{"up"}}}},
			{NVerbatim{"{{ raw }}"}},
		}
	}
	for ki, k := range kinds() {
		g := NewGen(e.Rng)
		ctx := ctx0(g)
		nodes := respace(e, k)
		// count delimiters
		cnt := 0
		probe := &TplStyle{Expr: canon, Dashes: func() bool { cnt++; return false }}
		markNodes(nodes, probe)
		for which := -1; which <= cnt && !r.Full(); which++ {
			for _, big := range []bool{false, true} {
				i := 0
				w := which
				if err := check(nodes, ctx, func() bool { i++; return w == cnt || i-1 == w }, fmt.Sprintf("k%d:", ki), big); err != nil {
					return err
				}
			}
		}
	}
	// token counts at the growth steps of the token buffer: the dashes of such a template still trim
	tokenBufferGrowthSweep(e, "C13: a dash trims adjacent whitespace and changes nothing else, whatever the number of tokens (implementation-only oracle; token buffer growth)")
	for _, total := range tokenCountTargets(false) {
		src := sourceWithTokens(e.Rng, total)
		c := &Case{Templates: map[string]string{"main": src}, Main: "main", Ctx: map[string]any{"a": "A"}, FailAt: -1}
		if _, _, _, err := compareCase(e, c, "render-model-c13", "correspondence render on dashed templates with a token count at a buffer boundary"); err != nil {
			return err
		}
		r.Seen(fmt.Sprintf("tokens:%d:%s", total, src), strings.Contains(src, "-"))
		r.Hit("token-count-boundary")
	}
	// templates above the large-template threshold whose dashes all sit on ONE kind of delimiter ({{- only, -}} only,
	// {%- only, -%} only): each kind is emitted by its own code in each tokenizer
	{
		type piece struct{ open, body, close, text string }
		seq := []piece{{"{%", "set x = 1", "%}", "X"}, {"{%", "if t", "%}", "A"}, {"{{", "x", "}}", "p"}, {"{%", "else", "%}", "B"}, {"{%", "endif", "%}", "C"},
			{"{%", "for i in xs", "%}", "["}, {"{{", "i", "}}", "]"}, {"{%", "endfor", "%}", "D"}, {"{%", "set y = x", "%}", "E"}, {"{{", "y", "}}", "F"}}
		filler := strings.Repeat("<li>filler</li>\n", 260)
		for kind := 0; kind < 4 && !r.Full(); kind++ {
			for rep := 0; rep < 6; rep++ {
				var dashed, hand strings.Builder
				for _, big := range []bool{rep%2 == 0} {
					if big {
						dashed.WriteString(filler)
						hand.WriteString(filler)
					}
				}
				prevTrimRight := false
				for _, pc := range seq {
					wsL, wsR := pick(e.Rng, []string{" ", "  \n ", "\t", ""}), pick(e.Rng, []string{" ", " \n  ", "\t\t", "", ""})
					dl := (kind == 0 && pc.open == "{{" || kind == 2 && pc.open == "{%") && e.Rng.Intn(3) > 0
					dr := (kind == 1 && pc.close == "}}" || kind == 3 && pc.close == "%}") && e.Rng.Intn(3) > 0
					// text before the tag: "t" + wsL ; after: wsR + text
					lead := pick(e.Rng, []string{"t", "t", "{ t", "a{b", "}", "{x", "%}t", "t{."}) // lone braces in the text (never ending in a brace or a blank)
					dashed.WriteString(lead + wsL + pc.open)
					if dl {
						dashed.WriteString("-")
						hand.WriteString(lead + pc.open)
					} else {
						hand.WriteString(lead + wsL + pc.open)
					}
					// the blank inside the tag, per side: none (content glued to the delimiter), space, tab, line break
					inner := pick(e.Rng, c13Pads) + pc.body + pick(e.Rng, c13Pads)
					dashed.WriteString(inner)
					hand.WriteString(inner)
					if dr {
						dashed.WriteString("-")
					}
					dashed.WriteString(pc.close + wsR + pc.text)
					if dr {
						hand.WriteString(pc.close + pc.text)
					} else {
						hand.WriteString(pc.close + wsR + pc.text)
					}
					_ = prevTrimRight
				}
				if rep%2 == 1 {
					dashed.WriteString(filler)
					hand.WriteString(filler)
				}
				ctx := map[string]any{"t": rep%3 != 0, "xs": []interface{}{1, 2}}
				cD := &Case{Templates: map[string]string{"main": dashed.String()}, Main: "main", Ctx: ctx, FailAt: -1}
				iD, _, _, err := compareCase(e, cD, "render-model-c13", "correspondence render on large templates with one kind of dashed delimiter")
				if err != nil {
					return err
				}
				iH := runImpl(&Case{Templates: map[string]string{"main": hand.String()}, Main: "main", Ctx: ctx, FailAt: -1})
				r.Seen(fmt.Sprintf("large-kind:%d:%d", kind, rep), true)
				r.Hit(fmt.Sprintf("large-one-kind:%d", kind))
				if iD.Class != iH.Class || iD.Out != iH.Out {
					if r.Violate(Violation{Key: "dash-changes-more-than-whitespace", What: fmt.Sprintf("a %d-byte template whose only dashes are of kind %d (0 {{-, 1 -}}, 2 {%%-, 3 -%%}) and its hand-trimmed form differ: %s (%s) vs %s (%s)", len(dashed.String()), kind, truncate(iD.Out[max(0, len(iD.Out)-80):], 80), iD.Class+" "+truncate(iD.Msg, 80), truncate(iH.Out[max(0, len(iH.Out)-80):], 80), iH.Class),
						Broken: "theorem C13_commutes / C14_scanners_agree no longer describes the code (implementation-only oracle)",
						Replay: map[string]any{"kind": "dash-pair", "dashed_hex": hx(dashed.String()), "hand_hex": hx(hand.String()), "class_dashed": iD.Class, "class_hand": iH.Class, "msg": iD.Msg}}) {
						return nil
					}
				}
			}
		}
	}
	// random programs, random subsets
	n := e.N(800, 40000)
	for i := 0; i < n && !r.Full(); i++ {
		g := NewGen(e.Rng)
		ctx := ctx0(g)
		body := respace(e, g.Body(2, BodyOpts{Includes: []string{"partial"}}))
		p := []float64{0.15, 0.5, 0.9}[e.Rng.Intn(3)]
		if err := check(body, ctx, func() bool { return e.Rng.Float64() < p }, "r:", i%5 == 4); err != nil {
			return err
		}
		if i < 2 {
			d, h := splitMarked(markNodes(body, &TplStyle{Expr: canon, Dashes: func() bool { return true }}))
			r.Sample(map[string]any{"dashed": truncate(d, 300), "hand_trimmed": truncate(h, 300)})
		}
	}
	return nil
}
