package main

import (
	"fmt"
	"strings"
)

// C10 — parent() asked for more than once while one block is being rendered.
//
// "parent() yields exactly what the next definition up the chain would have rendered for that block with the same
// variables": the variables are those at the moment of the call. An override may call parent() in a loop, or twice
// with an assignment in between, and a middle template may do the same with its own parent() — each call renders the
// inherited body anew, with the loop variable, loop.index and the assigned variable as they are then. The inherited
// bodies of the chains below therefore READ variables that the calling bodies change between two calls.
//
// Variables in the independent Go spec (c10Scope): the render context, changed by {% set %} and by loops. What a
// variable holds behind the loop that bound it, or behind the block (or the parent() call) inside which it was
// assigned, is not part of this property (Twig scopes it, an implementation may keep it); the spec marks a chain
// that reads such a variable as unspecified and leaves it to the Lean model alone.

type c10Unknown struct{}

type c10Scope struct {
	vars   map[string]any
	sets   []string // variables assigned since the start of the render, oldest first
	silent bool     // an unknown variable was read
}

func newC10Scope(ctx map[string]any) *c10Scope {
	sc := &c10Scope{vars: map[string]any{}}
	for k, v := range ctx {
		sc.vars[k] = v
	}
	return sc
}

// enter / leave: a block rendering or a parent() call; what was assigned inside is unknown afterwards
func (sc *c10Scope) enter() int { return len(sc.sets) }
func (sc *c10Scope) leave(mark int) {
	for _, n := range sc.sets[mark:] {
		sc.vars[n] = c10Unknown{}
	}
	sc.sets = sc.sets[:mark]
}

func (sc *c10Scope) set(name, value string) {
	sc.vars[name] = value
	sc.sets = append(sc.sets, name)
}

func (sc *c10Scope) read(name string) string {
	v, ok := sc.vars[name]
	if !ok || v == nil {
		return ""
	}
	if _, unknown := v.(c10Unknown); unknown {
		sc.silent = true
		return ""
	}
	return fmt.Sprint(v)
}

// loopStart: a loop binds `name` and loop.index; behind the loop the enclosing loop's index is back and the loop
// variable is unknown
func (sc *c10Scope) loopStart(name string) (restore func()) {
	outerIndex, inLoop := sc.vars["loop.index"]
	return func() {
		sc.vars[name] = c10Unknown{}
		if inLoop {
			sc.vars["loop.index"] = outerIndex
		} else {
			delete(sc.vars, "loop.index")
		}
	}
}

func c10Var(name string) bItem        { return bItem{kind: "var", name: name} }
func c10Set(name, value string) bItem { return bItem{kind: "set", name: name, text: value} }
func c10Each(name, values string, body ...bItem) bItem {
	return bItem{kind: "each", name: name, text: values, body: body}
}

// c10Readers: what an inherited body reads (the variables the callers below change between two calls)
var c10Readers = []struct {
	name string
	body []bItem
}{
	{"all", []bItem{txt("b"), c10Var("who"), txt("."), c10Var("x"), txt("."), c10Var("i"), txt("."), c10Var("loop.index")}},
	{"who", []bItem{txt("b-"), c10Var("who")}},
	{"each-var", []bItem{txt("b-"), c10Var("x")}},
	{"for-var", []bItem{txt("b-"), c10Var("i")}},
	{"loop-index", []bItem{txt("b-"), c10Var("loop.index")}},
}

// c10Callers: how the body of an override asks for parent() (tag = a text that tells the levels apart)
var c10Callers = []struct {
	name string
	body func(tag string) []bItem
}{
	{"once", func(tag string) []bItem { return []bItem{txt(tag + "("), {kind: "parent"}, txt(")")} }},
	{"twice", func(tag string) []bItem {
		return []bItem{txt(tag + "("), {kind: "parent"}, txt("|"), {kind: "parent"}, txt(")")}
	}},
	{"set-between", func(tag string) []bItem {
		return []bItem{txt(tag + "("), {kind: "parent"}, txt(";"), c10Set("who", "S"+tag), {kind: "parent"}, txt(";"), c10Set("who", "T"+tag), {kind: "parent"}, txt(")")}
	}},
	{"each", func(tag string) []bItem {
		return []bItem{txt(tag + "("), c10Each("x", "a,b,c", txt("["), bItem{kind: "parent"}, txt("]")), txt(")")}
	}},
	{"for", func(tag string) []bItem {
		return append([]bItem{txt(tag + ":")}, wrapIn([]string{"for"}, []bItem{{kind: "parent"}})...)
	}},
	{"each-in-for", func(tag string) []bItem {
		return append([]bItem{txt(tag + ":")}, wrapIn([]string{"for"}, []bItem{c10Each("x", "p,q", bItem{kind: "parent"}, txt(","))})...)
	}},
	{"each-with-set", func(tag string) []bItem {
		return []bItem{txt(tag + "("), c10Each("x", "a,b", bItem{kind: "parent"}, c10Set("who", "U"+tag), txt("/"), bItem{kind: "parent"}, txt(";")), txt(")")}
	}},
	{"assigned-twice", func(tag string) []bItem {
		first := wrapIn([]string{"set"}, []bItem{{kind: "parent"}})
		second := wrapIn([]string{"if", "set"}, []bItem{{kind: "parent"}})
		return append(append(append([]bItem{txt(tag)}, first...), c10Set("who", "V"+tag)), second...)
	}},
	{"call-then-loop", func(tag string) []bItem {
		return []bItem{txt(tag + "("), {kind: "parent"}, txt("+"), c10Each("x", "k,l", bItem{kind: "parent"}, txt("+")), txt(")")}
	}},
}

// c10Middles: what a template between the caller and the base does with the block
var c10Middles = []struct {
	name string
	body func(tag string) []bItem // nil = the template does not define the block
}{
	{"omits", nil},
	{"passes-on", func(tag string) []bItem {
		return []bItem{txt(tag + "<"), c10Var("x"), {kind: "parent"}, c10Var("who"), txt(">")}
	}},
	{"stops", func(tag string) []bItem {
		return []bItem{txt(tag + "="), c10Var("who"), c10Var("x"), c10Var("i"), c10Var("loop.index")}
	}},
}

// c10CallChains: the deterministic sweep — every caller over every reader on two levels; every caller over every
// middle (and every caller as the middle of a chain whose top calls parent() once) on three levels; callers at two
// levels of four; the block of the base layout plain and inside a loop of the layout.
func c10CallChains(thorough bool) map[string]*chainCase {
	out := map[string]*chainCase{}
	mk := func(place string, reader []bItem, bodies ...[]bItem) *chainCase {
		cc := &chainCase{}
		for i, b := range bodies {
			lv := level{name: fmt.Sprintf("L%d", i), defs: map[string][]bItem{}}
			if b != nil {
				lv.defs["row"] = b
				lv.order = []string{"row"}
			}
			cc.levels = append(cc.levels, lv)
		}
		cc.levels = append(cc.levels, level{name: fmt.Sprintf("L%d", len(bodies)), defs: map[string][]bItem{}})
		cc.layout = []bItem{txt("^"), {kind: place, name: "row", body: reader}, txt("|"), {kind: "block", name: "title", body: []bItem{txt("T")}}, txt("$")}
		return cc
	}
	readers := c10Readers
	for _, c := range c10Callers {
		for ri, rd := range readers {
			out["2:"+c.name+"/"+rd.name] = mk("block", rd.body, c.body("c"))
			if ri == 0 || thorough {
				out["2-in-loop:"+c.name+"/"+rd.name] = mk("forblock", rd.body, c.body("c"))
			}
		}
		for _, m := range c10Middles {
			var mid []bItem
			if m.body != nil {
				mid = m.body("m")
			}
			for ri, rd := range readers {
				if ri == 0 || thorough {
					out["3:"+c.name+"/"+m.name+"/"+rd.name] = mk("block", rd.body, c.body("c"), mid)
				}
			}
		}
		// the caller in the middle: its body is itself reached through parent()
		out["3:once/"+c.name+"/all"] = mk("block", readers[0].body, c10Callers[0].body("c"), c.body("m"))
		out["3:omitted/"+c.name+"/all"] = mk("block", readers[0].body, nil, c.body("m"))
	}
	for i, c := range c10Callers {
		for j, m := range c10Callers {
			if thorough || (i+j)%3 == 0 {
				out["3:"+c.name+"/"+m.name+"/all"] = mk("block", readers[0].body, c.body("c"), m.body("m"))
				out["4:"+c.name+"/passes-on/"+m.name+"/all"] = mk("block", readers[0].body, c.body("c"), c10Middles[1].body("n"), m.body("m"))
			}
		}
	}
	return out
}

// c10DecorateCalls (generated chains): an override that calls parent() may call it again behind an assignment, or
// in a loop; the definitions further up then read what changed.
func c10DecorateCalls(e *Env, cc *chainCase) {
	rg := e.Rng
	k := len(cc.levels) - 1
	reads := func(body []bItem) []bItem {
		switch rg.Intn(3) {
		case 0:
			return append(body, c10Var("x"), c10Var("loop.index"))
		case 1:
			return append(body, c10Var("i"), c10Var("who"))
		}
		return append(body, c10Var("who"), c10Var("x"))
	}
	hasParent := func(body []bItem) bool { return strings.Contains(cc.bodySrc(body), "parent()") }
	touched := false
	for i := 0; i < k; i++ {
		lv := &cc.levels[i]
		for _, b := range lv.order {
			body := lv.defs[b]
			if !hasParent(body) || rg.Intn(2) == 0 {
				continue
			}
			touched = true
			switch rg.Intn(3) {
			case 0:
				body = append(append([]bItem{}, body...), c10Set("who", fmt.Sprintf("S%d", i)), bItem{kind: "parent"})
			case 1:
				body = []bItem{c10Each("x", "a,b,c", body...)}
			default:
				body = append(append([]bItem{}, body...), c10Each("x", "a,b", txt(","), bItem{kind: "parent"}))
			}
			lv.defs[b] = reads(body)
		}
	}
	if !touched {
		return
	}
	// every default body of the base layout reads the variables
	var walk func(items []bItem) []bItem
	walk = func(items []bItem) []bItem {
		out := append([]bItem{}, items...)
		for j, it := range out {
			switch it.kind {
			case "block", "forblock", "ifblock":
				if strings.HasPrefix(it.name, "wrap") {
					out[j].body = walk(it.body)
				} else {
					out[j].body = reads(append([]bItem{}, it.body...))
				}
			}
		}
		return out
	}
	cc.layout = walk(cc.layout)
}
