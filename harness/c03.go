package main

import (
	"encoding/json"
	"fmt"
	"math"
	"math/rand"
	"os"
	"os/exec"
	"sort"
	"strings"
	"time"

	"github.com/semihalev/twig"
)

// C03 — output is a deterministic function of templates and context (independent of Go's map
// iteration order, of the insertion order of map entries, and of addresses).
//
// Implementation-only oracles (the main thing here):
//   (a) programs that loop over / filter maps: each case is rendered 30× in-process on fresh engines,
//       the context rebuilt every time with another insertion order of every map; all outputs must agree;
//   (b) sampled cases are additionally rendered in 3 fresh child processes (different allocation noise);
//   (d) values whose Go formatting exposes addresses (pointers, funcs, macro objects) and the two other known
//       findings (pointer keys with equal pointees; printing a map with several NaN keys): probed every run,
//       reported once each under a stable key;
//   (e) the regression corpora: the pinned tree's defects and the defects repaired after the first delivery of
//       this slice (duplicate hash-literal keys: last wins; map[interface{}] keys 1 / "1" / int64(1) / 1.0 in
//       for / first / keys / merge; composite keys that print alike; NaN keys) with their required outputs.
// Correspondence with the Lean model (TwigModel.MapOrder):
//   (a') for-loop / keys / first order over string-, int-, uint-, float- (with NaN keys), bool-, array-,
//        struct- and interface{}-keyed maps (keys of different types that print alike) against `sortKeys`
//        (driver op maporder_sort_keys; printed form, %T and %#v of each key computed here with fmt);
//   (c) `{{ d|date(f) }}` for every format string of length ≤ 3 (quick: ≤ 2 + random longer ones) over the
//       table's letters ∪ {\, x, -, space} against time.Format(model convertDateFormat(f)).

func init() {
	register("C03", runC03)
	children["c03render"] = c03Child
}

// ---- serialisable values ------------------------------------------------------------------------

// c03Val describes a context value; maps list their entries in a base order and are built with a
// permuted insertion order.
type c03Val struct {
	T string   `json:"t"`
	S string   `json:"s,omitempty"`
	I int64    `json:"i,omitempty"`
	F float64  `json:"f,omitempty"`
	B bool     `json:"b,omitempty"`
	K []c03Val `json:"k,omitempty"` // map keys
	L []c03Val `json:"l,omitempty"` // list elements / map values (parallel to K)
}

type c03Struct struct {
	Name string
	N    int
	P    *int
}

// c03KeyS: a comparable struct used as a map key (two values can print alike: {"a b","c"} / {"a","b c"})
type c03KeyS struct{ A, B string }

var c03Time = time.Date(2024, 3, 5, 14, 7, 9, 0, time.UTC)

func c03S(s string) c03Val { return c03Val{T: "str", S: s} }
func c03I(i int64) c03Val  { return c03Val{T: "int", I: i} }

func c03Perm(n int, seed int64, salt int) []int {
	p := make([]int, n)
	for i := range p {
		p[i] = i
	}
	if seed == 0 {
		return p
	}
	r := rand.New(rand.NewSource(seed*7919 + int64(salt)))
	r.Shuffle(n, func(i, j int) { p[i], p[j] = p[j], p[i] })
	return p
}

// c03Build turns a description into a Go value. seed selects the insertion order of every map
// (0 = the base order).
func c03Build(v c03Val, seed int64) any {
	salt := 0
	var build func(v c03Val) any
	build = func(v c03Val) any {
		salt++
		switch v.T {
		case "nil":
			return nil
		case "str":
			return v.S
		case "int":
			return int(v.I)
		case "i64":
			return v.I
		case "float":
			return v.F
		case "bool":
			return v.B
		case "time":
			return c03Time
		case "list":
			out := make([]interface{}, len(v.L))
			for i, x := range v.L {
				out[i] = build(x)
			}
			return out
		case "strs":
			out := make([]string, len(v.L))
			for i, x := range v.L {
				out[i] = x.S
			}
			return out
		case "ptr":
			x := int(v.I)
			return &x
		case "pstruct":
			x := int(v.I)
			return &c03Struct{Name: v.S, N: int(v.I), P: &x}
		case "struct":
			x := int(v.I)
			return c03Struct{Name: v.S, N: int(v.I), P: &x}
		case "func":
			n := v.I
			return func() int64 { return n }
		case "chan":
			return make(chan int)
		case "nan":
			if v.I != 0 {
				return math.Float64frombits(0x7ff8000000000000 + uint64(v.I)) // another NaN payload
			}
			return math.NaN()
		case "nan32":
			return float32(math.NaN())
		case "inf":
			return math.Inf(int(v.I))
		case "arr":
			return [2]string{v.L[0].S, v.L[1].S}
		case "kstruct":
			return c03KeyS{A: v.L[0].S, B: v.L[1].S}
		case "pkstruct":
			return &c03KeyS{A: v.L[0].S, B: v.L[1].S}
		}
		if x, ok := c03BuildExtra(v); ok { // structs with methods (c03_history.go)
			return x
		}
		order := c03Perm(len(v.K), seed, salt)
		switch v.T {
		case "map":
			m := map[string]interface{}{}
			for _, i := range order {
				m[v.K[i].S] = build(v.L[i])
			}
			return m
		case "msi":
			m := map[string]int{}
			for _, i := range order {
				m[v.K[i].S] = int(v.L[i].I)
			}
			return m
		case "mss":
			m := map[string]string{}
			for _, i := range order {
				m[v.K[i].S] = v.L[i].S
			}
			return m
		case "msl":
			m := map[string][]string{}
			for _, i := range order {
				var l []string
				for _, x := range v.L[i].L {
					l = append(l, x.S)
				}
				m[v.K[i].S] = l
			}
			return m
		case "mis":
			m := map[int]string{}
			for _, i := range order {
				m[int(v.K[i].I)] = v.L[i].S
			}
			return m
		case "mi64":
			m := map[int64]interface{}{}
			for _, i := range order {
				m[v.K[i].I] = build(v.L[i])
			}
			return m
		case "mu8":
			m := map[uint8]string{}
			for _, i := range order {
				m[uint8(v.K[i].I)] = v.L[i].S
			}
			return m
		case "mb":
			m := map[bool]string{}
			for _, i := range order {
				m[v.K[i].B] = v.L[i].S
			}
			return m
		case "mf":
			m := map[float64]string{}
			for _, i := range order {
				m[build(v.K[i]).(float64)] = v.L[i].S
			}
			return m
		case "marr":
			m := map[[2]string]string{}
			for _, i := range order {
				m[build(v.K[i]).([2]string)] = v.L[i].S
			}
			return m
		case "mks":
			m := map[c03KeyS]string{}
			for _, i := range order {
				m[build(v.K[i]).(c03KeyS)] = v.L[i].S
			}
			return m
		case "mpk":
			m := map[*c03KeyS]string{}
			for _, i := range order {
				m[build(v.K[i]).(*c03KeyS)] = v.L[i].S
			}
			return m
		case "mii":
			m := map[interface{}]interface{}{}
			for _, i := range order {
				m[build(v.K[i])] = build(v.L[i])
			}
			return m
		}
		return "<bad spec " + v.T + ">"
	}
	return build(v)
}

type c03Case struct {
	Name string            `json:"name"`
	Tag  string            `json:"tag"` // finding class if it turns out nondeterministic
	Tpls map[string]string `json:"tpls"`
	Ctx  map[string]c03Val `json:"ctx"`
	// model comparison (optional): the expected output is the concatenation over the keys of map
	// variable Var in model order of Pre+key+Mid+value+Post
	Expect string `json:"expect,omitempty"` // expected output if known statically
	// SameErr: the error text must be the same on every render too (hash literals are evaluated in source
	// order, so the first failing item decides)
	SameErr bool `json:"same_err,omitempty"`
	// ExpectErr: substring the (stable) error text must contain
	ExpectErr string `json:"expect_err,omitempty"`
}

func c03Ctx(c *c03Case, seed int64) map[string]any {
	ctx := map[string]any{}
	names := make([]string, 0, len(c.Ctx))
	for k := range c.Ctx {
		names = append(names, k)
	}
	sort.Strings(names)
	for i, j := range c03Perm(len(names), seed, 1000) {
		_ = i
		ctx[names[j]] = c03Build(c.Ctx[names[j]], seed)
	}
	return ctx
}

type c03Out struct {
	Out   string `json:"out"`
	Class string `json:"class"`
	Err   string `json:"err"`
}

func c03RenderOnce(c *c03Case, seed int64) c03Out {
	res := renderFresh(c.Tpls, "main", c03Ctx(c, seed))
	o := c03Out{Out: res.Out, Class: res.Class}
	if res.Err != nil {
		o.Err = res.Err.Error()
	}
	if res.Class == "panic" {
		o.Err = truncate(res.Panic, 200)
	}
	return o
}

// child: render one case once in a pristine process
func c03Child(args []string) int {
	if len(args) < 1 {
		return 2
	}
	b, err := os.ReadFile(args[0])
	if err != nil {
		fmt.Fprintln(os.Stderr, err)
		return 2
	}
	var in struct {
		Case  c03Case `json:"case"`
		Seed  int64   `json:"seed"`
		Noise int     `json:"noise"`
	}
	if err := json.Unmarshal(b, &in); err != nil {
		fmt.Fprintln(os.Stderr, err)
		return 2
	}
	// allocation noise so that heap addresses differ between children
	var keep [][]byte
	for i := 0; i < in.Noise; i++ {
		keep = append(keep, make([]byte, 1000+37*i))
	}
	out := c03RenderOnce(&in.Case, in.Seed)
	_ = keep
	j, _ := json.Marshal(out)
	fmt.Println(string(j))
	return 0
}

func c03RunChild(e *Env, c *c03Case, seed int64, noise int) (c03Out, error) {
	f, err := os.CreateTemp("", "c03case-*.json")
	if err != nil {
		return c03Out{}, err
	}
	defer os.Remove(f.Name())
	b, _ := json.Marshal(map[string]any{"case": c, "seed": seed, "noise": noise})
	f.Write(b)
	f.Close()
	cmd := exec.Command(e.Self, "-child", "c03render", f.Name())
	cmd.Env = append(os.Environ(), "GODEBUG=")
	outb, err := cmd.Output()
	if err != nil {
		return c03Out{Class: "child-crash", Err: err.Error()}, nil
	}
	var o c03Out
	if err := json.Unmarshal(outb, &o); err != nil {
		return c03Out{}, fmt.Errorf("child answer: %q", truncate(string(outb), 200))
	}
	return o, nil
}

// Known finding classes (recorded in /verif/known_findings.json under exactly these keys); every other
// difference is reported as a new violation.
var c03FindingKeys = map[string]string{
	"ptrkey":       "pointer-key-equal-content",
	"nanprint":     "prints-map-with-several-nan-keys",
	"macro-object": "prints-macro-object-address",
	"address":      "prints-address",
}

func c03Key(tag string) string {
	if k, ok := c03FindingKeys[tag]; ok {
		return k
	}
	return "nondeterministic-output"
}

// c03What: one violation per finding class (Report.Violate de-duplicates on Key+What), so that each
// recorded finding is reported exactly once per run; unclassified differences name the case.
func c03What(tag, how, name string) string {
	key := c03Key(tag)
	if key == "nondeterministic-output" {
		return fmt.Sprintf("%s (%s)", how, name)
	}
	return key + ": " + map[string]string{
		"pointer-key-equal-content":        "a map with two pointer keys whose pointees are equal (fmt.Sprint, %T and %#v of the keys agree) is visited in random order",
		"prints-map-with-several-nan-keys": "printing a map that holds several NaN keys with different values (fmt leaves NaN keys in map-iteration order) gives a random order",
		"prints-macro-object-address":      "printing an imported macro library / macro object prints Go pointers",
		"prints-address":                   "printing a pointer, func, chan or a struct holding a pointer prints its address",
	}[key]
}

// c03Check renders a case `reps` times in-process (and in `procs` child processes) and reports any
// difference. Returns the reference output.
func c03Check(e *Env, c *c03Case, reps, procs int) (c03Out, bool, error) {
	r := e.Rep
	ref := c03RenderOnce(c, 0)
	errTextVaries := false
	for i := 1; i < reps; i++ {
		got := c03RenderOnce(c, int64(i))
		if got.Out != ref.Out || got.Class != ref.Class {
			key := c03Key(c.Tag)
			r.Violate(Violation{Key: key,
				What:   c03What(c.Tag, "two in-process renders of the same templates and context differ", c.Name),
				Broken: "C03_sites_order_independent / C03_insertion_order no longer describe the code (implementation-only oracle: repeated render)",
				Replay: map[string]any{"kind": "repeat", "case": c, "seed_a": 0, "seed_b": i, "out_a": ref.Out, "out_b": got.Out,
					"class_a": ref.Class, "class_b": got.Class, "err_a": ref.Err, "err_b": got.Err}})
			return ref, false, nil
		}
		if got.Err != ref.Err {
			errTextVaries = true
			if c.SameErr {
				r.Violate(Violation{Key: "nondeterministic-error",
					What:   fmt.Sprintf("two in-process renders fail with different errors (%s)", c.Name),
					Broken: "C03_hash_literal_last_wins / evalHashLiteral (items are evaluated in source order, the first failing item decides)",
					Replay: map[string]any{"kind": "repeat", "case": c, "seed_a": 0, "seed_b": i, "err_a": ref.Err, "err_b": got.Err}})
				return ref, false, nil
			}
		}
	}
	if errTextVaries {
		r.Hit("error-text-varies-between-renders")
	}
	// one engine, one context object, rendered three times: the second and third render see whatever the first did to
	// the caller's lists and maps (a filter that sorts in place, or appends into the spare capacity of a sub-slice)
	if ref.Class == "" {
		var eng *twig.Engine
		ctx := c03Ctx(c, 0)
		for k := 0; k < 3; k++ {
			res := guarded(func() (string, error) {
				if eng == nil {
					var err error
					if eng, err = newEngine(c.Tpls); err != nil {
						return "", err
					}
				}
				return eng.Render("main", ctx)
			})
			if res.Out != ref.Out || res.Class != ref.Class {
				r.Violate(Violation{Key: "same-context-rendered-again-differs",
					What:   fmt.Sprintf("%s: render %d with one and the same context value gives %q (%s), the first gave %q", c.Name, k+1, truncate(res.Out, 100), res.Class, truncate(ref.Out, 100)),
					Broken: "C03: for a fixed context value the rendered bytes are fixed (implementation-only oracle: the same context object rendered again on the same engine)",
					Replay: map[string]any{"kind": "repeat-same-context", "case": c, "render": k + 1, "out_first": ref.Out, "out_now": res.Out, "class_now": res.Class}})
				return ref, false, nil
			}
		}
		r.Hit("same-context-object-rendered-again")
	}
	for p := 0; p < procs; p++ {
		got, err := c03RunChild(e, c, int64(p), 50*p*p)
		if err != nil {
			return ref, false, err
		}
		r.Hit("child-process-render")
		if got.Out != ref.Out || got.Class != ref.Class {
			key := c03Key(c.Tag)
			r.Violate(Violation{Key: key,
				What:   c03What(c.Tag, "a fresh process renders the same templates and context differently", c.Name),
				Broken: "C03 (implementation-only oracle: pristine-process render)",
				Replay: map[string]any{"kind": "process", "case": c, "child": p, "out_inproc": ref.Out, "out_child": got.Out,
					"class_inproc": ref.Class, "class_child": got.Class, "err_child": got.Err}})
			return ref, false, nil
		}
	}
	if c.ExpectErr != "" && !strings.Contains(ref.Err, c.ExpectErr) {
		r.Violate(Violation{Key: "hash-literal-error-not-first-in-source-order",
			What:   fmt.Sprintf("%s fails with %q, expected an error containing %q", c.Name, truncate(ref.Err, 120), c.ExpectErr),
			Broken: "correspondence: evalHashLiteral reports the first failing item in source order",
			Replay: map[string]any{"kind": "expect", "case": c, "out": ref.Out, "class": ref.Class, "err": ref.Err, "expected_err": c.ExpectErr}})
		return ref, false, nil
	}
	if c.Expect != "" && (ref.Out != c.Expect || ref.Class != "") {
		r.Violate(Violation{Key: "map-order-not-by-key",
			What:   fmt.Sprintf("%s renders %q, expected %q", c.Name, truncate(ref.Out, 80), truncate(c.Expect, 80)),
			Broken: "correspondence: for-loop/filter/merge order over a map vs MapOrder.sortKeys / minKey; hash literal vs evalHashLiteral (last duplicate wins)",
			Replay: map[string]any{"kind": "expect", "case": c, "out": ref.Out, "class": ref.Class, "err": ref.Err, "expected": c.Expect}})
		return ref, false, nil
	}
	return ref, true, nil
}

// ---- case material --------------------------------------------------------------------------------

var c03StrKeys = []string{"a", "b", "c", "aa", "ab", "B", "_x", "10", "9", "z", "é", "", "a b", "Z", "k1", "k2", "k10", "0", "-1"}

func c03Scalar(r *rand.Rand) c03Val {
	switch r.Intn(6) {
	case 0:
		return c03S(pick(r, []string{"x", "y", "", "hello", "<b>", "10", "9"}))
	case 1, 2:
		return c03I(int64(r.Intn(40) - 5))
	case 3:
		return c03Val{T: "bool", B: r.Intn(2) == 0}
	case 4:
		return c03Val{T: "nil"}
	default:
		return c03S(pick(r, []string{"p", "q", "r", "s"}))
	}
}

func c03PickStrKeys(r *rand.Rand, n int) []string {
	idx := r.Perm(len(c03StrKeys))[:n]
	out := make([]string, n)
	for i, j := range idx {
		out[i] = c03StrKeys[j]
	}
	return out
}

// c03GenMap returns a map description of the given shape with n entries and the key class the model
// knows it by ("" = not compared with the model).
func c03GenMap(r *rand.Rand, shape string, n int, depth int) c03Val {
	v := c03Val{T: shape}
	switch shape {
	case "map", "msi", "mss", "msl":
		for _, k := range c03PickStrKeys(r, n) {
			v.K = append(v.K, c03S(k))
			switch shape {
			case "map":
				if depth > 0 && r.Intn(4) == 0 {
					v.L = append(v.L, c03GenMap(r, pick(r, []string{"map", "msi", "mis"}), 2+r.Intn(3), depth-1))
				} else if depth >= 0 && r.Intn(6) == 0 {
					v.L = append(v.L, c03Val{T: "list", L: []c03Val{c03Scalar(r), c03Scalar(r)}})
				} else {
					v.L = append(v.L, c03Scalar(r))
				}
			case "msi":
				v.L = append(v.L, c03I(int64(r.Intn(50)-10)))
			case "mss":
				v.L = append(v.L, c03S(pick(r, []string{"x", "y", "zz", "", "w w"})))
			case "msl":
				v.L = append(v.L, c03Val{T: "strs", L: []c03Val{c03S("u"), c03S(pick(r, []string{"v", "w"}))}})
			}
		}
	case "mis", "mi64", "mu8":
		for _, k := range r.Perm(24)[:n] {
			key := int64(k - 4)
			if shape == "mu8" {
				key = int64(k * 9)
			}
			v.K = append(v.K, c03I(key))
			if shape == "mi64" {
				v.L = append(v.L, c03Scalar(r))
			} else {
				v.L = append(v.L, c03S(pick(r, []string{"x", "y", "zz", "", "w"})))
			}
		}
	case "mb":
		v.K = []c03Val{{T: "bool", B: true}, {T: "bool", B: false}}
		v.L = []c03Val{c03S("yes"), c03S("no")}
	case "mf":
		for _, k := range r.Perm(12)[:n] {
			v.K = append(v.K, c03Val{T: "float", F: float64(k)*1.5 - 3})
			v.L = append(v.L, c03S(pick(r, []string{"x", "y", "zz"})))
		}
		// at most ONE NaN key (several NaN keys make fmt's own map printing random: known finding
		// prints-map-with-several-nan-keys, probed separately), sometimes an infinity
		if r.Intn(3) == 0 {
			v.K = append(v.K, c03Val{T: "nan"})
			v.L = append(v.L, c03S("n"))
		}
		if r.Intn(4) == 0 {
			v.K = append(v.K, c03Val{T: "inf", I: int64(1 - 2*r.Intn(2))})
			v.L = append(v.L, c03S("i"))
		}
	case "marr", "mks":
		if n > len(c03PairKeys) {
			n = len(c03PairKeys)
		}
		for _, j := range r.Perm(len(c03PairKeys))[:n] {
			v.K = append(v.K, c03Pair(map[string]string{"marr": "arr", "mks": "kstruct"}[shape], c03PairKeys[j][0], c03PairKeys[j][1]))
			v.L = append(v.L, c03S(pick(r, []string{"x", "y", "zz", "w"})))
		}
	case "mii":
		// interface{}-keyed: all keys of one dynamic type, or keys of different types (and composite keys of
		// one type) whose printed forms coincide
		if r.Intn(3) == 0 {
			if n > len(c03MixedKeys) {
				n = len(c03MixedKeys)
			}
			for _, j := range r.Perm(len(c03MixedKeys))[:n] {
				v.K = append(v.K, c03MixedKeys[j])
				v.L = append(v.L, c03Scalar(r))
			}
		} else if r.Intn(2) == 0 {
			for _, k := range c03PickStrKeys(r, n) {
				v.K = append(v.K, c03S(k))
				v.L = append(v.L, c03Scalar(r))
			}
		} else {
			for _, k := range r.Perm(24)[:n] {
				v.K = append(v.K, c03I(int64(k)))
				v.L = append(v.L, c03Scalar(r))
			}
		}
	}
	return v
}

var c03Shapes = []string{"map", "map", "map", "msi", "mss", "msl", "mis", "mi64", "mu8", "mb", "mf", "mii", "mii", "marr", "mks"}

// keys of different types / composite keys of one type whose printed forms coincide
var c03MixedKeys = []c03Val{
	c03I(1), c03S("1"), {T: "i64", I: 1}, {T: "float", F: 1}, c03I(2), c03S("2"), {T: "bool", B: true}, c03S("true"),
	{T: "bool", B: false}, c03S("false"), c03S(""), c03S("a b"), c03I(10), {T: "float", F: 2.5}, c03S("2.5"), {T: "nan"}, c03S("NaN"),
	c03Pair("arr", "a", "b c"), c03Pair("arr", "a b", "c"), c03Pair("kstruct", "a", "b c"), c03Pair("kstruct", "a b", "c"), c03Pair("kstruct", "", ""),
}

var c03PairKeys = [][2]string{{"a", "b c"}, {"a b", "c"}, {"a", "b"}, {"", "a b c"}, {"a b c", ""}, {"x", "y"}, {"", ""}, {"a b", "c d"}, {"a", "b c d"}}

// template fragments over the map variable `m` (and a second map `m2`)
var c03Forms = []string{
	"{% for k, v in m %}{{ k }}={{ v }};{% endfor %}",
	"{% for v in m %}{{ v }},{% endfor %}",
	"{% for k, v in m %}{{ loop.index }}/{{ loop.length }}:{{ k }}{% if not loop.last %},{% endif %}{% endfor %}",
	"{% for k, v in m %}{% if loop.first %}F{{ k }}{% endif %}{% if loop.last %}L{{ k }}{% endif %}{% endfor %}",
	"{{ m|keys|join(',') }}",
	"{{ m|keys|first }}/{{ m|keys|last }}/{{ m|keys|length }}",
	"{{ m|first }}",
	"{{ m|join(',') }}",
	"{{ m|length }}",
	"{{ m|json_encode }}",
	"{{ m }}",
	"{{ 'x' ~ m ~ 'y' }}",
	"{{ m|merge(m2)|keys|join(',') }}",
	"{% for k, v in m|merge(m2) %}{{ k }}={{ v }};{% endfor %}",
	"{% for k, v in m2|merge(m) %}{{ k }}:{{ v }} {% endfor %}",
	"{% set r = merge(m, m2) %}{% for k, v in r %}{{ k }}={{ v }};{% endfor %}",
	"{{ merge(m, m2)|keys|join('|') }}",
	"{% set r = m %}{% for k in r|keys %}[{{ k }}]{% endfor %}",
	"{% if 'b' in m %}in{% else %}out{% endif %}{% if 'zz' in m %}in{% else %}out{% endif %}",
	"{{ m.b }}|{{ m['a'] }}|{{ m|default('d') }}",
	"{{ m|first|default('none') }}",
	"{% for k, v in m %}{% for k2, v2 in m2 %}{{ k }}{{ k2 }} {% endfor %}{% endfor %}",
	"{% for k, v in m %}{{ k }}[{% for k2, v2 in v %}{{ k2 }}={{ v2 }} {% endfor %}]{% endfor %}",
	"{% include 'inc' with {'p': 1, 'q': m, 'r': 'x', 's': [1, 2], 't': m2} %}",
	"{% include 'inc' with {'q': m} only %}",
	"{% include 'inc2' with {'c': m.c, 'a': m.a, 'aa': m2|length, 'b': m|keys|first} %}",
	"{% import 'lib' as lib %}{{ lib.show(m) }}{{ lib.show(m2) }}",
	"{{ dump(m) }}",
	"{{ m|keys|sort|join(',') }}{{ m|keys|reverse|join(',') }}",
	"{{ m|json_encode|length }}",
	"{{ m|length }}{{ m2|length }}{{ (m|merge(m2))|length }}",
	"{% for k, v in m %}{% set acc = (acc|default('')) ~ k %}{% endfor %}{{ acc|default('-') }}",
	"{{ m|keys|slice(1)|join(',') }}",
	"{{ cycle(m|keys, 1) }}",
}

// forms that (today) fail with a render error on maps: the error class must be the same every time
var c03ErrForms = []string{
	"{{ m|last }}",
	"{{ m|sort|join(',') }}",
	"{{ m|reverse|join(',') }}",
	"{{ m|slice(0, 2)|join(',') }}",
	"{{ max(m) }}/{{ min(m) }}",
	"{% include 'inc' with {'p': 1 / 0, 'q': nosuch(1), 'r': m.a.b.c, 's': m|sort} %}",
}

var c03Aux = map[string]string{
	"inc":  "{{ p }}{{ r }}{% for k, v in q %}{{ k }}{% endfor %}{{ s|join }}{% for k, v in t %}{{ k }}-{% endfor %}",
	"inc2": "{{ a }}{{ b }}{{ c }}{{ aa }}",
	"lib":  "{% macro show(h) %}<{% for k, v in h %}{{ k }}={{ v }} {% endfor %}>{% endmacro %}",
}

// hash literals in templates
var c03HashForms = []string{
	"{% for k, v in { 'b': 1, 'a': 2, 'c': 3 } %}{{ k }}={{ v }};{% endfor %}",
	"{% for k, v in { 'z': 1, 'y': 2, 'x': 3, 'w': 4, 'v': 5 } %}{{ k }}{% endfor %}",
	"{{ {'b': 1, 'a': 2, 'c': 3}|keys|join(',') }}",
	"{{ {'b': 1, 'a': 2, 'c': 3}|json_encode }}",
	"{{ {'b': 1, 'a': 2, 'c': 3}|first }}",
	"{{ {'b': 1, 'a': 2, 'c': 3}|join('-') }}",
	"{{ {'b': 1, 'a': 2, 'c': 3} }}",
	"{% set h = {'z': 1, 'y': {'b': 2, 'a': 3}, 'x': [1, 2]} %}{% for k, v in h %}{{ k }}{% if k == 'y' %}({% for k2, v2 in v %}{{ k2 }}{{ v2 }}{% endfor %}){% endif %}{% endfor %}",
	"{% set h = {'k3': x, 'k1': x ~ '1', 'k2': 5} %}{% for k, v in h %}{{ k }}={{ v }} {% endfor %}",
	"{% set h = {(x): 1, (x ~ 'b'): 2, 'c': 3} %}{% for k, v in h %}{{ k }}={{ v }} {% endfor %}",
	"{% for k, v in {'b': 1, 'a': 2}|merge({'d': 3, 'c': 4}) %}{{ k }}={{ v }};{% endfor %}",
	"{% for k, v in {3: 'c', 1: 'a', 2: 'b', 10: 'j'} %}{{ k }}={{ v }};{% endfor %}",
	"{% include 'inc' with {'p': 1, 'q': {'n': 1, 'm': 2}, 'r': 'x', 's': [1], 't': {}} %}",
	// duplicate / coinciding keys: source order, the last one wins
	"{% set h = {'a': 1, 'b': 2, 'a': 3, 'c': 4, 'b': 5} %}{% for k, v in h %}{{ k }}={{ v }};{% endfor %}",
	"{% set h = {(x): 1, 'a': 2, (x): 3, 'q': 4, 'zz': 5} %}{{ h|json_encode }}{{ h[x] }}",
	"{% for k, v in {1: 'a', '1': 'b', 2: 'c', '2': 'd', 1: 'e'} %}{{ k }}={{ v }};{% endfor %}",
	"{{ {'k': x, 'k': x ~ x, 'k': 7}|join(',') }}{{ {'b': 1, 'a': 2, 'b': 3}|first }}{{ {'b': 1, 'a': 2, 'b': 3}|keys|join }}",
}

func c03FixedCorpus() []c03Case {
	m3 := c03Val{T: "map", K: []c03Val{c03S("c"), c03S("a"), c03S("b")}, L: []c03Val{c03I(3), c03I(1), c03I(2)}}
	msi := c03Val{T: "msi", K: []c03Val{c03S("c"), c03S("a"), c03S("b"), c03S("d")}, L: []c03Val{c03I(3), c03I(1), c03I(2), c03I(4)}}
	mis := c03Val{T: "mis", K: []c03Val{c03I(10), c03I(9), c03I(-1), c03I(2)}, L: []c03Val{c03S("j"), c03S("i"), c03S("n"), c03S("b")}}
	lst := c03Val{T: "list", L: []c03Val{c03S("d"), c03S("a"), c03S("c"), c03S("b"), c03S("e")}}
	strs := c03Val{T: "strs", L: []c03Val{c03S("d"), c03S("a"), c03S("c"), c03S("b")}}
	listOps := []c03Case{}
	for _, op := range []string{"slice(0, 2)|merge(['x'])", "slice(1, 2)|merge(['x', 'y'])|join(',')", "slice(0, 3)|sort", "slice(1)|reverse", "sort", "reverse", "slice(0, 2)|merge(xs)", "merge(['z'])|slice(0, 2)|merge(['w'])"} {
		j := ""
		if !strings.Contains(op, "join") {
			j = "|join(',')"
		}
		listOps = append(listOps, c03Case{Name: "list filter on (a part of) a context list: " + op, Tag: "list-filter",
			Tpls: map[string]string{"main": "{{ xs|join(',') }}|{{ xs|" + op + j + " }}|{% set l = ys|" + op + " %}{{ ys|join(',') }}|{% for q in xs|" + strings.TrimSuffix(op, "|join(',')") + " %}{{ q }}{% endfor %}|{{ xs|join(',') }}"},
			Ctx:  map[string]c03Val{"xs": lst, "ys": strs}})
	}
	return append(listOps, []c03Case{
		// the pinned tree's defects (DESIGN §1.2 C03); all four fail there with high probability
		{Name: "pinned: for over a hash literal", Tag: "pinned-defect", Tpls: map[string]string{"main": "{% for k, v in {'a':1,'b':2,'c':3} %}{{ k }}={{ v }};{% endfor %}"}, Expect: "a=1;b=2;c=3;"},
		{Name: "pinned: for over a context map", Tag: "pinned-defect", Tpls: map[string]string{"main": "{% for k, v in m %}{{ k }}={{ v }};{% endfor %}"}, Ctx: map[string]c03Val{"m": m3}, Expect: "a=1;b=2;c=3;"},
		{Name: "pinned: first on a map", Tag: "pinned-defect", Tpls: map[string]string{"main": "{{ m|first }}"}, Ctx: map[string]c03Val{"m": m3}, Expect: "1"},
		{Name: "pinned: first on a typed map", Tag: "pinned-defect", Tpls: map[string]string{"main": "{{ m|first }}"}, Ctx: map[string]c03Val{"m": msi}, Expect: "1"},
		{Name: "pinned: keys of a typed map", Tag: "pinned-defect", Tpls: map[string]string{"main": "{{ m|keys|join(',') }}"}, Ctx: map[string]c03Val{"m": msi}, Expect: "a,b,c,d"},
		{Name: "pinned: keys of an int-keyed map are in numeric order", Tag: "pinned-defect", Tpls: map[string]string{"main": "{{ m|keys|join(',') }}"}, Ctx: map[string]c03Val{"m": mis}, Expect: "-1,2,9,10"},
		{Name: "pinned: date format D, d M Y", Tag: "pinned-defect", Tpls: map[string]string{"main": "{{ d|date('D, d M Y') }}"}, Ctx: map[string]c03Val{"d": {T: "time"}}, Expect: "Tue, 05 Mar 2024"},
		{Name: "pinned: date format l j F", Tag: "pinned-defect", Tpls: map[string]string{"main": "{{ d|date(f) }}"}, Ctx: map[string]c03Val{"d": {T: "time"}, "f": c03S("l j F y, H:i:s A")}, Expect: "Tuesday 5 March 24, 14:07:09 PM"},
	}...)
}

func c03KV(t string, keys []c03Val, vals ...string) c03Val {
	v := c03Val{T: t, K: keys}
	for _, x := range vals {
		v.L = append(v.L, c03S(x))
	}
	return v
}

func c03Pair(t, a, b string) c03Val { return c03Val{T: t, L: []c03Val{c03S(a), c03S(b)}} }

// c03RepairedCorpus: the defects of the fixed tree reported with the first delivery of this slice and
// repaired since (4cfb654, 2cbbaa1, 43314f9, 5b1997c, c0e7993).  Determinism AND the stated result are
// required; none of them is a known finding any more.
func c03RepairedCorpus() []c03Case {
	one := func(name, tpl, expect string, ctx map[string]c03Val) c03Case {
		return c03Case{Name: "repaired: " + name, Tpls: map[string]string{"main": tpl}, Ctx: ctx, Expect: expect}
	}
	// 1, "1", int64(1), 1.0 all print "1"; type names float64 < int < int64 < string
	coll := c03Val{T: "mii", K: []c03Val{c03I(1), c03S("1"), {T: "i64", I: 1}, {T: "float", F: 1}}, L: []c03Val{c03S("a"), c03S("b"), c03S("c"), c03S("d")}}
	coll2 := c03Val{T: "mii", K: []c03Val{c03S("1"), c03I(2), {T: "bool", B: true}, c03S("true")}, L: []c03Val{c03S("z"), c03S("y"), c03S("t"), c03S("u")}}
	// composite keys of one type that print alike: %#v decides ("a b" before "a")? Go syntax: [2]string{"a b", "c"} vs [2]string{"a", "b c"}:
	// the strings differ first at `"a b` vs `"a"`: ' ' (0x20) < '"' (0x22), so {"a b","c"} comes first
	arrK := []c03Val{c03Pair("arr", "a", "b c"), c03Pair("arr", "a b", "c")}
	ksK := []c03Val{c03Pair("kstruct", "a", "b c"), c03Pair("kstruct", "a b", "c")}
	marr := c03KV("marr", arrK, "y", "x")
	mks := c03KV("mks", ksK, "y", "x")
	miiks := c03KV("mii", append(append([]c03Val{}, ksK...), arrK[1]), "y", "x", "z")
	// NaN keys: first in key order, printed NaN, value nil; unreachable for merge
	nanK := []c03Val{{T: "float", F: 1}, {T: "nan"}, {T: "float", F: 2}, {T: "float", F: 0}, {T: "nan", I: 1}, {T: "inf", I: -1}}
	mnan := c03KV("mf", nanK, "z", "x", "w", "q", "y", "i")
	inan := c03KV("mii", []c03Val{{T: "nan"}, {T: "nan", I: 1}, {T: "nan32"}, c03S("NaN"), c03I(1)}, "x", "y", "f", "s", "z")
	loop := "{% for k, v in m %}{{ k }}={{ v }};{% endfor %}"
	cs := []c03Case{
		// hash literals: source order, the last duplicate wins (4cfb654)
		one("hash literal with a duplicate key", "{% set h = {'a': 1, 'a': 2} %}{{ h.a }}", "2", nil),
		one("hash literal with a duplicate key, three items", "{% for k, v in {'b': 1, 'a': 2, 'b': 3} %}{{ k }}={{ v }};{% endfor %}", "a=2;b=3;", nil),
		one("hash literal whose computed keys coincide", "{% set h = {(x): 1, (y): 2, (z): 3} %}{{ h.k }}", "3",
			map[string]c03Val{"x": c03S("k"), "y": c03S("k"), "z": c03S("k")}),
		one("hash literal with keys 1 and '1'", "{% set h = {1: 'a', '1': 'b'} %}{{ h['1'] }}|{{ h|length }}", "b|1", nil),
		one("hash literal with keys '1' and 1", "{% set h = {'1': 'b', 1: 'a'} %}{{ h['1'] }}", "a", nil),
		one("hash literal, duplicate key inside include-with", "{% include 'inc3' with {'p': 1, 'q': 2, 'p': 3} only %}", "3/2", nil),
		// map[interface{}]… whose keys print alike (2cbbaa1)
		one("for over map[interface{}] whose keys print alike", loop, "1=d;1=a;1=c;1=b;", map[string]c03Val{"m": coll}),
		one("first of map[interface{}] whose keys print alike", "{{ m|first }}", "d", map[string]c03Val{"m": coll}),
		one("keys of map[interface{}] whose keys print alike", "{{ m|keys|join(',') }}|{{ m|keys|length }}|{{ m|length }}", "1,1,1,1|4|4", map[string]c03Val{"m": coll}),
		one("values of map[interface{}] whose keys print alike, by loop index", "{% for v in m %}{{ loop.index }}{{ v }}{% endfor %}", "1d2a3c4b", map[string]c03Val{"m": coll}),
		one("for over map[interface{}] with true and 'true'", loop, "1=z;2=y;true=t;true=u;", map[string]c03Val{"m": coll2}),
		// merge() over such maps visits them in key order (43314f9)
		one("merge() of map[interface{}] whose keys print alike", "{% set r = merge(m, {}) %}{{ r['1'] }}|{{ r|length }}", "b|1", map[string]c03Val{"m": coll}),
		one("merge() of two such maps", "{% set r = merge(m, m2) %}{% for k, v in r %}{{ k }}={{ v }};{% endfor %}", "1=z;2=y;true=u;", map[string]c03Val{"m": coll, "m2": coll2}),
		one("merge() of two such maps, other way round", "{% set r = merge(m2, m) %}{% for k, v in r %}{{ k }}={{ v }};{% endfor %}", "1=b;2=y;true=u;", map[string]c03Val{"m": coll, "m2": coll2}),
		one("merge filter of two such maps", "{% for k, v in m|merge(m2) %}{{ k }}={{ v }};{% endfor %}", "1=d;1=a;1=c;1=z;2=y;true=t;true=u;", map[string]c03Val{"m": coll, "m2": coll2}),
		// composite keys of one type that print alike (5b1997c)
		one("for/first/keys over map[[2]string] whose keys print alike", loop+"|{{ m|first }}|{{ m|keys|join(',') }}", "[a b c]=x;[a b c]=y;|x|[a b c],[a b c]", map[string]c03Val{"m": marr}),
		one("for/first over map[struct] whose keys print alike", loop+"|{{ m|first }}", "{a b c}=x;{a b c}=y;|x", map[string]c03Val{"m": mks}),
		one("for over map[interface{}] with struct and array keys that print alike", loop+"|{{ m|first }}", "[a b c]=z;{a b c}=x;{a b c}=y;|z", map[string]c03Val{"m": miiks}),
		one("merge() of map[[2]string] whose keys print alike", "{% set r = merge(m, {}) %}{% for k, v in r %}{{ k }}={{ v }};{% endfor %}", "[a b c]=y;", map[string]c03Val{"m": marr}),
		// NaN keys (c0e7993): first, no panic, value nil, skipped by merge()
		one("for/first/keys over a float-keyed map with two NaN keys", loop+"|{{ m|first }}|{{ m|keys|join(',') }}", "NaN=;NaN=;-Inf=i;0=q;1=z;2=w;||NaN,NaN,-Inf,0,1,2", map[string]c03Val{"m": mnan}),
		one("merge() and merge filter of a float-keyed map with two NaN keys", "{% set r = merge(m, {}) %}{% for k, v in r %}{{ k }}={{ v }};{% endfor %}|{{ m|merge({})|length }}|{{ m|length }}", "-Inf=i;0=q;1=z;2=w;|4|6", map[string]c03Val{"m": mnan}),
		one("for/first/merge over map[interface{}] with NaN keys", loop+"|{{ m|first }}|{% set r = merge(m, {}) %}{% for k, v in r %}{{ k }}={{ v }};{% endfor %}", "1=z;NaN=;NaN=;NaN=;NaN=s;|z|1=z;NaN=s;", map[string]c03Val{"m": inan}),
	}
	for i := range cs {
		cs[i].Tpls["inc3"] = "{{ p }}/{{ q }}"
	}
	// failing items: the first one in source order decides the error, every time
	cs = append(cs,
		c03Case{Name: "repaired: hash literal with two failing items", Tpls: map[string]string{"main": "{% set h = {'a': nosuchfn(1), 'b': 1 / 0} %}x"}, SameErr: true, ExpectErr: "nosuchfn"},
		c03Case{Name: "repaired: hash literal with two failing items, other order", Tpls: map[string]string{"main": "{% set h = {'b': 1 / 0, 'a': nosuchfn(1)} %}x"}, SameErr: true, ExpectErr: "zero"},
		c03Case{Name: "repaired: hash literal with many failing items", Tpls: map[string]string{"main": "{% set h = {'a': 1, 'b': f1(), 'c': f2(), 'd': f3(), 'e': f4(), 'f': f5()} %}x"}, SameErr: true, ExpectErr: "f1"},
	)
	return cs
}

// known findings of the fixed tree that are not address printing: each is probed on every run and reported
// under its stable key if it still reproduces
func c03FindingProbes() []c03Case {
	pk := []c03Val{c03Pair("pkstruct", "a", "b"), c03Pair("pkstruct", "a", "b")}
	twoNaN := c03KV("mf", []c03Val{{T: "nan"}, {T: "float", F: 1}, {T: "nan", I: 1}}, "x", "z", "y")
	return []c03Case{
		{Name: "for/first over map[*struct] with two pointers to equal structs", Tag: "ptrkey", Tpls: map[string]string{"main": "{% for k, v in m %}{{ v }}{% endfor %}|{{ m|first }}"},
			Ctx: map[string]c03Val{"m": c03KV("mpk", pk, "x", "y")}},
		{Name: "for over map[interface{}] with two pointers to equal structs", Tag: "ptrkey", Tpls: map[string]string{"main": "{% for k, v in m %}{{ v }}{% endfor %}"},
			Ctx: map[string]c03Val{"m": c03KV("mii", pk, "x", "y")}},
		{Name: "print a float-keyed map with two NaN keys", Tag: "nanprint", Tpls: map[string]string{"main": "{{ m }}"}, Ctx: map[string]c03Val{"m": twoNaN}},
		{Name: "join / dump a float-keyed map with two NaN keys", Tag: "nanprint", Tpls: map[string]string{"main": "{{ m|join(',') }}{{ dump(m) }}"}, Ctx: map[string]c03Val{"m": twoNaN}},
	}
}

func c03AddressProbes() []c03Case {
	return []c03Case{
		{Name: "print a macro library object", Tag: "macro-object", Tpls: map[string]string{"main": "{% import 'lib' as lib %}{{ lib }}", "lib": c03Aux["lib"]}},
		{Name: "print a macro object", Tag: "macro-object", Tpls: map[string]string{"main": "{% import 'lib' as lib %}{{ lib.show }}", "lib": c03Aux["lib"]}},
		{Name: "print a pointer to int", Tag: "address", Tpls: map[string]string{"main": "{{ p }}"}, Ctx: map[string]c03Val{"p": {T: "ptr", I: 5}}},
		{Name: "print a pointer to struct", Tag: "address", Tpls: map[string]string{"main": "{{ p }}"}, Ctx: map[string]c03Val{"p": {T: "pstruct", I: 5, S: "n"}}},
		{Name: "print a struct with a pointer field", Tag: "address", Tpls: map[string]string{"main": "{{ p }}"}, Ctx: map[string]c03Val{"p": {T: "struct", I: 5, S: "n"}}},
		{Name: "print a func", Tag: "address", Tpls: map[string]string{"main": "{{ f }}"}, Ctx: map[string]c03Val{"f": {T: "func", I: 5}}},
		{Name: "print a chan", Tag: "address", Tpls: map[string]string{"main": "{{ c }}"}, Ctx: map[string]c03Val{"c": {T: "chan"}}},
		{Name: "json_encode a pointer to struct", Tag: "address", Tpls: map[string]string{"main": "{{ p|json_encode }}|{{ p.Name }}|{{ p.N }}"}, Ctx: map[string]c03Val{"p": {T: "pstruct", I: 5, S: "n"}}},
		{Name: "dump a pointer to struct", Tag: "address", Tpls: map[string]string{"main": "{{ dump(p) }}"}, Ctx: map[string]c03Val{"p": {T: "pstruct", I: 5, S: "n"}}},
		{Name: "list of pointers joined", Tag: "address", Tpls: map[string]string{"main": "{{ l|join(',') }}"}, Ctx: map[string]c03Val{"l": {T: "list", L: []c03Val{{T: "ptr", I: 1}, {T: "ptr", I: 2}}}}},
	}
}

func c03GenCase(r *rand.Rand, i int) c03Case {
	c := c03Case{Tpls: map[string]string{}, Ctx: map[string]c03Val{}}
	for k, v := range c03Aux {
		c.Tpls[k] = v
	}
	var sb strings.Builder
	if r.Intn(5) == 0 {
		// hash literal programs
		n := 1 + r.Intn(2)
		for j := 0; j < n; j++ {
			sb.WriteString(pick(r, c03HashForms))
			sb.WriteString("|")
		}
		c.Ctx["x"] = c03S(pick(r, []string{"a", "q", "zz"}))
		c.Name = fmt.Sprintf("hash-literal program %d", i)
	} else {
		shape := pick(r, c03Shapes)
		size := 3 + r.Intn(6)
		if r.Intn(10) == 0 {
			size = 9 + r.Intn(8) // more than one bucket
		}
		if size > len(c03StrKeys) {
			size = len(c03StrKeys)
		}
		if shape == "mf" && size > 10 {
			size = 10
		}
		c.Ctx["m"] = c03GenMap(r, shape, size, 1)
		c.Ctx["m2"] = c03GenMap(r, pick(r, []string{shape, "map", "msi"}), 2+r.Intn(4), 0)
		c.Ctx["acc"] = c03S("")
		delete(c.Ctx, "acc")
		n := 1 + r.Intn(3)
		for j := 0; j < n; j++ {
			if r.Intn(15) == 0 {
				sb.WriteString(pick(r, c03ErrForms))
			} else {
				sb.WriteString(pick(r, c03Forms))
			}
			sb.WriteString("|")
		}
		c.Name = fmt.Sprintf("map program %d (%s, %d entries)", i, shape, size)
	}
	c.Tpls["main"] = sb.String()
	return c
}

// ---- model correspondence: key order ----------------------------------------------------------------

func c03ModelOrder(e *Env) error {
	r := e.Rep
	n := e.N(150, 3000)
	for i := 0; i < n && !r.Full(); i++ {
		shape := pick(e.Rng, []string{"map", "msi", "mss", "mis", "mi64", "mu8", "mii-str", "mii-int", "mii-mixed", "mii-mixed", "mb", "mf", "marr", "mks"})
		size := 2 + e.Rng.Intn(8)
		var m c03Val
		cls := ""
		switch shape {
		case "mii-str", "mii-int", "mii-mixed", "mb", "marr", "mks":
			cls = "other"
			switch shape {
			case "mb", "marr", "mks":
				m = c03GenMap(e.Rng, shape, size, 0)
			case "mii-str":
				m = c03Val{T: "mii"}
				for _, k := range c03PickStrKeys(e.Rng, size) {
					m.K = append(m.K, c03S(k))
					m.L = append(m.L, c03I(int64(e.Rng.Intn(9))))
				}
			case "mii-int":
				m = c03Val{T: "mii"}
				for _, k := range e.Rng.Perm(30)[:size] {
					m.K = append(m.K, c03I(int64(k-5)))
					m.L = append(m.L, c03I(int64(e.Rng.Intn(9))))
				}
			default:
				m = c03Val{T: "mii"}
				for _, j := range e.Rng.Perm(len(c03MixedKeys))[:size+2] {
					m.K = append(m.K, c03MixedKeys[j])
					m.L = append(m.L, c03I(int64(e.Rng.Intn(9))))
				}
			}
		case "map", "msi", "mss":
			cls = "str"
			m = c03GenMap(e.Rng, shape, size, -1)
		case "mis", "mi64":
			cls = "int"
			m = c03GenMap(e.Rng, shape, size, 0)
		case "mu8":
			cls = "uint"
			m = c03GenMap(e.Rng, shape, size, 0)
		case "mf":
			cls = "float"
			m = c03GenMap(e.Rng, shape, size, 0)
			if e.Rng.Intn(3) == 0 { // several NaN keys: for / keys / first must not depend on their order
				m.K = append(m.K, c03Val{T: "nan", I: 1}, c03Val{T: "nan", I: 2})
				m.L = append(m.L, c03S("n1"), c03S("n2"))
			}
		}
		// keys for the model; printed form, type name and Go-syntax form as Go's fmt gives them
		var keys []any
		printed := map[string]string{} // canonical json of the key as the model returns it -> printed
		vals := map[string]c03Val{}
		// float keys go to the model as their position in the order of the non-NaN keys
		var floats []float64
		for _, k := range m.K {
			if cls == "float" {
				if f := c03Build(k, 0).(float64); f == f {
					floats = append(floats, f)
				}
			}
		}
		sort.Float64s(floats)
		for j, k := range m.K {
			var mk, back any
			gv := c03Build(k, 0)
			p := fmt.Sprint(gv)
			val := m.L[j]
			switch cls {
			case "str":
				mk = hx(k.S)
			case "int", "uint":
				mk = k.I
			case "float":
				f := gv.(float64)
				if f != f {
					mk = nil
					val = c03Val{T: "nil"} // MapIndex finds nothing for a NaN key
				} else {
					mk = int64(sort.SearchFloat64s(floats, f))
				}
			case "other":
				selfEq := gv == gv
				mk = []any{j, selfEq, hx(p), hx(fmt.Sprintf("%T", gv)), hx(fmt.Sprintf("%#v", gv))}
				if !selfEq {
					back = []any{0, false, hx(p), hx(fmt.Sprintf("%T", gv)), hx(fmt.Sprintf("%#v", gv))} // what the model returns: GoKey.obs
					val = c03Val{T: "nil"}
				}
			}
			if back == nil {
				back = mk
			}
			keys = append(keys, mk)
			cj, _ := json.Marshal(back)
			printed[string(cj)] = p
			vals[string(cj)] = val
		}
		resp, err := e.Model.Call(map[string]any{"op": "maporder_sort_keys", "cls": cls, "keys": keys})
		if err != nil {
			return err
		}
		r.Compared++
		if det, _ := resp["determined"].(bool); !det {
			// with the generated key kinds (no pointer keys) the model must always determine the order
			r.Violate(Violation{Key: "model-order-undetermined", What: "the model's comparator leaves generated keys tied that are observably different",
				Broken: "C03_sorted_keys_total_order(_partial): KeysDetermined fails for a generated key set", Replay: map[string]any{"kind": "model-order", "cls": cls, "keys": keys}})
			continue
		}
		sorted, _ := resp["sorted"].([]any)
		var loop, ks strings.Builder
		firstVal := ""
		for j, sk := range sorted {
			cj, _ := json.Marshal(normJSONNum(sk))
			p, ok := printed[string(cj)]
			if !ok {
				return fmt.Errorf("model returned unknown key %s", cj)
			}
			v := vals[string(cj)]
			vs := c03ValString(v)
			if j == 0 {
				firstVal = vs
			}
			fmt.Fprintf(&loop, "%s=%s;", p, vs)
			if j > 0 {
				ks.WriteString(",")
			}
			ks.WriteString(p)
		}
		c := c03Case{Name: fmt.Sprintf("model order %d (%s)", i, shape), Tpls: map[string]string{"main": "{% for k, v in m %}{{ k }}={{ v }};{% endfor %}|{{ m|keys|join(',') }}|{{ m|first }}"},
			Ctx: map[string]c03Val{"m": m}, Expect: loop.String() + "|" + ks.String() + "|" + firstVal}
		if strings.ContainsAny(c.Expect, "<>&\"'") {
			r.Skip("expected output would be HTML-escaped")
			continue
		}
		_, ok, err := c03Check(e, &c, 6, 0)
		if err != nil {
			return err
		}
		cj, _ := json.Marshal(c)
		r.Seen("order:"+string(cj), len(m.K) >= 2)
		r.Hit("model-order:" + shape)
		if i < 2 {
			r.Sample(map[string]any{"kind": "model-order", "case": c})
		}
		_ = ok
	}
	return nil
}

func normJSONNum(v any) any {
	switch x := v.(type) {
	case float64:
		return int64(x)
	case []any:
		out := make([]any, len(x))
		for i, y := range x {
			out[i] = normJSONNum(y)
		}
		return out
	}
	return v
}

func c03ValString(v c03Val) string {
	switch v.T {
	case "str":
		return v.S
	case "int", "i64":
		return fmt.Sprint(v.I)
	case "bool":
		return fmt.Sprint(v.B)
	case "nil":
		return ""
	}
	return "?"
}

// ---- (c) date formats -----------------------------------------------------------------------------

func c03DateFormats(e *Env) error {
	r := e.Rep
	letters := []string{"d", "D", "j", "l", "F", "m", "M", "n", "Y", "y", "a", "A", "g", "G", "h", "H", "i", "s", "\\", "x", "-", " "}
	var fmts []string
	depth := e.N(2, 3)
	allStrings(letters, depth, func(s string) bool { fmts = append(fmts, s); return true })
	exhaustive := len(fmts)
	nrand := e.N(300, 5000)
	extra := []string{"é", "世", ":", ",", "/", "T", "e", "N", "S", "U", "1", "2", "0", "3", "4", "5", "6", "Mon", "Jan"}
	for i := 0; i < nrand; i++ {
		n := depth + 1 + e.Rng.Intn(8)
		var sb strings.Builder
		for j := 0; j < n; j++ {
			if e.Rng.Intn(5) == 0 {
				sb.WriteString(pick(e.Rng, extra))
			} else {
				sb.WriteString(pick(e.Rng, letters))
			}
		}
		fmts = append(fmts, sb.String())
	}
	r.Note(fmt.Sprintf("date formats: exhaustive to length %d over %d letters (%d formats) + %d random longer ones", depth, len(letters), exhaustive, nrand))
	tableLetters := "dDjlFmMnYyaAgGhHis"
	for lo := 0; lo < len(fmts) && !r.Full(); lo += 1000 {
		hi := lo + 1000
		if hi > len(fmts) {
			hi = len(fmts)
		}
		req := make([]string, 0, hi-lo)
		for _, f := range fmts[lo:hi] {
			req = append(req, hx(f))
		}
		resp, err := e.Model.Call(map[string]any{"op": "maporder_datefmt", "fmts": req})
		if err != nil {
			return err
		}
		outs, _ := resp["outs"].([]any)
		if len(outs) != hi-lo {
			return fmt.Errorf("maporder_datefmt: %d answers for %d formats", len(outs), hi-lo)
		}
		for k, f := range fmts[lo:hi] {
			lh, ok := outs[k].(string)
			if !ok {
				r.Skip("model: format not valid UTF-8")
				continue
			}
			layout := unhx(lh)
			want := c03Time.Format(layout)
			r.Compared++
			nl := 0
			for _, ch := range f {
				if strings.ContainsRune(tableLetters, ch) {
					nl++
				}
			}
			r.Seen("date:"+f, nl >= 2)
			r.Hit(fmt.Sprintf("date-format-letters-%d", min(nl, 4)))
			c := c03Case{Name: "date format " + fmt.Sprintf("%q", f), Tpls: map[string]string{"main": "{{ d|date(f)|raw }}"},
				Ctx: map[string]c03Val{"d": {T: "time"}, "f": c03S(f)}}
			var got c03Out
			bad := false
			for rep := 0; rep < 5; rep++ {
				got = c03RenderOnce(&c, int64(rep))
				if got.Out != want || got.Class != "" {
					bad = true
					break
				}
			}
			if bad {
				if r.Violate(Violation{Key: "date-format-conversion",
					What:   fmt.Sprintf("date(%q) renders %q, model layout %q gives %q", f, truncate(got.Out, 60), layout, want),
					Broken: "correspondence convertDateFormat (C03_dateformat_single_pass) vs extension.go convertDateFormat",
					Replay: map[string]any{"kind": "date", "format_hex": hx(f), "impl": got.Out, "class": got.Class, "err": got.Err, "model_layout": layout, "expected": want}}) {
					return nil
				}
			}
		}
	}
	return nil
}

// ---- runner ----------------------------------------------------------------------------------------

// c03Replay re-runs one recorded case (file written by ../check: {"property", "key", "case": <Violation.Replay>}).
func c03Replay(e *Env) error {
	b, err := os.ReadFile(e.Replay)
	if err != nil {
		return err
	}
	var f struct {
		Key  string          `json:"key"`
		Case json.RawMessage `json:"case"`
	}
	if err := json.Unmarshal(b, &f); err != nil {
		return err
	}
	var rc struct {
		Kind      string  `json:"kind"`
		Case      c03Case `json:"case"`
		FormatHex string  `json:"format_hex"`
	}
	if err := json.Unmarshal(f.Case, &rc); err != nil {
		return err
	}
	switch rc.Kind {
	case "repeat", "process", "expect":
		c := rc.Case
		procs := 0
		if rc.Kind == "process" {
			procs = 3
		}
		ref, ok, err := c03Check(e, &c, 200, procs)
		if err != nil {
			return err
		}
		fmt.Printf("replay %s: %s\n  first output: %q (class %q)\n  reproduced: %v\n", rc.Kind, c.Name, truncate(ref.Out, 300), ref.Class, !ok)
	case "date":
		f := unhx(rc.FormatHex)
		resp, err := e.Model.Call(map[string]any{"op": "maporder_datefmt", "fmts": []string{rc.FormatHex}})
		if err != nil {
			return err
		}
		outs, _ := resp["outs"].([]any)
		layout := ""
		if len(outs) == 1 {
			if lh, ok := outs[0].(string); ok {
				layout = unhx(lh)
			}
		}
		want := c03Time.Format(layout)
		c := c03Case{Name: "date format", Tpls: map[string]string{"main": "{{ d|date(f)|raw }}"}, Ctx: map[string]c03Val{"d": {T: "time"}, "f": c03S(f)}}
		seen := map[string]int{}
		for i := 0; i < 50; i++ {
			seen[c03RenderOnce(&c, int64(i)).Out]++
		}
		fmt.Printf("replay date: format %q, model layout %q, expected %q, implementation outputs over 50 renders: %v\n", f, layout, want, seen)
		if len(seen) != 1 || seen[want] == 0 {
			e.Rep.Violate(Violation{Key: "date-format-conversion", What: "reproduced", Broken: "correspondence convertDateFormat", Replay: map[string]any{"format_hex": rc.FormatHex}})
		}
	case "history", "overlap":
		return c03ReplayMore(e, rc.Kind, f.Case)
	case "session":
		return c03ReplaySession(e, f.Case)
	default:
		return fmt.Errorf("C03 replay: unknown case kind %q", rc.Kind)
	}
	return nil
}

func runC03(e *Env) error {
	r := e.Rep
	r.maxViolations = 12
	if e.Replay != "" {
		return c03Replay(e)
	}
	c03TempMaps(e)
	c03EvalOrder(e)
	r.Rule = "(k) sessions — one engine and one context object render many entry templates one after the other (list order, reverse order, every entry twice, random orders; 4 render entry points; templates registered or fetched through a loader) and every render must give the bytes of that entry alone on a fresh engine with a fresh context: one relative name (./x, ../x, …; 7 forms) used from 6 directories through 10 kinds of include / extends / import / from (required bytes also computed in Go), 21 templates that write their variable scope + a read of every variable + a loop over a map of that size for every context size 0..40, 63..65, 127..129, 255..257, 1000, random mixtures; " +
		"(j) one list of cases (Go structs with value- and pointer-receiver methods and embedded structs handed in by value and by pointer along four routes, the regression corpora, random programs) rendered in pristine child processes in forward, reverse and random order and in this process: the same bytes after every history; " +
		"(i) every map / hash-literal / loop form, struct case and re-entered loop with render A stopped before each of its writes (≤ 16 positions) while render B of the same template runs on the same engine: both print what they print alone; " +
		"(h) loops re-entered through a recursive macro, self-include and mutual include over nested lists / maps vs a walk in Go; " +
		"(g) evaluation order of 12 hash-literal / include-with entries observed through callbacks, 25 renders each, with two fault positions; (f) one render looping over thousands of short-lived maps with forced collections in between; (e) regression corpora with required outputs (8 pinned defects 30×, 25 repaired defects 200×, 1 child process each); " +
		"(a) random programs over maps (12 Go map types incl. float keys with a NaN, array/struct keys and interface{} keys of mixed types that print alike, " +
		"3–16 entries, 34 loop/filter forms + 6 failing ones, 17 hash-literal forms incl. duplicate keys, include-with, macros): " +
		"30 in-process renders on fresh engines with a fresh insertion order each, sampled cases also in 3 child processes; " +
		"(a') loop/keys/first order vs Lean sortKeys (incl. several NaN keys, mixed-type and composite keys); (c) date(f) vs time.Format(model layout) exhaustively to length 2 (thorough 3) + random; " +
		"(d) the four known findings (address printing ×2, pointer keys with equal pointees, printing a map with several NaN keys), once each. " +
		"non-trivial = a map with ≥ 2 entries is visited and the output is non-empty (a), ≥ 2 table letters (c); distinct by case"
	if e.Model == nil {
		return fmt.Errorf("C03 needs the model driver (-model)")
	}
	reps := 30
	// regression corpus first
	for _, c := range c03FixedCorpus() {
		c := c
		if _, _, err := c03Check(e, &c, reps, 1); err != nil {
			return err
		}
		cj, _ := json.Marshal(c)
		r.Seen("corpus:"+string(cj), true)
		r.Hit("corpus")
	}
	for _, c := range c03RepairedCorpus() {
		c := c
		if _, _, err := c03Check(e, &c, 200, 1); err != nil {
			return err
		}
		cj, _ := json.Marshal(c)
		r.Seen("repaired:"+string(cj), true)
		r.Hit("repaired-corpus")
	}
	// recorded findings: probed every run
	for _, c := range c03FindingProbes() {
		c := c
		if _, _, err := c03Check(e, &c, 200, 0); err != nil {
			return err
		}
		cj, _ := json.Marshal(c)
		r.Seen("probe:"+string(cj), true)
		r.Hit("finding-probe")
	}
	for _, c := range c03AddressProbes() {
		c := c
		if _, _, err := c03Check(e, &c, 8, 3); err != nil {
			return err
		}
		cj, _ := json.Marshal(c)
		r.Seen("addr:"+string(cj), true)
		r.Hit("address-probe")
	}
	// (k) sessions: one engine and one context object render many entries one after the other
	tk := time.Now()
	c03Sessions(e)
	r.Note(fmt.Sprintf("sessions (one engine, one context object, many entries): %.1fs", time.Since(tk).Seconds()))
	if r.Full() {
		return nil
	}
	// (h) loops entered again while they run; (i) renders that overlap in time; (j) render histories of the process
	t0 := time.Now()
	if err := c03Reentry(e); err != nil {
		return err
	}
	c03Overlap(e)
	t1 := time.Now()
	if err := c03History(e); err != nil {
		return err
	}
	r.Note(fmt.Sprintf("re-entered loops + overlapping renders: %.1fs; render histories: %.1fs", t1.Sub(t0).Seconds(), time.Since(t1).Seconds()))
	if r.Full() {
		return nil
	}
	// (a) random programs
	n := e.N(2500, 60000)
	procEvery := e.N(40, 200)
	for i := 0; i < n && !r.Full(); i++ {
		c := c03GenCase(e.Rng, i)
		procs := 0
		if i%procEvery == 0 {
			procs = 3
		}
		ref, _, err := c03Check(e, &c, reps, procs)
		if err != nil {
			return err
		}
		cj, _ := json.Marshal(c)
		r.Seen("prog:"+string(cj), ref.Out != "" && ref.Class == "")
		if ref.Class != "" {
			r.Hit("program-class:" + ref.Class)
		} else {
			r.Hit("program-ok")
		}
		if m, ok := c.Ctx["m"]; ok {
			r.Hit("map-type:" + m.T)
			r.Hit(fmt.Sprintf("map-size:%d", min(len(m.K), 9)))
		} else {
			r.Hit("hash-literal-program")
		}
		if i < 3 {
			r.Sample(map[string]any{"kind": "program", "case": c, "output": truncate(ref.Out, 200), "class": ref.Class})
		}
	}
	if r.Full() {
		return nil
	}
	// (a') model order
	if err := c03ModelOrder(e); err != nil {
		return err
	}
	if r.Full() {
		return nil
	}
	c03DateStrings(e)
	// (c) date formats
	return c03DateFormats(e)
}
